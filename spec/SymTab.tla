------------------------------- MODULE SymTab -------------------------------
(* C16 - symbol tables keep names unique and lookups scoped.                  *)
(*                                                                            *)
(* Four symbol tables: 1 (Container) > 2 (Routine) > node N3 (a Loop body     *)
(* Schedule) which carries table 3, table 4 or no table (`inner`); the table  *)
(* of {3,4} that is not attached is the "foreign" table.  A state is ONE      *)
(* record S = [tabs, inner, dead, calls] so that the same operators judge     *)
(*   - the model's own transitions (this module, PROPERTY StepOK), and        *)
(*   - (pre, op, outcome, result, post) tuples recorded from the real         *)
(*     psyclone SymbolTable (Trace_SymTab.tla).                               *)
(* A symbol is [id, key, name, cls, ifc, dep]: object identity, the dict key  *)
(* it is stored under, its actual name, its Python class, its interface and   *)
(* (imports) the id of the ContainerSymbol it is imported from / (generic     *)
(* interfaces) of the RoutineSymbol that is its member; `calls` = ids of the  *)
(* RoutineSymbols that a Call in the Routine's body (outside the loop) targets.*)
(* A name is [c, sfx]: a base ("a","A","b","B","t1","t2") and the integer     *)
(* suffixes appended by next_available_name ("A_1_2" = [c:"A", sfx:<<1,2>>]). *)
EXTENDS Naturals, Sequences, FiniteSets, TLC, Json

Lower == [a |-> "a", A |-> "a", b |-> "b", B |-> "b", t1 |-> "t1", t2 |-> "t2"]
NameRec(c, sfx) == [c |-> c, sfx |-> sfx]
\* Names recorded from the repository's tests (binding B) are arbitrary ASCII
\* strings: [codes |-> <<character codes>>]; normalising = lower-casing A..Z.
LowerCodes(q) == [i \in DOMAIN q |-> IF q[i] \in 65..90 THEN q[i] + 32 ELSE q[i]]
Norm(n) == IF "codes" \in DOMAIN n THEN [codes |-> LowerCodes(n.codes)]
           ELSE [c |-> Lower[n.c], sfx |-> n.sfx]

Tables == 1..4
KindCls == [gen |-> "Symbol", data |-> "DataSymbol", arg |-> "DataSymbol",
            imp |-> "DataSymbol", unres |-> "DataSymbol",
            cont |-> "ContainerSymbol", rout |-> "RoutineSymbol",
            generic |-> "GenericInterfaceSymbol"]
KindIfc == [gen |-> "auto", data |-> "auto", arg |-> "arg", imp |-> "imp",
            unres |-> "unres", cont |-> "mod", rout |-> "auto", generic |-> "auto"]
MkSym(id, n, k, dep) == [id |-> id, key |-> Norm(n), name |-> n,
                         cls |-> KindCls[k], ifc |-> KindIfc[k], dep |-> dep]

SetMin(S) == CHOOSE i \in S : \A j \in S : i <= j

\* ------------------------------------------------------------ state queries
Live(S)        == (DOMAIN S.tabs) \ S.dead
SymsOf(S, t)   == S.tabs[t].syms
TagsOf(S, t)   == S.tabs[t].tags
IdsOf(S, t)    == {x.id : x \in SymsOf(S, t)}
NamesOf(S, t)  == {Norm(x.name) : x \in SymsOf(S, t)}
TagNames(S, t) == {g.tag : g \in TagsOf(S, t)}
AllSyms(S)     == UNION {SymsOf(S, t) : t \in Live(S)}
UsedIds(S)     == {x.id : x \in AllSyms(S)}
SymById(S, i)  == CHOOSE x \in AllSyms(S) : x.id = i
Named(syms, nn) == {x \in syms : Norm(x.name) = nn}
SymNamed(syms, nn) == CHOOSE x \in syms : Norm(x.name) = nn

\* the tables searched from t outwards (innermost first)
\* (a state of the four-table model has the field `inner`; a local state
\* recorded from the test-suite has any number of tables and an explicit
\* parent function `par`, 0 = no enclosing scope)
RECURSIVE ChainPar(_, _)
ChainPar(S, t) == IF S.par[t] = 0 THEN <<t>> ELSE <<t>> \o ChainPar(S, S.par[t])
Chain(S, t) == IF "par" \in DOMAIN S THEN ChainPar(S, t)
               ELSE IF t = 1 THEN <<1>>
               ELSE IF t = 2 THEN <<2, 1>>
               ELSE IF t = S.inner THEN <<t, 2, 1>>
               ELSE <<t>>
ChainNames(S, t) == UNION {NamesOf(S, Chain(S, t)[i]) : i \in DOMAIN Chain(S, t)}
ChainTags(S, t)  == UNION {TagNames(S, Chain(S, t)[i]) : i \in DOMAIN Chain(S, t)}
ChainIds(S, t)   == UNION {IdsOf(S, Chain(S, t)[i]) : i \in DOMAIN Chain(S, t)}
\* innermost table of the chain that has a symbol with normalised name nn (0: none)
InnermostWith(S, t, nn) ==
  LET c == Chain(S, t)
      idx == {i \in DOMAIN c : nn \in NamesOf(S, c[i])}
  IN IF idx = {} THEN 0 ELSE c[SetMin(idx)]
InnermostTag(S, t, tg) ==
  LET c == Chain(S, t)
      idx == {i \in DOMAIN c : tg \in TagNames(S, c[i])}
  IN IF idx = {} THEN 0 ELSE c[SetMin(idx)]
TagTargets(S, u, tg) == {g.id : g \in {h \in TagsOf(S, u) : h.tag = tg}}
\* ids visible from t: per normalised name the innermost one wins
VisibleIds(S, t) ==
  LET c == Chain(S, t)
  IN UNION {{y.id : y \in {z \in SymsOf(S, c[i]) :
                \A j \in 1..(i-1) : Norm(z.name) \notin NamesOf(S, c[j])}}
            : i \in DOMAIN c}

\* ------------------------------------------------------------- fresh names
Cand(root, i) == IF i = 0 THEN root ELSE [c |-> root.c, sfx |-> Append(root.sfx, i)]
ExistingNames(S, s, sh, o) ==
  (IF sh THEN NamesOf(S, s) ELSE ChainNames(S, s))
  \cup (IF o = 0 THEN {} ELSE NamesOf(S, o))
FreshFrom(root, existing) ==
  LET ks == {i \in 0..(Cardinality(existing) + 1) : Norm(Cand(root, i)) \notin existing}
  IN Cand(root, SetMin(ks))

\* ------------------------------------------------------------ the clauses
\* (state clauses, evaluated on the state after an accepted operation)
UniqueNormalisedNames(S) ==
  \A t \in Live(S) : \A x \in SymsOf(S, t) :
     /\ x.key = Norm(x.name)
     /\ \A y \in SymsOf(S, t) : (Norm(x.name) = Norm(y.name)) => x = y
TagsPointIntoScope(S) ==
  \A t \in Live(S) : \A g \in TagsOf(S, t) : g.id \in ChainIds(S, t)

Renamable(z) == z.cls # "ContainerSymbol" /\ z.ifc \notin {"imp", "unres", "arg"}

\* merge(s, o, skip): every symbol of s stays exactly once; every non-skipped
\* symbol of o is present exactly once afterwards, or is identified with a
\* symbol s already had (same container / same import / both unresolved); a
\* name changes only if it was taken in both tables.
MergeExactlyOnce(pre, op, post) ==
  LET P == SymsOf(post, op.s)
      cnt(i) == Cardinality({x \in P : x.id = i})
      sIds == IdsOf(pre, op.s)
      Identified(y) == \E z \in P :
          /\ z.id \in sIds
          /\ Norm(z.name) = Norm(y.name)
          /\ \/ z.cls = "ContainerSymbol" /\ y.cls = "ContainerSymbol"
             \/ z.ifc = "imp" /\ y.ifc = "imp"
             \/ z.ifc = "unres" /\ y.ifc = "unres"
      both == NamesOf(pre, op.s) \cap NamesOf(pre, op.o)
  IN /\ \A x \in SymsOf(pre, op.s) : cnt(x.id) = 1
     /\ \A y \in SymsOf(pre, op.o) : y.id \notin op.skip =>
           \/ cnt(y.id) = 1
           \/ cnt(y.id) = 0 /\ Identified(y)
     /\ \A x \in P : cnt(x.id) = 1
     /\ \A w \in SymsOf(pre, op.s) \cup SymsOf(pre, op.o) : \A z \in P :
           (z.id = w.id /\ z.name # w.name) => Norm(w.name) \in both

ToSet(q) == {q[i] : i \in DOMAIN q}
ShOf(op) == IF "sh" \in DOMAIN op THEN op.sh ELSE FALSE

\* The relation of the property: "ok" or the name of the first failing clause.
\* out = "exc": the call raised (res.type = exception class); out = "ok": it
\* returned res.
Verdict(pre, op, out, res, post) ==
  IF out = "exc" THEN
     IF post # pre THEN "RefusalAtomic"
     ELSE IF op.name = "lookup" /\ res.type = "KeyError"
             /\ InnermostWith(pre, op.s, Norm(op.n)) # 0 THEN "LookupInnermost"
     ELSE IF op.name = "lookup_tag" /\ res.type = "KeyError"
             /\ InnermostTag(pre, op.s, op.tg) # 0 THEN "LookupInnermost"
     ELSE "ok"
  ELSE IF ~ UniqueNormalisedNames(post) THEN "UniqueNormalisedNames"
  ELSE IF ~ TagsPointIntoScope(post) THEN "TagsPointIntoScope"
  ELSE IF op.name = "lookup" THEN
     LET u == InnermostWith(pre, op.s, Norm(op.n))
     IN IF u # 0 /\ res.t = "sym"
           /\ res.id \in {x.id : x \in Named(SymsOf(pre, u), Norm(op.n))}
        THEN "ok" ELSE "LookupInnermost"
  ELSE IF op.name = "lookup_tag" THEN
     LET u == InnermostTag(pre, op.s, op.tg)
     IN IF u # 0 /\ res.t = "sym" /\ res.id \in TagTargets(pre, u, op.tg)
        THEN "ok" ELSE "LookupInnermost"
  ELSE IF op.name = "get_symbols" THEN
     IF res.t = "set" /\ ToSet(res.ids) = VisibleIds(pre, op.s)
     THEN "ok" ELSE "LookupInnermost"
  ELSE IF op.name = "next_name" THEN
     IF res.t = "name" /\ Norm(res.name) \notin ExistingNames(pre, op.s, op.sh, op.o)
     THEN "ok" ELSE "FreshNameNoClash"
  ELSE IF op.name = "new_symbol" THEN
     IF res.t = "sym" /\ Norm(res.name) \notin ExistingNames(pre, op.s, op.sh, 0)
     THEN "ok" ELSE "FreshNameNoClash"
  ELSE IF op.name = "find_tag" THEN
     LET u == InnermostTag(pre, op.s, op.tg)
     IN IF u # 0
        THEN (IF res.t = "sym" /\ res.id \in TagTargets(pre, u, op.tg)
              THEN "ok" ELSE "LookupInnermost")
        ELSE (IF res.t = "sym" /\ Norm(res.name) \notin ExistingNames(pre, op.s, ShOf(op), 0)
              THEN "ok" ELSE "FreshNameNoClash")
  ELSE IF op.name = "find_or_create" THEN     \* lookup, else new_symbol
     LET u == InnermostWith(pre, op.s, Norm(op.n))
     IN IF u # 0
        THEN (IF res.t = "sym"
                 /\ res.id \in {x.id : x \in Named(SymsOf(pre, u), Norm(op.n))}
              THEN "ok" ELSE "LookupInnermost")
        ELSE (IF res.t = "sym" /\ Norm(res.name) \notin ExistingNames(pre, op.s, ShOf(op), 0)
              THEN "ok" ELSE "FreshNameNoClash")
  ELSE IF op.name = "merge" THEN
     IF MergeExactlyOnce(pre, op, post) THEN "ok" ELSE "MergeExactlyOnce"
  ELSE "ok"

\* ----------------------------------------------------------- the operations
CONSTANT MaxId
RNone    == [t |-> "none"]
RSym(x)  == [t |-> "sym", id |-> x.id, name |-> x.name]
Ok(res, post) == [out |-> "ok", res |-> res, post |-> post]
Refuse(S)     == [out |-> "exc", res |-> [t |-> "exc", type |-> "model"], post |-> S]

FreshId(S) == LET free == (1..MaxId) \ UsedIds(S)
              IN IF free = {} THEN 0 ELSE SetMin(free)
AddSym(S, t, x, tg) ==
  [S EXCEPT !.tabs[t].syms = @ \cup {x},
            !.tabs[t].tags = IF tg = "" THEN @ ELSE @ \cup {[tag |-> tg, id |-> x.id]}]
RemoveSym(S, t, y) ==
  [S EXCEPT !.tabs[t].syms = @ \ {y},
            !.tabs[t].tags = {g \in @ : g.id # y.id}]
InTab(S, t, i) == i \in IdsOf(S, t)
SymIn(S, t, i) == CHOOSE x \in SymsOf(S, t) : x.id = i
Renamed(x, n) == [x EXCEPT !.name = n, !.key = Norm(n)]
\* remove() refuses a RoutineSymbol that is still referenced
\* (_validate_remove_routinesymbol): the target of a Call found by walking the
\* tree below the node of THIS table - the model's Calls (S.calls) sit in the
\* Routine's body next to the loop, so they are seen from tables 1 and 2 only,
\* not from the loop-body table and not from a detached table - or a member of
\* a GenericInterfaceSymbol (dep = the member) of this same table.
Referenced(S, t, y) ==
  \/ y.id \in S.calls /\ t \in {1, 2}
  \/ \E z \in SymsOf(S, t) : z.cls = "GenericInterfaceSymbol" /\ z.dep = y.id
Removable(S, t, y) ==
  /\ y.cls \in {"Symbol", "ContainerSymbol", "RoutineSymbol", "GenericInterfaceSymbol"}
  /\ y.cls = "ContainerSymbol" =>
        ~ \E z \in SymsOf(S, t) : z.ifc = "imp" /\ z.dep = y.id
  /\ y.cls \in {"RoutineSymbol", "GenericInterfaceSymbol"} => ~ Referenced(S, t, y)

EffAdd(S, op) ==
  LET id == FreshId(S)
  IN IF \/ id = 0
        \/ Norm(op.n) \in NamesOf(S, op.s)
        \/ op.tg # "" /\ op.tg \in ChainTags(S, op.s)
     THEN Refuse(S)
     ELSE Ok(RNone, AddSym(S, op.s, MkSym(id, op.n, op.k, op.dep), op.tg))

EffNew(S, s, root, tg, sh, k) ==
  LET id == FreshId(S)
      nm == FreshFrom(root, ExistingNames(S, s, sh, 0))
      x  == MkSym(id, nm, k, 0)
  IN IF id = 0 \/ (tg # "" /\ tg \in ChainTags(S, s))
     THEN Refuse(S)
     ELSE Ok(RSym(x), AddSym(S, s, x, tg))

EffLookup(S, op) ==
  LET u == InnermostWith(S, op.s, Norm(op.n))
  IN IF u = 0 THEN Refuse(S)
     ELSE Ok(RSym(SymNamed(SymsOf(S, u), Norm(op.n))), S)

EffLookupTag(S, op) ==
  LET u == InnermostTag(S, op.s, op.tg)
  IN IF u = 0 THEN Refuse(S)
     ELSE Ok(RSym(SymById(S, CHOOSE i \in TagTargets(S, u, op.tg) : TRUE)), S)

EffFindTag(S, op) ==
  IF InnermostTag(S, op.s, op.tg) # 0 THEN EffLookupTag(S, op)
  ELSE EffNew(S, op.s, op.n, op.tg, FALSE, "gen")

EffRename(S, op) ==
  IF ~ InTab(S, op.s, op.x) THEN Refuse(S)
  ELSE LET y == SymIn(S, op.s, op.x)
       IN IF ~ Renamable(y) \/ Norm(op.n) \in NamesOf(S, op.s) THEN Refuse(S)
          ELSE Ok(RNone, [S EXCEPT !.tabs[op.s].syms = (@ \ {y}) \cup {Renamed(y, op.n)}])

EffRemove(S, op) ==
  IF ~ InTab(S, op.s, op.x) THEN Refuse(S)
  ELSE LET y == SymIn(S, op.s, op.x)
       IN IF ~ Removable(S, op.s, y) THEN Refuse(S)
          ELSE Ok(RNone, RemoveSym(S, op.s, y))

EffSwap(S, op) ==
  LET id == FreshId(S)
  IN IF id = 0 \/ ~ InTab(S, op.s, op.x) THEN Refuse(S)
     ELSE LET y == SymIn(S, op.s, op.x)
          IN IF Norm(op.n) # Norm(y.name) \/ ~ Removable(S, op.s, y) THEN Refuse(S)
             ELSE Ok(RNone, AddSym(RemoveSym(S, op.s, y), op.s,
                                   MkSym(id, op.n, op.k, 0), ""))

EffSwapProps(S, op) ==
  IF ~ InTab(S, op.s, op.x) \/ ~ InTab(S, op.s, op.y) \/ op.x = op.y THEN Refuse(S)
  ELSE LET x == SymIn(S, op.s, op.x)
           y == SymIn(S, op.s, op.y)
           a == S.tabs[op.s].args
       IN IF x.cls # y.cls THEN Refuse(S)
          ELSE Ok(RNone,
                 [S EXCEPT !.tabs[op.s].syms =
                        (@ \ {x, y}) \cup {[x EXCEPT !.ifc = y.ifc, !.dep = y.dep],
                                           [y EXCEPT !.ifc = x.ifc, !.dep = x.dep]},
                           !.tabs[op.s].args =
                        [i \in DOMAIN a |-> IF a[i] = x.id THEN y.id
                                            ELSE IF a[i] = y.id THEN x.id ELSE a[i]]])

EffSetArgs(S, op) ==
  IF \A i \in DOMAIN op.xs :
        /\ op.xs[i] \in UsedIds(S)
        /\ SymById(S, op.xs[i]).cls = "DataSymbol"
        /\ SymById(S, op.xs[i]).ifc = "arg"
  THEN Ok(RNone, [S EXCEPT !.tabs[op.s].args = op.xs])
  ELSE Refuse(S)

EffDetach(S, op) == Ok(RNone, IF S.inner = op.s THEN [S EXCEPT !.inner = 0] ELSE S)
EffAttach(S, op) == IF S.inner = 0 THEN Ok(RNone, [S EXCEPT !.inner = op.s]) ELSE Refuse(S)

\* ---- merge: follows check_for_clashes / _add_container_symbols_from_table /
\* _add_symbols_from_table; symbols of o are visited in increasing id order.
RECURSIVE SortIds(_)
SortIds(I) == IF I = {} THEN <<>> ELSE <<SetMin(I)>> \o SortIds(I \ {SetMin(I)})

DepNorm(S, z) == IF z.dep \in UsedIds(S) THEN Norm(SymById(S, z.dep).name) ELSE Norm(z.name)
ClashOK(S, x, y) ==
  IF x.cls = "ContainerSymbol" /\ y.cls = "ContainerSymbol" THEN TRUE
  ELSE IF x.ifc = "imp" /\ y.ifc = "imp" THEN DepNorm(S, x) = DepNorm(S, y)
  ELSE IF x.ifc = "unres" /\ y.ifc = "unres" THEN FALSE
  ELSE Renamable(x) \/ Renamable(y)
MergeCheck(S, s, o, skip) ==
  /\ \A y \in SymsOf(S, o) :
        (y.id \notin skip /\ Norm(y.name) \in NamesOf(S, s))
        => ClashOK(S, SymNamed(SymsOf(S, s), Norm(y.name)), y)
  \* containers (and what is imported from them) are moved even when skipped:
  \* the model refuses where that would need an impossible rename
  /\ \A y \in SymsOf(S, o) :
        (y.id \in skip /\ Norm(y.name) \in NamesOf(S, s)
         /\ (y.cls = "ContainerSymbol" \/ y.ifc = "imp"))
        => LET x == SymNamed(SymsOf(S, s), Norm(y.name))
           IN \/ (x.cls = "ContainerSymbol" /\ y.cls = "ContainerSymbol")
              \/ (x.ifc = "imp" /\ y.ifc = "imp")
              \/ Renamable(x)

AccNames(acc, anc) == {Norm(x.name) : x \in acc.ss} \cup anc
                      \cup {Norm(x.name) : x \in acc.os}
AccRename(acc, anc, x, root) ==   \* rename x (a symbol of s) to a fresh name
  [acc EXCEPT !.ss = (@ \ {x}) \cup {Renamed(x, FreshFrom(root, AccNames(acc, anc)))}]

RECURSIVE MergeImports(_, _, _, _)
MergeImports(acc, anc, ids, tid) ==
  IF ids = <<>> THEN acc
  ELSE LET y  == CHOOSE z \in acc.os : z.id = Head(ids)
           nn == Norm(y.name)
           a1 == IF Named(acc.ss, nn) # {} /\ SymNamed(acc.ss, nn).ifc # "imp"
                 THEN AccRename(acc, anc, SymNamed(acc.ss, nn), SymNamed(acc.ss, nn).name)
                 ELSE acc
           a2 == [a1 EXCEPT !.os = (@ \ {y}) \cup {[y EXCEPT !.dep = tid]}]
       IN MergeImports(a2, anc, Tail(ids), tid)

RECURSIVE MergeConts(_, _, _)
MergeConts(acc, anc, ids) ==
  IF ids = <<>> THEN acc
  ELSE LET c  == CHOOSE z \in acc.os : z.id = Head(ids)
           nn == Norm(c.name)
           clash == Named(acc.ss, nn) # {}
           x  == SymNamed(acc.ss, nn)
           a1 == IF ~ clash THEN [acc EXCEPT !.ss = @ \cup {c}]
                 ELSE IF x.cls # "ContainerSymbol"
                 THEN [AccRename(acc, anc, x, c.name) EXCEPT !.ss = @ \cup {c}]
                 ELSE acc
           tid == IF clash /\ x.cls = "ContainerSymbol" THEN x.id ELSE c.id
           imps == SortIds({z.id : z \in {w \in acc.os : w.ifc = "imp" /\ w.dep = c.id}})
       IN MergeConts(MergeImports(a1, anc, imps, tid), anc, Tail(ids))

RECURSIVE MergeRest(_, _, _)
MergeRest(acc, anc, ids) ==
  IF ids = <<>> THEN acc
  ELSE LET y  == CHOOSE z \in acc.os : z.id = Head(ids)
           nn == Norm(y.name)
           clash == Named(acc.ss, nn) # {}
           x  == SymNamed(acc.ss, nn)
           nm == FreshFrom(y.name, AccNames(acc, anc))
           a1 == IF ~ clash THEN [acc EXCEPT !.ss = @ \cup {y}]
                 ELSE IF y.ifc = "imp" THEN acc
                 ELSE IF y.ifc = "unres" /\ x.ifc = "unres" THEN acc
                 ELSE IF Renamable(y)
                 THEN [acc EXCEPT !.os = (@ \ {y}) \cup {Renamed(y, nm)},
                                  !.ss = @ \cup {Renamed(y, nm)}]
                 ELSE [acc EXCEPT !.ss = (@ \ {x}) \cup {Renamed(x, nm), y}]
       IN MergeRest(a1, anc, Tail(ids))

EffMerge(S, op) ==
  IF ~ MergeCheck(S, op.s, op.o, op.skip) THEN Refuse(S)
  ELSE LET c    == Chain(S, op.s)
           anc  == UNION {NamesOf(S, c[i]) : i \in (DOMAIN c) \ {1}}
           acc0 == [ss |-> SymsOf(S, op.s), os |-> SymsOf(S, op.o)]
           cids == SortIds({z.id : z \in {w \in acc0.os : w.cls = "ContainerSymbol"}})
           acc1 == MergeConts(acc0, anc, cids)
           rids == SortIds({z.id : z \in {w \in acc1.os :
                              w.cls # "ContainerSymbol" /\ w.id \notin op.skip}})
           acc2 == MergeRest(acc1, anc, rids)
       IN Ok(RNone, [S EXCEPT !.tabs[op.s].syms = acc2.ss,
                              !.tabs[op.o] = [syms |-> {}, tags |-> {}, args |-> <<>>],
                              !.dead = @ \cup {op.o}])

\* The model's (deterministic) prediction [out, res, post] for op in state S.
\* (a Call whose target left every live table is no longer part of the state)
EffRaw(S, op) ==
  CASE op.name = "add"         -> EffAdd(S, op)
    [] op.name = "new_symbol"  -> EffNew(S, op.s, op.n, op.tg, op.sh, op.k)
    [] op.name = "next_name"   -> Ok([t |-> "name", name |-> FreshFrom(op.n,
                                       ExistingNames(S, op.s, op.sh, op.o))], S)
    [] op.name = "lookup"      -> EffLookup(S, op)
    [] op.name = "lookup_tag"  -> EffLookupTag(S, op)
    [] op.name = "get_symbols" -> Ok([t |-> "set", ids |-> SortIds(VisibleIds(S, op.s))], S)
    [] op.name = "find_tag"    -> EffFindTag(S, op)
    [] op.name = "rename"      -> EffRename(S, op)
    [] op.name = "remove"      -> EffRemove(S, op)
    [] op.name = "swap"        -> EffSwap(S, op)
    [] op.name = "swap_props"  -> EffSwapProps(S, op)
    [] op.name = "set_args"    -> EffSetArgs(S, op)
    [] op.name = "detach"      -> EffDetach(S, op)
    [] op.name = "attach"      -> EffAttach(S, op)
    [] op.name = "merge"       -> EffMerge(S, op)
Eff(S, op) == LET e == EffRaw(S, op)
              IN [e EXCEPT !.post.calls = @ \cap UsedIds(e.post)]

\* ------------------------------------------------- the alphabet of a state
CONSTANTS Names, Tags, FindRoots
Outsider(S, t) == LET oth == UsedIds(S) \ IdsOf(S, t)
                  IN IF oth = {} THEN {} ELSE {SetMin(oth)}
SymArgs(S, t) == IdsOf(S, t) \cup Outsider(S, t)
Foreign(S) == ({3, 4} \cap Live(S)) \ {S.inner}
ArgSeqs(S, t) == LET D == {z.id : z \in {w \in SymsOf(S, t) : w.cls = "DataSymbol"}}
                 IN {<<>>} \cup {<<i>> : i \in D} \cup {q \in {<<i, j>> : i \in D, j \in D} : q[1] # q[2]}

Ops(S) ==
  LET L == Live(S) IN
  {[name |-> "add", s |-> s, n |-> n, k |-> k, tg |-> "", dep |-> 0] :
      s \in L, n \in Names, k \in {"gen", "data", "arg", "unres", "cont", "rout"}}
  \cup {[name |-> "add", s |-> s, n |-> n, k |-> "gen", tg |-> tg, dep |-> 0] :
      s \in L, n \in Names, tg \in Tags}
  \cup UNION {{[name |-> "add", s |-> s, n |-> n, k |-> "imp", tg |-> "", dep |-> c.id] :
                 n \in Names, c \in {z \in SymsOf(S, s) : z.cls = "ContainerSymbol"}}
              : s \in L}
  \cup {[name |-> "new_symbol", s |-> s, n |-> n, tg |-> tg, sh |-> sh, k |-> "data"] :
      s \in L, n \in Names, tg \in Tags \cup {""}, sh \in BOOLEAN}
  \cup UNION {{[name |-> "next_name", s |-> s, n |-> n, sh |-> sh, o |-> o] :
                 n \in Names, sh \in BOOLEAN, o \in {0} \cup (({3, 4} \cap L) \ {s})}
              : s \in L}
  \cup {[name |-> "lookup", s |-> s, n |-> n] : s \in L, n \in Names}
  \cup {[name |-> "lookup_tag", s |-> s, tg |-> tg] : s \in L, tg \in Tags}
  \cup {[name |-> "get_symbols", s |-> s] : s \in L}
  \cup {[name |-> "find_tag", s |-> s, tg |-> tg, hasn |-> FALSE, n |-> NameRec(tg, <<>>)] :
      s \in L, tg \in Tags}
  \cup {[name |-> "find_tag", s |-> s, tg |-> tg, hasn |-> TRUE, n |-> n] :
      s \in L, tg \in Tags, n \in FindRoots}
  \cup UNION {{[name |-> "rename", s |-> s, x |-> x, n |-> n] :
                 x \in SymArgs(S, s), n \in Names} : s \in L}
  \cup UNION {{[name |-> "remove", s |-> s, x |-> x] : x \in SymArgs(S, s)} : s \in L}
  \cup UNION {{[name |-> "swap", s |-> s, x |-> x, n |-> n, k |-> k] :
                 x \in SymArgs(S, s), n \in Names, k \in {"gen", "data"}} : s \in L}
  \cup UNION {{[name |-> "swap_props", s |-> s, x |-> x, y |-> y] :
                 x \in SymArgs(S, s), y \in SymArgs(S, s)} : s \in L}
  \cup UNION {{[name |-> "set_args", s |-> s, xs |-> xs] : xs \in ArgSeqs(S, s)} : s \in L}
  \cup {[name |-> "detach", s |-> t] : t \in {3, 4} \cap L}
  \cup {[name |-> "attach", s |-> t] : t \in {3, 4} \cap L}
  \cup UNION {{[name |-> "merge", s |-> s, o |-> o, skip |-> sk] :
                 s \in L \ {o},
                 sk \in {{}} \cup {{i} : i \in IdsOf(S, o)} \cup {IdsOf(S, o)}}
              : o \in Foreign(S)}

\* --------------------------------------------------------- initial family
T(syms, tags, args) == [syms |-> syms, tags |-> tags, args |-> args]
Sy(id, c, sfx, k, dep) == MkSym(id, NameRec(c, sfx), k, dep)
Tg(tag, id) == [tag |-> tag, id |-> id]
E == T({}, {}, <<>>)
Family == <<
  \* 1: everything empty, loop-body table attached
  [tabs |-> <<E, E, E, E>>, inner |-> 3, dead |-> {}, calls |-> {}],
  \* 2: case variants across the three nested scopes, an argument, tags, a
  \*    foreign table whose names clash with scope 2
  [tabs |-> << T({Sy(1, "b", <<>>, "cont", 0), Sy(2, "A", <<>>, "gen", 0)}, {Tg("t1", 2)}, <<>>),
               T({Sy(3, "a", <<>>, "arg", 0), Sy(4, "B", <<>>, "data", 0),
                  Sy(8, "b", <<1>>, "rout", 0)}, {Tg("t2", 8)}, <<3>>),
               T({Sy(5, "a", <<1>>, "data", 0)}, {Tg("t2", 5)}, <<>>),
               T({Sy(6, "A", <<>>, "data", 0), Sy(7, "b", <<>>, "rout", 0)}, {}, <<>>) >>,
   \* (routine b_1 of scope 2 is tagged and called from the Routine's body)
   inner |-> 3, dead |-> {}, calls |-> {8}],
  \* 3: containers, imports and unresolved symbols on both sides of a merge
  [tabs |-> << T({Sy(1, "a", <<>>, "cont", 0), Sy(2, "b", <<>>, "imp", 1)}, {}, <<>>),
               T({Sy(3, "A", <<>>, "unres", 0), Sy(4, "b", <<>>, "gen", 0)}, {Tg("t1", 4)}, <<>>),
               E,
               T({Sy(5, "A", <<>>, "cont", 0), Sy(6, "B", <<>>, "imp", 5),
                  Sy(7, "a", <<1>>, "unres", 0)}, {}, <<>>) >>,
   inner |-> 3, dead |-> {}, calls |-> {}],
  \* 4: loop-body table detached (two foreign tables), routine/container/generic mix
  [tabs |-> << T({Sy(1, "a", <<>>, "data", 0), Sy(2, "b", <<>>, "arg", 0)}, {}, <<2>>),
               T({Sy(3, "A", <<>>, "rout", 0), Sy(4, "B", <<>>, "gen", 0),
                  Sy(5, "a", <<1>>, "cont", 0), Sy(9, "b", <<1>>, "generic", 3)},
                 {Tg("t2", 3)}, <<>>),
               T({Sy(6, "a", <<>>, "gen", 0)}, {}, <<>>),
               T({Sy(7, "a", <<>>, "data", 0), Sy(8, "B", <<>>, "gen", 0)}, {Tg("t1", 7)}, <<>>) >>,
   inner |-> 0, dead |-> {}, calls |-> {}],
  \* 5: foreign table attached as the innermost scope; lower-case names so that
  \*    swap_symbol_properties is accepted; two arguments
  [tabs |-> << T({Sy(1, "a", <<>>, "gen", 0)}, {Tg("t1", 1)}, <<>>),
               T({Sy(2, "a", <<>>, "arg", 0), Sy(3, "b", <<>>, "arg", 0),
                  Sy(4, "a", <<1>>, "data", 0)}, {}, <<3, 2>>),
               T({Sy(5, "b", <<>>, "cont", 0), Sy(6, "a", <<>>, "imp", 5)}, {}, <<>>),
               T({Sy(7, "b", <<>>, "data", 0)}, {Tg("t1", 7)}, <<>>) >>,
   inner |-> 4, dead |-> {}, calls |-> {}],
  \* 6: two containers in the foreign table, second one clashes with an argument
  [tabs |-> << E,
               T({Sy(1, "a", <<>>, "arg", 0), Sy(2, "b", <<1>>, "rout", 0)}, {}, <<1>>),
               T({Sy(3, "a", <<>>, "rout", 0)}, {}, <<>>),
               T({Sy(4, "b", <<>>, "cont", 0), Sy(5, "A", <<>>, "cont", 0),
                  Sy(6, "a", <<1>>, "imp", 4), Sy(7, "B", <<1>>, "data", 0)}, {Tg("t2", 7)}, <<>>) >>,
   inner |-> 3, dead |-> {}, calls |-> {}] >>

NamesQuick == {NameRec("a", <<>>), NameRec("A", <<>>), NameRec("a", <<1>>),
               NameRec("b", <<>>), NameRec("B", <<>>)}
NamesThorough == NamesQuick \cup {NameRec("A", <<1>>)}
TagsDef == {"t1", "t2"}
FindRootsDef == {NameRec("a", <<>>), NameRec("B", <<>>)}
InitIdsQuick == {2, 3}
InitIdsAll == 1..Len(Family)
InitIdsThorough == 2..Len(Family)     \* (the empty state is left to -simulate)
InitIdsDev == {2}

\* ------------------------------------------------------------ the machine
CONSTANTS InitIds, MaxDepth, SimMode
VARIABLES st, depth, last, hist
vars == <<st, depth, last, hist>>
View == <<st, depth>>

Init == /\ \E i \in InitIds : st = Family[i]
        /\ depth = 0
        /\ last = [op |-> [name |-> "init"], out |-> "ok", res |-> RNone]
        /\ hist = <<[name |-> "init", st |-> st]>>

\* one action per public operation; each is Success(effect) or Refuse(UNCHANGED st)
Do(op) == LET e == Eff(st, op)
          IN /\ st' = e.post
             /\ last' = [op |-> op, out |-> e.out, res |-> e.res]
             /\ depth' = depth + 1
             /\ hist' = Append(hist, op)
\* exhaustive mode: every operation of the alphabet; simulation mode: one
\* operation drawn at random per step (long histories, one successor each)
Next == /\ depth < MaxDepth
        /\ IF SimMode THEN \E op \in {RandomElement(Ops(st))} : Do(op)
           ELSE \E op \in Ops(st) : Do(op)
Spec == Init /\ [][Next]_vars

\* the model's own transitions satisfy every clause of the property
StepOK == Verdict(st, last'.op, last'.out, last'.res, st') = "ok"
StepProp == [][StepOK]_vars
InvNames == UniqueNormalisedNames(st)
InvTags  == TagsPointIntoScope(st)
InvIds   == \A t \in Live(st) : \A x \in SymsOf(st, t) :
               Cardinality({y \in AllSyms(st) : y.id = x.id}) = 1
\* (RefusalAtomic: a refused Eff returns S itself; StepOK checks post = pre)

\* binding A: every reachable state once, with its complete alphabet
DumpState == PrintT("ST " \o ToJson([d |-> depth, st |-> st, ops |-> Ops(st)]))
\* simulation mode: the whole history when the behaviour is complete
DumpSim == (depth = MaxDepth) =>
              PrintT("SIM " \o ToJson(hist))
=============================================================================
