CONSTANTS Names = {"k", "n", "a"}
 Order = "topological"
INIT Init
NEXT Next
INVARIANT InvDeclaredOnce
INVARIANT InvDeclaredBefore
INVARIANT InvResolves
INVARIANT InvProgress
