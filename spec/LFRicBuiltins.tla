---------------------------- MODULE LFRicBuiltins ----------------------------
(* C20 - LFRic built-ins compute their documented operations.                *)
(*                                                                            *)
(* A case pairs                                                               *)
(*   docs  a sequence (one entry per built-in of the invoke, in call order)   *)
(*         of [doc, bind]:                                                    *)
(*   doc   the built-in's DEFINITION as the user guide states it              *)
(*         (`field3(:) = field1(:) + field2(:)`, `innprod = SUM(...)`, the    *)
(*         setval_random loop), parsed at check time into pv-ast with the     *)
(*         guide's placeholder names, and                                     *)
(*   prog  the executable statements of the PSy-layer subroutine PSyclone     *)
(*         generated for one call of that built-in (loop-bound assignments,   *)
(*         zeroing of reduction variables, OpenMP directives, the DoF loop,   *)
(*         the sequential sum of reproducible reductions) as pv-ast, with the *)
(*         LFRic run-time enquiries replaced by the names pv_last_dof_owned,  *)
(*         pv_last_dof_annexed, pv_undf, pv_nthreads, pv_tid.                 *)
(* This module gives both a meaning over a FIELD LAYOUT                       *)
(*         owned 1..3 | annexed 4 | halo 5..6        (distributed memory)     *)
(*         owned 1..6                                (no distributed memory)  *)
(* and decides, for every input (scalar valuation x array fill x thread       *)
(* count), the clauses                                                        *)
(*   DocumentedValueInRange  every DoF of the documented range of the         *)
(*                           modified field holds the documented value        *)
(*                           computed from the ORIGINAL field/scalar values   *)
(*   UntouchedOutsideRange   DoFs outside the range, every other field and    *)
(*                           every scalar input keep their value              *)
(*   ReductionOverOwned      a reduction returns the documented sum over the  *)
(*                           OWNED DoFs only                                  *)
(*   NoNewUndefined          the generated code is defined (no undefined      *)
(*                           read, no out-of-bounds access) wherever the      *)
(*                           definition is.                                   *)
(* Inputs on which the documented definition itself is undefined (division by *)
(* zero, 0**negative, non-integral real exponent - outside the exact domain)  *)
(* are discarded and counted.                                                 *)
EXTENDS FortranSem, Json, IOUtils

Cases == JsonDeserialize(IOEnv.PV_CASES)

\* ------------------------------------------------------------------ layout
\* last owned / last annexed / last (= undf) DoF of the one function space a
\* built-in works on.  Layout 2 is a space without annexed DoFs.
DMLayouts == << [owned |-> 3, annexed |-> 4, undf |-> 6],
                [owned |-> 2, annexed |-> 2, undf |-> 5] >>
LayoutOf(c) ==
  LET L == DMLayouts[c.lay] IN
  IF c.dm THEN L
  ELSE [owned |-> L.undf, annexed |-> L.undf, undf |-> L.undf]  \* one process owns all

\* a definition is a reduction iff it assigns to a scalar
IsReductionDoc(d) == d.k = "assign" /\ d.lhs.k = "ref"
IsRandomDoc(d) == d.k = "loop"
\* setval_random (values unspecified) is judged on its own only
DocIsRandom(c) == Len(c.docs) = 1 /\ IsRandomDoc(c.docs[1].doc)

\* documented range 1..DocHi: the owned DoFs; owned and annexed DoFs when
\* COMPUTE_ANNEXED_DOFS is set and distributed memory is on (user guide,
\* "Annexed DoFs"); reductions always sum the owned DoFs only (an annexed DoF
\* is owned by another process and would be counted twice)
DocHiOf(c, reduction) ==
  LET L == LayoutOf(c) IN
  IF c.dm /\ c.ann /\ ~reduction THEN L.annexed ELSE L.owned
FieldHi(c) == DocHiOf(c, FALSE)        \* range of every field-valued definition

\* -------------------------------------------- binding the definition's names
ILit(v) == [k |-> "lit", t |-> "int", v |-> v]
RECURSIVE BindE(_, _, _)
BindIdx(ix, b, hi) ==
  IF ix.k = "range"
  THEN [k |-> "range",
        lo |-> IF IsNone(ix.lo) THEN ILit(1) ELSE BindE(ix.lo, b, hi),
        hi |-> IF IsNone(ix.hi) THEN ILit(hi) ELSE BindE(ix.hi, b, hi),
        st |-> IF IsNone(ix.st) THEN None ELSE BindE(ix.st, b, hi)]
  ELSE BindE(ix, b, hi)
BindE(e, b, hi) ==
  CASE e.k = "ref" -> (IF e.name \in DOMAIN b THEN b[e.name]
                       ELSE IF e.name = "ndofs" THEN ILit(hi) ELSE e)
    [] e.k = "aref" -> [k |-> "aref",
                        name |-> IF e.name \in DOMAIN b /\ b[e.name].k = "ref"
                                 THEN b[e.name].name ELSE "#unbound",
                        idx |-> [i \in DOMAIN e.idx |-> BindIdx(e.idx[i], b, hi)]]
    [] e.k = "un" -> [e EXCEPT !.e = BindE(@, b, hi)]
    [] e.k = "bin" -> [e EXCEPT !.l = BindE(@, b, hi), !.r = BindE(@, b, hi)]
    [] e.k = "icall" -> [e EXCEPT !.args = [i \in DOMAIN @ |-> BindE(@[i], b, hi)]]
    [] OTHER -> e
BindAssign(s, b, hi) == [k |-> "assign", lhs |-> BindE(s.lhs, b, hi), rhs |-> BindE(s.rhs, b, hi)]

\* ------------------------------------------------- real exponents (exact set)
\* FortranSem gives x ** y a value only for an integer y.  Here a REAL exponent
\* that is a scalar variable or literal with an integral value means the
\* integer power; any other real exponent stays outside the exact domain.
IntegralExp(e, st) ==
  IF e.k = "lit" THEN (IF e.t = "real" /\ e.d = 1 THEN ILit(e.n) ELSE e)
  ELSE IF e.k = "un" THEN
     (IF e.op = "-" /\ e.e.k = "lit"
      THEN (IF e.e.t = "real" /\ e.e.d = 1 THEN [e EXCEPT !.e = ILit(e.e.n)] ELSE e)
      ELSE e)
  ELSE IF e.k = "ref" /\ e.name \in DOMAIN st THEN
     (LET cl == st[e.name] IN
      IF cl.ex = <<>> /\ cl.d[1].t = "r" THEN (IF cl.d[1].d = 1 THEN ILit(cl.d[1].n) ELSE e)
      ELSE e)
  ELSE e
RECURSIVE PowE(_, _), PowS(_, _)
PowE(e, st) ==
  CASE e.k = "aref" -> [e EXCEPT !.idx = [i \in DOMAIN @ |->
                                            IF @[i].k = "range" THEN @[i] ELSE PowE(@[i], st)]]
    [] e.k = "un" -> [e EXCEPT !.e = PowE(@, st)]
    [] e.k = "bin" -> [e EXCEPT !.l = PowE(@, st),
                                !.r = IF e.op = "**" THEN IntegralExp(PowE(@, st), st)
                                      ELSE PowE(@, st)]
    [] e.k = "icall" -> [e EXCEPT !.args = [i \in DOMAIN @ |-> PowE(@[i], st)]]
    [] OTHER -> e
PowSeq(ss, st) == [i \in DOMAIN ss |-> PowS(ss[i], st)]
PowS(s, st) ==
  CASE s.k = "assign" -> [s EXCEPT !.lhs = PowE(@, st), !.rhs = PowE(@, st)]
    [] s.k = "loop" -> [s EXCEPT !.body = PowSeq(@, st)]
    [] s.k = "ompparallel" -> [s EXCEPT !.body = PowSeq(@, st)]
    [] s.k \in {"ompdo", "ompparalleldo"} -> [s EXCEPT !.loop = PowS(@, st)]
    [] OTHER -> s

\* ---------------------------------------------------------- OpenMP regions
\* Serial semantics of the generated directives for T threads: within one
\* statement of a region the threads run one after the other (one admissible
\* execution of a race-free region; races are C09's subject).  Every thread
\* starts with undefined private variables, executes the replicated statements
\* of the region, and of a work-shared loop the contiguous chunk
\* schedule(static) gives it.  A reduction(+:x) clause
\* gives the thread a private x initialised to zero that is added to the
\* original x at the end of the loop.
GetScal(M, nm) == M.st[nm].d[1]
SetScal(M, nm, v) == [M EXCEPT !.st = StoreAt(@, nm, 1, v)]
RECURSIVE PoisonAll(_, _, _)
PoisonAll(M, names, i) ==
  IF i > Len(names) THEN M ELSE PoisonAll(SetScal(M, names[i], POISON), names, i + 1)

ChunkOf(s, lo, stp, trip, t, T) ==
  LET sz == (trip + T - 1) \div T
      first == (t - 1) * sz + 1
      last == FMin(t * sz, trip)
  IN [s EXCEPT !.lo = ILit(lo + (first - 1) * stp),
               !.hi = ILit(lo + (last - 1) * stp),
               !.st = ILit(stp)]

RECURSIVE Combine(_, _, _, _)
Combine(M, red, saved, i) ==
  IF i > Len(red) THEN M
  ELSE Combine(SetScal(M, red[i], ScalBin("+", saved[i], GetScal(M, red[i]))), red, saved, i + 1)
RECURSIVE ZeroAll(_, _, _)
ZeroAll(M, red, i) ==
  IF i > Len(red) THEN M
  ELSE ZeroAll(SetScal(M, red[i], Conv(M.st[red[i]].ty, VI(0))), red, i + 1)

RunOmpDo(M, d, t, T) ==
  LET s == d.loop
      lo == Eval(M, s.lo)  hi == Eval(M, s.hi)
      stp == IF IsNone(s.st) THEN VI(1) ELSE Eval(M, s.st)
  IN IF IsP(lo) \/ IsP(hi) \/ IsP(stp) THEN Ub(M)
     ELSE IF lo.t # "i" \/ hi.t # "i" \/ stp.t # "i" THEN Ub(M)
     ELSE IF stp.v = 0 THEN Ub(M)
     ELSE IF \E i \in DOMAIN d.red : d.red[i] \notin DOMAIN M.st \/ M.st[d.red[i]].ex # <<>> THEN Ub(M)
     ELSE LET trip == LoopTrip(lo.v, hi.v, stp.v)
              saved == [i \in DOMAIN d.red |-> GetScal(M, d.red[i])]
              M1 == ExecStmt(ZeroAll(M, d.red, 1), ChunkOf(s, lo.v, stp.v, trip, t, T))
          IN IF M1.sig # "" THEN M1 ELSE Combine(M1, d.red, saved, 1)

\* The statements of a region are executed one after the other, each by every
\* thread in turn (the implicit barrier at the end of a work-shared loop: a
\* later loop of the region sees what every thread did in an earlier one);
\* pv[t] holds the private variables of thread t between its turns.
RECURSIVE LoadPriv(_, _, _, _)
LoadPriv(M, names, vals, i) ==
  IF i > Len(names) THEN M ELSE LoadPriv(SetScal(M, names[i], vals[i]), names, vals, i + 1)
SavePriv(M, names) == [i \in DOMAIN names |-> GetScal(M, names[i])]

RECURSIVE RegionThreads(_, _, _, _, _, _)
RegionThreads(M, s, names, pv, t, T) ==
  IF M.sig # "" \/ t > T THEN [M |-> M, pv |-> pv]
  ELSE LET M0 == SetScal(LoadPriv(M, names, pv[t], 1), "pv_tid", VI(t - 1))
           M1 == IF s.k = "ompdo" THEN RunOmpDo(M0, s, t, T) ELSE ExecStmt(M0, s)
       IN IF M1.sig # "" THEN [M |-> M1, pv |-> pv]
          ELSE RegionThreads(M1, s, names, [pv EXCEPT ![t] = SavePriv(M1, names)], t + 1, T)

RECURSIVE RegionBody(_, _, _, _, _, _)
RegionBody(M, body, i, names, pv, T) ==
  IF M.sig # "" \/ i > Len(body) THEN M
  ELSE LET r == RegionThreads(M, body[i], names, pv, 1, T) IN
       RegionBody(r.M, body, i + 1, names, r.pv, T)

\* A private ARRAY (every array of the generated code is the data POINTER of a
\* field) has an undefined association inside the region and what is stored
\* through it never reaches the field: undefined behaviour.  A firstprivate
\* pointer is a copy of the association: it still designates the field's data,
\* i.e. the data stays shared.  A firstprivate scalar starts with the original
\* value in every thread; the original keeps its value.
ParRegion(M, body, priv, fpriv, T) ==
  IF \E i \in DOMAIN priv : priv[i] \notin DOMAIN M.st \/ M.st[priv[i]].ex # <<>> THEN Ub(M)
  ELSE IF \E i \in DOMAIN fpriv : fpriv[i] \notin DOMAIN M.st THEN Ub(M)
  ELSE LET fsc == SelectSeq(fpriv, LAMBDA nm : M.st[nm].ex = <<>>)
           names == priv \o fsc
           orig == [i \in DOMAIN fsc |-> GetScal(M, fsc[i])]
           pv0 == [t \in 1..T |-> [i \in DOMAIN names |->
                                      IF i <= Len(priv) THEN POISON ELSE orig[i - Len(priv)]]]
           M1 == RegionBody(M, body, 1, names, pv0, T) IN
       IF M1.sig # "" THEN M1
       ELSE LoadPriv(PoisonAll(SetScal(M1, "pv_tid", POISON), priv, 1), fsc, orig, 1)

LoopVarsOf(body, priv) ==   \* loop variables of work-shared loops are private
  LET vs == {body[i].loop.var : i \in {j \in DOMAIN body : body[j].k = "ompdo"}}
            \ SeqSet(priv)
      RECURSIVE AsSeq(_)
      AsSeq(S) == IF S = {} THEN <<>> ELSE LET x == CHOOSE y \in S : TRUE IN <<x>> \o AsSeq(S \ {x})
  IN AsSeq(vs)

ExecTopStmt(M, s, T) ==
  IF M.sig # "" THEN M
  ELSE CASE s.k = "ompparallel" -> ParRegion(M, s.body, s.private \o LoopVarsOf(s.body, s.private), s.firstprivate, T)
         [] s.k = "ompparalleldo" ->
              ParRegion(M, << [k |-> "ompdo", loop |-> s.loop, red |-> s.red] >>,
                        s.private \o (IF s.loop.var \in SeqSet(s.private) THEN <<>>
                                       ELSE <<s.loop.var>>), s.firstprivate, T)
         [] s.k = "ompdo" -> Ub(M)            \* orphaned work-sharing loop: not generated
         [] OTHER -> ExecStmt(M, s)
RECURSIVE ExecTop(_, _, _, _)
ExecTop(M, ss, i, T) ==
  IF M.sig # "" \/ i > Len(ss) THEN M ELSE ExecTop(ExecTopStmt(M, ss[i], T), ss, i + 1, T)

\* ------------------------------------------------------------------ judging
WithConsts(st, L, T) ==
  LET put(s, nm, v) == IF nm \in DOMAIN s THEN StoreAt(s, nm, 1, VI(v)) ELSE s IN
  \* pv_other: a defined value that is none of the DoF counts of the built-in's
  \* space (cell counts, sizes of the spaces of coded kernels in the same invoke)
  put(put(put(put(put(st, "pv_last_dof_owned", L.owned), "pv_last_dof_annexed", L.annexed),
              "pv_undf", L.undf), "pv_nthreads", T), "pv_other", L.undf - 1)

\* name of the data array a definition modifies ("" for a reduction)
TargetOf(e) ==
  LET d == e.doc
      lhs == IF IsRandomDoc(d) THEN d.body[1].lhs ELSE d.lhs IN
  IF lhs.k = "aref" /\ lhs.name \in DOMAIN e.bind /\ e.bind[lhs.name].k = "ref"
  THEN e.bind[lhs.name].name ELSE ""

Ok == [v |-> "ok"]
Bad(clause, nm, dof, got, want) ==
  [v |-> clause, name |-> nm, dof |-> dof, got |-> got, want |-> want]

\* first DoF in lo..hi of array nm where a and b differ, 0 if none
FirstDiff(a, b, lo, hi) ==
  LET ds == {p \in lo..hi : a[p] # b[p]} IN
  IF ds = {} THEN 0 ELSE CHOOSE p \in ds : \A q \in ds : p <= q

\* the definitions of the invoke's built-ins one after the other, each over its
\* documented range, from the values the previous ones left
RECURSIVE RunDocs(_, _, _, _)
RunDocs(M, c, i, st0) ==
  IF M.sig # "" \/ i > Len(c.docs) THEN M
  ELSE LET e == c.docs[i]
           hi == DocHiOf(c, IsReductionDoc(e.doc)) IN
       RunDocs(ExecStmt(M, PowS(BindAssign(e.doc, e.bind, hi), st0)), c, i + 1, st0)

\* private clauses of the recorded code that name an array
PrivArrays(prog, st) ==
  UNION {IF prog[i].k \in {"ompparallel", "ompparalleldo"}
         THEN {nm \in SeqSet(prog[i].private) : nm \in DOMAIN st /\ st[nm].ex # <<>>}
         ELSE {} : i \in DOMAIN prog}

Judge(c, val, fm, T) ==
  LET L == LayoutOf(c)
      hi == FieldHi(c)
      st0 == WithConsts(InitStore(c.decls, c.dom, val, fm), L, T)
      random == DocIsRandom(c)
      targets == {TargetOf(c.docs[i]) : i \in DOMAIN c.docs} \ {""}
      nred == Cardinality({i \in DOMAIN c.docs : IsReductionDoc(c.docs[i].doc)})
      \* the definitions, over the documented ranges, from the original values
      Mo == IF random THEN NewMachine(st0, <<>>, FALSE)
            ELSE RunDocs(NewMachine(st0, <<>>, FALSE), c, 1, st0)
      \* the generated code
      Mi == ExecTop(NewMachine(st0, <<>>, random), PowSeq(c.prog, st0), 1, T)
      tgt == IF random THEN TargetOf(c.docs[1]) ELSE ""
      redBad == {i \in DOMAIN c.reds : GetScal(Mi, c.reds[i]) # GetScal(Mo, c.reds[i])}
      fldBad == {i \in DOMAIN c.fields :
                   FirstDiff(Mi.st[c.fields[i]].d, Mo.st[c.fields[i]].d, 1, L.undf) # 0}
      scalBad == {i \in DOMAIN c.scalars :
                     GetScal(Mi, c.scalars[i]) # st0[c.scalars[i]].d[1]}
      privArr == PrivArrays(c.prog, st0)
  IN
  IF L.undf # c.undf \/ Len(c.docs) = 0 \/ nred # Len(c.reds)
     \/ Cardinality(targets) + nred = 0
     \/ (\E i \in DOMAIN c.docs : IsRandomDoc(c.docs[i].doc) /\ Len(c.docs) > 1)
  THEN [v |-> "BadCase"]
  ELSE IF Mo.sig # "" THEN [v |-> "discard"]
  ELSE IF Mi.sig # ""
  THEN (IF privArr # {}
        THEN Bad("NoNewUndefined", CHOOSE nm \in privArr : TRUE, 0,
                 [t |-> "thread-private array"], [t |-> "shared"])
        ELSE Bad("NoNewUndefined", "", 0, POISON, POISON))
  ELSE IF redBad # {}
  THEN LET nm == c.reds[CHOOSE j \in redBad : TRUE] IN
       Bad("ReductionOverOwned", nm, 0, GetScal(Mi, nm), GetScal(Mo, nm))
  ELSE IF random /\ (\E p \in 1..hi : <<tgt, p>> \notin Mi.wr)
  THEN LET p == CHOOSE q \in 1..hi : <<tgt, q>> \notin Mi.wr IN
       Bad("DocumentedValueInRange", tgt, p, [t |-> "notset"], [t |-> "any"])
  ELSE IF random /\ (\E p \in (hi + 1)..L.undf : <<tgt, p>> \in Mi.wr)
  THEN LET p == CHOOSE q \in (hi + 1)..L.undf : <<tgt, q>> \in Mi.wr IN
       Bad("UntouchedOutsideRange", tgt, p, [t |-> "set"], st0[tgt].d[p])
  ELSE IF ~random /\ fldBad # {}
  THEN \* a modified field inside its range: the documented value is missing;
       \* anywhere else (beyond the range, another field): something was touched
       LET inr == {i \in fldBad : c.fields[i] \in targets /\
                      FirstDiff(Mi.st[c.fields[i]].d, Mo.st[c.fields[i]].d, 1, hi) # 0}
           i == IF inr # {} THEN CHOOSE j \in inr : TRUE ELSE CHOOSE j \in fldBad : TRUE
           nm == c.fields[i]
           p == FirstDiff(Mi.st[nm].d, Mo.st[nm].d, 1, L.undf) IN
       Bad(IF inr # {} THEN "DocumentedValueInRange" ELSE "UntouchedOutsideRange",
           nm, p, Mi.st[nm].d[p], Mo.st[nm].d[p])
  ELSE IF random /\ (\E i \in DOMAIN c.fields :
                        FirstDiff(Mi.st[c.fields[i]].d, st0[c.fields[i]].d,
                                  IF c.fields[i] = tgt THEN hi + 1 ELSE 1, L.undf) # 0)
  THEN LET i == CHOOSE j \in DOMAIN c.fields :
                   FirstDiff(Mi.st[c.fields[j]].d, st0[c.fields[j]].d,
                             IF c.fields[j] = tgt THEN hi + 1 ELSE 1, L.undf) # 0
           nm == c.fields[i]
           p == FirstDiff(Mi.st[nm].d, st0[nm].d, IF nm = tgt THEN hi + 1 ELSE 1, L.undf) IN
       Bad("UntouchedOutsideRange", nm, p, Mi.st[nm].d[p], st0[nm].d[p])
  ELSE IF scalBad # {}
  THEN LET nm == c.scalars[CHOOSE j \in scalBad : TRUE] IN
       Bad("UntouchedOutsideRange", nm, 0, GetScal(Mi, nm), st0[nm].d[1])
  ELSE Ok

\* ------------------------------------------------------------ state machine
VARIABLES cid, val, fm, nthr, verdict
vars == <<cid, val, fm, nthr, verdict>>

Init == /\ cid \in 1..Len(Cases)
        /\ val \in Valuations(Cases[cid].dom, Len(Cases[cid].dom))
        /\ fm \in SeqSet(Cases[cid].fills)
        /\ nthr \in SeqSet(Cases[cid].threads)
        /\ verdict = "run"

Step ==
  /\ verdict = "run"
  /\ LET c == Cases[cid]
         j == Judge(c, val, fm, nthr)
     IN /\ verdict' = j.v
        /\ IF j.v = "ok" THEN TRUE
           ELSE IF j.v = "discard" THEN PrintT("DISCARD " \o ToJson([id |-> c.id]))
           ELSE PrintT("VERDICT " \o ToJson([id |-> c.id, v |-> j.v,
                                               w |-> [val |-> val, fm |-> fm, threads |-> nthr,
                                                      hi |-> FieldHi(c), detail |-> j]]))
  /\ UNCHANGED <<cid, val, fm, nthr>>

Spec == Init /\ [][Step]_vars

\* replay configuration: one invariant per clause (TLC error trace on violation)
DocumentedValueInRange == verdict # "DocumentedValueInRange"
UntouchedOutsideRange == verdict # "UntouchedOutsideRange"
ReductionOverOwned == verdict # "ReductionOverOwned"
NoNewUndefined == verdict # "NoNewUndefined"
===============================================================================
