---------------------------- MODULE LFRicBuiltins ----------------------------
(* C20 - LFRic built-ins compute their documented operations.                *)
(*                                                                            *)
(* A case pairs                                                               *)
(*   doc   the built-in's DEFINITION as the user guide states it              *)
(*         (`field3(:) = field1(:) + field2(:)`, `innprod = SUM(...)`, the    *)
(*         setval_random loop), parsed at check time into pv-ast with the     *)
(*         guide's placeholder names, and                                     *)
(*   prog  the executable statements of the PSy-layer subroutine PSyclone     *)
(*         generated for one call of that built-in (loop-bound assignments,   *)
(*         zeroing of reduction variables, OpenMP directives, the DoF loop,   *)
(*         the sequential sum of reproducible reductions) as pv-ast, with the *)
(*         LFRic run-time enquiries replaced by the names pv_last_dof_owned,  *)
(*         pv_last_dof_annexed, pv_undf, pv_nthreads, pv_tid.                 *)
(* This module gives both a meaning over a FIELD LAYOUT                       *)
(*         owned 1..3 | annexed 4 | halo 5..6        (distributed memory)     *)
(*         owned 1..6                                (no distributed memory)  *)
(* and decides, for every input (scalar valuation x array fill x thread       *)
(* count), the clauses                                                        *)
(*   DocumentedValueInRange  every DoF of the documented range of the         *)
(*                           modified field holds the documented value        *)
(*                           computed from the ORIGINAL field/scalar values   *)
(*   UntouchedOutsideRange   DoFs outside the range, every other field and    *)
(*                           every scalar input keep their value              *)
(*   ReductionOverOwned      a reduction returns the documented sum over the  *)
(*                           OWNED DoFs only                                  *)
(*   NoNewUndefined          the generated code is defined (no undefined      *)
(*                           read, no out-of-bounds access) wherever the      *)
(*                           definition is.                                   *)
(* Inputs on which the documented definition itself is undefined (division by *)
(* zero, 0**negative, non-integral real exponent - outside the exact domain)  *)
(* are discarded and counted.                                                 *)
EXTENDS FortranSem, Json, IOUtils

Cases == JsonDeserialize(IOEnv.PV_CASES)

\* ------------------------------------------------------------------ layout
\* last owned / last annexed / last (= undf) DoF of the one function space a
\* built-in works on.  Layout 2 is a space without annexed DoFs.
DMLayouts == << [owned |-> 3, annexed |-> 4, undf |-> 6],
                [owned |-> 2, annexed |-> 2, undf |-> 5] >>
LayoutOf(c) ==
  LET L == DMLayouts[c.lay] IN
  IF c.dm THEN L
  ELSE [owned |-> L.undf, annexed |-> L.undf, undf |-> L.undf]  \* one process owns all

\* the definition is a reduction iff it assigns to a scalar
DocIsReduction(c) == c.doc.k = "assign" /\ c.doc.lhs.k = "ref"
DocIsRandom(c) == c.doc.k = "loop"

\* documented range 1..DocHi: the owned DoFs; owned and annexed DoFs when
\* COMPUTE_ANNEXED_DOFS is set and distributed memory is on (user guide,
\* "Annexed DoFs"); reductions always sum the owned DoFs only (an annexed DoF
\* is owned by another process and would be counted twice)
DocHi(c) ==
  LET L == LayoutOf(c) IN
  IF c.dm /\ c.ann /\ ~DocIsReduction(c) THEN L.annexed ELSE L.owned

\* -------------------------------------------- binding the definition's names
ILit(v) == [k |-> "lit", t |-> "int", v |-> v]
RECURSIVE BindE(_, _, _)
BindIdx(ix, b, hi) ==
  IF ix.k = "range"
  THEN [k |-> "range",
        lo |-> IF IsNone(ix.lo) THEN ILit(1) ELSE BindE(ix.lo, b, hi),
        hi |-> IF IsNone(ix.hi) THEN ILit(hi) ELSE BindE(ix.hi, b, hi),
        st |-> IF IsNone(ix.st) THEN None ELSE BindE(ix.st, b, hi)]
  ELSE BindE(ix, b, hi)
BindE(e, b, hi) ==
  CASE e.k = "ref" -> (IF e.name \in DOMAIN b THEN b[e.name]
                       ELSE IF e.name = "ndofs" THEN ILit(hi) ELSE e)
    [] e.k = "aref" -> [k |-> "aref",
                        name |-> IF e.name \in DOMAIN b /\ b[e.name].k = "ref"
                                 THEN b[e.name].name ELSE "#unbound",
                        idx |-> [i \in DOMAIN e.idx |-> BindIdx(e.idx[i], b, hi)]]
    [] e.k = "un" -> [e EXCEPT !.e = BindE(@, b, hi)]
    [] e.k = "bin" -> [e EXCEPT !.l = BindE(@, b, hi), !.r = BindE(@, b, hi)]
    [] e.k = "icall" -> [e EXCEPT !.args = [i \in DOMAIN @ |-> BindE(@[i], b, hi)]]
    [] OTHER -> e
BindAssign(s, b, hi) == [k |-> "assign", lhs |-> BindE(s.lhs, b, hi), rhs |-> BindE(s.rhs, b, hi)]

\* ------------------------------------------------- real exponents (exact set)
\* FortranSem gives x ** y a value only for an integer y.  Here a REAL exponent
\* that is a scalar variable or literal with an integral value means the
\* integer power; any other real exponent stays outside the exact domain.
IntegralExp(e, st) ==
  IF e.k = "lit" THEN (IF e.t = "real" /\ e.d = 1 THEN ILit(e.n) ELSE e)
  ELSE IF e.k = "un" THEN
     (IF e.op = "-" /\ e.e.k = "lit"
      THEN (IF e.e.t = "real" /\ e.e.d = 1 THEN [e EXCEPT !.e = ILit(e.e.n)] ELSE e)
      ELSE e)
  ELSE IF e.k = "ref" /\ e.name \in DOMAIN st THEN
     (LET cl == st[e.name] IN
      IF cl.ex = <<>> /\ cl.d[1].t = "r" THEN (IF cl.d[1].d = 1 THEN ILit(cl.d[1].n) ELSE e)
      ELSE e)
  ELSE e
RECURSIVE PowE(_, _), PowS(_, _)
PowE(e, st) ==
  CASE e.k = "aref" -> [e EXCEPT !.idx = [i \in DOMAIN @ |->
                                            IF @[i].k = "range" THEN @[i] ELSE PowE(@[i], st)]]
    [] e.k = "un" -> [e EXCEPT !.e = PowE(@, st)]
    [] e.k = "bin" -> [e EXCEPT !.l = PowE(@, st),
                                !.r = IF e.op = "**" THEN IntegralExp(PowE(@, st), st)
                                      ELSE PowE(@, st)]
    [] e.k = "icall" -> [e EXCEPT !.args = [i \in DOMAIN @ |-> PowE(@[i], st)]]
    [] OTHER -> e
PowSeq(ss, st) == [i \in DOMAIN ss |-> PowS(ss[i], st)]
PowS(s, st) ==
  CASE s.k = "assign" -> [s EXCEPT !.lhs = PowE(@, st), !.rhs = PowE(@, st)]
    [] s.k = "loop" -> [s EXCEPT !.body = PowSeq(@, st)]
    [] s.k = "ompparallel" -> [s EXCEPT !.body = PowSeq(@, st)]
    [] s.k \in {"ompdo", "ompparalleldo"} -> [s EXCEPT !.loop = PowS(@, st)]
    [] OTHER -> s

\* ---------------------------------------------------------- OpenMP regions
\* Serial semantics of the generated directives for T threads: the threads run
\* one after the other (one admissible execution of a race-free region; races
\* are C09's subject).  Every thread starts with undefined private variables,
\* executes the replicated statements of the region, and of a work-shared loop
\* the contiguous chunk schedule(static) gives it.  A reduction(+:x) clause
\* gives the thread a private x initialised to zero that is added to the
\* original x at the end of the loop.
GetScal(M, nm) == M.st[nm].d[1]
SetScal(M, nm, v) == [M EXCEPT !.st = StoreAt(@, nm, 1, v)]
RECURSIVE PoisonAll(_, _, _)
PoisonAll(M, names, i) ==
  IF i > Len(names) THEN M ELSE PoisonAll(SetScal(M, names[i], POISON), names, i + 1)

ChunkOf(s, lo, stp, trip, t, T) ==
  LET sz == (trip + T - 1) \div T
      first == (t - 1) * sz + 1
      last == FMin(t * sz, trip)
  IN [s EXCEPT !.lo = ILit(lo + (first - 1) * stp),
               !.hi = ILit(lo + (last - 1) * stp),
               !.st = ILit(stp)]

RECURSIVE Combine(_, _, _, _)
Combine(M, red, saved, i) ==
  IF i > Len(red) THEN M
  ELSE Combine(SetScal(M, red[i], ScalBin("+", saved[i], GetScal(M, red[i]))), red, saved, i + 1)
RECURSIVE ZeroAll(_, _, _)
ZeroAll(M, red, i) ==
  IF i > Len(red) THEN M
  ELSE ZeroAll(SetScal(M, red[i], Conv(M.st[red[i]].ty, VI(0))), red, i + 1)

RunOmpDo(M, d, t, T) ==
  LET s == d.loop
      lo == Eval(M, s.lo)  hi == Eval(M, s.hi)
      stp == IF IsNone(s.st) THEN VI(1) ELSE Eval(M, s.st)
  IN IF IsP(lo) \/ IsP(hi) \/ IsP(stp) THEN Ub(M)
     ELSE IF lo.t # "i" \/ hi.t # "i" \/ stp.t # "i" THEN Ub(M)
     ELSE IF stp.v = 0 THEN Ub(M)
     ELSE IF \E i \in DOMAIN d.red : d.red[i] \notin DOMAIN M.st \/ M.st[d.red[i]].ex # <<>> THEN Ub(M)
     ELSE LET trip == LoopTrip(lo.v, hi.v, stp.v)
              saved == [i \in DOMAIN d.red |-> GetScal(M, d.red[i])]
              M1 == ExecStmt(ZeroAll(M, d.red, 1), ChunkOf(s, lo.v, stp.v, trip, t, T))
          IN IF M1.sig # "" THEN M1 ELSE Combine(M1, d.red, saved, 1)

RECURSIVE ThreadBody(_, _, _, _, _)
ThreadBody(M, body, i, t, T) ==
  IF M.sig # "" \/ i > Len(body) THEN M
  ELSE ThreadBody(IF body[i].k = "ompdo" THEN RunOmpDo(M, body[i], t, T)
                  ELSE ExecStmt(M, body[i]),
                  body, i + 1, t, T)

RECURSIVE Threads(_, _, _, _, _)
Threads(M, body, priv, t, T) ==
  IF M.sig # "" \/ t > T THEN M
  ELSE LET M0 == SetScal(PoisonAll(M, priv, 1), "pv_tid", VI(t - 1))
       IN Threads(ThreadBody(M0, body, 1, t, T), body, priv, t + 1, T)

ParRegion(M, body, priv, T) ==
  IF \E i \in DOMAIN priv : priv[i] \notin DOMAIN M.st \/ M.st[priv[i]].ex # <<>> THEN Ub(M)
  ELSE LET M1 == Threads(M, body, priv, 1, T) IN
       IF M1.sig # "" THEN M1 ELSE PoisonAll(SetScal(M1, "pv_tid", POISON), priv, 1)

LoopVarsOf(body) ==     \* loop variables of work-shared loops are private
  LET idx == {i \in DOMAIN body : body[i].k = "ompdo"} IN
  IF idx = {} THEN <<>> ELSE <<body[CHOOSE i \in idx : TRUE].loop.var>>

ExecTopStmt(M, s, T) ==
  IF M.sig # "" THEN M
  ELSE CASE s.k = "ompparallel" -> ParRegion(M, s.body, s.private \o LoopVarsOf(s.body), T)
         [] s.k = "ompparalleldo" ->
              ParRegion(M, << [k |-> "ompdo", loop |-> s.loop, red |-> s.red] >>,
                        s.private \o <<s.loop.var>>, T)
         [] s.k = "ompdo" -> Ub(M)            \* orphaned work-sharing loop: not generated
         [] OTHER -> ExecStmt(M, s)
RECURSIVE ExecTop(_, _, _, _)
ExecTop(M, ss, i, T) ==
  IF M.sig # "" \/ i > Len(ss) THEN M ELSE ExecTop(ExecTopStmt(M, ss[i], T), ss, i + 1, T)

\* ------------------------------------------------------------------ judging
WithConsts(st, L, T) ==
  LET put(s, nm, v) == IF nm \in DOMAIN s THEN StoreAt(s, nm, 1, VI(v)) ELSE s IN
  \* pv_other: a defined value that is none of the DoF counts of the built-in's
  \* space (cell counts, sizes of the spaces of coded kernels in the same invoke)
  put(put(put(put(put(st, "pv_last_dof_owned", L.owned), "pv_last_dof_annexed", L.annexed),
              "pv_undf", L.undf), "pv_nthreads", T), "pv_other", L.undf - 1)

\* name of the data array the definition modifies ("" for a reduction)
DocTarget(c) ==
  LET lhs == IF DocIsRandom(c) THEN c.doc.body[1].lhs ELSE c.doc.lhs IN
  IF lhs.k = "aref" /\ lhs.name \in DOMAIN c.bind /\ c.bind[lhs.name].k = "ref"
  THEN c.bind[lhs.name].name ELSE ""

Ok == [v |-> "ok"]
Bad(clause, nm, dof, got, want) ==
  [v |-> clause, name |-> nm, dof |-> dof, got |-> got, want |-> want]

\* first DoF in lo..hi of array nm where a and b differ, 0 if none
FirstDiff(a, b, lo, hi) ==
  LET ds == {p \in lo..hi : a[p] # b[p]} IN
  IF ds = {} THEN 0 ELSE CHOOSE p \in ds : \A q \in ds : p <= q

Judge(c, val, fm, T) ==
  LET L == LayoutOf(c)
      hi == DocHi(c)
      st0 == WithConsts(InitStore(c.decls, c.dom, val, fm), L, T)
      random == DocIsRandom(c)
      reduction == DocIsReduction(c)
      tgt == DocTarget(c)
      \* the definition, over the documented range, from the original values
      Mo == IF random THEN NewMachine(st0, <<>>, FALSE)
            ELSE ExecStmt(NewMachine(st0, <<>>, FALSE),
                          PowS(BindAssign(c.doc, c.bind, hi), st0))
      \* the generated code
      Mi == ExecTop(NewMachine(st0, <<>>, random), PowSeq(c.prog, st0), 1, T)
      others == {i \in DOMAIN c.fields : c.fields[i] # tgt}
      \* a field the definition does not modify that changed anywhere
      otherBad == {i \in others :
                     FirstDiff(Mi.st[c.fields[i]].d, st0[c.fields[i]].d, 1, L.undf) # 0}
      scalBad == {i \in DOMAIN c.scalars :
                     GetScal(Mi, c.scalars[i]) # st0[c.scalars[i]].d[1]}
  IN
  IF L.undf # c.undf \/ (~random /\ ~reduction /\ tgt = "") \/ (reduction /\ c.red = "")
  THEN [v |-> "BadCase"]
  ELSE IF Mo.sig # "" THEN [v |-> "discard"]
  ELSE IF Mi.sig # "" THEN Bad("NoNewUndefined", "", 0, POISON, POISON)
  ELSE IF reduction /\ GetScal(Mi, c.red) # GetScal(Mo, c.red)
  THEN Bad("ReductionOverOwned", c.red, 0, GetScal(Mi, c.red), GetScal(Mo, c.red))
  ELSE IF random /\ (\E p \in 1..hi : <<tgt, p>> \notin Mi.wr)
  THEN LET p == CHOOSE q \in 1..hi : <<tgt, q>> \notin Mi.wr IN
       Bad("DocumentedValueInRange", tgt, p, [t |-> "notset"], [t |-> "any"])
  ELSE IF random /\ (\E p \in (hi + 1)..L.undf : <<tgt, p>> \in Mi.wr)
  THEN LET p == CHOOSE q \in (hi + 1)..L.undf : <<tgt, q>> \in Mi.wr IN
       Bad("UntouchedOutsideRange", tgt, p, [t |-> "set"], st0[tgt].d[p])
  ELSE IF ~random /\ tgt # "" /\ FirstDiff(Mi.st[tgt].d, Mo.st[tgt].d, 1, hi) # 0
  THEN LET p == FirstDiff(Mi.st[tgt].d, Mo.st[tgt].d, 1, hi) IN
       Bad("DocumentedValueInRange", tgt, p, Mi.st[tgt].d[p], Mo.st[tgt].d[p])
  ELSE IF tgt # "" /\ FirstDiff(Mi.st[tgt].d, st0[tgt].d, hi + 1, L.undf) # 0
  THEN LET p == FirstDiff(Mi.st[tgt].d, st0[tgt].d, hi + 1, L.undf) IN
       Bad("UntouchedOutsideRange", tgt, p, Mi.st[tgt].d[p], st0[tgt].d[p])
  ELSE IF otherBad # {}
  THEN LET i == CHOOSE j \in otherBad : TRUE
           nm == c.fields[i]
           p == FirstDiff(Mi.st[nm].d, st0[nm].d, 1, L.undf) IN
       Bad("UntouchedOutsideRange", nm, p, Mi.st[nm].d[p], st0[nm].d[p])
  ELSE IF scalBad # {}
  THEN LET nm == c.scalars[CHOOSE j \in scalBad : TRUE] IN
       Bad("UntouchedOutsideRange", nm, 0, GetScal(Mi, nm), st0[nm].d[1])
  ELSE Ok

\* ------------------------------------------------------------ state machine
VARIABLES cid, val, fm, nthr, verdict
vars == <<cid, val, fm, nthr, verdict>>

Init == /\ cid \in 1..Len(Cases)
        /\ val \in Valuations(Cases[cid].dom, Len(Cases[cid].dom))
        /\ fm \in SeqSet(Cases[cid].fills)
        /\ nthr \in SeqSet(Cases[cid].threads)
        /\ verdict = "run"

Step ==
  /\ verdict = "run"
  /\ LET c == Cases[cid]
         j == Judge(c, val, fm, nthr)
     IN /\ verdict' = j.v
        /\ IF j.v = "ok" THEN TRUE
           ELSE IF j.v = "discard" THEN PrintT("DISCARD " \o ToJson([id |-> c.id]))
           ELSE PrintT("VERDICT " \o ToJson([id |-> c.id, v |-> j.v,
                                               w |-> [val |-> val, fm |-> fm, threads |-> nthr,
                                                      hi |-> DocHi(c), detail |-> j]]))
  /\ UNCHANGED <<cid, val, fm, nthr>>

Spec == Init /\ [][Step]_vars

\* replay configuration: one invariant per clause (TLC error trace on violation)
DocumentedValueInRange == verdict # "DocumentedValueInRange"
UntouchedOutsideRange == verdict # "UntouchedOutsideRange"
ReductionOverOwned == verdict # "ReductionOverOwned"
NoNewUndefined == verdict # "NoNewUndefined"
===============================================================================
