\* development / binding demonstrations: one skeleton, full alphabet, length <= 2
CONSTANTS Alphabet = "full"
 MaxLen = 2
 Skels = {"B"}
INIT Init
NEXT Next
INVARIANT TypeOK
INVARIANT SkelValid
INVARIANT OpsApplicable
