------------------------------ MODULE SemRegion ------------------------------
(* C28: PSyData regions are entered and left in matched pairs.  The lowered   *)
(* program (PreStart / PostEnd calls exported as `event` statements) is run   *)
(* under FortranSem for every input of the case; the inputs are the branch    *)
(* conditions and trip counts, so every path is executed.  The event log must *)
(* be a well-nested word that is closed when the routine returns.             *)
EXTENDS FortranSem, Json, IOUtils

Cases == JsonDeserialize(IOEnv.PV_CASES)

VARIABLES cid, val, fm, verdict
vars == <<cid, val, fm, verdict>>

Init == /\ cid \in 1..Len(Cases)
        /\ val \in Valuations(Cases[cid].dom, Len(Cases[cid].dom))
        /\ fm \in SeqSet(Cases[cid].fills)
        /\ verdict = "run"

Run(c) == ExecSeq(NewMachine(InitStore(c.decls, c.dom, val, fm), c.subs, FALSE), c.body, 1)

\* scan the event log with a stack of open regions
\* result: [ok, clause, pos, stack]
RECURSIVE Scan(_, _, _)
Scan(out, i, stack) ==
  IF i > Len(out) THEN [ok |-> stack = <<>>, clause |-> "NoEscape", pos |-> i, stack |-> stack]
  ELSE LET e == out[i] IN
    IF e[1] = "start" THEN
       IF \E k \in DOMAIN stack : stack[k] = e[2]
       THEN [ok |-> FALSE, clause |-> "StartedWhileOpen", pos |-> i, stack |-> stack]
       ELSE Scan(out, i + 1, Append(stack, e[2]))
    ELSE IF e[1] = "end" THEN
       IF stack = <<>> \/ stack[Len(stack)] # e[2]
       THEN [ok |-> FALSE, clause |-> "WellNested", pos |-> i, stack |-> stack]
       ELSE Scan(out, i + 1, SubSeq(stack, 1, Len(stack) - 1))
    ELSE Scan(out, i + 1, stack)

\* region names: regs = << [var, module, region, user] >>
DupNames(regs) == {<<i, j>> \in (DOMAIN regs) \X (DOMAIN regs) :
                     /\ i < j
                     /\ regs[i].module = regs[j].module /\ regs[i].region = regs[j].region
                     /\ ~(regs[i].user /\ regs[j].user)}

Emit(c, clause, w) ==
  /\ verdict' = clause
  /\ PrintT("VERDICT " \o ToJson([id |-> c.id, v |-> clause, w |-> [val |-> val, fm |-> fm, x |-> w]]))
  /\ UNCHANGED <<cid, val, fm>>

Step ==
  LET c == Cases[cid]  M == Run(c) IN
  /\ verdict = "run"
  /\ IF M.sig \notin {"", "return"} THEN /\ verdict' = "discard"
                                         /\ PrintT("DISCARD " \o ToJson([id |-> c.id]))
                                         /\ UNCHANGED <<cid, val, fm>>
     ELSE IF DupNames(c.regions) # {} THEN Emit(c, "UniqueNames", DupNames(c.regions))
     ELSE LET r == Scan(M.out, 1, <<>>) IN
          IF ~r.ok THEN Emit(c, r.clause, [pos |-> r.pos, open |-> r.stack, log |-> M.out])
          ELSE /\ verdict' = (IF M.out = <<>> THEN "noevents" ELSE "ok")
               /\ (IF M.out = <<>> THEN PrintT("NOEVENTS " \o ToJson([id |-> c.id])) ELSE TRUE)
               /\ UNCHANGED <<cid, val, fm>>
Spec == Init /\ [][Step]_vars
===============================================================================
