--------------------------- MODULE Trace_ModuleSort ---------------------------
(* Validates lists returned by the real sort_modules against ModuleSort!Pick. *)
(* File: [n, w (bits per row), self, items]; item = <<code, mut, r_1..r_k>>:   *)
(* code is the row-major bit matrix of the map, mut = 1 iff the caller's map  *)
(* was modified, r the returned list.                                          *)
EXTENDS Naturals, Sequences, FiniteSets, TLC, Json, IOUtils

Fam   == JsonDeserialize(IOEnv.PV_CASES)
Cases == Fam.items
CaseOf(i) == [n |-> Fam.n, w |-> Fam.w, self |-> Fam.self, code |-> Cases[i][1],
              mut |-> Cases[i][2] = 1, id |-> Cases[i][1],
              res |-> SubSeq(Cases[i], 3, Len(Cases[i]))]

VARIABLES deps, sorted             \* ModuleSort's variables
VARIABLES cid, pos, verdict
M == INSTANCE ModuleSort WITH N <- 0, WithUnknown <- TRUE, WithSelf <- TRUE

Bit(code, k) == (code \div (2 ^ k)) % 2 = 1
\* row m, column j (j = n is the unknown name when w = n+1; when self-deps are
\* excluded from the encoding the row skips column m)
Decode(c) ==
  [m \in M!Mods(c.n) |->
     IF c.self
     THEN {j \in 0..(c.w - 1) : Bit(c.code, m * c.w + j)}
     ELSE {j \in (0..c.n) \ {m} : /\ (IF j < m THEN j ELSE j - 1) < c.w
                                 /\ Bit(c.code, m * c.w + (IF j < m THEN j ELSE j - 1))}]

vars == <<deps, sorted, cid, pos, verdict>>
Init == /\ cid \in 1..Len(Cases)
        /\ deps = Decode(CaseOf(cid))
        /\ sorted = <<>>
        /\ pos = 1
        /\ verdict = "run"

Fail(clause) == /\ verdict' = clause
                /\ PrintT("VERDICT " \o ToJson([id |-> Cases[cid][1], v |-> clause,
                                                 w |-> [pos |-> pos]]))
                /\ UNCHANGED <<deps, sorted, cid, pos>>

Step == LET c == CaseOf(cid) IN
  /\ verdict = "run"
  /\ IF c.mut THEN Fail("InputMutated")
     ELSE IF pos <= Len(c.res)
     THEN LET m == c.res[pos] IN
          IF M!CanPick(c.n, deps, sorted, m)
          THEN /\ sorted' = Append(sorted, m)         \* = ModuleSort!Pick(m)
               /\ pos' = pos + 1
               /\ UNCHANGED <<deps, cid, verdict>>
          ELSE Fail(IF m \notin M!Mods(c.n) THEN "NotAModule"
                    ELSE IF m \in M!SeqRange(sorted) THEN "ListedTwice"
                    ELSE "DependencyNotFirst")
     ELSE IF ~ M!Permutation(c.n, sorted) THEN Fail("Incomplete")
     ELSE IF ~ M!DepsFirst(c.n, deps, sorted) THEN Fail("DepsFirst")
     ELSE /\ verdict' = "ok" /\ UNCHANGED <<deps, sorted, cid, pos>>
Spec == Init /\ [][Step]_vars
===============================================================================
