INIT Init
NEXT Step
