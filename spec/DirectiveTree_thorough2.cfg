\* thorough: the triangular nest, full alphabet, length <= 2
CONSTANTS Alphabet = "full"
 MaxLen = 2
 Skels = {"F"}
INIT Init
NEXT Next
INVARIANT TypeOK
INVARIANT SkelValid
INVARIANT OpsApplicable
