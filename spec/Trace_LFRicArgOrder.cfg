INIT Init
NEXT Step
