CONSTANTS Items <- ItemsSmall
 MaxLen = 4
 Writer = "moves_private"
INIT Init
NEXT Next
INVARIANT InvSameOrder
