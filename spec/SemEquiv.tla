------------------------------- MODULE SemEquiv -------------------------------
(* Translation validation by execution: every program of a case (progs[1] is  *)
(* the reference, the others are what PSyclone produced from it) is run under *)
(* FortranSem from the same initial store, for every input valuation and      *)
(* array fill of the case's domain; observables must agree.                   *)
(* Inputs on which the reference is undefined are discarded (counted).        *)
EXTENDS FortranSem, Json, IOUtils

Cases == JsonDeserialize(IOEnv.PV_CASES)

VARIABLES cid, val, fm, k, ref, verdict
vars == <<cid, val, fm, k, ref, verdict>>

SubsOf(c, p) == IF "subs" \in DOMAIN p THEN p.subs ELSE c.subs
Run(c, p) ==
  LET st0 == InitStore(c.decls, c.dom, val, fm)
      M == ExecSeq(NewMachine(st0, SubsOf(c, p), FALSE), p.body, 1)
  IN IF M.sig = "return" THEN [M EXCEPT !.sig = ""] ELSE M

Init == /\ cid \in 1..Len(Cases)
        /\ val \in Valuations(Cases[cid].dom, Len(Cases[cid].dom))
        /\ fm \in SeqSet(Cases[cid].fills)
        /\ k = 1
        /\ ref = <<>>
        /\ verdict = "run"

Witness(c, names) == [val |-> val, fm |-> fm, prog |-> k, names |-> names]
Fail(c, clause, names) ==
  /\ verdict' = clause
  /\ PrintT("VERDICT " \o ToJson([id |-> c.id, v |-> clause, w |-> Witness(c, names)]))
  /\ UNCHANGED <<cid, val, fm, k, ref>>

Step ==
  LET c == Cases[cid] IN
  /\ verdict = "run"
  /\ LET M == Run(c, c.progs[k]) IN
     IF k = 1 THEN
        IF M.sig # "" THEN /\ verdict' = "discard"
                           /\ PrintT("DISCARD " \o ToJson([id |-> c.id]))
                           /\ UNCHANGED <<cid, val, fm, k, ref>>
        ELSE IF Len(c.progs) = 1
        THEN /\ verdict' = "ok" /\ UNCHANGED <<cid, val, fm, k, ref>>
        ELSE /\ ref' = [st |-> LiveOf(M, c.live), out |-> M.out]
             /\ k' = 2
             /\ UNCHANGED <<cid, val, fm, verdict>>
     ELSE
        IF M.sig # "" THEN Fail(c, "NoNewUndefined", <<>>)
        ELSE LET diff == LiveDiff(ref.st, M, c.live) IN
             IF diff # {} THEN Fail(c, "SameObservable", diff)
             ELSE IF c.cmpout /\ M.out # ref.out THEN Fail(c, "SameEvents", <<>>)
             ELSE IF k = Len(c.progs)
             THEN /\ verdict' = "ok" /\ UNCHANGED <<cid, val, fm, k, ref>>
             ELSE /\ k' = k + 1 /\ UNCHANGED <<cid, val, fm, ref, verdict>>
Spec == Init /\ [][Step]_vars
===============================================================================
