CONSTANTS MaxRuns = 3
 RunCounts = {2}
 Schemes = {"single"}
 Versions = {1}
 PreChoices = {0}
 SplitWrite = FALSE
INIT Init
NEXT Next
VIEW View
INVARIANT TypeOK
INVARIANT NoStuck
INVARIANT SingleStep
INVARIANT SingleShared
