INIT Init
NEXT Step
