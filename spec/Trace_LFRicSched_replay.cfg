\* single-case replay: a violating case stops with a TLC error trace
INIT Init
NEXT Step
INVARIANT InvSharedIncColoured
INVARIANT InvColoursSequential
