INIT Init
NEXT Step
