INIT Init
NEXT Step
