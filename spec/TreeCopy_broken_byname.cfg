\* vacuity check of the shadowing part of OwnSymbols: a Copy that re-points
\* loop variables by NAME (to the outermost copied symbol of that name) is
\* refuted right after Copy on a program whose inner scope shadows a name.
CONSTANTS RepointRoles <- AllRoles
 MaxEdits = 0
 MaxEditsFile = 0
 Wide = FALSE
 NewNames <- NamesQuick
 OpKinds <- AllOpKinds
 ProgIds <- AllProgs
 SimMode = FALSE
 LoopVarByName = TRUE
INIT Init
NEXT Next
INVARIANT InvOwnSymbols
