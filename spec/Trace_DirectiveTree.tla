-------------------------- MODULE Trace_DirectiveTree --------------------------
(* C10, binding (A)+(B): every TLC-generated history was replayed on real       *)
(* PSyIR; the recorded behaviour (which steps the real transformations          *)
(* accepted) and the directive tree itemised from the text the real             *)
(* FortranWriter produced are validated here against DirectiveTree:             *)
(*   - each recorded step is an instance of DirectiveTree!Transform (accepted)  *)
(*     or DirectiveTree!Refuse (TransformationError - always allowed);          *)
(*   - Written => DirectiveTree!Valid(projected real tree);  a failing case     *)
(*     prints a VERDICT line with every violated rule;                          *)
(*   - a real tree that differs from the model's predicted tree prints DIVERGE  *)
(*     (counted, never an alarm).                                               *)
(* File: [trees |-> <<tree...>>,                                                *)
(*        cases |-> << <<id, skel, ti, pi, ops, st>> ... >>]                    *)
(*   ti  index into trees of the tree itemised from the written text, 0 = the   *)
(*       writer refused (GenerationError): nothing was emitted, allowed         *)
(*   pi  index of the tree projected from the PSyIR nodes (divergence check)    *)
(*   ops <<t, o, c, p, lo, hi>> per step;  st  1 accepted / 0 refused per step  *)
EXTENDS Naturals, Sequences, FiniteSets, TLC, Json, IOUtils

File  == JsonDeserialize(IOEnv.PV_CASES)
Trees == File.trees
Cases == File.cases
OpOf(a) == [t |-> a[1], o |-> a[2], c |-> a[3], p |-> a[4], lo |-> a[5], hi |-> a[6]]
CaseOf(i) == LET a == Cases[i] IN
  [id |-> a[1], s |-> a[2], ti |-> a[3], pi |-> a[4],
   ops |-> [j \in DOMAIN a[5] |-> OpOf(a[5][j])], st |-> a[6]]

VARIABLES skel, tree, hist         \* DirectiveTree's variables (the MODEL tree)
VARIABLES cid, pos, verdict
DT == INSTANCE DirectiveTree WITH Alphabet <- "full", MaxLen <- 0, Skels <- {}

vars == <<skel, tree, hist, cid, pos, verdict>>
Init == /\ cid \in 1..Len(Cases)
        /\ skel = CaseOf(cid).s
        /\ tree = DT!Skel(skel)
        /\ hist = <<>>
        /\ pos = 1
        /\ verdict = "run"

Finish(v) == /\ verdict' = v
             /\ UNCHANGED <<skel, tree, hist, cid, pos>>

Step == LET c == CaseOf(cid) IN
  /\ verdict = "run"
  /\ IF pos <= Len(c.st)
     THEN \* consume one recorded step
          /\ pos' = pos + 1
          /\ UNCHANGED <<cid, verdict>>
          /\ IF c.st[pos] = 1 /\ DT!Applicable(tree, c.ops[pos])
             THEN DT!Transform(c.ops[pos])
             ELSE DT!Refuse(c.ops[pos])
     ELSE \* the whole trace is consumed: judge what was written
          LET real  == IF c.ti > 0 THEN Trees[c.ti] ELSE Trees[c.pi]
              viol  == IF c.ti > 0 THEN DT!Viol(Trees[c.ti]) ELSE {}
              div   == tree # Trees[c.pi] \/ (c.ti > 0 /\ Trees[c.ti] # Trees[c.pi])
          IN
          /\ (div => PrintT("DIVERGE " \o ToJson([id |-> c.id])))
          /\ IF viol # {}
             THEN /\ PrintT("VERDICT " \o ToJson([id |-> c.id, v |-> "NotValid", w |-> viol]))
                  /\ Finish("bad")
             ELSE Finish(IF div THEN "diverged" ELSE "ok")
Spec == Init /\ [][Step]_vars

\* single-case replay configuration: the invariant form of the relation
Written(c) == c.ti > 0
InvWrittenValid == LET c == CaseOf(cid) IN Written(c) => DT!Valid(Trees[c.ti])
===============================================================================
