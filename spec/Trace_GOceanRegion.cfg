INIT Init
NEXT Step
