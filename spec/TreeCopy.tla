------------------------------- MODULE TreeCopy -------------------------------
(* C15 - copies of PSyIR subtrees are independent and equal.                  *)
(*                                                                            *)
(* An abstract program S = [nodes, syms] (ids = positions in the sequences):  *)
(*   node = [kind, kids, par, tab, uses]   kind in file, container, routine,  *)
(*          sched (a loop/if body with its own scope), loop, if, assign, call;*)
(*          tab = the node carries a symbol table; uses = the symbol uses the *)
(*          node itself holds: <<[role, sym]>>, role in ref, loopvar, call,   *)
(*          ret (a function's return symbol);                                 *)
(*   sym  = [name, tab (owning node, 0 = in no table), cls, ifc, arr, const,  *)
(*          acc, deps]   deps = the symbols mentioned INSIDE the symbol's     *)
(*          properties: <<[role, sym]>>, role in kind (precision parameter),  *)
(*          shape (array bounds), init (initial value), ifc (container an     *)
(*          import comes from).                                               *)
(* A symbol id is an object identity; a use points at an object.  Render is   *)
(* the abstract written code: the NAMES reached through every use, the        *)
(* declarations and the node structure, addressed by paths from the root of   *)
(* the rendered tree.                                                         *)
(*                                                                            *)
(* M = [S, top, rO, rC]: rO = root of the subtree that was copied ("side O"), *)
(* rC = root of the copy ("side C", detached: par = 0).  Copy must create     *)
(* fresh nodes, fresh tables and symbols for every scope inside the subtree   *)
(* and re-point EVERY use whose role is in RepointRoles and whose target      *)
(* lives in a copied table.  The ideal Copy has RepointRoles = AllRoles; the  *)
(* cfg TreeCopy_broken*.cfg leaves out the roles inside declarations (what    *)
(* psyclone 2.5.0 does) and TLC then refutes OwnSymbols/OtherRenderUnchanged. *)
(*                                                                            *)
(* The clauses are operators over OBSERVATIONS [O, C, eq, ref] so that the    *)
(* same operators judge the model's own states (ObsOf) and the observations   *)
(* recorded from real psyclone trees (Trace_TreeCopy.tla).                    *)
EXTENDS Naturals, Sequences, FiniteSets, TLC, Json, IOUtils

CONSTANTS RepointRoles,   \* roles re-pointed by Copy
          MaxEdits,       \* edits after the copy
          MaxEditsFile,   \* ... when the whole file was copied
          Wide,           \* wider alphabet: insert at position 0 as well as at the
                          \* end, every kind-carrying scalar for chkind, one
                          \* (refused) removal of a data symbol per table
          NewNames,       \* names used by rename / add
          OpKinds,        \* enabled edit operations
          ProgIds,        \* members of the family that are explored
          SimMode,        \* one random operation per step (tlc -simulate)
          LoopVarByName   \* broken Copy: loop variables re-pointed by name

AllRoles  == {"ref", "loopvar", "call", "ret", "kind", "shape", "init", "ifc"}
NodeRoles == {"ref", "loopvar", "call", "ret"}
RolesNoDecl == {"ref", "loopvar", "call", "ret", "ifc"}    \* psyclone 2.5.0
RolesNoLoopVar == AllRoles \ {"loopvar"}
AllOpKinds == {"rename", "add", "remove", "detach", "insert", "chshape",
               "chkind", "setshaperef", "setintent"}
QuickOpKinds == AllOpKinds
NamesQuick == {"zz"}
NamesThorough == {"zz", "i"}

TCToSet(q) == {q[i] : i \in DOMAIN q}
TCSetMin(A) == CHOOSE i \in A : \A j \in A : i <= j
RECURSIVE TCSortSet(_)
TCSortSet(A) == IF A = {} THEN <<>> ELSE <<TCSetMin(A)>> \o TCSortSet(A \ {TCSetMin(A)})
TCLast(q) == q[Len(q)]

\* ------------------------------------------------------------- the family
\* The harness exports the abstract programs of its real Fortran family
\* (PV_FAMILY); a small built-in program keeps the module checkable alone:
\*   routine r { param p; array b(p); scalar i; q = p (initial value);
\*               do i = 1, p { b(i) = i } }
Nd(k, kids, par, tab, uses) == [kind |-> k, kids |-> kids, par |-> par, tab |-> tab,
                                uses |-> uses]
Sy(nm, tab, cls, arr, const, deps) == [name |-> nm, tab |-> tab, cls |-> cls,
      ifc |-> "local", arr |-> arr, const |-> const, acc |-> "", deps |-> deps]
Us(r, y) == [role |-> r, sym |-> y]
BuiltinFamily == <<
  [nodes |-> << Nd("file", <<2>>, 0, TRUE, <<>>),
                Nd("routine", <<3>>, 1, TRUE, <<>>),
                Nd("loop", <<4>>, 2, FALSE, <<Us("loopvar", 4), Us("ref", 2)>>),
                Nd("sched", <<5>>, 3, TRUE, <<>>),
                Nd("assign", <<>>, 4, FALSE, <<Us("ref", 3), Us("ref", 4), Us("ref", 4)>>) >>,
   syms  |-> << Sy("r", 2, "routine", FALSE, FALSE, <<>>),
                Sy("p", 2, "data", FALSE, TRUE, <<>>),
                Sy("b", 2, "data", TRUE, FALSE, <<Us("shape", 2)>>),
                Sy("i", 2, "data", FALSE, FALSE, <<>>),
                Sy("q", 2, "data", FALSE, FALSE, <<Us("init", 2)>>) >>] >>
Family == IF "PV_FAMILY" \in DOMAIN IOEnv THEN JsonDeserialize(IOEnv.PV_FAMILY)
          ELSE BuiltinFamily
AllProgs == 1..Len(Family)
InitM(p) == [S |-> Family[p], top |-> 1, rO |-> 0, rC |-> 0]

\* ------------------------------------------------------------ tree queries
Kids(S, n) == S.nodes[n].kids
RECURSIVE Walk(_, _, _)
RECURSIVE WalkKids(_, _, _, _)
\* pre-order <<[id, p]>> of the subtree of n; p = path of 0-based child indexes
Walk(S, n, path) == <<[id |-> n, p |-> path]>> \o WalkKids(S, n, path, 1)
WalkKids(S, n, path, i) ==
  IF i > Len(Kids(S, n)) THEN <<>>
  ELSE Walk(S, Kids(S, n)[i], Append(path, i - 1)) \o WalkKids(S, n, path, i + 1)
RECURSIVE NodeAt(_, _, _)
NodeAt(S, n, path) ==
  IF n = 0 THEN 0
  ELSE IF path = <<>> THEN n
  ELSE IF Head(path) + 1 > Len(Kids(S, n)) THEN 0
  ELSE NodeAt(S, Kids(S, n)[Head(path) + 1], Tail(path))
TabSyms(S, t)   == {y \in DOMAIN S.syms : S.syms[y].tab = t}
Named(S, t, nm) == {y \in TabSyms(S, t) : S.syms[y].name = nm}
\* scoping nodes searched from n outwards (the copy's root has par = 0)
RECURSIVE Chain(_, _)
Chain(S, n) == IF n = 0 THEN {}
               ELSE (IF S.nodes[n].tab THEN {n} ELSE {}) \cup Chain(S, S.nodes[n].par)
RECURSIVE Lookup(_, _, _)
Lookup(S, n, nm) ==
  IF n = 0 THEN 0
  ELSE IF S.nodes[n].tab /\ Named(S, n, nm) # {} THEN CHOOSE y \in Named(S, n, nm) : TRUE
  ELSE Lookup(S, S.nodes[n].par, nm)
RoleIdx(q, j) == Cardinality({k \in 1..(j - 1) : q[k].role = q[j].role})

\* --------------------------------------------------------- observations
\* uses of a tree: site (p = path of the node / of the scope, s = "" / name of
\* the declared symbol, r = role, i = index among the uses of that role),
\* nm = the name reached, tgt = the object reached
UseRecs(S, p, s, q) == {[p |-> p, s |-> s, r |-> q[j].role, i |-> RoleIdx(q, j),
                         nm |-> S.syms[q[j].sym].name, tgt |-> q[j].sym] : j \in DOMAIN q}
\* (U = the uses without the identity reached, no = the node identities: both
\* derived, kept in the record so that they are computed once per side)
Strip(u) == {[p |-> x.p, s |-> x.s, r |-> x.r, i |-> x.i, nm |-> x.nm] : x \in u}
\* s = the symbol objects of the side's tables, st = which table (path of its
\* scope) each of them lives in
EmptySide == [tw |-> FALSE, t |-> 0, D |-> {}, N |-> {}, u |-> {}, U |-> {}, n |-> {},
              no |-> {}, s |-> {}, st |-> {}]
SideObs(S, root) ==
  IF root = 0 THEN EmptySide
  ELSE LET W  == TCToSet(Walk(S, root, <<>>))
           D  == UNION {{[p |-> w.p, s |-> S.syms[y].name, cls |-> S.syms[y].cls,
                          ifc |-> S.syms[y].ifc, arr |-> S.syms[y].arr,
                          const |-> S.syms[y].const, acc |-> S.syms[y].acc]
                         : y \in TabSyms(S, w.id)} : w \in W}
           N  == {[p |-> w.p, k |-> S.nodes[w.id].kind] : w \in W}
           u  == UNION {UseRecs(S, w.p, "", S.nodes[w.id].uses) : w \in W}
                 \cup UNION {UNION {UseRecs(S, w.p, S.syms[y].name, S.syms[y].deps)
                                    : y \in TabSyms(S, w.id)} : w \in W}
           sy == UNION {TabSyms(S, w.id) : w \in W}
           n  == {[o |-> w.id, cat |-> "tree"] : w \in W}
                 \cup UNION {{[o |-> 1000 * y + j, cat |-> S.syms[y].deps[j].role]
                              : j \in {k \in DOMAIN S.syms[y].deps :
                                         S.syms[y].deps[k].role \in {"shape", "init"}}}
                             : y \in sy}
           U  == Strip(u)
       IN [tw |-> TRUE, D |-> D, N |-> N, u |-> u, U |-> U, n |-> n,
           no |-> {x.o : x \in n}, s |-> sy,
           st |-> UNION {{[o |-> y, tp |-> w.p] : y \in TabSyms(S, w.id)} : w \in W},
           \* the model's "written text" is the render itself
           t |-> [D |-> D, N |-> N, U |-> U]]
ObsOf(M) == [O |-> SideObs(M.S, M.rO), C |-> SideObs(M.S, M.rC),
             eq |-> TRUE, ref |-> FALSE]
Site(x)  == [p |-> x.p, s |-> x.s, r |-> x.r, i |-> x.i]
RenderEq(a, b) == a.D = b.D /\ a.N = b.N /\ a.U = b.U
RenderDiff(a, b) == [Dgone |-> a.D \ b.D, Dnew |-> b.D \ a.D,
                     Ngone |-> a.N \ b.N, Nnew |-> b.N \ a.N,
                     Ugone |-> a.U \ b.U, Unew |-> b.U \ a.U]

\* ------------------------------------------------------------ the clauses
\* Each returns a sequence of [v |-> clause, w |-> witness] (empty = holds).
\* NoSharedNode: no node object is reachable from both trees (statement and
\* expression nodes, and the nodes owned by declarations of their tables).
VNoShared(ob) ==
  LET sh == ob.O.no \cap ob.C.no
  IN IF sh = {} THEN <<>>
     ELSE <<[v |-> "NoSharedNode", w |-> [cats |-> {x.cat : x \in {y \in ob.O.n : y.o \in sh}},
                                           count |-> Cardinality(sh)]]>>
\* OwnSymbols: no use of one tree reaches a symbol object of a table of the
\* other tree, the tables share no symbol object; right after Copy every use
\* of the copy whose original resolved into a copied table resolves into the
\* CORRESPONDING table of the copy (the scope at the same path) - with
\* shadowed names a use must not slip to a same-named symbol of another scope.
SameTable(ob, yo, xc) == \E a \in ob.O.st : \E b \in ob.C.st :
                            a.o = yo /\ b.o = xc /\ a.tp = b.tp
VOwn(ob, first) ==
  LET badC == {x \in ob.C.u : x.tgt \in ob.O.s}
      badO == {x \in ob.O.u : x.tgt \in ob.C.s}
      unm  == IF ~ first THEN {}
              ELSE {x \in ob.C.u :
                      \E y \in ob.O.u : Site(y) = Site(x) /\ y.tgt \in ob.O.s
                                         /\ ~ SameTable(ob, y.tgt, x.tgt)}
      shs  == ob.O.s \cap ob.C.s
      bad  == {[side |-> "C", p |-> x.p, s |-> x.s, r |-> x.r, i |-> x.i, nm |-> x.nm]
                 : x \in badC \cup unm}
              \cup {[side |-> "O", p |-> x.p, s |-> x.s, r |-> x.r, i |-> x.i, nm |-> x.nm]
                      : x \in badO}
  IN IF bad = {} /\ shs = {} THEN <<>>
     ELSE <<[v |-> "OwnSymbols", w |-> [uses |-> bad, sharedsyms |-> Cardinality(shs)]]>>
\* EqualAfterCopy: right after Copy the copy compares equal to the original
\* (real ==), is written identically and renders identically.
VEqual(ob) ==
  IF ~ (ob.O.tw /\ ob.C.tw) THEN <<[v |-> "TextMissing", w |-> [side |-> "OC"]]>>
  ELSE IF ob.eq /\ ob.O.t = ob.C.t /\ RenderEq(ob.O, ob.C) THEN <<>>
  ELSE <<[v |-> "EqualAfterCopy", w |-> [eq |-> ob.eq, text |-> ob.O.t # ob.C.t,
                                          diff |-> RenderDiff(ob.O, ob.C)]]>>
\* OtherRenderUnchanged: the operation (Copy itself counts as an operation on
\* the copy) leaves the written code of the other tree unchanged.
VOther(pre, op, post) ==
  LET X == IF op.name = "copy" THEN "O" ELSE IF op.side = "O" THEN "C" ELSE "O"
      a == pre[X]
      b == post[X]
  IN IF ~ (a.tw /\ b.tw) THEN <<[v |-> "TextMissing", w |-> [side |-> X]]>>
     ELSE IF a.t = b.t /\ RenderEq(a, b) THEN <<>>
     ELSE <<[v |-> "OtherRenderUnchanged", w |-> [side |-> X, text |-> a.t # b.t,
                                                   diff |-> RenderDiff(a, b)]]>>
Verdicts(pre, op, post, first) ==
  (IF first THEN VEqual(post) ELSE <<>>) \o VNoShared(post) \o VOwn(post, first)
  \o VOther(pre, op, post)
HasVerdict(V, name) == \E i \in DOMAIN V : V[i].v = name

\* ----------------------------------------------------------- the operations
\* Eff(M, op) = [out |-> "ok" | "ref", M |-> post]; a refusal changes nothing.
Ok(M)     == [out |-> "ok", M |-> M]
Refuse(M) == [out |-> "ref", M |-> M]
SideRoot(M, sd) == IF sd = "O" THEN M.rO ELSE M.rC

EffCopy(M, op) ==
  LET S == M.S
      r == NodeAt(S, M.top, op.path)
  IN IF r = 0 \/ M.rC # 0 THEN Refuse(M)
     ELSE
     LET W  == Walk(S, r, <<>>)
         nn == Len(S.nodes)
         ns == Len(S.syms)
         T  == {W[i].id : i \in DOMAIN W}
         Y  == TCSortSet({y \in DOMAIN S.syms : S.syms[y].tab \in T})
         NMap(n) == nn + (CHOOSE i \in DOMAIN W : W[i].id = n)
         InY(y)  == \E i \in DOMAIN Y : Y[i] = y
         SMap(y) == ns + (CHOOSE i \in DOMAIN Y : Y[i] = y)
         \* (broken variant) the outermost copied scope that has a symbol of
         \* that name wins, whatever scope the loop variable belongs to
         ByName(y) == LET c == {z \in TCToSet(Y) : S.syms[z].name = S.syms[y].name}
                      IN IF c = {} THEN y ELSE SMap(TCSetMin(c))
         Remap(q) == [j \in DOMAIN q |->
                        IF LoopVarByName /\ q[j].role = "loopvar"
                        THEN [role |-> q[j].role, sym |-> ByName(q[j].sym)]
                        ELSE IF q[j].role \in RepointRoles /\ InY(q[j].sym)
                        THEN [role |-> q[j].role, sym |-> SMap(q[j].sym)] ELSE q[j]]
         newNodes == [i \in DOMAIN W |->
                        LET n == S.nodes[W[i].id]
                        IN [n EXCEPT !.kids = [j \in DOMAIN n.kids |-> NMap(n.kids[j])],
                                     !.par  = IF i = 1 THEN 0 ELSE NMap(n.par),
                                     !.uses = Remap(n.uses)]]
         newSyms  == [i \in DOMAIN Y |->
                        LET y == S.syms[Y[i]]
                        IN [y EXCEPT !.tab = NMap(y.tab), !.deps = Remap(y.deps)]]
     IN Ok([M EXCEPT !.S = [nodes |-> S.nodes \o newNodes, syms |-> S.syms \o newSyms],
                     !.rO = r, !.rC = nn + 1])

Renamable(x) == x.cls # "container" /\ x.ifc \notin {"import", "unres", "arg"}
\* the symbol called nm of the table of the scope at path (0: none)
OwnSym(M, op) ==
  LET sn == NodeAt(M.S, SideRoot(M, op.side), op.scope)
  IN IF sn = 0 THEN 0
     ELSE IF ~ M.S.nodes[sn].tab \/ Named(M.S, sn, op.sym) = {} THEN 0
     ELSE CHOOSE y \in Named(M.S, sn, op.sym) : TRUE
ScopeOf(M, op) == NodeAt(M.S, SideRoot(M, op.side), op.scope)
Sel(q, role) == SelectSeq(q, LAMBDA d : d.role = role)

EffRename(M, op) ==
  LET y == OwnSym(M, op)
  IN IF y = 0 THEN Refuse(M)
     ELSE IF ~ Renamable(M.S.syms[y]) \/ Named(M.S, ScopeOf(M, op), op.new) # {}
     THEN Refuse(M)
     ELSE Ok([M EXCEPT !.S.syms[y].name = op.new])

EffAdd(M, op) ==
  LET sn == ScopeOf(M, op)
  IN IF sn = 0 THEN Refuse(M)
     ELSE IF ~ M.S.nodes[sn].tab \/ Named(M.S, sn, op.new) # {} THEN Refuse(M)
     ELSE Ok([M EXCEPT !.S.syms = Append(@, [name |-> op.new, tab |-> sn, cls |-> "data",
                 ifc |-> "local", arr |-> FALSE, const |-> FALSE, acc |-> "",
                 deps |-> <<>>])])

EffRemove(M, op) ==
  LET S  == M.S
      y  == OwnSym(M, op)
      sn == ScopeOf(M, op)
  IN IF y = 0 THEN Refuse(M)
     ELSE IF S.syms[y].cls \notin {"container", "routine", "generic"} THEN Refuse(M)
     ELSE IF S.syms[y].cls = "container" /\
             \E z \in TabSyms(S, sn) : \E j \in DOMAIN S.syms[z].deps :
                 S.syms[z].deps[j] = [role |-> "ifc", sym |-> y]
     THEN Refuse(M)
     ELSE IF S.syms[y].cls = "routine" /\
             \E w \in TCToSet(Walk(S, sn, <<>>)) : \E j \in DOMAIN S.nodes[w.id].uses :
                 S.nodes[w.id].uses[j] = [role |-> "call", sym |-> y]
     THEN Refuse(M)
     ELSE Ok([M EXCEPT !.S.syms[y].tab = 0])

DetachParents == {"file", "container", "routine", "sched"}
EffDetach(M, op) ==
  LET S == M.S
      n == NodeAt(S, SideRoot(M, op.side), op.path)
  IN IF n = 0 \/ op.path = <<>> THEN Refuse(M)
     ELSE LET pn == S.nodes[n].par
          IN IF S.nodes[pn].kind \notin DetachParents THEN Refuse(M)
             ELSE Ok([M EXCEPT !.S.nodes[pn].kids = SelectSeq(@, LAMBDA x : x # n),
                               !.S.nodes[n].par = 0])

EffInsert(M, op) ==
  LET S  == M.S
      pn == NodeAt(S, SideRoot(M, op.side), op.path)
  IN IF pn = 0 THEN Refuse(M)
     ELSE LET y == Lookup(S, pn, op.sym)
              k == S.nodes[pn].kids
              id == Len(S.nodes) + 1
          IN IF y = 0 \/ S.nodes[pn].kind \notin {"routine", "sched"} \/ op.pos > Len(k)
             THEN Refuse(M)
             ELSE Ok([M EXCEPT
                  !.S.nodes = Append([@ EXCEPT ![pn].kids =
                                   SubSeq(k, 1, op.pos) \o <<id>> \o SubSeq(k, op.pos + 1, Len(k))],
                                [kind |-> "assign", kids |-> <<>>, par |-> pn, tab |-> FALSE,
                                 uses |-> <<[role |-> "ref", sym |-> y],
                                            [role |-> "ref", sym |-> y]>>])])

\* a new ArrayType with one symbolic bound / a new ScalarType with a symbolic
\* precision is assigned to the symbol's datatype
EffChShape(M, op) ==
  LET y == OwnSym(M, op)
      z == IF ScopeOf(M, op) = 0 THEN 0 ELSE Lookup(M.S, ScopeOf(M, op), op.dep)
  IN IF y = 0 \/ z = 0 THEN Refuse(M)
     ELSE IF ~ M.S.syms[y].arr THEN Refuse(M)
     ELSE LET d == M.S.syms[y].deps
          IN Ok([M EXCEPT !.S.syms[y].deps = Sel(d, "kind") \o <<[role |-> "shape", sym |-> z]>>
                                              \o Sel(d, "init") \o Sel(d, "ifc")])
EffChKind(M, op) ==
  LET y == OwnSym(M, op)
      z == IF ScopeOf(M, op) = 0 THEN 0 ELSE Lookup(M.S, ScopeOf(M, op), op.dep)
  IN IF y = 0 \/ z = 0 THEN Refuse(M)
     ELSE IF M.S.syms[y].arr \/ M.S.syms[y].cls # "data" THEN Refuse(M)
     ELSE LET d == M.S.syms[y].deps
          IN Ok([M EXCEPT !.S.syms[y].deps = <<[role |-> "kind", sym |-> z]>> \o Sel(d, "shape")
                                              \o Sel(d, "init") \o Sel(d, "ifc")])
\* in-place edits of objects owned by the symbol: the symbol of the first
\* Reference inside the array bounds; the access of the argument interface
EffSetShapeRef(M, op) ==
  LET y == OwnSym(M, op)
      z == IF ScopeOf(M, op) = 0 THEN 0 ELSE Lookup(M.S, ScopeOf(M, op), op.dep)
  IN IF y = 0 \/ z = 0 THEN Refuse(M)
     ELSE LET d  == M.S.syms[y].deps
              js == {j \in DOMAIN d : d[j].role = "shape"}
          IN IF js = {} THEN Refuse(M)
             ELSE Ok([M EXCEPT !.S.syms[y].deps[TCSetMin(js)].sym = z])
EffSetIntent(M, op) ==
  LET y == OwnSym(M, op)
  IN IF y = 0 THEN Refuse(M)
     ELSE IF M.S.syms[y].ifc # "arg" THEN Refuse(M)
     ELSE Ok([M EXCEPT !.S.syms[y].acc = op.acc])

Eff(M, op) ==
  CASE op.name = "copy"        -> EffCopy(M, op)
    [] op.name = "rename"      -> EffRename(M, op)
    [] op.name = "add"         -> EffAdd(M, op)
    [] op.name = "remove"      -> EffRemove(M, op)
    [] op.name = "detach"      -> EffDetach(M, op)
    [] op.name = "insert"      -> EffInsert(M, op)
    [] op.name = "chshape"     -> EffChShape(M, op)
    [] op.name = "chkind"      -> EffChKind(M, op)
    [] op.name = "setshaperef" -> EffSetShapeRef(M, op)
    [] op.name = "setintent"   -> EffSetIntent(M, op)
RECURSIVE Run(_, _)
Run(M, ops) == IF ops = <<>> THEN M ELSE Run(Eff(M, Head(ops)).M, Tail(ops))

\* ------------------------------------------------------------ the alphabet
\* Operations are id-free (paths from the root of a side, names) so that the
\* harness can apply them to real trees.
MinOf(A) == IF A = {} THEN {} ELSE {TCSetMin(A)}
\* candidate bounds / kinds: the first and the last visible parameter
ConstNames(S, n) == LET cs == {z \in UNION {TabSyms(S, t) : t \in Chain(S, n)} : S.syms[z].const}
                    IN IF cs = {} THEN {}
                       ELSE {S.syms[TCSetMin(cs)].name,
                             S.syms[CHOOSE i \in cs : \A j \in cs : j <= i].name}
PlainScalars(S, t) == {y \in TabSyms(S, t) : S.syms[y].cls = "data" /\ ~ S.syms[y].arr
                          /\ ~ S.syms[y].const /\ S.syms[y].ifc = "local"}
SideOps(M, sd) ==
  LET S    == M.S
      W    == TCToSet(Walk(S, SideRoot(M, sd), <<>>))
      Sc   == {w \in W : S.nodes[w.id].tab}
      nm(y) == S.syms[y].name
  IN
  (IF "rename" \notin OpKinds THEN {} ELSE
   UNION {{[name |-> "rename", side |-> sd, scope |-> w.p, sym |-> nm(y), new |-> x]
             : y \in TabSyms(S, w.id), x \in NewNames} : w \in Sc})
  \cup (IF "add" \notin OpKinds THEN {} ELSE
   {[name |-> "add", side |-> sd, scope |-> w.p, new |-> x] : w \in Sc, x \in NewNames})
  \cup (IF "remove" \notin OpKinds THEN {} ELSE
   UNION {{[name |-> "remove", side |-> sd, scope |-> w.p, sym |-> nm(y)]
             : y \in {z \in TabSyms(S, w.id) : S.syms[z].cls # "data"}
                     \cup (IF Wide THEN MinOf({z \in TabSyms(S, w.id) : S.syms[z].cls = "data"})
                           ELSE {})}
          : w \in Sc})
  \cup (IF "detach" \notin OpKinds THEN {} ELSE
   {[name |-> "detach", side |-> sd, path |-> w.p]
      : w \in {v \in W : v.p # <<>> /\ S.nodes[S.nodes[v.id].par].kind \in DetachParents}})
  \cup (IF "insert" \notin OpKinds THEN {} ELSE
   UNION {{[name |-> "insert", side |-> sd, path |-> w.p, pos |-> ps, sym |-> nm(y)]
             : ps \in (IF Wide THEN {0} ELSE {}) \cup {Len(Kids(S, w.id))},
               y \in UNION {MinOf(PlainScalars(S, t)) : t \in Chain(S, w.id)}}
          : w \in {v \in W : S.nodes[v.id].kind \in {"routine", "sched"}}})
  \cup (IF "chshape" \notin OpKinds THEN {} ELSE
   UNION {{[name |-> "chshape", side |-> sd, scope |-> w.p, sym |-> nm(y), dep |-> z]
             : y \in {v \in TabSyms(S, w.id) : S.syms[v].arr}, z \in ConstNames(S, w.id)}
          : w \in Sc})
  \cup (IF "chkind" \notin OpKinds THEN {} ELSE
   UNION {{[name |-> "chkind", side |-> sd, scope |-> w.p, sym |-> nm(y), dep |-> z]
             : y \in (LET ks == {v \in TabSyms(S, w.id) : S.syms[v].cls = "data" /\
                                   ~ S.syms[v].arr /\ ~ S.syms[v].const /\
                                   S.syms[v].ifc \in {"local", "arg"} /\
                                   \E j \in DOMAIN S.syms[v].deps :
                                        S.syms[v].deps[j].role = "kind"}
                      IN IF Wide THEN ks ELSE MinOf(ks))
                     \cup MinOf(PlainScalars(S, w.id)),
               z \in ConstNames(S, w.id)}
          : w \in Sc})
  \cup (IF "setshaperef" \notin OpKinds THEN {} ELSE
   UNION {{[name |-> "setshaperef", side |-> sd, scope |-> w.p, sym |-> nm(y), dep |-> z]
             : y \in {v \in TabSyms(S, w.id) :
                        \E j \in DOMAIN S.syms[v].deps : S.syms[v].deps[j].role = "shape"},
               z \in ConstNames(S, w.id)}
          : w \in Sc})
  \cup (IF "setintent" \notin OpKinds THEN {} ELSE
   UNION {{[name |-> "setintent", side |-> sd, scope |-> w.p, sym |-> nm(y), acc |-> "WRITE"]
             : y \in {v \in TabSyms(S, w.id) : S.syms[v].ifc = "arg"}}
          : w \in Sc})
Ops(M) == IF M.rC = 0
          THEN {[name |-> "copy", path |-> w.p] : w \in TCToSet(Walk(M.S, M.top, <<>>))}
          ELSE SideOps(M, "O") \cup SideOps(M, "C")

\* ------------------------------------------------------------ the machine
VARIABLES prog, m, pm, hist, lastref
vars == <<prog, m, pm, hist, lastref>>
Init == /\ prog \in ProgIds
        /\ m = InitM(prog)
        /\ pm = m
        /\ hist = <<>>
        /\ lastref = FALSE
Do(op) == LET e == Eff(m, op)
          IN /\ m' = e.M
             /\ pm' = m
             /\ hist' = Append(hist, op)
             /\ lastref' = (e.out = "ref")
             /\ UNCHANGED prog
EditBound == IF m.rO # 0 /\ m.S.nodes[m.rO].kind = "file" THEN MaxEditsFile ELSE MaxEdits
Next == /\ Len(hist) < 1 + EditBound
        /\ IF SimMode THEN \E op \in {RandomElement(Ops(m))} : Do(op)
           ELSE \E op \in Ops(m) : Do(op)
Spec == Init /\ [][Next]_vars

\* the observation before an operation; before Copy, side O is the subtree
\* that is about to be copied (Copy must not change its written code)
PreObsFor(M, op) ==
  IF op.name = "copy"
  THEN [ObsOf(M) EXCEPT !.O = SideObs(M.S, NodeAt(M.S, M.top, op.path))]
  ELSE ObsOf(M)
\* the model's own behaviours satisfy every clause
Cur == [ObsOf(m) EXCEPT !.ref = lastref]
CurVerdicts == IF hist = <<>> THEN <<>>
               ELSE Verdicts(PreObsFor(pm, TCLast(hist)), TCLast(hist), Cur, Len(hist) = 1)
InvAll                  == CurVerdicts = <<>>
InvEqualAfterCopy       == ~ HasVerdict(CurVerdicts, "EqualAfterCopy")
InvNoSharedNode         == ~ HasVerdict(CurVerdicts, "NoSharedNode")
InvOwnSymbols           == ~ HasVerdict(CurVerdicts, "OwnSymbols")
InvOtherRenderUnchanged == ~ HasVerdict(CurVerdicts, "OtherRenderUnchanged")

\* binding A: every history (= every reachable state) is printed once
DumpHist == (hist # <<>>) =>
              PrintT("HIST " \o ToJson([p |-> prog, h |-> hist, r |-> lastref]))
DumpSim == (Len(hist) = 1 + EditBound) =>
              PrintT("HIST " \o ToJson([p |-> prog, h |-> hist, r |-> lastref]))
=============================================================================
