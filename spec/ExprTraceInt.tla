------------------------------ MODULE ExprTraceInt -----------------------------
(* C17 - validates answers of the real SymbolicMaths against the integer       *)
(* meaning of expressions (FortranExpr!EvalInt).  A case is                    *)
(*   [id, q, e1, e2, vars, arr, eq, ne, sym, sols, x]                          *)
(* q = "cmp":    eq / ne = 1 iff equal(e1,e2) / never_equal(e1,e2) said True   *)
(* q = "solve":  sols = the solutions reported for e1 = e2 solved for sym      *)
(*               (trees; a rational a/b appears as the exact quotient "exdiv") *)
(* q = "expand": x = the expression expand(e1) left in the tree                *)
(* vars = names occurring, arr = 1 iff an array element occurs.                *)
(* Every clause quantifies over ALL valuations of vars in -RMax..RMax (and the *)
(* array-function family); valuations for which a side is undefined (division *)
(* by zero, 0**0, magnitude bound) are excluded.                               *)
EXTENDS FortranExpr, Json, IOUtils
CONSTANT RMax

Cases == JsonDeserialize(IOEnv.PV_CASES)
R == (0 - RMax)..RMax

VARIABLES cid, verdict
vars == <<cid, verdict>>
Init == /\ cid \in 1..Len(Cases)
        /\ verdict = "run"

NameSet(c) == {c.vars[i] : i \in DOMAIN c.vars}
Vals(c) == {[x |-> f, fn |-> g] : f \in [NameSet(c) -> R],
                                  g \in (IF c.arr = 1 THEN ArrFns ELSE {1})}

BothDefined(a, b) == a.d = 1 /\ b.d = 1
SameAt(e1, e2, v) == LET a == EvalInt(e1, v)
                         b == EvalInt(e2, v)
                     IN BothDefined(a, b) => a.v = b.v
DifferAt(e1, e2, v) == LET a == EvalInt(e1, v)
                           b == EvalInt(e2, v)
                       IN BothDefined(a, b) => a.v # b.v
\* substituting a reported solution for sym satisfies the equation
SolvesAt(c, s, v) == LET sv == EvalInt(s, v) IN
                     sv.d = 1 => SameAt(c.e1, c.e2, [v EXCEPT !.x[c.sym] = sv.v])

EqualSound(c)      == (c.q = "cmp" /\ c.eq = 1) => \A v \in Vals(c) : SameAt(c.e1, c.e2, v)
NeverEqualSound(c) == (c.q = "cmp" /\ c.ne = 1) => \A v \in Vals(c) : DifferAt(c.e1, c.e2, v)
SolutionSound(c)   == c.q = "solve" =>
                        \A k \in DOMAIN c.sols : \A v \in Vals(c) : SolvesAt(c, c.sols[k], v)
ExpandSound(c)     == c.q = "expand" => \A v \in Vals(c) : SameAt(c.e1, c.x, v)

\* anything outside the integer model is a machinery problem, never a verdict
Trees(c) == <<c.e1, c.e2, c.x>> \o c.sols
Unsupported(c) == \E k \in DOMAIN Trees(c) : ~ IsIntTree(Trees(c)[k], NameSet(c))

Witness(c, clause) ==
  CASE clause = "EqualSound"      -> CHOOSE v \in Vals(c) : ~ SameAt(c.e1, c.e2, v)
    [] clause = "NeverEqualSound" -> CHOOSE v \in Vals(c) : ~ DifferAt(c.e1, c.e2, v)
    [] clause = "ExpandSound"     -> CHOOSE v \in Vals(c) : ~ SameAt(c.e1, c.x, v)
    [] clause = "SolutionSound"   ->
         CHOOSE v \in Vals(c) : \E k \in DOMAIN c.sols : ~ SolvesAt(c, c.sols[k], v)
Show(c, clause) ==
  LET v == Witness(c, clause) IN
  IF clause = "SolutionSound"
  THEN LET k  == CHOOSE k \in DOMAIN c.sols : ~ SolvesAt(c, c.sols[k], v)
           sv == EvalInt(c.sols[k], v).v
           v2 == [v EXCEPT !.x[c.sym] = sv]
       IN [val |-> v2.x, fn |-> v.fn, sol |-> k, a |-> EvalInt(c.e1, v2).v,
           b |-> EvalInt(c.e2, v2).v]
  ELSE [val |-> v.x, fn |-> v.fn, sol |-> 0, a |-> EvalInt(c.e1, v).v,
        b |-> EvalInt(IF clause = "ExpandSound" THEN c.x ELSE c.e2, v).v]

Failing(c) ==
  IF Unsupported(c) THEN <<"Unsupported">>
  ELSE (IF EqualSound(c) THEN <<>> ELSE <<"EqualSound">>)
    \o (IF NeverEqualSound(c) THEN <<>> ELSE <<"NeverEqualSound">>)
    \o (IF SolutionSound(c) THEN <<>> ELSE <<"SolutionSound">>)
    \o (IF ExpandSound(c) THEN <<>> ELSE <<"ExpandSound">>)

Step ==
  /\ verdict = "run"
  /\ LET c   == Cases[cid]
         bad == Failing(c)
     IN /\ verdict' = IF bad = <<>> THEN "ok" ELSE "fail"
        /\ bad # <<>> =>
             PrintT("VERDICT " \o ToJson([id |-> c.id, v |-> bad,
                      w |-> IF bad[1] = "Unsupported" THEN [val |-> <<>>]
                            ELSE Show(c, bad[1])]))
  /\ UNCHANGED cid
Spec == Init /\ [][Step]_vars

\* replay configuration (single case): real invariants
InvEqualSound      == verdict = "run" => EqualSound(Cases[cid])
InvNeverEqualSound == verdict = "run" => NeverEqualSound(Cases[cid])
InvSolutionSound   == verdict = "run" => SolutionSound(Cases[cid])
InvExpandSound     == verdict = "run" => ExpandSound(Cases[cid])
===============================================================================
