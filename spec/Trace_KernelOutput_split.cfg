CONSTANT SplitWrite = TRUE
INIT Init
NEXT Next
