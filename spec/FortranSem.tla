------------------------------ MODULE FortranSem ------------------------------
(* Operational semantics of the PSyIR/Fortran subset used by the semantic     *)
(* checks (C01 C05 C06 C07 C08 C09 C11 C12 C13 C19 C20 C25 C28).              *)
(*                                                                            *)
(* Programs are pv-ast values (DESIGN.md Appendix A) read from JSON.  A       *)
(* machine M = [st, env, sig, rd, ard, wr, out, iters, trk, subs, fuel]:      *)
(*   st    store:  base name -> cell [ty, lo, ex, d]  (scalars are rank 0)    *)
(*   env   formal name -> descriptor [base, lo, ex, mul, off] (by-reference   *)
(*         binding of dummy arguments to the caller's storage)                *)
(*   sig   "" | "exit" | "cycle" | "return" | "ub"                            *)
(*   rd    locations read before being written (upward exposed), ard all      *)
(*         reads, wr all writes (only maintained when trk)                    *)
(*   out   observable event log (region start/end, kernel calls, prints)      *)
(*   iters per-iteration access records of the marked loop                    *)
(* ExecStmt is the transition relation at statement granularity; drivers      *)
(* (SemEquiv, SemAccess, SemOmp, ...) schedule it.                            *)
EXTENDS Integers, Sequences, FiniteSets, TLC

\* ------------------------------------------------------------------ values
VI(v)   == [t |-> "i", v |-> v]
VL(b)   == [t |-> "l", b |-> b]
POISON  == [t |-> "p"]
IsP(x)  == x.t = "p"
IsNum(x) == x.t = "i" \/ x.t = "r"
IsArr(x) == x.t = "a"

FAbs(x) == IF x < 0 THEN -x ELSE x
RECURSIVE FGcd(_, _)
FGcd(a, b) == IF b = 0 THEN a ELSE FGcd(b, a % b)
\* truncating integer division (Fortran), b # 0
TDiv(a, b) == LET q == FAbs(a) \div FAbs(b) IN IF (a < 0) = (b < 0) THEN q ELSE -q
TMod(a, b) == a - b * TDiv(a, b)                 \* MOD: sign of the dividend
FModulo(a, b) == a - b * (IF (a < 0) # (b < 0) /\ TMod(a, b) # 0
                          THEN TDiv(a, b) - 1 ELSE TDiv(a, b))
VR(n, d) == LET s == IF d < 0 THEN -1 ELSE 1
                g == FGcd(FAbs(n), FAbs(d))
            IN  [t |-> "r", n |-> (s * n) \div g, d |-> (s * d) \div g]
ToR(x) == IF x.t = "i" THEN [t |-> "r", n |-> x.v, d |-> 1] ELSE x
FMax(a, b) == IF a >= b THEN a ELSE b
FMin(a, b) == IF a <= b THEN a ELSE b
RECURSIVE IPow(_, _)
IPow(b, e) == IF e = 0 THEN 1 ELSE b * IPow(b, e - 1)

RLess(x, y) == x.n * y.d < y.n * x.d
REq(x, y)   == x.n * y.d = y.n * x.d

\* TLC has 32-bit integers and aborts on overflow.  Operands whose magnitude exceeds
\* BigBound are outside the exact domain: an operation on them is undefined (POISON),
\* so a program that leaves the domain is discarded (reference) or reported as newly
\* undefined (variant) instead of crashing the model checker.  Products of two
\* in-domain operands (< 9*10^8) and sums of two such products stay below 2^31.
BigBound == 30000
Big(x) == IF x.t = "i" THEN FAbs(x.v) > BigBound
          ELSE IF x.t = "r" THEN FAbs(x.n) > BigBound \/ x.d > BigBound
          ELSE FALSE
RECURSIVE IPowS(_, _)      \* <<ok, b^e>> with the same guard at every step
IPowS(b, e) == IF e = 0 THEN <<TRUE, 1>>
               ELSE LET r == IPowS(b, e - 1) IN
                    IF ~r[1] \/ FAbs(r[2]) > BigBound \/ FAbs(b) > BigBound THEN <<FALSE, 0>>
                    ELSE <<TRUE, b * r[2]>>

\* scalar binary operation on two scalar values
ScalBin(op, x, y) ==
  IF IsP(x) \/ IsP(y) THEN POISON
  ELSE IF Big(x) \/ Big(y) THEN POISON
  ELSE IF op \in {"and", "or", "eqv", "neqv"} THEN
     IF x.t # "l" \/ y.t # "l" THEN POISON
     ELSE (CASE op = "and"  -> VL(x.b /\ y.b)
             [] op = "or"   -> VL(x.b \/ y.b)
             [] op = "eqv"  -> VL(x.b = y.b)
             [] op = "neqv" -> VL(x.b # y.b))
  ELSE IF ~IsNum(x) \/ ~IsNum(y) THEN POISON
  ELSE IF x.t = "i" /\ y.t = "i" THEN
     (CASE op = "+"  -> VI(x.v + y.v)
        [] op = "-"  -> VI(x.v - y.v)
        [] op = "*"  -> VI(x.v * y.v)
        [] op = "/"  -> IF y.v = 0 THEN POISON ELSE VI(TDiv(x.v, y.v))
        [] op = "**" -> IF y.v >= 0 THEN (IF y.v > 40 /\ FAbs(x.v) > 1 THEN POISON
                                          ELSE LET r == IPowS(x.v, y.v) IN
                                               IF r[1] THEN VI(r[2]) ELSE POISON)
                        ELSE IF x.v = 0 THEN POISON
                        ELSE IF x.v = 1 THEN VI(1)
                        ELSE IF x.v = -1 THEN VI(IF y.v % 2 = 0 THEN 1 ELSE -1)
                        ELSE VI(0)
        [] op = "==" -> VL(x.v = y.v)
        [] op = "/=" -> VL(x.v # y.v)
        [] op = "<"  -> VL(x.v < y.v)
        [] op = "<=" -> VL(x.v <= y.v)
        [] op = ">"  -> VL(x.v > y.v)
        [] op = ">=" -> VL(x.v >= y.v)
        [] OTHER     -> POISON)
  ELSE LET a == ToR(x)  b == ToR(y) IN
     (CASE op = "+"  -> VR(a.n * b.d + b.n * a.d, a.d * b.d)
        [] op = "-"  -> VR(a.n * b.d - b.n * a.d, a.d * b.d)
        [] op = "*"  -> VR(a.n * b.n, a.d * b.d)
        [] op = "/"  -> IF b.n = 0 THEN POISON ELSE VR(a.n * b.d, a.d * b.n)
        [] op = "**" -> IF y.t # "i" THEN POISON          \* real exponent: outside the domain
                        ELSE IF FAbs(y.v) > 40 THEN POISON
                        ELSE LET e == FAbs(y.v)
                                 pn == IPowS(a.n, e)  pd == IPowS(a.d, e) IN
                             IF ~pn[1] \/ ~pd[1] THEN POISON
                             ELSE IF y.v >= 0 THEN VR(pn[2], pd[2])
                             ELSE IF a.n = 0 THEN POISON
                             ELSE VR(pd[2], pn[2])
        [] op = "==" -> VL(REq(a, b))
        [] op = "/=" -> VL(~REq(a, b))
        [] op = "<"  -> VL(RLess(a, b))
        [] op = "<=" -> VL(RLess(a, b) \/ REq(a, b))
        [] op = ">"  -> VL(RLess(b, a))
        [] op = ">=" -> VL(RLess(b, a) \/ REq(a, b))
        [] OTHER     -> POISON)

ScalUn(op, x) ==
  IF IsP(x) THEN POISON
  ELSE IF op = "not" THEN (IF x.t = "l" THEN VL(~x.b) ELSE POISON)
  ELSE IF ~IsNum(x) THEN POISON
  ELSE IF op = "+" THEN x
  ELSE IF x.t = "i" THEN VI(-x.v) ELSE VR(-x.n, x.d)

\* conversion on assignment to a variable of declared type ty
Conv(ty, x) ==
  IF IsP(x) THEN POISON
  ELSE IF ty = "l" THEN (IF x.t = "l" THEN x ELSE POISON)
  ELSE IF ~IsNum(x) THEN POISON
  ELSE IF ty = "i" THEN (IF x.t = "i" THEN x ELSE VI(TDiv(x.n, x.d)))
  ELSE ToR(x)

RNint(a) == \* nearest integer, halves away from zero; a rational
  LET twice == 2 * a.n   den == 2 * a.d IN
  IF a.n >= 0 THEN (twice + a.d) \div den ELSE -(((-twice) + a.d) \div den)

ScalAbs(x) == IF x.t = "i" THEN VI(FAbs(x.v)) ELSE VR(FAbs(x.n), x.d)
\* scalar intrinsic functions (elemental ones are mapped over arrays by Eval)
ScalIntr(name, xs) ==
  IF \E i \in DOMAIN xs : IsP(xs[i]) THEN POISON
  ELSE IF \E i \in DOMAIN xs : Big(xs[i]) THEN POISON
  ELSE CASE name = "ABS" ->
            (IF ~IsNum(xs[1]) THEN POISON
             ELSE IF xs[1].t = "i" THEN VI(FAbs(xs[1].v)) ELSE VR(FAbs(xs[1].n), xs[1].d))
    [] name = "SIGN" ->
            (IF ~IsNum(xs[1]) \/ ~IsNum(xs[2]) THEN POISON
             ELSE LET neg == IF xs[2].t = "i" THEN xs[2].v < 0 ELSE xs[2].n < 0
                      mag == ScalAbs(xs[1])
                  IN IF neg THEN ScalUn("-", mag) ELSE mag)
    [] name \in {"MAX", "MIN"} ->
            (IF \E i \in DOMAIN xs : ~IsNum(xs[i]) THEN POISON
             ELSE LET RECURSIVE Fold(_, _)
                      Fold(acc, i) ==
                        IF i > Len(xs) THEN acc
                        ELSE LET lt == ScalBin("<", acc, xs[i]).b
                                 pick == IF name = "MAX" THEN (IF lt THEN xs[i] ELSE acc)
                                         ELSE (IF ScalBin("<", xs[i], acc).b THEN xs[i] ELSE acc)
                             IN Fold(pick, i + 1)
                      allint == \A i \in DOMAIN xs : xs[i].t = "i"
                      res == Fold(xs[1], 2)
                  IN IF allint THEN res ELSE ToR(res))
    [] name = "MOD" ->
            (IF xs[1].t = "i" /\ xs[2].t = "i"
             THEN (IF xs[2].v = 0 THEN POISON ELSE VI(TMod(xs[1].v, xs[2].v)))
             ELSE IF ~IsNum(xs[1]) \/ ~IsNum(xs[2]) THEN POISON
             ELSE LET a == ToR(xs[1])  b == ToR(xs[2]) IN
                  IF b.n = 0 THEN POISON
                  ELSE LET q == TDiv(a.n * b.d, a.d * b.n) IN
                       VR(a.n * b.d - q * b.n * a.d, a.d * b.d))
    [] name = "MODULO" ->
            (IF xs[1].t = "i" /\ xs[2].t = "i"
             THEN (IF xs[2].v = 0 THEN POISON ELSE VI(FModulo(xs[1].v, xs[2].v)))
             ELSE POISON)
    [] name = "INT" ->
            (IF ~IsNum(xs[1]) THEN POISON ELSE Conv("i", xs[1]))
    [] name = "REAL" ->
            (IF ~IsNum(xs[1]) THEN POISON ELSE ToR(xs[1]))
    [] name = "NINT" ->
            (IF ~IsNum(xs[1]) THEN POISON
             ELSE IF xs[1].t = "i" THEN xs[1] ELSE VI(RNint(xs[1])))
    [] name = "MERGE" ->
            (IF xs[3].t # "l" THEN POISON ELSE IF xs[3].b THEN xs[1] ELSE xs[2])
    [] OTHER -> POISON

\* --------------------------------------------------------- sequences helpers
SeqSet(s) == {s[i] : i \in DOMAIN s}
RECURSIVE SeqProd(_, _)
SeqProd(s, k) == IF k = 0 THEN 1 ELSE s[k] * SeqProd(s, k - 1)    \* product of s[1..k]
ColMul(ex) == [k \in DOMAIN ex |-> SeqProd(ex, k - 1)]
SizeOf(ex) == SeqProd(ex, Len(ex))
RECURSIVE SeqSum(_, _)
SeqSum(s, k) == IF k = 0 THEN 0 ELSE s[k] + SeqSum(s, k - 1)

\* multi-index (1-based offsets per dim) of the p-th element (p 1-based) of shape sh
Unflat(p, sh) == [k \in DOMAIN sh |-> ((p - 1) \div SeqProd(sh, k - 1)) % sh[k]]

\* --------------------------------------------------------------- descriptors
IdDesc(st, name) == LET c == st[name] IN
   [base |-> name, lo |-> c.lo, ex |-> c.ex, mul |-> ColMul(c.ex), off |-> 0]
DescOf(M, name) == IF name \in DOMAIN M.env THEN M.env[name] ELSE IdDesc(M.st, name)
Known(M, name)  == name \in DOMAIN M.env \/ name \in DOMAIN M.st

\* location = <<base, linear index (1-based)>>
LocRead(M, loc) == IF loc[2] \in DOMAIN M.st[loc[1]].d THEN M.st[loc[1]].d[loc[2]] ELSE POISON
TypeAt(M, base) == M.st[base].ty

None == [k |-> "none"]
IsNone(e) == e.k = "none"

\* ---------------------------------------------------------------- evaluation
\* Eval returns a scalar value, an array value [t |-> "a", sh, d] or POISON.
\* Sel(M, e) for a ref/aref returns the *selection*: [ok, base, sh (shape; <<>>
\* for a scalar), locs (Seq of linear indices, column-major)], used both for
\* reading and for assignment targets and argument association.
RECURSIVE Eval(_, _), EvalSeq(_, _), Sel(_, _), DimSel(_, _, _, _)

Scalar(x) == ~IsArr(x)
Broadcast2(f(_, _), x, y) ==
   IF IsP(x) \/ IsP(y) THEN POISON
   ELSE IF Scalar(x) /\ Scalar(y) THEN f(x, y)
   ELSE IF IsArr(x) /\ IsArr(y) THEN
        (IF x.sh # y.sh THEN POISON
         ELSE [t |-> "a", sh |-> x.sh, d |-> [i \in DOMAIN x.d |-> f(x.d[i], y.d[i])]])
   ELSE IF IsArr(x) THEN [t |-> "a", sh |-> x.sh, d |-> [i \in DOMAIN x.d |-> f(x.d[i], y)]]
   ELSE [t |-> "a", sh |-> y.sh, d |-> [i \in DOMAIN y.d |-> f(x, y.d[i])]]
Map1(f(_), x) ==
   IF IsP(x) THEN POISON
   ELSE IF Scalar(x) THEN f(x)
   ELSE [t |-> "a", sh |-> x.sh, d |-> [i \in DOMAIN x.d |-> f(x.d[i])]]
HasPoison(x) == IF IsArr(x) THEN \E i \in DOMAIN x.d : IsP(x.d[i]) ELSE IsP(x)

\* one dimension of an array reference: index expression or range.
\* returns [ok, rng (TRUE if a range), offs (Seq of 0-based offsets within the dim)]
DimSel(M, ie, lo, ex) ==
  IF ie.k = "range" THEN
     LET l == IF IsNone(ie.lo) THEN VI(lo) ELSE Eval(M, ie.lo)
         h == IF IsNone(ie.hi) THEN VI(lo + ex - 1) ELSE Eval(M, ie.hi)
         s == IF IsNone(ie.st) THEN VI(1) ELSE Eval(M, ie.st)
     IN IF IsP(l) \/ IsP(h) \/ IsP(s) THEN [ok |-> FALSE, rng |-> TRUE, offs |-> <<>>]
        ELSE IF l.t # "i" \/ h.t # "i" \/ s.t # "i" THEN [ok |-> FALSE, rng |-> TRUE, offs |-> <<>>]
        ELSE IF s.v = 0 THEN [ok |-> FALSE, rng |-> TRUE, offs |-> <<>>]
        ELSE LET cnt == FMax(TDiv(h.v - l.v + s.v, s.v), 0)
                 offs == [j \in 1..cnt |-> l.v + (j - 1) * s.v - lo]
             IN [ok |-> \A j \in 1..cnt : offs[j] >= 0 /\ offs[j] < ex,
                 rng |-> TRUE, offs |-> offs]
  ELSE LET v == Eval(M, ie) IN
     IF IsP(v) THEN [ok |-> FALSE, rng |-> FALSE, offs |-> <<>>]
     ELSE IF IsArr(v) THEN      \* vector subscript
          (IF \E j \in DOMAIN v.d : v.d[j].t # "i" THEN [ok |-> FALSE, rng |-> TRUE, offs |-> <<>>]
           ELSE LET offs == [j \in DOMAIN v.d |-> v.d[j].v - lo] IN
                [ok |-> \A j \in DOMAIN offs : offs[j] >= 0 /\ offs[j] < ex,
                 rng |-> TRUE, offs |-> offs])
     ELSE IF v.t # "i" THEN [ok |-> FALSE, rng |-> FALSE, offs |-> <<>>]
     ELSE [ok |-> v.v - lo >= 0 /\ v.v - lo < ex, rng |-> FALSE, offs |-> <<v.v - lo>>]

BadSel == [ok |-> FALSE, base |-> "", sh |-> <<>>, locs |-> <<>>]

Sel(M, e) ==
  IF e.k = "ref" THEN
     (IF ~Known(M, e.name) THEN BadSel
      ELSE LET D == DescOf(M, e.name)
               n == SizeOf(D.ex)
           IN [ok |-> TRUE, base |-> D.base, sh |-> D.ex,
               locs |-> [p \in 1..n |->
                           LET ix == Unflat(p, D.ex) IN
                           D.off + 1 + SeqSum([k \in DOMAIN ix |-> ix[k] * D.mul[k]], Len(ix))]])
  ELSE \* aref
     IF ~Known(M, e.name) THEN BadSel
     ELSE LET D == DescOf(M, e.name) IN
       IF Len(e.idx) # Len(D.ex) THEN BadSel
       ELSE LET ds == [k \in DOMAIN e.idx |-> DimSel(M, e.idx[k], D.lo[k], D.ex[k])] IN
         IF \E k \in DOMAIN ds : ~ds[k].ok THEN BadSel
         ELSE LET rdims == {k \in DOMAIN ds : ds[k].rng}
                  cnt == [k \in DOMAIN ds |-> Len(ds[k].offs)]
                  n  == SeqProd(cnt, Len(cnt))
                  \* result shape: extents of the range dimensions in order
                  RECURSIVE Shape(_)
                  Shape(k) == IF k > Len(ds) THEN <<>>
                              ELSE IF ds[k].rng THEN <<cnt[k]>> \o Shape(k + 1) ELSE Shape(k + 1)
              IN [ok |-> TRUE, base |-> D.base, sh |-> Shape(1),
                  locs |-> [p \in 1..n |->
                              LET ix == Unflat(p, cnt) IN
                              D.off + 1 + SeqSum([k \in DOMAIN ix |-> ds[k].offs[ix[k] + 1] * D.mul[k]],
                                                 Len(ix))]]

SelValue(M, s) ==
  IF ~s.ok THEN POISON
  ELSE IF s.sh = <<>> THEN LocRead(M, <<s.base, s.locs[1]>>)
  ELSE [t |-> "a", sh |-> s.sh, d |-> [p \in DOMAIN s.locs |-> LocRead(M, <<s.base, s.locs[p]>>)]]

\* reductions over array values; dim = 0 means full reduction
RedOp(name, x, y) == CASE name = "SUM" -> ScalBin("+", x, y)
                       [] name = "PRODUCT" -> ScalBin("*", x, y)
                       [] name = "MAXVAL" -> ScalIntr("MAX", <<x, y>>)
                       [] name = "MINVAL" -> ScalIntr("MIN", <<x, y>>)
RedUnit(name, ty) == CASE name = "SUM" -> (IF ty = "i" THEN VI(0) ELSE VR(0, 1))
                       [] name = "PRODUCT" -> (IF ty = "i" THEN VI(1) ELSE VR(1, 1))
                       [] OTHER -> POISON     \* MAXVAL/MINVAL of an empty set: -HUGE, outside the domain
\* fold the elements of seq vs whose mask is true
RECURSIVE RedFold(_, _, _, _, _)
RedFold(name, vs, ms, i, acc) ==
  IF i > Len(vs) THEN acc
  ELSE IF ~ms[i] THEN RedFold(name, vs, ms, i + 1, acc)
  ELSE RedFold(name, vs, ms, i + 1,
               IF acc.t = "none" THEN vs[i] ELSE RedOp(name, acc, vs[i]))
Reduce(name, arr, mask, dim) ==
  \* arr array value, mask array of booleans (same shape) , dim 0 or 1..rank
  LET ty == IF Len(arr.d) > 0 THEN arr.d[1].t ELSE "r"
      fin(acc) == IF acc.t = "none" THEN RedUnit(name, IF ty = "i" THEN "i" ELSE "r") ELSE acc
  IN IF dim = 0 THEN fin(RedFold(name, arr.d, mask, 1, [t |-> "none"]))
     ELSE LET sh == arr.sh
              rsh == [k \in 1..(Len(sh) - 1) |-> IF k < dim THEN sh[k] ELSE sh[k + 1]]
              n == SizeOf(rsh)
              mul == ColMul(sh)
              elem(p) ==
                LET ix == Unflat(p, rsh)
                    full(j) == [k \in DOMAIN sh |->
                                  IF k < dim THEN ix[k] ELSE IF k = dim THEN j - 1 ELSE ix[k - 1]]
                    lin(j) == 1 + SeqSum([k \in DOMAIN sh |-> full(j)[k] * mul[k]], Len(sh))
                    vs == [j \in 1..sh[dim] |-> arr.d[lin(j)]]
                    ms == [j \in 1..sh[dim] |-> mask[lin(j)]]
                IN fin(RedFold(name, vs, ms, 1, [t |-> "none"]))
          IN IF rsh = <<>> THEN elem(1)
             ELSE [t |-> "a", sh |-> rsh, d |-> [p \in 1..n |-> elem(p)]]

Elemental == {"ABS", "SIGN", "MAX", "MIN", "MOD", "MODULO", "INT", "REAL", "NINT", "MERGE"}
Reductions == {"SUM", "PRODUCT", "MAXVAL", "MINVAL"}

\* n-ary elemental application with broadcasting
ElemApply(name, xs) ==
  IF \E i \in DOMAIN xs : IsP(xs[i]) THEN POISON
  ELSE LET arrs == {i \in DOMAIN xs : IsArr(xs[i])} IN
    IF arrs = {} THEN ScalIntr(name, xs)
    ELSE LET a1 == CHOOSE i \in arrs : TRUE
             sh == xs[a1].sh IN
      IF \E i \in arrs : xs[i].sh # sh THEN POISON
      ELSE [t |-> "a", sh |-> sh,
            d |-> [p \in DOMAIN xs[a1].d |->
                     ScalIntr(name, [i \in DOMAIN xs |-> IF IsArr(xs[i]) THEN xs[i].d[p] ELSE xs[i]])]]

ArgNamed(e, nm) == \* value expression of the named (keyword) argument nm of an icall, or None
  IF "named" \in DOMAIN e /\ nm \in DOMAIN e.named THEN e.named[nm] ELSE None

EvalSeq(M, es) == [i \in DOMAIN es |-> Eval(M, es[i])]

Eval(M, e) ==
  CASE e.k = "lit" ->
         (CASE e.t = "int" -> VI(e.v)
            [] e.t = "real" -> VR(e.n, e.d)
            [] e.t = "log" -> VL(e.b)
            [] OTHER -> POISON)
    [] e.k = "ref" -> SelValue(M, Sel(M, e))
    [] e.k = "aref" -> SelValue(M, Sel(M, e))
    [] e.k = "un" -> LET x == Eval(M, e.e) IN Map1(LAMBDA v : ScalUn(e.op, v), x)
    [] e.k = "bin" -> LET x == Eval(M, e.l)  y == Eval(M, e.r) IN
                      Broadcast2(LAMBDA a, b : ScalBin(e.op, a, b), x, y)
    [] e.k = "icall" ->
         (IF e.name \in Elemental THEN ElemApply(e.name, EvalSeq(M, e.args))
          ELSE IF e.name \in Reductions THEN
             LET x == Eval(M, e.args[1])
                 de == IF Len(e.args) >= 2 /\ e.args[2].k # "none" /\ ArgNamed(e, "dim").k = "none"
                          /\ "dimpos" \in DOMAIN e THEN e.args[2] ELSE ArgNamed(e, "dim")
                 me == ArgNamed(e, "mask")
                 dv == IF IsNone(de) THEN VI(0) ELSE Eval(M, de)
                 mv == IF IsNone(me) THEN VL(TRUE) ELSE Eval(M, me)
             IN IF IsP(x) \/ IsP(dv) \/ IsP(mv) \/ ~IsArr(x) THEN POISON
                ELSE IF dv.t # "i" \/ dv.v < 0 \/ dv.v > Len(x.sh) THEN POISON
                ELSE LET mask == IF IsArr(mv) THEN [i \in DOMAIN mv.d |-> mv.d[i].t = "l" /\ mv.d[i].b]
                                 ELSE [i \in DOMAIN x.d |-> mv.t = "l" /\ mv.b]
                         mok == IF IsArr(mv) THEN mv.sh = x.sh /\ ~HasPoison(mv) ELSE mv.t = "l"
                         \* only the selected elements need to be defined
                         sel == {i \in DOMAIN x.d : mask[i]}
                     IN IF ~mok \/ (\E i \in sel : IsP(x.d[i])) THEN POISON
                        ELSE Reduce(e.name, x, mask, dv.v)
          ELSE IF e.name = "DOT_PRODUCT" THEN
             LET x == Eval(M, e.args[1])  y == Eval(M, e.args[2]) IN
             IF IsP(x) \/ IsP(y) \/ ~IsArr(x) \/ ~IsArr(y) THEN POISON
             ELSE IF x.sh # y.sh \/ Len(x.sh) # 1 \/ HasPoison(x) \/ HasPoison(y) THEN POISON
             ELSE LET prods == [i \in DOMAIN x.d |-> ScalBin("*", x.d[i], y.d[i])]
                      allt == [i \in DOMAIN x.d |-> TRUE]
                  IN Reduce("SUM", [t |-> "a", sh |-> x.sh, d |-> prods], allt, 0)
          ELSE IF e.name = "MATMUL" THEN
             LET x == Eval(M, e.args[1])  y == Eval(M, e.args[2]) IN
             IF IsP(x) \/ IsP(y) \/ ~IsArr(x) \/ ~IsArr(y) THEN POISON
             ELSE IF HasPoison(x) \/ HasPoison(y) THEN POISON
             ELSE IF Len(x.sh) = 2 /\ Len(y.sh) = 1 THEN
                  (IF x.sh[2] # y.sh[1] THEN POISON
                   ELSE LET n == x.sh[1]  m == x.sh[2]
                            el(i) == Reduce("SUM",
                                       [t |-> "a", sh |-> <<m>>,
                                        d |-> [j \in 1..m |-> ScalBin("*", x.d[i + (j - 1) * n], y.d[j])]],
                                       [j \in 1..m |-> TRUE], 0)
                        IN [t |-> "a", sh |-> <<n>>, d |-> [i \in 1..n |-> el(i)]])
             ELSE IF Len(x.sh) = 2 /\ Len(y.sh) = 2 THEN
                  (IF x.sh[2] # y.sh[1] THEN POISON
                   ELSE LET n == x.sh[1]  m == x.sh[2]  q == y.sh[2]
                            el(p) == LET i == ((p - 1) % n) + 1  c == ((p - 1) \div n) + 1 IN
                                     Reduce("SUM",
                                       [t |-> "a", sh |-> <<m>>,
                                        d |-> [j \in 1..m |-> ScalBin("*", x.d[i + (j - 1) * n],
                                                                      y.d[j + (c - 1) * m])]],
                                       [j \in 1..m |-> TRUE], 0)
                        IN [t |-> "a", sh |-> <<n, q>>, d |-> [p \in 1..(n * q) |-> el(p)]])
             ELSE POISON
          ELSE IF e.name \in {"SIZE", "LBOUND", "UBOUND"} THEN
             LET a == e.args[1]
                 de == IF Len(e.args) >= 2 THEN e.args[2] ELSE ArgNamed(e, "dim")
                 dv == IF IsNone(de) THEN VI(0) ELSE Eval(M, de)
             IN IF a.k \notin {"ref", "aref"} \/ ~Known(M, a.name) \/ IsP(dv) \/ dv.t # "i" THEN POISON
                ELSE IF a.k = "ref" THEN
                   LET D == DescOf(M, a.name) IN
                   IF dv.v = 0 THEN (IF e.name = "SIZE" THEN VI(SizeOf(D.ex)) ELSE POISON)
                   ELSE IF dv.v < 1 \/ dv.v > Len(D.ex) THEN POISON
                   ELSE (CASE e.name = "SIZE" -> VI(D.ex[dv.v])
                           [] e.name = "LBOUND" -> VI(IF D.ex[dv.v] = 0 THEN 1 ELSE D.lo[dv.v])
                           [] e.name = "UBOUND" -> VI(IF D.ex[dv.v] = 0 THEN 0 ELSE D.lo[dv.v] + D.ex[dv.v] - 1))
                ELSE \* section: bounds are 1..extent
                   LET s == Sel(M, a) IN
                   IF ~s.ok THEN POISON
                   ELSE IF dv.v = 0 THEN (IF e.name = "SIZE" THEN VI(SizeOf(s.sh)) ELSE POISON)
                   ELSE IF dv.v < 1 \/ dv.v > Len(s.sh) THEN POISON
                   ELSE (CASE e.name = "SIZE" -> VI(s.sh[dv.v])
                           [] e.name = "LBOUND" -> VI(1)
                           [] e.name = "UBOUND" -> VI(s.sh[dv.v]))
          ELSE IF e.name = "HUGE" THEN
             \* a value larger than anything the bounded domain produces
             LET x == Eval(M, e.args[1])
                 ty == IF IsP(x) THEN (IF e.args[1].k \in {"ref", "aref"} /\ Known(M, e.args[1].name)
                                       THEN TypeAt(M, DescOf(M, e.args[1].name).base) ELSE "r")
                       ELSE IF IsArr(x) THEN (IF Len(x.d) > 0 THEN x.d[1].t ELSE "r") ELSE x.t
             IN IF ty = "i" THEN VI(BigBound) ELSE VR(BigBound, 1)
          ELSE IF e.name = "TRANSPOSE" THEN
             LET x == Eval(M, e.args[1]) IN
             IF IsP(x) \/ ~IsArr(x) THEN POISON ELSE IF Len(x.sh) # 2 THEN POISON
             ELSE LET n == x.sh[1]  m == x.sh[2] IN
                  [t |-> "a", sh |-> <<m, n>>,
                   d |-> [p \in 1..(n * m) |->
                            LET i == ((p - 1) % m) + 1  j == ((p - 1) \div m) + 1 IN x.d[j + (i - 1) * n]]]
          ELSE POISON)
    [] OTHER -> POISON

\* ----------------------------------------------------------- access tracking
\* locations read by evaluating expression e in M (mirror of Eval)
RECURSIVE ExprReads(_, _)
SelLocs(s) == IF s.ok THEN {<<s.base, s.locs[p]>> : p \in DOMAIN s.locs} ELSE {}
IdxReads(M, e) ==
  IF e.k # "aref" THEN {}
  ELSE UNION {IF e.idx[k].k = "range"
              THEN ExprReads(M, e.idx[k].lo) \cup ExprReads(M, e.idx[k].hi) \cup ExprReads(M, e.idx[k].st)
              ELSE ExprReads(M, e.idx[k]) : k \in DOMAIN e.idx}
ExprReads(M, e) ==
  CASE e.k \in {"lit", "none"} -> {}
    [] e.k = "ref" -> SelLocs(Sel(M, e))
    [] e.k = "aref" -> SelLocs(Sel(M, e)) \cup IdxReads(M, e)
    [] e.k = "un" -> ExprReads(M, e.e)
    [] e.k = "bin" -> ExprReads(M, e.l) \cup ExprReads(M, e.r)
    [] e.k = "icall" ->
         (IF e.name = "HUGE" THEN {}
          ELSE IF e.name \in {"SIZE", "LBOUND", "UBOUND"}
          THEN UNION {ExprReads(M, e.args[i]) : i \in 2..Len(e.args)}   \* inquiry: no data read
          ELSE UNION {ExprReads(M, e.args[i]) : i \in DOMAIN e.args}
               \cup (IF "named" \in DOMAIN e
                     THEN UNION {ExprReads(M, e.named[nm]) : nm \in DOMAIN e.named} ELSE {}))
    [] OTHER -> {}

NoteReads(M, locs) ==
  IF ~M.trk THEN M
  ELSE [M EXCEPT !.rd = @ \cup (locs \ M.wr), !.ard = @ \cup locs]
NoteWrites(M, locs) == IF ~M.trk THEN M ELSE [M EXCEPT !.wr = @ \cup locs]
Ub(M) == [M EXCEPT !.sig = "ub"]

\* --------------------------------------------------------------- statements
StoreAt(st, base, lin, v) == [st EXCEPT ![base].d[lin] = v]
RECURSIVE StoreMany(_, _, _, _, _)
StoreMany(st, base, locs, vals, p) ==
  IF p > Len(locs) THEN st
  ELSE StoreMany(StoreAt(st, base, locs[p], vals[p]), base, locs, vals, p + 1)

\* assignment: the right-hand side is evaluated completely before any store
DoAssign(M, lhs, rhs) ==
  LET s == Sel(M, lhs)
      v == Eval(M, rhs)
      M1 == NoteReads(M, ExprReads(M, rhs) \cup IdxReads(M, lhs))
  IN IF ~s.ok \/ IsP(v) THEN Ub(M1)
     ELSE LET ty == TypeAt(M, s.base) IN
       IF s.sh = <<>> THEN
          (IF IsArr(v) THEN Ub(M1)
           ELSE LET c == Conv(ty, v) IN
                IF IsP(c) THEN Ub(M1)
                ELSE NoteWrites([M1 EXCEPT !.st = StoreAt(@, s.base, s.locs[1], c)],
                                {<<s.base, s.locs[1]>>}))
       ELSE LET vals == IF IsArr(v) THEN [p \in DOMAIN v.d |-> Conv(ty, v.d[p])]
                        ELSE [p \in DOMAIN s.locs |-> Conv(ty, v)]
                conf == IF IsArr(v) THEN v.sh = s.sh ELSE TRUE
            IN IF ~conf \/ (\E p \in DOMAIN vals : IsP(vals[p])) THEN Ub(M1)
               ELSE NoteWrites([M1 EXCEPT !.st = StoreMany(@, s.base, s.locs, vals, 1)],
                               SelLocs(s))

\* masked array assignment (WHERE): mask is a sequence of booleans, one per
\* selected element; only the mask-true elements are evaluated-and-stored
DoMaskedAssign(M, lhs, rhs, mask) ==
  LET s == Sel(M, lhs)
      v == Eval(M, rhs)
      M1 == NoteReads(M, ExprReads(M, rhs) \cup IdxReads(M, lhs))
  IN IF ~s.ok \/ IsP(v) \/ s.sh = <<>> \/ Len(s.locs) # Len(mask) THEN Ub(M1)
     ELSE LET ty == TypeAt(M, s.base)
              vals == IF IsArr(v) THEN [p \in DOMAIN v.d |-> Conv(ty, v.d[p])]
                      ELSE [p \in DOMAIN s.locs |-> Conv(ty, v)]
              conf == IF IsArr(v) THEN v.sh = s.sh ELSE TRUE
              on == {p \in DOMAIN s.locs : mask[p]}
              RECURSIVE Put(_, _)
              Put(st, p) == IF p > Len(s.locs) THEN st
                            ELSE Put(IF mask[p] THEN StoreAt(st, s.base, s.locs[p], vals[p]) ELSE st, p + 1)
          IN IF ~conf \/ (\E p \in on : IsP(vals[p])) THEN Ub(M1)
             ELSE NoteWrites([M1 EXCEPT !.st = Put(@, 1)], {<<s.base, s.locs[p]>> : p \in on})

\* mask value: sequence of booleans, or <<>> with ok = FALSE
MaskOf(M, e) == LET v == Eval(M, e) IN
  IF IsP(v) \/ ~IsArr(v) THEN [ok |-> FALSE, m |-> <<>>, sh |-> <<>>]
  ELSE IF \E p \in DOMAIN v.d : v.d[p].t # "l" THEN [ok |-> FALSE, m |-> <<>>, sh |-> <<>>]
  ELSE [ok |-> TRUE, m |-> [p \in DOMAIN v.d |-> v.d[p].b], sh |-> v.sh]

\* a WHERE nested in a WHERE body: control mask = outer control mask and its own
\* mask, pending mask = outer control mask and not its own mask (F2008 7.2.3.2)
RECURSIVE ExecMasked(_, _, _, _), ExecElsewhere(_, _, _, _)
ExecMasked(M, ss, i, mask) ==
  IF M.sig # "" \/ i > Len(ss) THEN M
  ELSE IF ss[i].k = "where" THEN
     LET mk == MaskOf(M, ss[i].mask)
         M0 == NoteReads(M, ExprReads(M, ss[i].mask)) IN
     IF ~mk.ok \/ Len(mk.m) # Len(mask) THEN Ub(M0)
     ELSE ExecMasked(ExecElsewhere(ExecMasked(M0, ss[i].body, 1,
                                              [p \in DOMAIN mask |-> mask[p] /\ mk.m[p]]),
                                   ss[i].elsewhere, 1,
                                   [p \in DOMAIN mask |-> mask[p] /\ ~mk.m[p]]),
                     ss, i + 1, mask)
  ELSE IF ss[i].k # "assign" THEN Ub(M)
  ELSE ExecMasked(DoMaskedAssign(M, ss[i].lhs, ss[i].rhs, mask), ss, i + 1, mask)

\* WHERE construct: s.mask, s.body, s.elsewhere = << [mask (expr or none), body] >>
\* control mask of the k-th ELSEWHERE = not(all earlier masks) and its own mask;
\* every mask expression is evaluated once, when its block is reached
ExecElsewhere(M, es, k, pending) ==
  IF M.sig # "" \/ k > Len(es) THEN M
  ELSE LET e == es[k] IN
    IF IsNone(e.mask) THEN ExecElsewhere(ExecMasked(M, e.body, 1, pending), es, k + 1,
                                         [p \in DOMAIN pending |-> FALSE])
    ELSE LET mk == MaskOf(M, e.mask)
             M0 == NoteReads(M, ExprReads(M, e.mask)) IN
         IF ~mk.ok \/ Len(mk.m) # Len(pending) THEN Ub(M0)
         ELSE ExecElsewhere(ExecMasked(M0, e.body, 1, [p \in DOMAIN pending |-> pending[p] /\ mk.m[p]]),
                            es, k + 1, [p \in DOMAIN pending |-> pending[p] /\ ~mk.m[p]])

\* SELECT CASE: first case one of whose items matches; item = [lo, hi] (either
\* may be none: open range) or [v]; default case has dflt = TRUE
CaseMatches(M, sel, item) ==
  IF "v" \in DOMAIN item THEN
     LET x == Eval(M, item.v) IN
     IF IsP(x) THEN "ub"
     ELSE IF sel.t = "l" \/ x.t = "l" THEN (IF sel.t = x.t THEN (IF sel.b = x.b THEN "t" ELSE "f") ELSE "ub")
     ELSE LET r == ScalBin("==", sel, x) IN IF IsP(r) THEN "ub" ELSE IF r.b THEN "t" ELSE "f"
  ELSE LET lo == IF IsNone(item.lo) THEN sel ELSE Eval(M, item.lo)
           hi == IF IsNone(item.hi) THEN sel ELSE Eval(M, item.hi)
           a == ScalBin("<=", lo, sel)  b == ScalBin("<=", sel, hi) IN
       IF IsP(lo) \/ IsP(hi) \/ IsP(a) \/ IsP(b) THEN "ub" ELSE IF a.b /\ b.b THEN "t" ELSE "f"

CondVal(M, e) == LET v == Eval(M, e) IN
                 IF IsP(v) \/ IsArr(v) THEN "ub" ELSE IF v.t # "l" THEN "ub"
                 ELSE IF v.b THEN "t" ELSE "f"

LoopTrip(lo, hi, st) == FMax(TDiv(hi - lo + st, st), 0)

EmptyAcc == [rd |-> {}, ard |-> {}, wr |-> {}]

RECURSIVE ExecStmt(_, _), ExecSeq(_, _, _), ExecIters(_, _, _, _, _, _), ExecWhile(_, _, _),
          ExecCall(_, _), BindArgs(_, _, _, _, _, _)

ExecSeq(M, ss, i) ==
  IF M.sig # "" \/ i > Len(ss) THEN M
  ELSE ExecSeq(ExecStmt(M, ss[i]), ss, i + 1)

\* iterations it..trip of a DO loop; vloc is the location of the loop variable
ExecIters(M, s, lo, stp, it, trip) ==
  LET vsel == Sel(M, [k |-> "ref", name |-> s.var])
      setvar(MM, val) == NoteWrites([MM EXCEPT !.st = StoreAt(@, vsel.base, vsel.locs[1], VI(val))],
                                    {<<vsel.base, vsel.locs[1]>>})
  IN
  IF M.sig # "" THEN M
  ELSE IF it > trip THEN setvar(M, lo + trip * stp)
  ELSE LET marked == "mark" \in DOMAIN s /\ s.mark
           M0 == setvar(M, lo + (it - 1) * stp)
           Mb == IF marked THEN [M0 EXCEPT !.rd = {}, !.ard = {}, !.wr = {}] ELSE M0
           M1 == ExecSeq(Mb, s.body, 1)
           M2 == IF marked
                 THEN [M1 EXCEPT !.iters = Append(@, [rd |-> M1.rd, ard |-> M1.ard, wr |-> M1.wr,
                                                      grp |-> M0.grp]),
                                 !.rd = M0.rd \cup (M1.rd \ M0.wr), !.ard = M0.ard \cup M1.ard,
                                 !.wr = M0.wr \cup M1.wr]
                 ELSE M1
       IN IF M2.sig = "exit" THEN [M2 EXCEPT !.sig = ""]
          ELSE IF M2.sig = "cycle" THEN ExecIters([M2 EXCEPT !.sig = ""], s, lo, stp, it + 1, trip)
          ELSE ExecIters(M2, s, lo, stp, it + 1, trip)

ExecWhile(M, s, fuel) ==
  IF M.sig # "" THEN M
  ELSE IF fuel = 0 THEN Ub(M)
  ELSE LET c == CondVal(M, s.cond)
           M0 == NoteReads(M, ExprReads(M, s.cond)) IN
       IF c = "ub" THEN Ub(M0)
       ELSE IF c = "f" THEN M0
       ELSE LET M1 == ExecSeq(M0, s.body, 1) IN
            IF M1.sig = "exit" THEN [M1 EXCEPT !.sig = ""]
            ELSE IF M1.sig = "cycle" THEN ExecWhile([M1 EXCEPT !.sig = ""], s, fuel - 1)
            ELSE ExecWhile(M1, s, fuel - 1)

\* --- calls: by-reference association of actual arguments with the dummies
\* a section/whole-array actual: descriptor onto the caller's storage with the
\* callee's declared lower bounds (assumed-shape dummies: lower bound from the
\* declaration, extents from the actual)
SelDesc(s, flo) ==
  \* only regular selections (constant stride per dim) occur here: the exporter
  \* emits ranges; we recover offset and multipliers from the location list
  LET n == Len(s.sh)
      mulk(k) == IF s.sh[k] <= 1 THEN 1
                 ELSE s.locs[1 + SeqProd(s.sh, k - 1)] - s.locs[1]
  IN [base |-> s.base,
      lo |-> [k \in 1..n |-> IF k <= Len(flo) THEN flo[k] ELSE 1],
      ex |-> s.sh,
      mul |-> [k \in 1..n |-> mulk(k)],
      off |-> IF Len(s.locs) = 0 THEN 0 ELSE s.locs[1] - 1]

\* returns [M (with temporaries added), env (formal -> descriptor), ok]
BindArgs(M, sub, args, i, env, tmpn) ==
  IF i > Len(args) THEN [M |-> M, env |-> env, ok |-> TRUE]
  ELSE LET a == args[i]
           f == sub.formals[i]            \* [name, ty, lo (Seq of ints), rank]
       IN
       IF a.k \in {"ref", "aref"} /\ Known(M, a.name) THEN
          LET s == Sel(M, a)
              M1 == NoteReads(M, IdxReads(M, a)) IN
          IF ~s.ok THEN [M |-> Ub(M1), env |-> env, ok |-> FALSE]
          ELSE IF Len(s.sh) # f.rank THEN [M |-> Ub(M1), env |-> env, ok |-> FALSE]
          ELSE BindArgs(M1, sub, args, i + 1,
                        [x \in DOMAIN env \cup {f.name} |->
                           IF x = f.name THEN SelDesc(s, f.lo) ELSE env[x]], tmpn)
       ELSE \* expression actual: evaluated at the call into a temporary
          LET v == Eval(M, a)
              M1 == NoteReads(M, ExprReads(M, a))
              tn == "tmp#" \o ToString(tmpn) \o "#" \o ToString(i) IN
          IF IsP(v) THEN [M |-> Ub(M1), env |-> env, ok |-> FALSE]
          ELSE LET cell == IF IsArr(v)
                           THEN [ty |-> f.ty, lo |-> [k \in DOMAIN v.sh |-> 1], ex |-> v.sh,
                                 d |-> [p \in DOMAIN v.d |-> Conv(f.ty, v.d[p])]]
                           ELSE [ty |-> f.ty, lo |-> <<>>, ex |-> <<>>, d |-> <<Conv(f.ty, v)>>]
                   M2 == [M1 EXCEPT !.st = [x \in DOMAIN @ \cup {tn} |-> IF x = tn THEN cell ELSE @[x]]]
               IN IF Len(cell.ex) # f.rank THEN [M |-> Ub(M1), env |-> env, ok |-> FALSE]
                  ELSE BindArgs(M2, sub, args, i + 1,
                                [x \in DOMAIN env \cup {f.name} |->
                                   IF x = f.name THEN IdDesc(M2.st, tn) ELSE env[x]], tmpn)

\* cell for a callee local (bounds may depend on dummies: evaluated in the callee env)
LocalCell(M, dcl) ==
  LET los == [k \in DOMAIN dcl.dims |-> Eval(M, dcl.dims[k][1])]
      his == [k \in DOMAIN dcl.dims |-> Eval(M, dcl.dims[k][2])]
  IN IF \E k \in DOMAIN los : IsP(los[k]) \/ IsP(his[k]) THEN [ok |-> FALSE]
     ELSE LET ex == [k \in DOMAIN los |-> FMax(his[k].v - los[k].v + 1, 0)]
              n == SizeOf(ex)
              iv == IF "init" \in DOMAIN dcl /\ dcl.init.k # "none" THEN Conv(dcl.ty, Eval(M, dcl.init))
                    ELSE POISON
          IN [ok |-> TRUE,
              cell |-> [ty |-> dcl.ty, lo |-> [k \in DOMAIN los |-> los[k].v], ex |-> ex,
                        d |-> [p \in 1..n |-> iv]]]

RECURSIVE AddLocals(_, _, _, _)
AddLocals(M, dcls, i, pfx) ==
  IF i > Len(dcls) \/ M.sig # "" THEN M
  ELSE LET lc == LocalCell(M, dcls[i])
           key == pfx \o dcls[i].name IN
       IF ~lc.ok THEN Ub(M)
       ELSE AddLocals([M EXCEPT !.st = [x \in DOMAIN @ \cup {key} |-> IF x = key THEN lc.cell ELSE @[x]],
                                !.env = [x \in DOMAIN @ \cup {dcls[i].name} |->
                                           IF x = dcls[i].name
                                           THEN [base |-> key, lo |-> lc.cell.lo, ex |-> lc.cell.ex,
                                                 mul |-> ColMul(lc.cell.ex), off |-> 0]
                                           ELSE @[x]]],
                      dcls, i + 1, pfx)

ExecCall(M, s) ==
  IF s.name \notin DOMAIN M.subs THEN Ub(M)
  ELSE LET sub == M.subs[s.name] IN
    IF Len(s.args) # Len(sub.formals) THEN Ub(M)
    ELSE LET depth == M.depth + 1
             b == BindArgs(M, sub, s.args, 1, <<>>, depth) IN
      IF ~b.ok THEN b.M
      ELSE IF depth > 3 THEN Ub(M)             \* recursion bound
      ELSE LET pfx == s.name \o "#" \o ToString(depth) \o "#"
               \* module/global variables stay visible: the callee env holds only
               \* dummies and locals; names not in env resolve to the store
               Mc0 == [b.M EXCEPT !.env = b.env, !.depth = depth]
               Mc1 == AddLocals(Mc0, sub.locals, 1, pfx)
               Mc2 == ExecSeq(Mc1, sub.body, 1)
               sig2 == IF Mc2.sig = "return" THEN "" ELSE Mc2.sig
               \* drop callee locals and temporaries from the store
               keep == DOMAIN M.st
           IN [Mc2 EXCEPT !.env = M.env, !.depth = M.depth, !.sig = sig2,
                          !.st = [x \in keep |-> Mc2.st[x]],
                          !.rd = {l \in @ : l[1] \in keep},
                          !.ard = {l \in @ : l[1] \in keep},
                          !.wr = {l \in @ : l[1] \in keep}]

ExecStmt(M, s) ==
  IF M.sig # "" THEN M
  ELSE CASE s.k = "assign" -> DoAssign(M, s.lhs, s.rhs)
    [] s.k = "loop" ->
         LET lo == Eval(M, s.lo)  hi == Eval(M, s.hi)
             stp == IF IsNone(s.st) THEN VI(1) ELSE Eval(M, s.st)
             M0 == NoteReads(M, ExprReads(M, s.lo) \cup ExprReads(M, s.hi) \cup ExprReads(M, s.st))
         IN IF IsP(lo) \/ IsP(hi) \/ IsP(stp) THEN Ub(M0)
            ELSE IF lo.t # "i" \/ hi.t # "i" \/ stp.t # "i" THEN Ub(M0)
            ELSE IF stp.v = 0 THEN Ub(M0)
            ELSE IF ~Known(M, s.var) THEN Ub(M0)
            ELSE \* grp numbers the executions of marked loops: iteration records of
                 \* different executions of the same (inner) loop are not compared
                 ExecIters(IF "mark" \in DOMAIN s /\ s.mark THEN [M0 EXCEPT !.grp = @ + 1] ELSE M0,
                           s, lo.v, stp.v, 1, LoopTrip(lo.v, hi.v, stp.v))
    [] s.k = "if" ->
         LET c == CondVal(M, s.cond)
             M0 == NoteReads(M, ExprReads(M, s.cond)) IN
         IF c = "ub" THEN Ub(M0)
         ELSE IF c = "t" THEN ExecSeq(M0, s.then, 1) ELSE ExecSeq(M0, s.else, 1)
    [] s.k = "while" -> ExecWhile(M, s, 12)
    [] s.k = "where" ->
         LET mk == MaskOf(M, s.mask)
             M0 == NoteReads(M, ExprReads(M, s.mask)) IN
         IF ~mk.ok THEN Ub(M0)
         ELSE ExecElsewhere(ExecMasked(M0, s.body, 1, mk.m), s.elsewhere, 1,
                            [p \in DOMAIN mk.m |-> ~mk.m[p]])
    [] s.k = "select" ->
         LET sel == Eval(M, s.sel)
             M0 == NoteReads(M, ExprReads(M, s.sel))
             RECURSIVE Pick(_)
             \* index of the first matching non-default case, 0 = none, -1 = ub
             Pick(k) == IF k > Len(s.cases) THEN 0
                        ELSE IF s.cases[k].dflt THEN Pick(k + 1)
                        ELSE LET rs == {CaseMatches(M, sel, s.cases[k].items[j]) :
                                          j \in DOMAIN s.cases[k].items} IN
                             IF "ub" \in rs THEN -1 ELSE IF "t" \in rs THEN k ELSE Pick(k + 1)
             dfl == {k \in DOMAIN s.cases : s.cases[k].dflt}
         IN IF IsP(sel) \/ IsArr(sel) THEN Ub(M0)
            ELSE LET k == Pick(1) IN
                 IF k = -1 THEN Ub(M0)
                 ELSE IF k > 0 THEN ExecSeq(M0, s.cases[k].body, 1)
                 ELSE IF dfl # {} THEN ExecSeq(M0, s.cases[CHOOSE d \in dfl : TRUE].body, 1)
                 ELSE M0
    [] s.k = "exit" -> [M EXCEPT !.sig = "exit"]
    [] s.k = "cycle" -> [M EXCEPT !.sig = "cycle"]
    [] s.k = "return" -> [M EXCEPT !.sig = "return"]
    [] s.k = "call" -> ExecCall(M, s)
    [] s.k = "kern" ->      \* opaque kernel call: log name and evaluated scalar arguments
         LET vs == EvalSeq(M, s.args) IN
         IF \E i \in DOMAIN vs : IsP(vs[i]) \/ IsArr(vs[i]) THEN Ub(M)
         ELSE [M EXCEPT !.out = Append(@, <<"kern", s.name, vs>>)]
    [] s.k = "region" ->
         LET M0 == [M EXCEPT !.out = Append(@, <<"start", s.name>>)]
             M1 == ExecSeq(M0, s.body, 1) IN
         IF M1.sig = "" THEN [M1 EXCEPT !.out = Append(@, <<"end", s.name>>)] ELSE M1
    [] s.k = "event" -> [M EXCEPT !.out = Append(@, <<s.what, s.name>>)]
    [] s.k = "print" ->     \* WRITE/PRINT of scalar variables: an observable output event
         LET vs == EvalSeq(M, s.args)
             M0 == NoteReads(M, UNION {ExprReads(M, s.args[i]) : i \in DOMAIN s.args}) IN
         IF \E i \in DOMAIN vs : IsP(vs[i]) \/ IsArr(vs[i]) THEN Ub(M0)
         ELSE [M0 EXCEPT !.out = Append(@, <<"print", vs>>)]
    [] s.k = "block" -> ExecSeq(M, s.body, 1)
    [] s.k = "accdata" ->
         \* OpenACC data region: the arrays named in copyin/copy/copyout get a
         \* device copy ("x@dev") and the body runs against it; copyin/copy start as
         \* the host values, copyout starts undefined; at the end copy/copyout
         \* arrays are copied back.  An undefined device element copied over a
         \* defined host element is logged (clause NoPoisonToHost).  Scalars stay on
         \* the host; an array in no clause has an undefined device copy that is never
         \* copied back.
         LET cin == SeqSet(s.copyin)  cout == SeqSet(s.copyout)  cboth == SeqSet(s.copy)
             \* every array of the store gets a device cell: an array in no clause has no
             \* data movement at all, so the device sees an undefined copy and what the
             \* region writes to it never reaches the host ("exactly the movements generated")
             names == {nm \in DOMAIN M.st : M.st[nm].ex # <<>> }
             dv(nm) == nm \o "@dev"
             st1 == [x \in DOMAIN M.st \cup {dv(nm) : nm \in names} |->
                       IF x \in DOMAIN M.st THEN M.st[x]
                       ELSE LET nm == CHOOSE y \in names : dv(y) = x IN
                            IF nm \in cin \cup cboth THEN M.st[nm]
                            ELSE [M.st[nm] EXCEPT !.d = [p \in DOMAIN M.st[nm].d |-> POISON]]]
             M1 == [M EXCEPT !.st = st1,
                             !.env = [x \in DOMAIN M.env \cup names |->
                                        IF x \in names THEN IdDesc(st1, dv(x)) ELSE M.env[x]]]
             M2 == ExecSeq(M1, s.body, 1)
             back == {nm \in names : nm \in cout \cup cboth}
             bad == {nm \in back : \E p \in DOMAIN M2.st[nm].d :
                                      IsP(M2.st[dv(nm)].d[p]) /\ ~IsP(M2.st[nm].d[p])}
             st3 == [x \in DOMAIN M.st |->
                       IF x \in back THEN [M2.st[x] EXCEPT !.d = M2.st[dv(x)].d] ELSE M2.st[x]]
         IN IF M2.sig = "ub" THEN M2
            ELSE [M2 EXCEPT !.st = st3, !.env = M.env,
                            !.out = IF bad = {} THEN @ ELSE Append(@, <<"poison-to-host", bad>>)]
    [] s.k = "isub" ->
         \* intrinsic subroutine: s.reads are evaluated, every s.writes target
         \* (the arguments the Fortran standard says the intrinsic defines) gets
         \* a defined but unspecified value (0) - used for access tracking
         LET rds == UNION {ExprReads(M, s.reads[i]) : i \in DOMAIN s.reads}
             M0 == NoteReads(M, rds \cup UNION {IdxReads(M, s.writes[i]) : i \in DOMAIN s.writes})
             RECURSIVE WrAll(_, _)
             WrAll(MM, i) ==
               IF i > Len(s.writes) \/ MM.sig # "" THEN MM
               ELSE WrAll(DoAssign(MM, s.writes[i], [k |-> "lit", t |-> "int", v |-> 0]), i + 1)
         IN IF \E i \in DOMAIN s.reads : HasPoison(Eval(M, s.reads[i])) THEN Ub(M0)
            ELSE WrAll(M0, 1)
    [] s.k = "track" ->
         \* run the body with access tracking on and append one access record
         \* [rd (upward-exposed reads), ard (all reads), wr (writes), sig, replay]
         \* to M.iters.  With s.inputs (a sequence of names) the body is also
         \* re-executed from a store in which every other variable is undefined
         \* (the replay clause of C12): replay = "ok" | "ub" | set of differing names.
         LET Mb == [M EXCEPT !.rd = {}, !.ard = {}, !.wr = {}, !.trk = TRUE]
             M1 == ExecSeq(Mb, s.body, 1)
             rep == IF "inputs" \notin DOMAIN s THEN "none"
                    ELSE LET keep == SeqSet(s.inputs)
                             pst == [nm \in DOMAIN M.st |->
                                       IF nm \in keep THEN M.st[nm]
                                       ELSE [M.st[nm] EXCEPT !.d = [p \in DOMAIN M.st[nm].d |-> POISON]]]
                             Mr == ExecSeq([Mb EXCEPT !.st = pst], s.body, 1)
                         IN IF Mr.sig = "ub" THEN "ub"
                            ELSE IF M1.sig = "ub" THEN "none"
                            ELSE LET outs == {l[1] : l \in M1.wr} \cap DOMAIN M.st
                                     bad == {nm \in outs :
                                               \E p \in DOMAIN M1.st[nm].d :
                                                  /\ <<nm, p>> \in M1.wr
                                                  /\ M1.st[nm].d[p] # Mr.st[nm].d[p]}
                                 IN IF bad = {} THEN "ok" ELSE "diff"
         IN [M1 EXCEPT !.iters = Append(@, [rd |-> M1.rd, ard |-> M1.ard, wr |-> M1.wr,
                                            sig |-> M1.sig, replay |-> rep, grp |-> 0]),
                       !.rd = M.rd \cup (M1.rd \ M.wr), !.ard = M.ard \cup M1.ard,
                       !.wr = M.wr \cup M1.wr, !.trk = M.trk]
    [] s.k = "nop" -> M
    [] OTHER -> Ub(M)

\* ------------------------------------------------------------ initial store
\* decl = [name, ty, dims (Seq of <<lo, hi>> ints), init ("in" | "poison" | "zero")]
\* scalar inputs come from the valuation; arrays are filled by fill mode fm with
\* base value 3 * (position of the declaration)
FillVal(ty, fm, pos, lin) ==
  IF ty = "l" THEN VL((lin + fm) % 2 = 0)
  ELSE LET iv == CASE fm = 1 -> 3 * pos + lin                \* injective (small: 32-bit products)
                   [] fm = 2 -> ((lin + pos) % 3) - 1         \* -1, 0, 1 pattern
                   [] fm = 3 -> (IF lin % 2 = 0 THEN -1 ELSE 1) * (lin + pos)
                   [] OTHER  -> lin
       IN IF ty = "i" THEN VI(iv)
          ELSE IF fm = 4 THEN VR(2 * lin + 2 * pos + 1, 2)    \* halves
          ELSE VR(iv, 1)

InitCell(dcl, pos, fm, val) ==
  LET ex == [k \in DOMAIN dcl.dims |-> FMax(dcl.dims[k][2] - dcl.dims[k][1] + 1, 0)]
      lo == [k \in DOMAIN dcl.dims |-> dcl.dims[k][1]]
      n == SizeOf(ex)
  IN [ty |-> dcl.ty, lo |-> lo, ex |-> ex,
      d |-> [p \in 1..n |->
               IF dcl.init = "poison" THEN POISON
               ELSE IF dcl.init = "zero" THEN Conv(dcl.ty, VI(0))
               ELSE IF Len(dcl.dims) = 0 THEN val
               ELSE IF "data" \in DOMAIN dcl       \* explicit contents per fill mode (index arrays)
               THEN LET row == dcl.data[((fm - 1) % Len(dcl.data)) + 1] IN
                    Conv(dcl.ty, VI(row[((p - 1) % Len(row)) + 1]))
               ELSE FillVal(dcl.ty, fm, pos, p)]]

\* scalar value from a JSON input value: int, bool, or <<n, d>> for a real
InVal(ty, x) == IF ty = "l" THEN VL(x) ELSE IF ty = "i" THEN VI(x) ELSE VR(x[1], x[2])

InitStore(decls, dom, val, fm) ==
  LET nameOf == [i \in DOMAIN decls |-> decls[i].name]
      posOf(nm) == CHOOSE i \in DOMAIN decls : decls[i].name = nm
      domIdx(nm) == {j \in DOMAIN dom : dom[j][1] = nm}
  IN [nm \in SeqSet(nameOf) |->
        LET i == posOf(nm)  dj == domIdx(nm) IN
        InitCell(decls[i], i, fm,
                 IF dj = {} THEN POISON
                 ELSE InVal(decls[i].ty, val[CHOOSE j \in dj : TRUE]))]

NewMachine(st, subs, trk) ==
  [st |-> st, env |-> <<>>, sig |-> "", rd |-> {}, ard |-> {}, wr |-> {}, out |-> <<>>,
   iters |-> <<>>, trk |-> trk, subs |-> subs, depth |-> 0, grp |-> 0]

\* all valuations of a domain list dom = << <<name, <<v1, v2, ...>>>>, ... >>
RECURSIVE Valuations(_, _)
Valuations(dom, k) ==
  IF k = 0 THEN {<<>>}
  ELSE {Append(v, x) : v \in Valuations(dom, k - 1), x \in SeqSet(dom[k][2])}

\* observable difference between two final machines on the live names;
\* positions undefined in the reference run are not compared
LiveOf(M, live) == [nm \in SeqSet(live) |-> M.st[nm].d]
LiveDiff(ref, Mb, live) ==
  {nm \in SeqSet(live) :
     \/ nm \notin DOMAIN Mb.st
     \/ Len(ref[nm]) # Len(Mb.st[nm].d)
     \/ \E p \in DOMAIN ref[nm] : ~IsP(ref[nm][p]) /\ ref[nm][p] # Mb.st[nm].d[p]}
===============================================================================
