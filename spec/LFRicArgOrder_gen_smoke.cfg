CONSTANT Tier = "smoke"
INIT Init
NEXT Next
INVARIANT ArgsWellFormed
INVARIANT GeneratedValid
