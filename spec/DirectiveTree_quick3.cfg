\* quick tier, part 2: every history of length <= 3 over the core alphabet
CONSTANTS Alphabet = "core"
 MaxLen = 3
 Skels = {"G"}
INIT Init
NEXT Next
INVARIANT TypeOK
INVARIANT SkelValid
INVARIANT OpsApplicable
