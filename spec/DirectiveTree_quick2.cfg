\* quick tier, part 1: every history of length <= 2 over the full alphabet
CONSTANTS Alphabet = "full"
 MaxLen = 2
 Skels = {"A", "B", "C", "D", "E"}
INIT Init
NEXT Next
INVARIANT TypeOK
INVARIANT SkelValid
INVARIANT OpsApplicable
