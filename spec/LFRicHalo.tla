------------------------------ MODULE LFRicHalo ------------------------------
(* C22 - run-time halo model of one LFRic field component in a distributed-   *)
(* memory PSy layer.                                                          *)
(*                                                                            *)
(* TRUTH   ann  : the annexed dofs hold correct data (continuous fields)      *)
(*         halo : halo levels 1..halo hold correct data (0..H)                *)
(* RECORD  flag : what the run-time answers: is_dirty(depth=d) == flag < d    *)
(*         pend : an asynchronous exchange is in flight ("none"/"go"/"skip")  *)
(*                                                                            *)
(* The truth rules transcribe doc/developer_guide/APIs.rst ("Cell iterators:  *)
(* Continuous / Discontinuous", "Dof iterators" cases 1-5, "Multi-grid",      *)
(* "Halo Exchange Logic") and the GH_INC / GH_READINC / stencil paragraphs of *)
(* doc/user_guide/dynamo0p3.rst - not dynamo0p3.py.  The flag rules are the   *)
(* LFRic field API (set_dirty: every level dirty; set_clean(d): levels 1..d   *)
(* clean; halo_exchange(d): levels 1..d exchanged and marked clean).          *)
(*                                                                            *)
(* The first part is a library of operators over explicit states, used by     *)
(* Trace_LFRicHalo.tla to execute the items of generated PSy layers.  The     *)
(* second part is a design-level state machine: schedules whose exchanges and *)
(* flag updates are placed as the guide prescribes never read dirty data.     *)
EXTENDS Integers, Sequences, FiniteSets, TLC

HMax(a, b) == IF a >= b THEN a ELSE b

\* ------------------------------------------------------------- expressions
\* e: [t |-> "lit", v] | [t |-> "H"] | [t |-> "var", i] | [t |-> "add"|"sub"|
\* "mul", a, b] | [t |-> "max", xs];  val = [H |-> h, v |-> <<extents>>]
RECURSIVE Eval(_, _)
RECURSIVE EvalMax(_, _)
Eval(e, val) ==
  CASE e.t = "lit" -> e.v
    [] e.t = "H"   -> val.H
    [] e.t = "var" -> val.v[e.i]
    [] e.t = "add" -> Eval(e.a, val) + Eval(e.b, val)
    [] e.t = "sub" -> Eval(e.a, val) - Eval(e.b, val)
    [] e.t = "mul" -> Eval(e.a, val) * Eval(e.b, val)
    [] e.t = "max" -> EvalMax(e.xs, val)
EvalMax(xs, val) == IF Len(xs) = 1 THEN Eval(xs[1], val)
                    ELSE HMax(Eval(xs[1], val), EvalMax(Tail(xs), val))

\* ------------------------------------------------------------------ states
\* st = [ann, halo, flag, pend]
Clean(cont, st)     == IF cont /\ ~st.ann THEN 0 ELSE st.halo
FlagSound(cont, st) == st.flag <= Clean(cont, st)

\* ------------------------------------------------------------------- loops
\* L = [kind |-> "cell"|"dof"|"domain", ub |-> "edge"|"halo"|"owned"|"annexed"|
\*      "dofhalo", d |-> expr, acc |-> <<[a, s, m]>>]
\* a: "read","write","readwrite","inc","readinc"; s: stencil extent expr (0 if
\* none); m: 2 for the field on the fine mesh of an inter-grid kernel, else 1
Reads(a)    == a.a \in {"read", "readwrite", "readinc", "inc"}
Modifies(a) == a.a \in {"write", "readwrite", "readinc", "inc"}
Depth(L, val) == Eval(L.d, val)

\* halo depth that must hold correct data for access a of loop L
NeedHalo(L, a, val) ==
  LET d == Depth(L, val) IN
  CASE L.kind = "cell" ->
         IF a.a = "inc"
         THEN HMax(a.m * d - 1, 0)          \* the outermost level is only a
                                            \* partial sum anyway (user guide)
         ELSE a.m * (d + Eval(a.s, val))    \* stencil reaches s cells further
    [] L.kind = "dof"  -> IF L.ub = "dofhalo" THEN d ELSE 0
    [] OTHER           -> 0                 \* domain: owned cells only
\* does the access touch the annexed dofs of a continuous field?
NeedAnn(L, a) ==
  CASE L.kind = "cell" -> TRUE              \* cases 2), 3), 4) of "Dof iterators"
    [] L.kind = "dof"  -> L.ub \in {"annexed", "dofhalo"}
    [] OTHER           -> FALSE
ReadOK(cont, st, L, a, val) ==
  /\ st.halo >= NeedHalo(L, a, val)
  /\ (cont /\ NeedAnn(L, a)) => st.ann
\* the deepest level touched (for admissibility: must exist on the mesh)
Reach(L, a, val) ==
  IF Reads(a) /\ a.a # "inc" THEN NeedHalo(L, a, val)
  ELSE IF L.kind = "cell" THEN a.m * Depth(L, val)
  ELSE IF L.ub = "dofhalo" THEN Depth(L, val) ELSE 0

\* truth after the loop for a modified field: [ann, halo]
WriteEffect(cont, st, L, a, val) ==
  LET d  == Depth(L, val)
      md == a.m * d IN
  CASE L.kind = "cell" ->
         IF ~cont
         THEN \* every cell owns its dofs: levels 1..md are computed.  An
              \* increment of level md is right iff the old value was
              [ann |-> st.ann,
               halo |-> IF a.a = "inc" /\ md >= 1 /\ st.halo < md
                        THEN md - 1 ELSE md]
         ELSE IF a.a \in {"inc", "readinc"}
         THEN \* shared dofs need the contributions of every neighbour cell
              IF d >= 1 THEN [ann |-> TRUE, halo |-> md - 1]
                        ELSE [ann |-> FALSE, halo |-> 0]
         ELSE \* gh_write: any cell writes the same, correct value to a
              \* shared dof (case 5)
              [ann |-> TRUE, halo |-> md]
    [] L.kind = "dof" ->
         (CASE L.ub = "owned"   -> [ann |-> IF cont THEN FALSE ELSE st.ann,
                                    halo |-> 0]
            [] L.ub = "annexed" -> [ann |-> TRUE, halo |-> 0]
            [] OTHER            -> [ann |-> TRUE, halo |-> d])
    [] OTHER -> [ann |-> st.ann, halo |-> 0]     \* domain: owned cells

\* indices of the accesses that read dirty data
DirtyReads(cont, st, L, val) ==
  {i \in DOMAIN L.acc : Reads(L.acc[i]) /\ ~ReadOK(cont, st, L, L.acc[i], val)}
Writers(L) == {i \in DOMAIN L.acc : Modifies(L.acc[i])}

\* result of a step: [err |-> clause or "none", st |-> new state]
Res(err, st) == [err |-> err, st |-> st]

DoLoop(cont, st, L, val) ==
  IF st.pend # "none" THEN Res("AsyncOverlap", st)
  ELSE IF DirtyReads(cont, st, L, val) # {} THEN Res("NoDirtyRead", st)
  ELSE IF Writers(L) = {} THEN Res("none", st)
  ELSE LET w == WriteEffect(cont, st, L, L.acc[CHOOSE i \in Writers(L) : TRUE], val)
       IN Res("none", [st EXCEPT !.ann = w.ann, !.halo = w.halo])

\* ---------------------------------------------------------- halo exchanges
\* s = [g |-> expr or [t |-> "none"], e |-> expr]
Guarded(s)       == s.g.t # "none"
Fires(st, s, val) == ~Guarded(s) \/ st.flag < Eval(s.g, val)
\* depth 0 (a variable stencil extent of 0 and nothing else to serve) is outside
\* the range 1..H of the field API: nothing is exchanged, is_dirty(0) is false
Exchanged(st, e) == IF e = 0 THEN st
                    ELSE [st EXCEPT !.ann = TRUE, !.halo = HMax(@, e),
                                    !.flag = HMax(@, e)]
DoHex(cont, st, s, val) ==
  IF st.pend # "none" THEN Res("AsyncOverlap", st)
  ELSE IF Guarded(s) /\ ~FlagSound(cont, st) THEN Res("FlagSound", st)
  ELSE IF Fires(st, s, val) THEN Res("none", Exchanged(st, Eval(s.e, val)))
  ELSE Res("none", st)
DoHexStart(cont, st, s, val) ==
  IF st.pend # "none" THEN Res("AsyncOverlap", st)
  ELSE IF Guarded(s) /\ ~FlagSound(cont, st) THEN Res("FlagSound", st)
  ELSE Res("none", [st EXCEPT !.pend = IF Fires(st, s, val) THEN "go" ELSE "skip"])
DoHexFinish(cont, st, s, val) ==
  IF st.pend = "none" THEN Res("AsyncFinishWithoutStart", st)
  ELSE IF Fires(st, s, val) # (st.pend = "go") THEN Res("AsyncMismatch", st)
  ELSE IF st.pend = "go"
       THEN Res("none", [Exchanged(st, Eval(s.e, val)) EXCEPT !.pend = "none"])
       ELSE Res("none", [st EXCEPT !.pend = "none"])
DoDirty(st)    == Res("none", [st EXCEPT !.flag = 0])
DoClean(st, e) == Res("none", [st EXCEPT !.flag = HMax(@, e)])

\* clause violated at the end of the invoke, or "none"
AtEnd(cont, annexedOn, st) ==
  IF st.pend # "none" THEN "AsyncUnfinished"
  ELSE IF ~FlagSound(cont, st) THEN "FlagSound"
  ELSE IF annexedOn /\ cont /\ ~st.ann THEN "AnnexedStayClean"
  ELSE "none"

\* initial states of a component: everything the previous invokes may have
\* left behind, with a sound flag; with COMPUTE_ANNEXED_DOFS the annexed dofs
\* are clean (the documented global guarantee of that setting)
InitStates(cont, annexedOn, H) ==
  {s \in [ann : (IF cont /\ ~annexedOn THEN BOOLEAN ELSE {TRUE}),
          halo : 0..H, flag : 0..H, pend : {"none"}] : FlagSound(cont, s)}

\* ===========================================================================
\* Design level: loops visited under the documented protocol
\*   - before a loop, a run-time-guarded exchange to the depth the loop reads
\*     (depth 1 when only annexed dofs are needed and they are not always
\*     computed: "the only way to make annexed dofs clean is a halo exchange")
\*   - after a loop, set_dirty then set_clean(depth computed correctly)
\* ===========================================================================
CONSTANT MaxH
VARIABLES cont, annexedOn, H, st, err
vars == <<cont, annexedOn, H, st, err>>

Lit(n) == [t |-> "lit", v |-> n]
Val    == [H |-> H, v |-> <<>>]

\* the loops PSyclone can create for the tracked field on a mesh of depth H
CellLoops ==
  {[kind |-> "cell", ub |-> IF d = 0 THEN "edge" ELSE "halo", d |-> Lit(d),
    acc |-> <<[a |-> a, s |-> Lit(s), m |-> m]>>] :
      d \in 0..MaxH, a \in {"read", "write", "readwrite", "inc", "readinc"},
      s \in 0..MaxH, m \in 1..2}
DofLoops ==
  {[kind |-> "dof", ub |-> u, d |-> Lit(d),
    acc |-> <<[a |-> a, s |-> Lit(0), m |-> 1]>>] :
      u \in {"owned", "annexed", "dofhalo"}, d \in 0..MaxH,
      a \in {"read", "write", "readwrite"}}
DomainLoops ==
  {[kind |-> "domain", ub |-> "edge", d |-> Lit(0),
    acc |-> <<[a |-> a, s |-> Lit(0), m |-> 1]>>] : a \in {"read", "readwrite"}}
WellFormedLoop(L) ==
  LET a == L.acc[1] d == L.d.v IN
  /\ Reach(L, a, Val) <= H /\ a.m * d <= H
  /\ a.s.v > 0 => (a.a = "read" /\ L.kind = "cell")
  /\ L.kind = "cell" =>
       \* a continuous increment always computes at least the level-1 halo;
       \* gh_readwrite is for discontinuous fields
       /\ (cont /\ a.a \in {"inc", "readinc"}) => d >= 1
       /\ a.a = "readwrite" => ~cont
  /\ L.kind = "dof" =>
       /\ (L.ub = "dofhalo") = (d >= 1)
       /\ (L.ub = "annexed") => annexedOn   \* the switch is global
       /\ (L.ub = "owned") => ~annexedOn
  /\ L.kind = "domain" => ~cont

\* depth the protocol exchanges to before loop L (0: no exchange)
ExchangeDepth(L) ==
  LET a == L.acc[1] IN
  IF ~Reads(a) THEN 0
  ELSE HMax(NeedHalo(L, a, Val),
            IF cont /\ NeedAnn(L, a) /\ ~annexedOn THEN 1 ELSE 0)
\* depth the protocol marks clean after loop L modified the field
CleanDepth(L) ==
  LET a == L.acc[1] md == a.m * L.d.v IN
  CASE L.kind = "cell" -> IF (cont \/ a.a = "inc") /\ md >= 1 THEN md - 1 ELSE md
                          \* gh_inc is only valid on a space treated as
                          \* continuous: its outermost level is left dirty
    [] L.kind = "dof"  -> IF L.ub = "dofhalo" THEN L.d.v ELSE 0
    [] OTHER           -> 0

Init == /\ cont \in BOOLEAN /\ annexedOn \in BOOLEAN /\ H \in 1..MaxH
        /\ st \in InitStates(cont, annexedOn, H)
        /\ err = "none"

Visit(L) ==
  /\ err = "none" /\ WellFormedLoop(L)
  /\ LET r  == ExchangeDepth(L)
         s1 == IF r >= 1 THEN DoHex(cont, st, [g |-> Lit(r), e |-> Lit(r)], Val)
               ELSE Res("none", st)
         s2 == IF s1.err = "none" THEN DoLoop(cont, s1.st, L, Val) ELSE s1
         s3 == IF s2.err = "none" /\ Writers(L) # {}
               THEN DoClean(DoDirty(s2.st).st, CleanDepth(L)) ELSE s2
     IN /\ err' = s3.err /\ st' = s3.st
  /\ UNCHANGED <<cont, annexedOn, H>>

Next == \E L \in CellLoops \cup DofLoops \cup DomainLoops : Visit(L)
Spec == Init /\ [][Next]_vars

NoDirtyRead      == err = "none"
InvFlagSound     == FlagSound(cont, st)
AnnexedStayClean == (annexedOn /\ cont) => st.ann
TypeOK == /\ st.halo \in 0..H /\ st.flag \in 0..H /\ st.pend = "none"
===============================================================================
