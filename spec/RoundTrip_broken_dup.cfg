CONSTANTS Items <- ItemsSmall
 MaxLen = 4
 Writer = "doubles_comment"
INIT Init
NEXT Next
INVARIANT InvNoRunDup
