CONSTANTS Items <- ItemsSmall
 MaxLen = 3
 Writer = "doubles_comment"
INIT Init
NEXT Next
INVARIANT InvNoRunDup
