---------------------------- MODULE GOceanRegion ----------------------------
(* C25 - GOcean loops visit exactly the configured grid points.              *)
(*                                                                            *)
(* A grid g = [nx, ny] has the internal (non-halo) T region                   *)
(*   {start..XStop(g)} x {start..YStop(g)},  start = 2 (user guide: "DO j=2-1,*)
(*   jstop+1"), and a depth-1 halo around it; field data arrays cover exactly *)
(*   the halo-1 box.  A point is <<i, j>> (i = inner/x, j = outer/y).         *)
(*                                                                            *)
(* What the user guide fixes and this module states:                          *)
(*   * a user-defined iteration space is  outer-start:outer-stop:inner-start: *)
(*     inner-stop with {start}/{stop} replaced by the internal bounds         *)
(*     (UserRegion);                                                          *)
(*   * {start}-1 / {stop}+1 is the depth-1 halo (Halo1);                      *)
(*   * GO_INTERNAL_PTS are the points inside the model domain, GO_ALL_PTS all *)
(*     points; the index offset says which U/V/F points share the (i,j) of a  *)
(*     T point (AdjT).                                                        *)
(* Reading of "contains the internal region" decided here (DESIGN.md 4/C25):  *)
(*   a built-in region of point type t under offset o contains every point of *)
(*   type t all of whose adjacent T points are internal (StrictInterior), and *)
(*   an internal region only contains points with at least one internal       *)
(*   adjacent T point (Touching); go_all_pts additionally contains Touching   *)
(*   and the T-internal box.  (The literal reading "T-internal box is a       *)
(*   subset of every region" is false for the documented NE u/v/f internal    *)
(*   spaces, whose regions are smaller than the T box.)                       *)
(*                                                                            *)
(* The run-time values of fld%internal%.. / fld%whole%.. come from the        *)
(* dl_esm_inf library, which is not bundled: they are an *environment*.       *)
(* EnvBounds gives three environments: "ref" (RefDelta, the model of          *)
(* dl_esm_inf the constant-loop-bounds form is compared with) and two         *)
(* synthetic ones ("genA", "genB") in which every (point type, member) has a  *)
(* different value, so that using a wrong field, member or axis shows.        *)
EXTENDS Integers, Sequences, FiniteSets, TLC, Json

CONSTANT MaxN

GridOffsets   == {"go_offset_sw", "go_offset_ne"}
Offsets       == GridOffsets \cup {"go_offset_any"}
FieldTypes    == {"go_ct", "go_cu", "go_cv", "go_cf"}
PointTypes    == FieldTypes \cup {"go_every"}
BuiltinSpaces == {"go_internal_pts", "go_all_pts"}
EnvNames      == {"ref", "genA", "genB"}

Grids    == [nx : 1..MaxN, ny : 1..MaxN]
GStart   == 2
XStop(g) == g.nx + 1
YStop(g) == g.ny + 1

\* a rectangle is a record of inclusive bounds; GPoints its set of points
GBox(xs, xe, ys, ye) == [xs |-> xs, xe |-> xe, ys |-> ys, ye |-> ye]
GPoints(b) == (b.xs .. b.xe) \X (b.ys .. b.ye)
TInternalBox(g) == GBox(GStart, XStop(g), GStart, YStop(g))
Halo1Box(g)     == GBox(GStart - 1, XStop(g) + 1, GStart - 1, YStop(g) + 1)
TInternal(g) == GPoints(TInternalBox(g))
Halo1(g)     == GPoints(Halo1Box(g))
DataArray(g) == Halo1(g)              \* SIZE(fld%data, 1) = XStop + 1, lower bound 1

\* ------------------------------------------------------- index offsets
\* T points adjacent to the point p of type t when U/V/F points share the index
\* of the T point to their north-east (go_offset_sw: they lie south/west of it)
\* or south-west (go_offset_ne)
AdjT(o, t, p) ==
  LET i == p[1]  j == p[2]  ne == (o = "go_offset_ne") IN
  CASE t = "go_ct" -> {<<i, j>>}
    [] t = "go_cu" -> IF ne THEN {<<i, j>>, <<i + 1, j>>} ELSE {<<i - 1, j>>, <<i, j>>}
    [] t = "go_cv" -> IF ne THEN {<<i, j>>, <<i, j + 1>>} ELSE {<<i, j - 1>>, <<i, j>>}
    [] t = "go_cf" -> IF ne THEN {<<i, j>>, <<i + 1, j>>, <<i, j + 1>>, <<i + 1, j + 1>>}
                      ELSE {<<i - 1, j - 1>>, <<i, j - 1>>, <<i - 1, j>>, <<i, j>>}
StrictInterior(o, t, g) == {p \in Halo1(g) : AdjT(o, t, p) \subseteq TInternal(g)}
Touching(o, t, g)       == {p \in Halo1(g) : AdjT(o, t, p) \cap TInternal(g) # {}}

\* ------------------------------------------- model of dl_esm_inf ("ref")
\* bounds of the internal / whole region of a field of type t on a grid with
\* offset o, as differences to (start, stop, start, stop)
RefDelta(o, t, sp) ==
  LET int == (sp = "go_internal_pts") IN
  IF o = "go_offset_ne" THEN
     (CASE t = "go_ct" -> IF int THEN <<0, 0, 0, 0>>     ELSE <<-1, 1, -1, 1>>
        [] t = "go_cu" -> IF int THEN <<0, -1, 0, 0>>    ELSE <<-1, 0, -1, 1>>
        [] t = "go_cv" -> IF int THEN <<0, 0, 0, -1>>    ELSE <<-1, 1, -1, 0>>
        [] t = "go_cf" -> IF int THEN <<-1, -1, -1, -1>> ELSE <<-1, 0, -1, 0>>)
  ELSE
     (CASE t = "go_ct" -> IF int THEN <<0, 0, 0, 0>> ELSE <<-1, 1, -1, 1>>
        [] t = "go_cu" -> IF int THEN <<0, 1, 0, 0>> ELSE <<-1, 1, -1, 1>>
        [] t = "go_cv" -> IF int THEN <<0, 0, 0, 1>> ELSE <<-1, 1, -1, 1>>
        [] t = "go_cf" -> IF int THEN <<0, 1, 0, 1>> ELSE <<-1, 1, -1, 1>>)
RefBox(o, t, sp, g) == LET d == RefDelta(o, t, sp) IN
  GBox(GStart + d[1], XStop(g) + d[2], GStart + d[3], YStop(g) + d[4])

\* ------------------------------------------------------- environments
TypeIdx(t) == CASE t = "go_ct" -> 0 [] t = "go_cu" -> 1 [] t = "go_cv" -> 2 [] t = "go_cf" -> 3
SynthBox(n, sp, g) ==
  IF sp = "go_internal_pts"
  THEN GBox(1 + (n % 2), XStop(g) - (n \div 2), 1 + (n \div 2), YStop(g) - (n % 2))
  ELSE GBox(1, XStop(g) + (n % 2), 1, YStop(g) + (n \div 2))
\* values of fld%internal%{xstart,xstop,ystart,ystop} (sp = go_internal_pts) and
\* fld%whole%... (sp = go_all_pts) of a field of type t; go = the grid's offset
EnvBounds(env, go, t, sp, g) ==
  CASE env = "ref"  -> RefBox(go, t, sp, g)
    [] env = "genA" -> SynthBox(TypeIdx(t), sp, g)
    [] env = "genB" -> SynthBox((TypeIdx(t) + 2) % 4, sp, g)

\* ------------------------------------------ user-defined iteration spaces
\* a bound is the term  cs*{start} + ce*{stop} + c ; a space is [os, oe, is, ie]
TermVal(tm, start, stop) == tm.cs * start + tm.ce * stop + tm.c
UserBox(sp, g) == GBox(TermVal(sp.is, GStart, XStop(g)), TermVal(sp.ie, GStart, XStop(g)),
                       TermVal(sp.os, GStart, YStop(g)), TermVal(sp.oe, GStart, YStop(g)))
Term(cs, ce, c) == [cs |-> cs, ce |-> ce, c |-> c]
NoTerm   == Term(0, 0, 0)
\* the entry of a built-in space (also: a space given by its name only)
Builtin(name) == [name |-> name, os |-> NoTerm, oe |-> NoTerm, is |-> NoTerm, ie |-> NoTerm]
IsBuiltin(sp)   == sp.name \in BuiltinSpaces /\ sp = Builtin(sp.name)
\* a built-in *name* that the configuration file gave bounds for one (offset, type)
IsRedefined(sp) == sp.name \in BuiltinSpaces /\ sp # Builtin(sp.name)

\* ------------------------- the configured bounds: a process-wide table
\* key = <<offset, point type, space name>>.  GOLoop.setup_bounds() enters the
\* built-in names for every supported offset and point type; every line of an
\* ITERATION-SPACES entry of a configuration file is one GOLoop.add_bounds()
\* ("current_bounds[offset][type][name] = bounds"): the last definition of a
\* key wins, other keys are untouched, and nothing is ever removed - loading
\* another configuration file in the same process only adds / overwrites.
InitTable == [key \in Offsets \X PointTypes \X BuiltinSpaces |-> Builtin(key[3])]
AddBounds(tab, key, sp) == [x \in DOMAIN tab \cup {key} |-> IF x = key THEN sp ELSE tab[x]]
LineKey(ln) == <<ln.off, ln.pt, ln.sp.name>>
RECURSIVE LoadLines(_, _, _)
LoadLines(tab, lines, i) ==           \* one configuration file = its lines in order
  IF i > Len(lines) THEN tab ELSE LoadLines(AddBounds(tab, LineKey(lines[i]), lines[i].sp), lines, i + 1)
RECURSIVE LoadSteps(_, _, _)
LoadSteps(tab, steps, n) ==           \* the files loaded so far, in order
  IF n = 0 THEN tab ELSE LoadLines(LoadSteps(tab, steps, n - 1), steps[n], 1)
Undefined == Builtin("#undefined")
Lookup(tab, key) == IF key \in DOMAIN tab THEN tab[key] ELSE Undefined

\* ------------------------------------------------- the region of a kernel
\* k = [off, pt, sp]; pt is also the type of the kernel's iteration-space field
KernelRegion(k, env, go, g) ==
  IF ~IsBuiltin(k.sp) THEN GPoints(UserBox(k.sp, g))
  ELSE IF k.pt = "go_every" THEN DataArray(g)
  ELSE GPoints(EnvBounds(env, go, k.pt, k.sp.name, g))
\* with a re-defined built-in name: the default loops are documented to use the
\* field's internal/whole members whatever the table says; only the constant-
\* loop-bounds form reads the table
KernelRegionF(k, clb, env, go, g) ==
  IF IsRedefined(k.sp) /\ ~clb /\ k.pt # "go_every"
  THEN KernelRegion([k EXCEPT !.sp = Builtin(k.sp.name)], env, go, g)
  ELSE IF IsRedefined(k.sp) /\ k.pt = "go_every" THEN DataArray(g)
  ELSE KernelRegion(k, env, go, g)

\* points a built-in region must contain / may not leave
MustContain(k, go, g) ==
  IF k.pt = "go_every" THEN Halo1(g)
  ELSE StrictInterior(go, k.pt, g)
       \cup (IF k.sp.name = "go_all_pts" THEN TInternal(g) ELSE {})
       \cup (IF k.sp.name = "go_all_pts" /\ k.off # "go_offset_any" THEN Touching(go, k.pt, g) ELSE {})
\* (a kernel with go_offset_any runs on a grid of either offset: go is the grid's)
MayContain(k, go, g) ==
  IF k.pt # "go_every" /\ k.sp.name = "go_internal_pts" /\ k.off # "go_offset_any"
  THEN Touching(go, k.pt, g) ELSE Halo1(g)

WithinDepth1Halo(R, g)    == R \subseteq Halo1(g)
ContainsInternal(R, k, go, g) == MustContain(k, go, g) \subseteq R
NotBeyondDomain(R, k, go, g)  == R \subseteq MayContain(k, go, g)

\* ------------------------------------------------------ call logs
\* a log is a sequence of [n |-> kernel label, p |-> <<i, j>>]
LogPoints(log)      == {log[x].p : x \in DOMAIN log}
VisitedBy(log, n)   == {log[x].p : x \in {y \in DOMAIN log : log[y].n = n}}
CallCount(log, n)   == Cardinality({y \in DOMAIN log : log[y].n = n})
IsAt(e, p)          == e.p = p
PointSeq(log, p)    == LET at == SelectSeq(log, LAMBDA e : e.p = p) IN
                       [x \in DOMAIN at |-> at[x].n]
SameSequences(a, b) == \A p \in LogPoints(a) \cup LogPoints(b) : PointSeq(a, p) = PointSeq(b, p)
EachPointOnce(log, n)        == CallCount(log, n) = Cardinality(VisitedBy(log, n))
VisitedEqualsRegion(log, n, R) == VisitedBy(log, n) = R

\* the log a correct loop nest produces for one kernel: outer j, inner i
RECURSIVE BoxLog(_, _, _, _)
BoxLog(n, b, i, j) == IF j > b.ye \/ b.xs > b.xe THEN <<>>
                      ELSE IF i > b.xe THEN BoxLog(n, b, b.xs, j + 1)
                      ELSE <<[n |-> n, p |-> <<i, j>>]>> \o BoxLog(n, b, i + 1, j)

\* =========================================================================
\* Design level: the built-in regions of the reference environment and a
\* family of user-defined spaces satisfy the clauses on every grid; also the
\* generator of the case family handed to the harness (cfg *_gen_*).
IntervalSeq == << <<Term(1, 0, 0), Term(0, 1, 0)>>,    \* {start}:{stop}
                 <<Term(1, 0, -1), Term(0, 1, 1)>>,   \* {start}-1:{stop}+1
                 <<Term(0, 0, 1), Term(0, 1, -1)>>,   \* 1:{stop}-1
                 <<Term(1, 0, 0), Term(1, 0, 0)>>,    \* {start}:{start}
                 <<Term(0, 1, 0), Term(0, 1, 1)>>,    \* {stop}:{stop}+1
                 <<Term(1, 0, -1), Term(1, 0, 0)>>,   \* {start}-1:{start}
                 <<Term(2, 0, -1), Term(-1, 1, 1)>>,  \* 2*{start}-1:{stop}-{start}+1
                 <<Term(0, 0, 3), Term(0, 0, 2)>> >>  \* 3:2 (empty)
NI == Len(IntervalSeq)
UserSpace(name, oi, ii) == [name |-> name, os |-> oi[1], oe |-> oi[2], is |-> ii[1], ie |-> ii[2]]

VARIABLE sel
DesignCases == [off : GridOffsets, pt : FieldTypes, name : BuiltinSpaces, g : Grids]
InitDesign == sel \in DesignCases
NextDesign == UNCHANGED sel
DK(s) == [off |-> s.off, pt |-> s.pt, sp |-> Builtin(s.name)]
DRegion(s) == KernelRegion(DK(s), "ref", s.off, s.g)
InvWithinDepth1Halo == WithinDepth1Halo(DRegion(sel), sel.g)
InvContainsInternal == ContainsInternal(DRegion(sel), DK(sel), sel.off, sel.g)
InvNotBeyondDomain  == NotBeyondDomain(DRegion(sel), DK(sel), sel.off, sel.g)
InvInternalInAll    ==
  KernelRegion([off |-> sel.off, pt |-> sel.pt, sp |-> Builtin("go_internal_pts")], "ref", sel.off, sel.g)
  \subseteq KernelRegion([off |-> sel.off, pt |-> sel.pt, sp |-> Builtin("go_all_pts")], "ref", sel.off, sel.g)
InvTInternalInAll   ==
  TInternal(sel.g) \subseteq
  KernelRegion([off |-> sel.off, pt |-> sel.pt, sp |-> Builtin("go_all_pts")], "ref", sel.off, sel.g)
\* the synthetic environments stay inside the halo and nest (internal in whole),
\* and distinguish every pair of (type, member) in one of them
InvSynthNested ==
  \A env \in {"genA", "genB"} :
    /\ GPoints(EnvBounds(env, sel.off, sel.pt, "go_internal_pts", sel.g))
         \subseteq GPoints(EnvBounds(env, sel.off, sel.pt, "go_all_pts", sel.g))
    /\ GPoints(EnvBounds(env, sel.off, sel.pt, "go_all_pts", sel.g)) \subseteq Halo1(sel.g)
InvSynthDistinct ==
  \A t2 \in FieldTypes \ {sel.pt} : \A s2 \in BuiltinSpaces :
    EnvBounds("genA", sel.off, sel.pt, sel.name, sel.g) # EnvBounds("genA", sel.off, t2, s2, sel.g)
\* BoxLog is the log the clauses accept
InvBoxLog == LET b == RefBox(sel.off, sel.pt, sel.name, sel.g)
                 log == BoxLog("k", b, b.xs, b.ys) IN
             /\ VisitedEqualsRegion(log, "k", DRegion(sel))
             /\ EachPointOnce(log, "k")

\* ------------------------------------------------- generator of the family
\* one element = one invoke: kernels (offset, point type, space) + the
\* transformation histories to apply to it
CONSTANT Tier
K(o, t, sp) == [off |-> o, pt |-> t, sp |-> sp]
Ops1 == {"OMP", "OMPL", "ACC", "EXT", "CLB", "MOVE1"}
Ops2 == {"FUSE", "FUSEO", "OMP", "ACC", "EXT", "CLB", "MOVE1", "MOVE2"}
SeqsUpTo(S, n) == UNION {[1..m -> S] : m \in 1..n}
Distinct(h) == \A a, b \in DOMAIN h : a # b => h[a] # h[b]
HasFuse(h) == \E a \in DOMAIN h : h[a] \in {"FUSE", "FUSEO"}
Hists1(n) == {h \in SeqsUpTo(Ops1, n) : Distinct(h)}
Hists2(n) == {h \in SeqsUpTo(Ops2, n) : Distinct(h) /\ HasFuse(h)
                                         /\ ~({"FUSE", "FUSEO"} \subseteq {h[a] : a \in DOMAIN h})}
\* a few histories of length three that matter for fusion (quick tier)
Hists2Core == {<<"MOVE1", "MOVE2", "FUSE">>, <<"FUSE", "CLB", "MOVE1">>, <<"CLB", "FUSE", "OMP">>,
               <<"FUSE", "MOVE2", "CLB">>, <<"FUSE", "ACC", "CLB">>, <<"FUSE", "EXT", "CLB">>,
               <<"MOVE1", "FUSE", "CLB">>, <<"FUSE", "OMP", "EXT">>}
Thorough == (Tier = "thorough")

\* F1: one kernel, every offset x point type x built-in space
Fam1 == {[fam |-> "F1", steps |-> <<>>, kernels |-> <<K(o, t, Builtin(s))>>,
          hists |-> Hists1(IF Thorough THEN 3 ELSE 2)] :
         o \in Offsets, t \in PointTypes, s \in BuiltinSpaces}
\* F2: two kernels, fusion histories
OffPairs  == {<<"go_offset_sw", "go_offset_sw">>, <<"go_offset_ne", "go_offset_ne">>,
              <<"go_offset_ne", "go_offset_any">>, <<"go_offset_any", "go_offset_sw">>,
              <<"go_offset_any", "go_offset_any">>}
TypePairs == {<<"go_cu", "go_cu">>, <<"go_ct", "go_ct">>, <<"go_cf", "go_cf">>, <<"go_cu", "go_cv">>,
              <<"go_every", "go_every">>, <<"go_ct", "go_every">>}
SpPairs   == {<<"go_internal_pts", "go_internal_pts">>, <<"go_all_pts", "go_all_pts">>,
              <<"go_internal_pts", "go_all_pts">>}
Fam2 == {[fam |-> "F2", steps |-> <<>>, kernels |-> <<K(op[1], tp[1], Builtin(sp[1])), K(op[2], tp[2], Builtin(sp[2]))>>,
          hists |-> IF Thorough
                    THEN {h \in Hists2(3) : Len(h) <= 2 \/ \E a \in DOMAIN h : h[a] = "CLB"} \cup Hists2Core
                    ELSE Hists2(2) \cup Hists2Core] :
         op \in OffPairs, tp \in TypePairs, sp \in SpPairs}
\* F3: one kernel with a user-defined space; (offset, type) rotate with the space
OffSeq  == <<"go_offset_sw", "go_offset_ne", "go_offset_any">>
TypeSeq == <<"go_ct", "go_cu", "go_cv", "go_cf">>
HistsUser == {<<"CLB">>, <<"MOVE1">>, <<"OMP">>, <<"EXT">>, <<"CLB", "MOVE1">>, <<"MOVE1", "CLB">>,
              <<"ACC", "CLB">>}
Fam3 == {[fam |-> "F3", steps |-> <<>>,
          kernels |-> <<K(OffSeq[((a + b) % 3) + 1], TypeSeq[((a + 2 * b) % 4) + 1],
                          UserSpace("go_us1", IntervalSeq[a], IntervalSeq[b]))>>,
          hists |-> HistsUser] : a \in 1..NI, b \in 1..NI}
\* F4: two kernels with user-defined spaces of the same point type: same space,
\* different spaces, and the same space *name* under two offsets (a kernel with
\* go_offset_any next to one with a definite offset) with different bounds
HistsUser2 == {<<"FUSE">>, <<"FUSE", "CLB">>, <<"CLB", "FUSE">>, <<"MOVE1", "MOVE2", "FUSE">>,
               <<"FUSE", "OMP">>, <<"FUSEO">>}
Fam4 == {[fam |-> "F4", steps |-> <<>>,
          kernels |-> <<K(op[1], t, UserSpace("go_us1", IntervalSeq[a], IntervalSeq[b])),
                        K(op[2], t, UserSpace(IF same THEN "go_us1" ELSE "go_us2",
                                               IntervalSeq[IF op[1] = op[2] /\ same THEN a ELSE c],
                                               IntervalSeq[b]))>>,
          hists |-> HistsUser2] :
         op \in {<<"go_offset_sw", "go_offset_sw">>, <<"go_offset_ne", "go_offset_any">>},
         t \in {"go_ct", "go_cu"}, a \in {1, 2}, b \in {1, 3}, c \in {2, 5}, same \in BOOLEAN}
\* F5: configuration histories in one process.  steps[n] = the ITERATION-SPACES
\* lines of the n-th configuration file loaded; after every load the invoke is
\* generated with default loops and with constant loop bounds.  The kernel's
\* space is given by name only: its bounds are whatever the table holds.
Line(key, name, oi, ii) == [off |-> key[1], pt |-> key[2], sp |-> UserSpace(name, oi, ii)]
IV(n) == IntervalSeq[n]
KeyPairs == {<<<<"go_offset_sw", "go_ct">>, <<"go_offset_sw", "go_cu">>>>,
             <<<<"go_offset_ne", "go_cu">>, <<"go_offset_ne", "go_ct">>>>,
             <<<<"go_offset_any", "go_cf">>, <<"go_offset_sw", "go_cf">>>>,
             <<<<"go_offset_sw", "go_cv">>, <<"go_offset_any", "go_cv">>>>}
BoundPairs == IF Thorough
              THEN {<<1, 2, 1, 1>>, <<4, 5, 1, 1>>, <<1, 1, 3, 7>>, <<2, 1, 5, 4>>, <<1, 3, 2, 2>>, <<7, 4, 1, 5>>}
              ELSE {<<1, 2, 1, 1>>, <<2, 3, 5, 1>>}     \* <<outerA, outerB, innerA, innerB>>
Scenarios(kk, o, bp, nm) ==
  LET A == Line(kk, nm, IV(bp[1]), IV(bp[3]))   B == Line(kk, nm, IV(bp[2]), IV(bp[4]))
      OA == Line(o, nm, IV(bp[2]), IV(bp[4]))   OB == Line(o, nm, IV(bp[1]), IV(bp[4])) IN
  {<< <<A>>, <<B>> >>,                     \* re-defined by a second file
   << <<A>>, <<B>>, <<A>> >>,              \* ... and back
   << <<A, B>> >>,                         \* twice in one file: the last one wins
   << <<B, A>>, <<A, B>> >>,
   << <<A, OA>>, <<OB, B>> >>,             \* same name for another (offset, type): no interference
   << <<A>>, <<OA>> >>,                    \* ... a file that only defines the other key
   << <<OA, A>> >>,
   << <<>>, <<A>>, <<B>> >>}               \* first file without the space (refused), then defined
Fam5 == UNION {{[fam |-> "F5", steps |-> st, kernels |-> <<K(x[1][1][1], x[1][1][2], Builtin(x[3]))>>,
                 hists |-> {<<"CLB">>}] : st \in Scenarios(x[1][1], x[1][2], x[2], x[3])} :
               x \in KeyPairs \X BoundPairs \X {"go_us1", "go_internal_pts", "go_all_pts"}}
\* (for nm a built-in name the first scenario step also exercises "re-defines a
\* built-in name for one (offset, point type)")
Family == Fam1 \cup Fam2 \cup Fam3 \cup Fam4 \cup Fam5

\* design level of the table: last definition wins, other keys untouched
TKeys   == {<<"go_offset_sw", "go_ct", "go_us1">>, <<"go_offset_ne", "go_ct", "go_us1">>,
            <<"go_offset_sw", "go_ct", "go_internal_pts">>}
TSpaces(key) == {UserSpace(key[3], IV(1), IV(2)), UserSpace(key[3], IV(2), IV(1))}
InitTab == sel = [tab |-> InitTable, last |-> <<>>]
NextTab == \E key \in TKeys : \E sp \in TSpaces(key) :
             sel' = [tab |-> AddBounds(sel.tab, key, sp), last |-> <<key, sp>>]
InvLastWins == sel.last # <<>> => Lookup(sel.tab, sel.last[1]) = sel.last[2]
InvBuiltinsStay == \A key \in DOMAIN InitTable :
                     key \notin TKeys => sel.tab[key] = InitTable[key]
PropNoInterference == [][\A key \in DOMAIN sel.tab :
                           key # sel'.last[1] => sel'.tab[key] = sel.tab[key]]_sel

InitGen == /\ sel \in Family
           /\ PrintT("CASE " \o ToJson(sel))
NextGen == UNCHANGED sel
=============================================================================
