INIT Init
NEXT Step
