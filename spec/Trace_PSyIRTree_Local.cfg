INIT Init
NEXT Step
