INIT Init
NEXT Step
