--------------------------- MODULE Trace_LFRicHalo ---------------------------
(* C22 - executes the items of generated LFRic PSy layers (itemised from the  *)
(* Fortran text PSyclone wrote) on the halo model of LFRicHalo.tla, from      *)
(* every initial truth/flag state and every run-time valuation.               *)
(*                                                                            *)
(* File: [hmin, hmax, cases]; case = [id, cont ("c"|"d"|"u"), ann (BOOLEAN:   *)
(* COMPUTE_ANNEXED_DOFS), nv (number of run-time stencil extents), steps];    *)
(* step = [k |-> "hex"|"hexs"|"hexf", g, e] | [k |-> "dirty"] |               *)
(* [k |-> "clean", e] | [k |-> "loop", kind, ub, d, acc].                     *)
EXTENDS Integers, Sequences, FiniteSets, TLC, Json, IOUtils

Fam   == JsonDeserialize(IOEnv.PV_CASES)
Cases == Fam.cases

VARIABLES cid,      \* case
          w,        \* witness: continuity, valuation and initial state chosen
          pos,      \* next step
          st,       \* current [ann, halo, flag, pend]
          verdict   \* "run", "ok", "inadm" or the violated clause
vars == <<cid, w, pos, st, verdict>>

M == INSTANCE LFRicHalo WITH MaxH <- 0, cont <- FALSE, annexedOn <- FALSE,
                             H <- 0, err <- "none"

ContSet(c) == IF c.cont = "c" THEN {TRUE} ELSE IF c.cont = "d" THEN {FALSE}
              ELSE BOOLEAN
\* a stencil extent passed as a variable may be 0 (the stencil is then the cell
\* itself; the docstring of LFRicHaloExchange.required() says so as well)
Valuations(c, h) == [H : {h}, v : [1..c.nv -> 0..h]]

\* every depth of the case exists on a mesh of depth val.H
StepAdm(s, val) ==
  CASE s.k \in {"hex", "hexs", "hexf"} ->
         /\ M!Eval(s.e, val) \in 0..val.H
         /\ M!Guarded(s) => M!Eval(s.g, val) \in 0..val.H
    [] s.k = "clean" -> M!Eval(s.e, val) \in 0..val.H
    [] s.k = "loop"  ->
         /\ M!Depth(s, val) \in 0..val.H
         /\ \A i \in DOMAIN s.acc :
              /\ M!Eval(s.acc[i].s, val) \in 0..val.H
              /\ M!Reach(s, s.acc[i], val) \in 0..val.H
    [] OTHER -> TRUE
Admissible(c, val) == \A i \in DOMAIN c.steps : StepAdm(c.steps[i], val)

\* Init only picks the case: the initial states of a case are produced by the
\* first step (Choose) so that TLC's workers share the work
Blank == [ann |-> TRUE, halo |-> 0, flag |-> 0, pend |-> "none"]
Init ==
  /\ cid \in 1..Len(Cases)
  /\ pos = 0
  /\ st = Blank
  /\ w = [cont |-> FALSE, val |-> [H |-> 0, v |-> <<>>], init |-> Blank]
  /\ verdict = "init"

Choose ==
  /\ verdict = "init"
  /\ \E h \in Fam.hmin..Fam.hmax : \E val \in Valuations(Cases[cid], h) :
     \E ct \in ContSet(Cases[cid]) :
       IF Admissible(Cases[cid], val)
       THEN \E s0 \in M!InitStates(ct, Cases[cid].ann, h) :
              /\ st' = s0
              /\ w' = [cont |-> ct, val |-> val, init |-> s0]
              /\ verdict' = "run"
       ELSE /\ st' = Blank
            /\ w' = [cont |-> ct, val |-> val, init |-> Blank]
            /\ verdict' = "inadm"
  /\ pos' = 1
  /\ UNCHANGED cid

Apply(c, s) ==
  CASE s.k = "hex"   -> M!DoHex(w.cont, st, s, w.val)
    [] s.k = "hexs"  -> M!DoHexStart(w.cont, st, s, w.val)
    [] s.k = "hexf"  -> M!DoHexFinish(w.cont, st, s, w.val)
    [] s.k = "dirty" -> M!DoDirty(st)
    [] s.k = "clean" -> M!DoClean(st, M!Eval(s.e, w.val))
    [] s.k = "loop"  -> M!DoLoop(w.cont, st, s, w.val)

\* why a read is dirty: only the annexed dofs, or halo levels too
Reason(c, s) ==
  IF s.k # "loop" THEN "-"
  ELSE LET bad == M!DirtyReads(w.cont, st, s, w.val) IN
       IF bad = {} THEN "-"
       ELSE IF \A i \in bad : st.halo >= M!NeedHalo(s, s.acc[i], w.val)
       THEN "annexed" ELSE "halo"

Fail(c, clause, why) ==
  /\ verdict' = clause
  /\ PrintT("VERDICT " \o ToJson([id |-> c.id, v |-> clause, pos |-> pos,
                                   why |-> why, w |-> w, st |-> st]))
  /\ UNCHANGED <<cid, w, pos, st>>

Run ==
  LET c == Cases[cid] IN
  /\ verdict = "run"
  /\ IF pos <= Len(c.steps)
     THEN LET s == c.steps[pos]
              r == Apply(c, s) IN
          IF r.err = "none"
          THEN /\ st' = r.st /\ pos' = pos + 1
               /\ UNCHANGED <<cid, w, verdict>>
          ELSE Fail(c, r.err, Reason(c, s))
     ELSE LET e == M!AtEnd(w.cont, c.ann, st) IN
          IF e = "none"
          THEN /\ verdict' = "ok" /\ UNCHANGED <<cid, w, pos, st>>
          ELSE Fail(c, e, "-")
Step == Choose \/ Run
Spec == Init /\ [][Step]_vars
===============================================================================
