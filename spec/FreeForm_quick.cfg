CONSTANTS
 Alphabet = {97, 32, 44, 39, 33, 38, 61}
 MaxBody = 4
 CodeLimits = {5}
 DirLimits = {11}
 LinePrefixes <- PrefixesStd
INIT Init
NEXT Next
INVARIANT InvJoin
INVARIANT InvMaxLen
INVARIANT InvIdem
INVARIANT InvSingle
INVARIANT InvTokens
