\* all interleavings of 1..3 runs, both schemes, with/without an earlier kernel,
\* atomic and split writes: every invariant must hold
CONSTANTS MaxRuns = 3
 RunCounts = {1, 2, 3}
 Schemes = {"multiple", "single"}
 Versions = {1, 2}
 PreChoices = {0, 1, 2}
 SplitChoices = {FALSE, TRUE}
INIT Init
NEXT Next
VIEW View
INVARIANT TypeOK
INVARIANT NoStuck
INVARIANT MultipleFresh
INVARIANT SingleStep
INVARIANT SingleShared
INVARIANT InvNoPartialVerdict
INVARIANT TempsRemoved
INVARIANT MemorySound
