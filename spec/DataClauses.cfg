INIT Init
NEXT Step
