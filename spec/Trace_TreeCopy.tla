--------------------------- MODULE Trace_TreeCopy ---------------------------
(* C15, binding A: validates observations recorded from REAL psyclone trees  *)
(* against the clauses of TreeCopy.tla.                                       *)
(* A case is one history enumerated by TreeCopy.tla (family member p, Copy of *)
(* a subtree, then edits) that the harness replayed on a freshly built real   *)
(* tree; `pre`/`post` are the observations before and after the LAST          *)
(* operation of the history (every prefix of a history is a case of its own). *)
(* File (PV_CASES): [items, sides, cases]                                     *)
(*   items : interned records - declaration heads [p,s,cls,ifc,arr,const,acc],*)
(*           node kinds [p,k], uses [p,s,r,i,nm,tgt], node objects [o,cat],   *)
(*           table membership [o,tp]                                          *)
(*   sides : [t (id of the written text, 0 = not written), D, N, u, n, st     *)
(*           (item indexes), s (identities of the symbol objects in tables)]  *)
(*   cases : [p, h, pre, post] with pre/post = [O, C (side indexes), eq, ref] *)
(* Every case ends in one terminal state; a failing clause prints a VERDICT   *)
(* line (clause + witness), an outcome that satisfies the clauses but is not  *)
(* what TreeCopy!Eff predicts prints a DIV line (no alarm).                   *)
EXTENDS Naturals, Sequences, FiniteSets, TLC, Json, IOUtils

VARIABLES prog, m, pm, hist, lastref      \* TreeCopy's variables (not used)
VARIABLES cid, verdict
T == INSTANCE TreeCopy WITH RepointRoles <- {"ref", "loopvar", "call", "ret", "kind",
                                              "shape", "init", "ifc"},
                            MaxEdits <- 0, MaxEditsFile <- 0, Wide <- FALSE,
                            NewNames <- {}, OpKinds <- {}, ProgIds <- {}, SimMode <- FALSE,
                            LoopVarByName <- FALSE

File  == JsonDeserialize(IOEnv.PV_CASES)
Items == File.items
N     == Len(File.cases)
ToSet(q) == {q[i] : i \in DOMAIN q}
ItemSet(q) == {Items[q[i]] : i \in DOMAIN q}
Side(k) == LET j == File.sides[k]
               u == ItemSet(j.u)
               n == ItemSet(j.n)
           IN [tw |-> j.t > 0, t |-> j.t, D |-> ItemSet(j.D), N |-> ItemSet(j.N),
               u |-> u, U |-> T!Strip(u), n |-> n, no |-> {x.o : x \in n},
               s |-> ToSet(j.s), st |-> ItemSet(j.st)]
\* every distinct side observation is converted once (TLC evaluates a function
\* constructor lazily, per application; comparing it forces and caches the table)
Sides == LET f == [k \in DOMAIN File.sides |-> Side(k)]
         IN IF f = <<>> THEN <<>> ELSE f
Obs(j) == [O |-> Sides[j.O], C |-> Sides[j.C], eq |-> j.eq, ref |-> j.ref]

\* where the real outcome differs from the model's prediction
Diverge(c, post) ==
  LET h    == c.h
      Mpre == T!Run(T!InitM(c.p), SubSeq(h, 1, Len(h) - 1))
      e    == T!Eff(Mpre, h[Len(h)])
      pred == T!ObsOf(e.M)
  IN IF post.ref /\ e.out = "ok" THEN "overrefusal"
     ELSE IF ~ post.ref /\ e.out = "ref" THEN "underrefusal"
     ELSE IF ~ T!RenderEq(pred.O, post.O) THEN "renderO"
     ELSE IF ~ T!RenderEq(pred.C, post.C) THEN "renderC"
     ELSE "same"

Init == /\ cid \in 1..N
        /\ verdict = "run"
        /\ prog = 0 /\ m = 0 /\ pm = 0 /\ hist = 0 /\ lastref = 0

Step ==
  /\ verdict = "run"
  /\ LET c    == File.cases[cid]
         op   == c.h[Len(c.h)]
         pre  == Obs(c.pre)
         post == Obs(c.post)
         V    == T!Verdicts(pre, op, post, Len(c.h) = 1)
         d    == IF V = <<>> THEN Diverge(c, post) ELSE "same"
     IN /\ verdict' = IF V = <<>> THEN "ok" ELSE "fail"
        /\ \A i \in DOMAIN V :
              PrintT("VERDICT " \o ToJson([id |-> cid, v |-> V[i].v, w |-> V[i].w]))
        /\ (d # "same") => PrintT("DIV " \o ToJson([id |-> cid, d |-> d]))
  /\ UNCHANGED <<prog, m, pm, hist, lastref, cid>>
Spec == Init /\ [][Step]_<<prog, m, pm, hist, lastref, cid, verdict>>
=============================================================================
