INIT Init
NEXT Step
