CONSTANTS Items <- ItemsSmall
 MaxLen = 3
 Writer = "moves_private"
INIT Init
NEXT Next
INVARIANT InvTextStable
