------------------------------- MODULE SemOmp -------------------------------
(* C09: an OpenMP worksharing loop with the clauses PSyclone generated is     *)
(* executed on T threads under FortranSem.  Shared variables live in the      *)
(* store; private / firstprivate variables and the loop variable are per-     *)
(* thread cells "x@t" reached through the machine's name environment;         *)
(* iterations are distributed over the threads in every way the schedule      *)
(* kind allows; a thread runs its iterations in order, one top-level          *)
(* statement of the loop body per step, and the threads interleave at that    *)
(* granularity.  Every terminal state must have the shared observables of the *)
(* serial run; reading an undefined private is an error.                      *)
EXTENDS FortranSem, Json, IOUtils

Cases == JsonDeserialize(IOEnv.PV_CASES)

VARIABLES cid, val, fm, T, phase, M, its, owner, cur, pos, done, ref, verdict, li
vars == <<cid, val, fm, T, phase, M, its, owner, cur, pos, done, ref, verdict, li>>

C == Cases[cid]
Thr(t, nm) == nm \o "@" \o ToString(t)
\* c.loops: the worksharing loops of the region in textual order (one for `parallel do`);
\* each ends with the implicit barrier of `omp do`.  Private copies live for the whole
\* region, so a private scalar carries its per-thread value from one loop to the next.
LoopVars(c) == {c.loops[k].var : k \in DOMAIN c.loops}
PrivNames(c) == SeqSet(c.private) \cup SeqSet(c.firstprivate) \cup LoopVars(c)
CurLoop == C.loops[li]
Live(c) == [i \in 1..Len(c.live) |-> c.live[i]]

EnvOf(MM, c, t) ==
  [nm \in PrivNames(c) |-> IdDesc(MM.st, Thr(t, nm))]

\* owner functions allowed by the schedule kind
Owners(N, TT, kind) ==
  IF kind = "static"
  THEN {f \in [1..N -> 1..TT] : \A a, b \in 1..N : a < b => f[a] <= f[b]}
  ELSE [1..N -> 1..TT]

Init == /\ cid \in 1..Len(Cases)
        /\ val \in Valuations(Cases[cid].dom, Len(Cases[cid].dom))
        /\ fm \in SeqSet(Cases[cid].fills)
        /\ T \in 1..Cases[cid].tmax
        /\ phase = "start"
        /\ M = <<>> /\ its = <<>> /\ owner = <<>> /\ cur = <<>> /\ pos = <<>> /\ done = {}
        /\ ref = <<>> /\ verdict = "run" /\ li = 1

Stop(v) == /\ phase' = "end" /\ verdict' = v
           /\ UNCHANGED <<cid, val, fm, T, M, its, owner, cur, pos, done, ref, li>>
Fail(clause, w) ==
  /\ PrintT("VERDICT " \o ToJson([id |-> C.id, v |-> clause,
                                  w |-> [val |-> val, fm |-> fm, T |-> T, owner |-> owner, x |-> w]]))
  /\ Stop(clause)

\* private cells for every thread: same type/shape as the original, undefined,
\* firstprivate ones copied from the original at region entry
WithPrivates(st, c, TT) ==
  LET new == {<<t, nm>> : t \in 1..TT, nm \in PrivNames(c)}
      key(p) == Thr(p[1], p[2])
      cell(p) == IF p[2] \in SeqSet(c.firstprivate) THEN st[p[2]]
                 ELSE [st[p[2]] EXCEPT !.d = [q \in DOMAIN st[p[2]].d |-> POISON]]
  IN [x \in DOMAIN st \cup {key(p) : p \in new} |->
        IF x \in DOMAIN st THEN st[x]
        ELSE cell(CHOOSE p \in new : key(p) = x)]

Start ==
  /\ phase = "start"
  /\ LET c == C
         st0 == InitStore(c.decls, c.dom, val, fm)
         Ms == ExecSeq(NewMachine(st0, c.subs, FALSE), c.serial, 1)
     IN IF Ms.sig \notin {"", "return"}
        THEN /\ PrintT("DISCARD " \o ToJson([id |-> c.id])) /\ Stop("discard")
        ELSE LET Mp == ExecSeq(NewMachine(st0, c.subs, FALSE), c.pre, 1) IN
             IF Mp.sig # "" THEN Fail("NoNewUndefined", "prefix")
             ELSE IF ~(PrivNames(c) \subseteq DOMAIN Mp.st) THEN Fail("NoNewUndefined", "loop header")
             ELSE LET M0 == [Mp EXCEPT !.st = WithPrivates(@, c, T)]
                      lp == c.loops[1]
                      lo == Eval(M0, lp.lo)  hi == Eval(M0, lp.hi)  sp == Eval(M0, lp.st)
                  IN IF IsP(lo) \/ IsP(hi) \/ IsP(sp) THEN Fail("NoNewUndefined", "loop header")
                     ELSE IF sp.v = 0 THEN Fail("NoNewUndefined", "loop header")
                     ELSE LET N == LoopTrip(lo.v, hi.v, sp.v) IN
                          /\ its' = [k \in 1..N |-> lo.v + (k - 1) * sp.v]
                          /\ owner' \in Owners(N, T, c.sched)
                          /\ M' = M0
                          /\ cur' = [t \in 1..T |-> 0]
                          /\ pos' = [t \in 1..T |-> 0]
                          /\ done' = {}
                          /\ ref' = LiveOf(Ms, c.live)
                          /\ phase' = "par"
                          /\ UNCHANGED <<cid, val, fm, T, verdict, li>>

\* implicit barrier at the end of a worksharing loop: the next loop of the region starts
\* once every iteration is done; its bounds are evaluated on the shared store
NextLoop ==
  /\ phase = "par"
  /\ done = DOMAIN its /\ \A t \in 1..T : cur[t] = 0
  /\ li < Len(C.loops)
  /\ LET lp == C.loops[li + 1]
         lo == Eval(M, lp.lo)  hi == Eval(M, lp.hi)  sp == Eval(M, lp.st)
     IN IF IsP(lo) \/ IsP(hi) \/ IsP(sp) THEN Fail("NoNewUndefined", "loop header")
        ELSE IF sp.v = 0 THEN Fail("NoNewUndefined", "loop header")
        ELSE LET N == LoopTrip(lo.v, hi.v, sp.v) IN
             /\ its' = [k \in 1..N |-> lo.v + (k - 1) * sp.v]
             /\ owner' \in Owners(N, T, C.sched)
             /\ li' = li + 1
             /\ done' = {}
             /\ UNCHANGED <<cid, val, fm, T, phase, M, cur, pos, ref, verdict>>

Mine(t) == {k \in DOMAIN its : owner[k] = t /\ k \notin done}

StepThread(t) ==
  /\ phase = "par"
  /\ LET c == C IN
     IF cur[t] = 0
     THEN /\ Mine(t) # {}
          /\ LET k == CHOOSE x \in Mine(t) : \A y \in Mine(t) : x <= y
                 lv == Thr(t, CurLoop.var)
             IN /\ cur' = [cur EXCEPT ![t] = k]
                /\ pos' = [pos EXCEPT ![t] = 1]
                /\ M' = [M EXCEPT !.st = StoreAt(@, lv, 1, VI(its[k]))]
                /\ UNCHANGED <<cid, val, fm, T, phase, its, owner, done, ref, verdict, li>>
     ELSE IF pos[t] > Len(CurLoop.body)
     THEN /\ done' = done \cup {cur[t]}
          /\ cur' = [cur EXCEPT ![t] = 0]
          /\ UNCHANGED <<cid, val, fm, T, phase, M, its, owner, pos, ref, verdict, li>>
     ELSE LET Mt == [M EXCEPT !.env = EnvOf(M, c, t)]
              M1 == ExecStmt(Mt, CurLoop.body[pos[t]])
          IN IF M1.sig # ""
             THEN Fail(IF M1.sig = "ub" THEN "NoUndefinedRead" ELSE "NoJumpOutOfLoop",
                       [thread |-> t, iteration |-> its[cur[t]], stmt |-> pos[t]])
             ELSE /\ M' = [M1 EXCEPT !.env = <<>>]
                  /\ pos' = [pos EXCEPT ![t] = @ + 1]
                  /\ UNCHANGED <<cid, val, fm, T, phase, its, owner, cur, done, ref, verdict, li>>

Finish ==
  /\ phase = "par"
  /\ done = DOMAIN its /\ \A t \in 1..T : cur[t] = 0
  /\ li = Len(C.loops)
  /\ LET c == C
         Mf == ExecSeq(M, c.post, 1)
     IN IF Mf.sig \notin {"", "return"} THEN Fail("NoNewUndefined", "suffix")
        ELSE LET diff == LiveDiff(ref, Mf, c.live) IN
             IF diff # {} THEN Fail("SameShared", diff) ELSE Stop("ok")

Next == Start \/ Finish \/ NextLoop \/ \E t \in 1..T : StepThread(t)
Spec == Init /\ [][Next]_vars
===============================================================================
