\* vacuity check of OwnSymbols: same broken Copy, refuted right after Copy.
CONSTANTS RepointRoles <- RolesNoDecl
 MaxEdits = 1
 MaxEditsFile = 1
 Wide = FALSE
 NewNames <- NamesQuick
 OpKinds <- AllOpKinds
 ProgIds <- AllProgs
 SimMode = FALSE
 LoopVarByName = FALSE
INIT Init
NEXT Next
INVARIANT InvOwnSymbols
