\* vacuity check of OwnSymbols: same broken Copy, refuted right after Copy.
CONSTANTS RepointRoles <- RolesNoDecl
 MaxEdits = 1
 MaxEditsFile = 1
 InsertFront = FALSE
 NewNames <- NamesQuick
 OpKinds <- AllOpKinds
 ProgIds <- AllProgs
 SimMode = FALSE
INIT Init
NEXT Next
INVARIANT InvOwnSymbols
