\* stand-alone design-level check of the built-in demo universe
CONSTANT Universe <- DemoUniverse
INIT Init
NEXT Next
VIEW Abs
INVARIANT TypeOK
INVARIANT ParentChildAgree
INVARIANT ValidAtPosition
INVARIANT Acyclic
INVARIANT ParentDetermined
PROPERTY RefusalAtomic
