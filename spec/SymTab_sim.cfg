CONSTANTS MaxId = 10
 MaxDepth = 20
 Names <- NamesQuick
 Tags <- TagsDef
 FindRoots <- FindRootsDef
 SimMode = TRUE
 InitIds <- InitIdsAll
INIT Init
NEXT Next
INVARIANT InvNames
INVARIANT InvTags
INVARIANT InvIds
INVARIANT DumpSim
