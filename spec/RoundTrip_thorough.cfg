CONSTANTS Items <- ItemsLarge
 MaxLen = 5
 Writer = "stable"
INIT Init
NEXT Next
INVARIANT InvNoLoss
INVARIANT InvNoDup
INVARIANT InvSameOrder
INVARIANT InvTextStable
INVARIANT InvSrcNoLoss
INVARIANT InvSrcNoDup
INVARIANT InvNoRunDup
