------------------------------ MODULE SemAdjoint ------------------------------
(* C19 - PSyAD adjoints are the exact transpose of the tangent-linear code.   *)
(*                                                                            *)
(* A case = (tangent-linear routine tl, adjoint routine ad produced by the    *)
(* real psyad.generate_adjoint_str and read back, both exported to pv-ast),   *)
(* the names of the active dummy arguments (act), of the passive dummy        *)
(* arguments (pas), explicit contents of the passive real arrays (pdata) and  *)
(* a list of passive valuations (vals: loop-bound integers, real             *)
(* coefficients as exact rationals).                                          *)
(*                                                                            *)
(* For one (case, valuation) the matrix of a program over the flattened       *)
(* active locations  Locs = <<name, linear index>>  is computed column by     *)
(* column under FortranSem: run the program from the store in which every     *)
(* active location is 0 except location j which is 1; column j = final        *)
(* values of all active locations.  A = matrix of tl, B = matrix of ad.       *)
(*                                                                            *)
(*   Transpose         B[i][j] = A[j][i]  for all i, j  (X[c][r]: column c,   *)
(*                     row r).  With exact rationals  <A x, y> = <x, B y>     *)
(*                     for all x, y  iff  this holds.                         *)
(*   PassiveUnchanged  the adjoint leaves every passive dummy argument as it  *)
(*                     was.                                                   *)
(*   NoNewUndefined    the adjoint is defined wherever the tl code is.        *)
(*                                                                            *)
(* Preconditions (not violations; the valuation is discarded and counted):    *)
(* the tl code is defined on the valuation ("ub"), leaves the passive         *)
(* arguments unchanged ("tlpassive"), and really is a homogeneous linear map  *)
(* of the active inputs ("nonlinear": zero maps to zero, and the image of     *)
(* x = (1, 2, 3, ...) is the same combination of the columns).                *)
EXTENDS FortranSem, Json, IOUtils

Cases == JsonDeserialize(IOEnv.PV_CASES)

VARIABLES cid, vid, verdict
vars == <<cid, vid, verdict>>

RZero == VR(0, 1)
ROne  == VR(1, 1)

\* ------------------------------------------------------------------ stores
DomOf(c) == [j \in DOMAIN c.dom |-> <<c.dom[j], <<>> >>]

\* initial store of the valuation: scalars from val, passive real arrays from
\* c.pdata (small non-zero rationals chosen by the harness), everything active
\* is zero; locals are undefined (InitStore: init = "poison")
BaseStore(c, val) ==
  LET st == InitStore(c.decls, DomOf(c), val, 2)
      act == SeqSet(c.act)
  IN TLCEval([nm \in DOMAIN st |->
        IF nm \in act THEN [st[nm] EXCEPT !.d = TLCEval([p \in DOMAIN @ |-> RZero])]
        ELSE IF nm \in DOMAIN c.pdata
        THEN [st[nm] EXCEPT !.d = TLCEval([p \in DOMAIN @ |->
                 LET x == c.pdata[nm][((p - 1) % Len(c.pdata[nm])) + 1] IN VR(x[1], x[2])])]
        ELSE [st[nm] EXCEPT !.d = TLCEval(@)]])

\* flattened active locations, in the order of c.act
RECURSIVE LocsFrom(_, _, _)
LocsFrom(st, act, k) ==
  IF k > Len(act) THEN <<>>
  ELSE [p \in 1..Len(st[act[k]].d) |-> <<act[k], p>>] \o LocsFrom(st, act, k + 1)

\* store with the active input vector x (Seq of values, one per location)
WithInput(st, locs, x) ==
  LET RECURSIVE Put(_, _)
      Put(s, i) == IF i > Len(locs) THEN s
                   ELSE Put(StoreAt(s, locs[i][1], locs[i][2], x[i]), i + 1)
  IN Put(st, 1)

Unret(M) == IF M.sig = "return" THEN [M EXCEPT !.sig = ""] ELSE M
Run(body, st) == Unret(ExecSeq(NewMachine(st, <<>>, FALSE), body, 1))

RunTrk(body, st) == Unret(ExecSeq(NewMachine(st, <<>>, TRUE), body, 1))
\* active locations a (tracked) run read or wrote
Touched(M, act) == {l \in M.ard \cup M.wr : l[1] \in SeqSet(act)}

OutVec(M, locs) == TLCEval([i \in DOMAIN locs |-> M.st[locs[i][1]].d[locs[i][2]]])
PassiveSame(M, st, pas) == \A i \in DOMAIN pas : M.st[pas[i]].d = st[pas[i]].d

\* one column: [ok (defined), pasok, out]
ColumnOf(M, st, locs, pas) ==
  IF M.sig # "" THEN [ok |-> FALSE, pasok |-> TRUE, out |-> <<>>]
  ELSE [ok |-> TRUE, pasok |-> PassiveSame(M, st, pas), out |-> OutVec(M, locs)]
Column(body, st, locs, pas, j) ==
  ColumnOf(Run(body, WithInput(st, locs,
                 TLCEval([i \in DOMAIN locs |-> IF i = j THEN ROne ELSE RZero]))),
           st, locs, pas)

\* sum_j j * A[j][r]  (exact)
RECURSIVE Comb(_, _, _)
Comb(A, r, j) ==
  IF j = 0 THEN RZero
  ELSE ScalBin("+", Comb(A, r, j - 1), ScalBin("*", VR(j, 1), A[j].out[r]))

\* ------------------------------------------------------------------ judging
\* TLC caches operator ARGUMENTS but re-evaluates LET definitions on every use
\* inside an action, so every computed matrix is passed on as an argument.
\* result: [v |-> verdict, w |-> witness record]
Skip(why) == [v |-> "discard", w |-> [why |-> why]]
UnitVec(N, j) == TLCEval([r \in 1..N |-> IF r = j THEN ROne ELSE RZero])

Judge4(c, st0, locs, N, A, B, D0) ==
  LET undef == {i \in 1..N : ~B[i].ok}
      paschg == {i \in 1..N : B[i].ok /\ ~B[i].pasok}
  IN
  IF D0.sig # "" THEN [v |-> "NoNewUndefined", w |-> [col |-> 0]]
  ELSE IF undef # {} THEN
     [v |-> "NoNewUndefined", w |-> [col |-> CHOOSE i \in undef : \A k \in undef : i <= k]]
  ELSE IF paschg # {} \/ ~PassiveSame(D0, st0, c.pas) THEN
     LET M == IF paschg = {} THEN D0
              ELSE Run(c.ad, WithInput(st0, locs, UnitVec(N, CHOOSE i \in paschg : TRUE)))
         nm == CHOOSE x \in SeqSet(c.pas) : M.st[x].d # st0[x].d
     IN [v |-> "PassiveUnchanged", w |-> [name |-> nm, before |-> st0[nm].d, after |-> M.st[nm].d]]
  ELSE
  LET bad == {ij \in (1..N) \X (1..N) : B[ij[1]].out[ij[2]] # A[ij[2]].out[ij[1]]} IN
  IF bad # {} THEN
     LET ij == CHOOSE x \in bad : \A y \in bad : x[1] < y[1] \/ (x[1] = y[1] /\ x[2] <= y[2])
         i == ij[1]  j == ij[2]
     IN [v |-> "Transpose",
         w |-> [i |-> locs[i], j |-> locs[j], adj |-> B[i].out[j], tl |-> A[j].out[i],
                names |-> {locs[x[1]][1] : x \in bad} \cup {locs[x[2]][1] : x \in bad},
                nbad |-> Cardinality(bad), n |-> N]]
  ELSE IF \A j \in 1..N : A[j].out = UnitVec(N, j)
  THEN [v |-> "trivial", w |-> [why |-> "identity"]]
  ELSE [v |-> "ok", w |-> [why |-> ""]]

Judge3(c, st0, locs, N, A, TX, D0) ==
  IF \E j \in 1..N : ~A[j].ok THEN Skip("ub")
  ELSE IF \E j \in 1..N : ~A[j].pasok THEN Skip("tlpassive")
  ELSE IF TX.sig # "" THEN Skip("ub")
  ELSE IF OutVec(TX, locs) # TLCEval([r \in 1..N |-> Comb(A, r, N)]) THEN Skip("nonlinear")
  ELSE Judge4(c, st0, locs, N, A,
              TLCEval([i \in 1..N |-> Column(c.ad, st0, locs, c.pas, i)]), D0)

Judge2(c, st0, locs, N, T0, D0) ==
  IF T0.sig # "" THEN Skip("ub")
  ELSE IF ~PassiveSame(T0, st0, c.pas) THEN Skip("tlpassive")
  ELSE IF OutVec(T0, locs) # TLCEval([i \in 1..N |-> RZero]) THEN Skip("nonlinear")
  ELSE Judge3(c, st0, locs, N,
              TLCEval([j \in 1..N |-> Column(c.tl, st0, locs, c.pas, j)]),
              Run(c.tl, WithInput(st0, locs, TLCEval([i \in 1..N |-> VR(i, 1)]))), D0)

Judge1b(c, st0, T0, D0, locs) == Judge2(c, st0, locs, Len(locs), T0, D0)

\* The columns are computed for the active locations that the tl code or the
\* adjoint reads or writes (access tracking of FortranSem, zero active input).
\* Neither program's control flow or addressing depends on active data (the
\* harness checks that no active name occurs in a subscript, loop bound or
\* condition of either program, otherwise c.full makes every location a column),
\* so both matrices are the identity on every other location and the transpose
\* relation holds there trivially.
Judge1(c, st0, T0, D0) ==
  IF T0.sig # "" THEN Skip("ub")
  ELSE Judge1b(c, st0, T0, D0,
               IF c.full THEN TLCEval(LocsFrom(st0, c.act, 1))
               ELSE LET tch == Touched(T0, c.act) \cup Touched(D0, c.act) IN
                    TLCEval(SelectSeq(LocsFrom(st0, c.act, 1), LAMBDA l : l \in tch)))
Judge0(c, st0) == Judge1(c, st0, RunTrk(c.tl, st0), RunTrk(c.ad, st0))
Judge(c, val) == Judge0(c, BaseStore(c, val))

Init == /\ cid \in 1..Len(Cases)
        /\ vid \in 1..Len(Cases[cid].vals)
        /\ verdict = "run"

Emit(c, r) ==
  /\ verdict' = r.v
  /\ IF r.v = "ok" THEN TRUE
     ELSE IF r.v \in {"discard", "trivial"}
     THEN PrintT("SKIP " \o ToJson([id |-> c.id, vid |-> vid, v |-> r.v, why |-> r.w.why]))
     ELSE PrintT("VERDICT " \o ToJson([id |-> c.id, vid |-> vid, v |-> r.v, w |-> r.w]))

Step ==
  /\ verdict = "run"
  /\ Emit(Cases[cid], Judge(Cases[cid], Cases[cid].vals[vid]))
  /\ UNCHANGED <<cid, vid>>

Spec == Init /\ [][Step]_vars

\* replay configuration: the clauses as invariants (single case)
InvTranspose == verdict # "Transpose"
InvPassiveUnchanged == verdict # "PassiveUnchanged"
InvNoNewUndefined == verdict # "NoNewUndefined"
===============================================================================
