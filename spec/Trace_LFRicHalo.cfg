INIT Init
NEXT Step
