---------------------------- MODULE Trace_FreeForm ----------------------------
(* C18 - what the real FortLineLength.process did, judged by FreeForm.tla.    *)
(* File (env PV_CASES): [cases |-> <<case, ...>>],                            *)
(*   case = <<id, limit, exc, in, out, exc2, out2>>                           *)
(*   in / out / out2: texts = sequences of lines = sequences of char codes;   *)
(*   exc = 1 iff process(in) raised, exc2 = 1 iff process(out) raised,        *)
(*   out2 = process(out).                                                     *)
(* Every case walks  exc -> len -> same -> idem -> replay* -> end ; each      *)
(* failing clause prints one VERDICT line.  The replay steps validate the     *)
(* output lines of a one-line input as a behaviour of FreeForm's reference    *)
(* wrapper (Break... / Emit actions); an output that satisfies the clauses    *)
(* but is not such a behaviour is a divergence, not a violation.              *)
EXTENDS Integers, Sequences, FiniteSets, TLC, Json, IOUtils

Data  == JsonDeserialize(IOEnv.PV_CASES)
Cases == Data.cases
CaseOf(i) == [id |-> Cases[i][1], lim |-> Cases[i][2], exc |-> Cases[i][3] = 1,
              in |-> Cases[i][4], out |-> Cases[i][5],
              exc2 |-> Cases[i][6] = 1, out2 |-> Cases[i][7]]

VARIABLES line, limit, rest, out, ctx, lead, phase, ref     \* FreeForm's wrapper
VARIABLES cid, pc, pos, cmt0      \* cmt0: comment start of the replayed line
F == INSTANCE FreeForm WITH Alphabet <- {}, MaxBody <- 0, CodeLimits <- {},
                            DirLimits <- {}, LinePrefixes <- {}
wvars == <<line, limit, rest, out, ctx, lead, phase, ref>>
vars  == <<line, limit, rest, out, ctx, lead, phase, ref, cid, pc, pos, cmt0>>

Init == /\ cid \in 1..Len(Cases)
        /\ pc = "exc" /\ pos = 0 /\ cmt0 = 0
        /\ line = <<>> /\ limit = 0 /\ rest = <<>> /\ out = <<>> /\ ctx = 0
        /\ lead = TRUE /\ phase = "idle" /\ ref = <<>>

Verdict(c, clause, w) ==
  PrintT("VERDICT " \o ToJson([id |-> c.id, v |-> clause, w |-> w]))
Goto(p) == pc' = p /\ UNCHANGED <<cid, pos, cmt0>> /\ UNCHANGED wvars

\* ---- NeverFails
StepExc == LET c == CaseOf(cid) IN
  /\ pc = "exc"
  /\ IF c.exc
     THEN /\ IF F!InDomain(c.in, c.lim)
             THEN Verdict(c, "NeverFails", [long |-> Cardinality(F!TooLong(c.in, c.lim))])
             ELSE PrintT("OUTSIDE " \o ToJson([id |-> c.id]))
          /\ Goto("end")
     ELSE Goto("len")

\* ---- MaxLen
StepLen == LET c == CaseOf(cid) IN
  /\ pc = "len"
  /\ IF F!MaxLenOK(c.out, c.lim) THEN TRUE
     ELSE LET i == CHOOSE i \in F!TooLong(c.out, c.lim) : TRUE
          IN Verdict(c, "MaxLen", [line |-> i, len |-> Len(c.out[i])])
  /\ Goto("same")

\* ---- SameProgram (token level)
StepSame == LET c == CaseOf(cid) IN
  /\ pc = "same"
  /\ LET pin  == F!Program(c.in)
         pout == F!Program(c.out)
     IN IF pin = pout THEN TRUE
        ELSE LET d == F!FirstDiff(pin, pout)
             IN Verdict(c, "SameProgram",
                  [at |-> d, nin |-> Len(pin), nout |-> Len(pout),
                   kin  |-> IF d <= Len(pin) THEN pin[d].k ELSE "none",
                   kout |-> IF d <= Len(pout) THEN pout[d].k ELSE "none",
                   tin  |-> IF d <= Len(pin) THEN Len(pin[d].t) ELSE 0,
                   tout |-> IF d <= Len(pout) THEN Len(pout[d].t) ELSE 0,
                   ampInComment |-> F!AmpInComment(c.out),
                   ampAmpComment |-> F!AmpAmpThenComment(c.out),
                   dirOpSplit |-> F!DirOpSplit(c.out)])
  /\ Goto("idem")

\* ---- Idempotent; then set up the replay of a one-line input
StepIdem == LET c == CaseOf(cid) IN
  /\ pc = "idem"
  /\ IF c.exc2 THEN Verdict(c, "Idempotent", [raised |-> TRUE])
     ELSE IF c.out2 # c.out
     THEN Verdict(c, "Idempotent", [raised |-> FALSE, at |-> F!FirstDiff(c.out, c.out2)])
     ELSE TRUE
  /\ IF Len(c.in) = 1 /\ Len(c.out) >= 1 /\ F!LineKind(c.in[1]) # "blank"
     THEN /\ pc' = "replay" /\ pos' = 1
          /\ line' = c.in[1] /\ limit' = c.lim /\ rest' = c.in[1] /\ out' = <<>>
          /\ ctx' = 0 /\ lead' = TRUE /\ phase' = "run" /\ ref' = <<>>
          /\ cmt0' = LET L == c.in[1]
                         k == F!LineKind(L)
                     IN F!ScanCode(L, IF k \in {"omp", "acc"} THEN F!FirstNB(L, 1) + 5 ELSE 1, 0).cmt
          /\ UNCHANGED cid
     ELSE Goto("end")

\* ---- replay: output line `pos` must be produced by an action of the wrapper
StepReplay == LET c == CaseOf(cid) IN
  /\ pc = "replay"
  /\ UNCHANGED <<cid, cmt0>>
  /\ IF pos = Len(c.out)
     THEN /\ F!Emit /\ out' = c.out
          /\ pc' = "replayed" /\ pos' = pos
     ELSE LET kind == F!KindOf
              from == IF kind \in {"omp", "acc"} THEN F!DirFrom ELSE 1
              \* = F!ScanCode(rest, from, ctx).cmt : the comment does not move,
              \* rest is the input line without the characters already cut off
              cmt  == cmt0 - (Len(line) - Len(rest))
              k    == Len(c.out[pos]) - Len(F!ContStart(kind)) - Len(F!ContEnd(kind))
              c1   == F!ScanCode(SubSeq(rest, 1, k), from, ctx).ctx
          IN /\ k \in 1..(Len(rest) - 1)
             /\ \/ F!BreakCode(k, kind, cmt, c1)
                \/ F!BreakDir(k, kind, cmt, c1)
                \/ F!BreakCmt(k, kind)
             /\ out'[pos] = c.out[pos]
             /\ pc' = pc /\ pos' = pos + 1
StepReplayed == LET c == CaseOf(cid) IN
  /\ pc = "replayed"
  /\ PrintT("REPLAYED " \o ToJson([id |-> c.id]))
  /\ Goto("end")

Next == StepExc \/ StepLen \/ StepSame \/ StepIdem \/ StepReplay \/ StepReplayed
Spec == Init /\ [][Next]_vars

\* the wrapper's invariants also hold along every replayed behaviour
InvReplayMaxLen == pc \in {"replay", "replayed"} => F!InvMaxLen
===============================================================================
