INIT Init
NEXT Next
