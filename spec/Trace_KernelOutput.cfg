CONSTANT SplitWrite = FALSE
INIT Init
NEXT Next
