INIT Init
NEXT Step
