------------------------------ MODULE SemAccess ------------------------------
(* Access-set properties decided by executing programs under FortranSem with  *)
(* tracking on (C08 C11 C12):                                                  *)
(*  mode "bernstein": the loop marked in the body was reported parallelisable  *)
(*     (c.verdict) => for every input no two iterations conflict (C08).        *)
(*  mode "stmt": every execution of the tracked statement reads only variables *)
(*     reported read and writes only variables reported written; the reported  *)
(*     access sequence lists the reads before the write of the target (C11).   *)
(*  mode "region": upward-exposed reads of the tracked region are reported     *)
(*     inputs, writes are reported outputs, and re-running the region from the *)
(*     inputs alone reproduces the outputs (C12).                               *)
EXTENDS FortranSem, Json, IOUtils

Cases == JsonDeserialize(IOEnv.PV_CASES)

VARIABLES cid, val, fm, verdict
vars == <<cid, val, fm, verdict>>

Init == /\ cid \in 1..Len(Cases)
        /\ val \in Valuations(Cases[cid].dom, Len(Cases[cid].dom))
        /\ fm \in SeqSet(Cases[cid].fills)
        /\ verdict = "run"

Run(c) == ExecSeq(NewMachine(InitStore(c.decls, c.dom, val, fm), c.subs, c.mode = "bernstein"),
                 c.body, 1)

IsScalarLoc(M, l) == l[1] \in DOMAIN M.st /\ M.st[l[1]].ex = <<>>
Bases(S) == {l[1] : l \in S}

\* ---- C08: Bernstein conditions over the iteration records of the marked loop
\* a scalar every iteration writes before any read of it is privatisable
Privatisable(M, its, l) ==
   IsScalarLoc(M, l) /\ \A r \in DOMAIN its : l \in its[r].wr /\ l \notin its[r].rd
Conflicts(M, its) ==
   {<<p, q, l>> \in {<<p, q, l>> : p \in DOMAIN its, q \in DOMAIN its,
                                    l \in UNION {its[r].wr : r \in DOMAIN its}} :
      /\ p # q
      /\ its[p].grp = its[q].grp           \* same execution of the loop
      /\ l \in its[p].wr
      /\ l \in its[q].ard \cup its[q].wr
      /\ ~Privatisable(M, its, l)}

\* ---- C11
SeqNames(s) == {s[i] : i \in DOMAIN s}
\* position of the first write of name nm in the reported sequence, 0 if none
FirstWrite(seq, nm) == LET ws == {i \in DOMAIN seq : seq[i][1] = nm /\ seq[i][2] # "R"} IN
                       IF ws = {} THEN 0 ELSE CHOOSE i \in ws : \A j \in ws : i <= j
LastRead(seq, names) == LET rs == {i \in DOMAIN seq : seq[i][1] \in names /\ seq[i][2] # "W"} IN
                        IF rs = {} THEN 0 ELSE CHOOSE i \in rs : \A j \in rs : i >= j

Emit(c, clause, w) ==
  /\ verdict' = clause
  /\ PrintT("VERDICT " \o ToJson([id |-> c.id, v |-> clause, w |-> [val |-> val, fm |-> fm, x |-> w]]))
  /\ UNCHANGED <<cid, val, fm>>
Note(tag, c) == PrintT(tag \o " " \o ToJson([id |-> c.id]))

Step ==
  LET c == Cases[cid]  M == Run(c) IN
  /\ verdict = "run"
  /\ IF M.sig \notin {"", "return"} THEN /\ verdict' = "discard" /\ Note("DISCARD", c)
                                         /\ UNCHANGED <<cid, val, fm>>
     ELSE IF c.mode = "bernstein" THEN
        LET cf == Conflicts(M, M.iters) IN
        IF cf = {} THEN /\ verdict' = "ok" /\ UNCHANGED <<cid, val, fm>>
        ELSE IF c.verdict
        THEN LET x == CHOOSE y \in cf : TRUE IN
             Emit(c, "Bernstein", [p |-> x[1], q |-> x[2], var |-> x[3][1], loc |-> x[3][2]])
        ELSE /\ verdict' = "dep" /\ Note("DEP", c) /\ UNCHANGED <<cid, val, fm>>
     ELSE IF c.mode = "stmt" THEN
        LET its == M.iters
            rdn == UNION {Bases(its[r].ard) : r \in DOMAIN its} \cap DOMAIN M.st
            wrn == UNION {Bases(its[r].wr) : r \in DOMAIN its} \cap DOMAIN M.st
            missR == rdn \ SeqNames(c.reads)
            missW == wrn \ SeqNames(c.writes)
        IN IF its = <<>> THEN /\ verdict' = "notreached" /\ Note("NOTREACHED", c)
                              /\ UNCHANGED <<cid, val, fm>>
           ELSE IF missR # {} THEN Emit(c, "MayReadReported", missR)
           ELSE IF missW # {} THEN Emit(c, "MayWriteReported", missW)
           ELSE IF c.target # "" /\ FirstWrite(c.seq, c.target) # 0
                   /\ LastRead(c.seq, rdn) > FirstWrite(c.seq, c.target)
           THEN Emit(c, "ReadsBeforeWrite", {c.target})
           ELSE /\ verdict' = "ok" /\ UNCHANGED <<cid, val, fm>>
     ELSE \* region
        LET its == M.iters IN
        IF its = <<>> THEN /\ verdict' = "notreached" /\ Note("NOTREACHED", c)
                           /\ UNCHANGED <<cid, val, fm>>
        ELSE LET r == its[1]
                 missI == (Bases(r.rd) \cap DOMAIN M.st) \ SeqNames(c.inputs)
                 missO == (Bases(r.wr) \cap DOMAIN M.st) \ SeqNames(c.outputs)
             IN IF missI # {} THEN Emit(c, "ExposedReadIsInput", missI)
                ELSE IF missO # {} THEN Emit(c, "WriteIsOutput", missO)
                ELSE IF r.replay = "ub" THEN Emit(c, "ReplayReadsOnlyInputs", {})
                ELSE IF r.replay = "diff" THEN Emit(c, "ReplayReproducesOutputs", {})
                ELSE /\ verdict' = "ok" /\ UNCHANGED <<cid, val, fm>>
Spec == Init /\ [][Step]_vars
===============================================================================
