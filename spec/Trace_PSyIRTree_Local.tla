------------------------ MODULE Trace_PSyIRTree_Local ------------------------
(* C14, binding B (code -> spec): validates the public tree-editing calls that *)
(* the recorder (harness/pv/c14_recorder.py) saw while the repository's own    *)
(* tests ran, against the relation of PSyIRTree.tla restricted to the recorded *)
(* neighbourhood:  raised => nothing changed (RefusalAtomic);  returned =>     *)
(* LocalParentChildAgree / LocalValidAtPosition / LocalAcyclic.                *)
(* File $PV_CASES: items = << <<id, KP, KC, full, pre, raised, post>>, ... >>  *)
(*   pre/post = <<children, parent, above>>, each a sequence over nodes 1..n.  *)
(* An event whose recorded pre-state is already ill-formed (tests build such   *)
(* trees on purpose through private attributes) is not judged: SKIP line.      *)
EXTENDS Integers, Sequences, FiniteSets, TLC, Json, IOUtils

File  == JsonDeserialize(IOEnv.PV_CASES)
Items == File.items

VARIABLES children, parent, above   \* the recorded neighbourhood
VARIABLES cid, verdict
vars == <<children, parent, above, cid, verdict>>

T == INSTANCE PSyIRTree WITH
       Universe <- [kinds |-> <<"Schedule">>, inits |-> <<>>, parents |-> <<>>,
                    ops |-> <<>>, depth |-> 0, slack |-> 0, pairs |-> 0],
       lastOp <- 0, steps <- 0, hist <- 0, rng <- 0

KPof(i)   == Items[i][2]
KCof(i)   == Items[i][3]
FullOf(i) == {Items[i][4][k] : k \in DOMAIN Items[i][4]}
NOf(i)    == Len(Items[i][2])
AsFun(n, s) == [k \in 1..n |-> s[k]]

Init == /\ cid \in 1..Len(Items)
        /\ children = AsFun(NOf(cid), Items[cid][5][1])
        /\ parent   = AsFun(NOf(cid), Items[cid][5][2])
        /\ above    = AsFun(NOf(cid), Items[cid][5][3])
        /\ verdict = "run"

Say(kind, clause) ==
  /\ verdict' = clause
  /\ PrintT(kind \o " " \o ToJson([id |-> Items[cid][1], v |-> clause]))

Step ==
  LET n    == NOf(cid)
      KP   == KPof(cid)
      KC   == KCof(cid)
      Full == FullOf(cid)
      ch2  == AsFun(n, Items[cid][7][1])
      pa2  == AsFun(n, Items[cid][7][2])
      ab2  == AsFun(n, Items[cid][7][3])
      bad0 == T!LocalFailingClause(n, KP, KC, Full, children, parent, above)
      bad2 == T!LocalFailingClause(n, KP, KC, Full, ch2, pa2, ab2)
  IN
  /\ verdict = "run"
  /\ children' = ch2 /\ parent' = pa2 /\ above' = ab2 /\ cid' = cid
  /\ IF bad0 # "" THEN Say("SKIP", "PreNotWellFormed:" \o bad0)
     ELSE IF Items[cid][6] = 1
     THEN IF ch2 = children /\ pa2 = parent /\ ab2 = above     \* = PSyIRTree!Refuse
          THEN verdict' = "ok"
          ELSE Say("VERDICT", "RefusalAtomic")
     ELSE IF bad2 = "" THEN verdict' = "ok"
          ELSE Say("VERDICT", bad2)
Spec == Init /\ [][Step]_vars
===============================================================================
