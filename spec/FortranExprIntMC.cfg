CONSTANT M = 20
INIT Init
NEXT Next
INVARIANT DivLaw
INVARIANT PowLaw
INVARIANT MinMaxLaw
INVARIANT EvalLaw
