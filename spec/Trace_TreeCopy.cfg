INIT Init
NEXT Step
