INIT Init
NEXT Next
CONSTANTS Api = "lfric"
 Stride = 7
 Offset = 0
 AlgKey = "canon"
 PsyKey = "lower"
INVARIANT InvNoDuplicateDummies
INVARIANT InvPrefixAgree
INVARIANT InvSameLength
INVARIANT InvPredicted
