INIT Init
NEXT Next
CONSTANTS Stride = 2
 Offset = 0
 AlgKey = "canon"
 PsyKey = "lower"
INVARIANT InvNoDuplicateDummies
INVARIANT InvPrefixAgree
INVARIANT InvSameLength
INVARIANT InvPredicted
