CONSTANTS
 Trans = {"t1", "t2"}
 Texts = {"x0", "x1"}
 Syms = {"s0", "s1"}
 Trees = {"n0", "n1"}
 MaxAttempts = 2
 MaxDepth = 2
 Disciplined = TRUE
INIT Init
NEXT Next
INVARIANT TypeOK
INVARIANT InvTextUnchanged
INVARIANT InvSymbolsUnchanged
INVARIANT InvTreeIdentityUnchanged
INVARIANT InvRefusalAtomic
INVARIANT InvCodeWrittenSame
INVARIANT InvRefusalsErasable
PROPERTY ActRefusalAtomic
