------------------------- MODULE Trace_SymTab_Local -------------------------
(* C16, binding B (code -> spec): validates events recorded from the REAL     *)
(* psyclone SymbolTable while the repository's own tests run.  An event is a  *)
(* top-level public call with the LOCAL state before and after it: the        *)
(* table's scope chain up to the root (and the other table of merge /         *)
(* next_available_name), restricted to the entries the call involves (same    *)
(* restriction before and after, see c16_recorder.py).  The clauses are       *)
(* SymTab!Verdict, unchanged.                                                 *)
(* File (PV_CASES): [names, atoms, events]; names are character-code tuples;  *)
(* an event is [pre, post, op, out, res]; a state is [t, p] with a table      *)
(* <<syms, tags, args>>, a symbol <<id, key, name, cls, ifc, dep>>, a tag     *)
(* <<tag, id>> and p the parent table of every table (0 = none).              *)
EXTENDS Naturals, Sequences, FiniteSets, TLC, Json, IOUtils

VARIABLES st, depth, last, hist      \* SymTab's variables (not used here)
VARIABLES cid, verdict
M == INSTANCE SymTab WITH MaxId <- 40, Names <- {}, Tags <- {}, FindRoots <- {},
                          InitIds <- {}, MaxDepth <- 0, SimMode <- FALSE

File == JsonDeserialize(IOEnv.PV_CASES)
ToSet(q) == {q[i] : i \in DOMAIN q}
Nm(k) == [codes |-> File.names[k]]
At(k) == File.atoms[k]
ConvSt(j, dead) ==
  [tabs |-> [t \in 1..Len(j.t) |->
      [syms |-> {[id |-> q[1], key |-> Nm(q[2]), name |-> Nm(q[3]),
                  cls |-> At(q[4]), ifc |-> At(q[5]), dep |-> q[6]]
                 : q \in ToSet(j.t[t][1])},
       tags |-> {[tag |-> At(g[1]), id |-> g[2]] : g \in ToSet(j.t[t][2])},
       args |-> j.t[t][3]]],
   par |-> j.p, dead |-> dead]
ConvOp(j) ==
  LET a == IF "n" \in DOMAIN j THEN [j EXCEPT !.n = Nm(@)] ELSE j
      b == IF "tg" \in DOMAIN a THEN [a EXCEPT !.tg = At(@)] ELSE a
  IN IF "skip" \in DOMAIN b THEN [b EXCEPT !.skip = ToSet(@)] ELSE b
ConvRes(j) == IF "name" \in DOMAIN j THEN [j EXCEPT !.name = Nm(@)]
              ELSE IF "type" \in DOMAIN j THEN [j EXCEPT !.type = At(@)] ELSE j
N == Len(File.events)

\* the property quantifies over histories of operations: an event that STARTS
\* in a state the clauses forbid (a test poked the table's internals, or a
\* symbol shared by two tables was renamed through the other one) is counted
\* as skipped, not judged
PreOK(S) == M!UniqueNormalisedNames(S) /\ M!TagsPointIntoScope(S)

Init == /\ cid \in 1..N
        /\ verdict = "run"
        /\ st = 0 /\ depth = 0 /\ last = 0 /\ hist = 0

Step ==
  /\ verdict = "run"
  /\ LET e    == File.events[cid]
         op   == ConvOp(e.op)
         out  == IF e.out = 1 THEN "ok" ELSE "exc"
         pre  == ConvSt(e.pre, {})
         \* a merge that returned consumes the other table (SymTab!EffMerge)
         post == ConvSt(e.post, IF op.name = "merge" /\ e.out = 1 THEN {op.o} ELSE {})
         res  == ConvRes(e.res)
         v    == IF ~ PreOK(pre) THEN "skip:pre-state-not-well-formed"
                 ELSE M!Verdict(pre, op, out, res, post)
     IN /\ verdict' = v
        /\ (v # "ok") => PrintT("VERDICT " \o ToJson([id |-> cid, v |-> v]))
  /\ UNCHANGED <<st, depth, last, hist, cid>>
Spec == Init /\ [][Step]_<<st, depth, last, hist, cid, verdict>>
=============================================================================
