------------------------------ MODULE DataClauses ------------------------------
(* C13, structural part: every array the region accesses is named in a copyin, *)
(* copyout or copy clause of the generated data directive.  Used for arrays     *)
(* whose declarations FortranSem cannot interpret (assumed size, VOLATILE,      *)
(* CHARACTER, ...), where the device-store execution of SemEquiv is impossible. *)
EXTENDS Naturals, Sequences, TLC, Json, IOUtils
Cases == JsonDeserialize(IOEnv.PV_CASES)
SeqSet(s) == {s[i] : i \in DOMAIN s}
VARIABLES cid, verdict
vars == <<cid, verdict>>
Init == cid \in 1..Len(Cases) /\ verdict = "run"
Step == LET c == Cases[cid]
            missing == SeqSet(c.accessed) \ SeqSet(c.moved)
        IN /\ verdict = "run"
           /\ IF missing = {} THEN verdict' = "ok"
              ELSE /\ verdict' = "AllAccessedArraysMoved"
                   /\ PrintT("VERDICT " \o ToJson([id |-> c.id, v |-> "AllAccessedArraysMoved",
                                                   w |-> [missing |-> missing]]))
           /\ UNCHANGED cid
Spec == Init /\ [][Step]_vars
================================================================================
