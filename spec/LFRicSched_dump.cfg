\* history generator: initial schedules projected from real invokes
\* (PV_INIT, each with its own bound); prints every transition once.
\* (the view keeps the history length: any worker count gives the same graph)
CONSTANTS MaxLen = 0
 MaxLen2 = 0
 MaxKern = 2
 AccOpts = {"ind"}
 Source = "env"
INIT Init
NEXT Next
VIEW ViewLen
ACTION_CONSTRAINT Dump
INVARIANT InvSharedIncColoured
INVARIANT InvColoursSequential
INVARIANT InvKernelsKept
