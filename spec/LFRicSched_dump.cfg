\* history generator: initial schedules projected from real invokes
\* (PV_INIT, each with its own bound); prints every transition once.
\* Run with ONE worker (breadth-first: the view hides the history length).
CONSTANTS MaxLen = 0
 MaxLen2 = 0
 MaxKern = 2
 AccOpts = {"ind"}
 Source = "env"
INIT Init
NEXT Next
VIEW ViewSched
ACTION_CONSTRAINT Dump
INVARIANT InvSharedIncColoured
INVARIANT InvColoursSequential
INVARIANT InvKernelsKept
