----------------------------- MODULE LFRicSched -----------------------------
(* C23 - LFRic invoke schedules, the transformation alphabet and the colouring *)
(* rule ("shared-DoF increments are only parallelised over colours").          *)
(*                                                                             *)
(* An invoke body is a sequence of nodes; a node is one of                     *)
(*   Loop(t, x, body)  t in cells | colours | colour | dofs;  x = edge | halo  *)
(*                     (upper bound inside / beyond the owned cells) or ""     *)
(*   Dir(t, x, body)   t in omp_parallel | omp_parallel_do | omp_do |          *)
(*                     acc_parallel | acc_kernels | acc_loop; x = clause of an *)
(*                     acc loop (ind | auto | seq) or ""                       *)
(*   Kern(i)           the call of the i-th kernel of the invoke               *)
(* A kernel is summarised by what it iterates over and by the (access,         *)
(* function-space class) pairs of its field arguments.                         *)
(* All operators are parameterised by the body so that Trace_LFRicSched can    *)
(* apply them to schedules projected from generated Fortran.                   *)
EXTENDS Naturals, Sequences, FiniteSets, TLC, Json, IOUtils

CONSTANTS MaxLen,     \* accepted transformations per history (Source = family),
          MaxLen2,    \* ... for one-kernel and for longer invokes
          MaxKern,    \* kernels per invoke in the enumerated family
          AccOpts,    \* clauses of ACCLoop explored: subset of {"ind", "auto"}
          Source      \* "family": Init enumerates the family defined here;
                      \* "env": Init takes the initial schedules projected from
                      \* real invokes (IOEnv.PV_INIT); each must be in the family

\* ------------------------------------------------------------------ kernels
Acc     == {"gh_read", "gh_write", "gh_readwrite", "gh_inc", "gh_readinc"}
FsClass == {"continuous", "discontinuous", "any_space", "any_discontinuous"}
Over    == {"cells", "dofs", "domain"}

\* an increment of DoFs that neighbouring cells share (or may share)
Shared(a) == /\ a.acc \in {"gh_inc", "gh_readinc"}
             /\ a.fs \in {"continuous", "any_space"}
NeedsColourK(kern) == \E j \in DOMAIN kern.args : Shared(kern.args[j])

\* what the LFRic metadata rules allow
LegalArg(over, a) ==
    /\ a.acc \in Acc /\ a.fs \in FsClass
    /\ a.acc \in {"gh_inc", "gh_readinc"} =>
          over = "cells" /\ a.fs \in {"continuous", "any_space"}
    /\ (a.acc = "gh_readwrite" /\ over # "dofs") =>
          a.fs \in {"discontinuous", "any_discontinuous"}
LegalKernel(kern) == /\ kern.over \in Over
                     /\ \A j \in DOMAIN kern.args : LegalArg(kern.over, kern.args[j])

\* -------------------------------------------------------------------- trees
Loop(t, x, b) == [k |-> "loop", t |-> t, x |-> x, id |-> 0, body |-> b]
Dir(t, x, b)  == [k |-> "dir",  t |-> t, x |-> x, id |-> 0, body |-> b]
Kern(i)       == [k |-> "kern", t |-> "",  x |-> "", id |-> i, body |-> <<>>]

RECURSIVE KernsOf(_)
KernsOf(n) == IF n.k = "kern" THEN {n.id}
              ELSE UNION {KernsOf(n.body[j]) : j \in DOMAIN n.body}

RECURSIVE NodeAt(_, _)
NodeAt(b, p) == IF Len(p) = 1 THEN b[p[1]] ELSE NodeAt(b[p[1]].body, Tail(p))

Up(p)       == SubSeq(p, 1, Len(p) - 1)
AncPaths(p) == {SubSeq(p, 1, i) : i \in 1..(Len(p) - 1)}       \* proper ancestors
DirAncs(b, p)  == {a \in AncPaths(p) : NodeAt(b, a).k = "dir"}
LoopAncs(b, p) == {a \in AncPaths(p) : NodeAt(b, a).k = "loop"}
Deepest(S)  == CHOOSE a \in S : \A c \in S : Len(c) <= Len(a)

RECURSIVE HasColours(_)
HasColours(n) == \/ n.k = "loop" /\ n.t = "colours"
                 \/ \E j \in DOMAIN n.body : HasColours(n.body[j])

\* ------------------------------------------------------- the colouring rule
OmpLoopDirs == {"omp_do", "omp_parallel_do"}
LoopDirs    == OmpLoopDirs \cup {"acc_loop"}
ParRegions  == {"omp_parallel", "omp_parallel_do", "acc_parallel"}

\* Violations of the rule below node n.  Context handed down the tree:
\*   encl  kinds of the enclosing directives, outermost first
\*   par   n stands inside a parallel region, an `omp do`, or an `acc loop`
\*         that asserts concurrency
\*   mark  the loop directives standing directly on n assert concurrency
\* `acc loop` asserts that the iterations of its loop may run concurrently
\* inside `acc parallel` unless it says seq, inside `acc kernels` only with the
\* independent clause; an `acc kernels` region alone asserts nothing.
AssertsIn(encl, d) ==
    \/ d.t \in OmpLoopDirs
    \/ /\ d.t = "acc_loop" /\ d.x # "seq"
       /\ \/ \E j \in DOMAIN encl : encl[j] = "acc_parallel"
          \/ d.x = "ind" /\ \E j \in DOMAIN encl : encl[j] = "acc_kernels"

LoopNeedsColour(kerns, n) == \E i \in KernsOf(n) : NeedsColourK(kerns[i])

Witness(clause, n, encl) == [v |-> clause, t |-> n.t, kerns |-> KernsOf(n),
                             encl |-> encl]

RECURSIVE Bad(_, _, _, _, _)
Bad(kerns, n, encl, par, mark) ==
    CASE n.k = "kern" -> {}
      [] n.k = "dir" ->
           LET as == AssertsIn(encl, n)
               onloop == n.t \in LoopDirs /\ Len(n.body) = 1
           IN UNION {Bad(kerns, n.body[j], Append(encl, n.t),
                         par \/ as \/ n.t \in ParRegions \cup {"omp_do"},
                         onloop /\ (mark \/ as)) : j \in DOMAIN n.body}
      [] n.k = "loop" ->
           \* (a) a loop over all cells marked parallel whose kernels increment
           \*     shared DoFs: it must be a loop over the cells of one colour
           (IF n.t = "cells" /\ mark /\ LoopNeedsColour(kerns, n)
            THEN {Witness("SharedIncNotColoured", n, encl)} ELSE {}) \cup
           \* (b) a loop over colours is sequential: neither marked parallel
           \*     nor inside a parallel region or a loop marked parallel
           (IF n.t = "colours" /\ par
            THEN {Witness("ColoursInParallel", n, encl)} ELSE {}) \cup
           UNION {Bad(kerns, n.body[j], encl, par, FALSE) : j \in DOMAIN n.body}

Violations(b, kerns) ==
    UNION {Bad(kerns, b[j], <<>>, FALSE, FALSE) : j \in DOMAIN b}
SharedIncColoured(b, kerns) ==
    ~ \E w \in Violations(b, kerns) : w.v = "SharedIncNotColoured"
ColoursSequential(b, kerns) ==
    ~ \E w \in Violations(b, kerns) : w.v = "ColoursInParallel"
ColourRule(b, kerns) == Violations(b, kerns) = {}

\* ------------------------------------------------------------------ targets
RECURSIVE KPath(_, _)
KPath(b, i) == LET js == {j \in DOMAIN b : i \in KernsOf(b[j])} IN
    IF js = {} THEN <<>>
    ELSE LET j == CHOOSE j \in js : TRUE IN
         IF b[j].k = "kern" THEN <<j>> ELSE <<j>> \o KPath(b[j].body, i)

\* the loop directly containing the call of kernel i
MainPath(b, i) == LET p == KPath(b, i) IN
    IF p = <<>> THEN <<>>
    ELSE IF LoopAncs(b, p) = {} THEN <<>> ELSE Deepest(LoopAncs(b, p))
\* the loop over colours around that loop
ColoursPath(b, i) == LET m == MainPath(b, i) IN
    IF m = <<>> THEN <<>>
    ELSE IF LoopAncs(b, m) = {} THEN <<>>
    ELSE LET c == Deepest(LoopAncs(b, m)) IN
         IF NodeAt(b, c).t = "colours" THEN c ELSE <<>>
\* the statement of that loop over colours which contains the call
InnerPath(b, i) == LET c == ColoursPath(b, i) IN
    IF c = <<>> THEN <<>> ELSE SubSeq(KPath(b, i), 1, Len(c) + 1)

\* tg = [w, k, k2]: main | colours | inner of kernel k, or the top-level
\* statements from the one containing kernel k to the one containing k2
Target(b, tg) ==
    CASE tg.w = "main"    -> [p |-> MainPath(b, tg.k), n |-> 1]
      [] tg.w = "colours" -> [p |-> ColoursPath(b, tg.k), n |-> 1]
      [] tg.w = "inner"   -> [p |-> InnerPath(b, tg.k), n |-> 1]
      [] tg.w = "top"     ->
           LET a == KPath(b, tg.k)
               c == KPath(b, tg.k2)
           IN IF a = <<>> \/ c = <<>> THEN [p |-> <<>>, n |-> 0]
              ELSE IF a[1] > c[1] THEN [p |-> <<>>, n |-> 0]
              ELSE [p |-> <<a[1]>>, n |-> c[1] - a[1] + 1]

RECURSIVE Splice(_, _, _, _)      \* replace n statements starting at p by new
Splice(b, p, n, new) ==
    IF Len(p) = 1
    THEN SubSeq(b, 1, p[1] - 1) \o new \o SubSeq(b, p[1] + n, Len(b))
    ELSE [b EXCEPT ![p[1]] = [@ EXCEPT !.body = Splice(@, Tail(p), n, new)]]
Siblings(b, p, n) == LET par == IF Len(p) = 1 THEN b ELSE NodeAt(b, Up(p)).body
                     IN SubSeq(par, p[Len(p)], p[Len(p)] + n - 1)

\* ----------------------------------------------------- the transformations
\* OMPParallelLoop / OMPLoop are the LFRic-specific transformations
\* (DynamoOMPParallelLoopTrans, Dynamo0p3OMPLoopTrans); GenOMP* the generic
\* OMPParallelLoopTrans / OMPLoopTrans, which rely on the loop's own
\* independence analysis.  The intended validation is the same.
GenericOmp == {"GenOMPParallelLoop", "GenOMPLoop"}
LoopDirOps == {"OMPParallelLoop", "OMPLoop", "ACCLoop"} \cup GenericOmp

LoopTargets(nk) == {[w |-> w, k |-> i, k2 |-> i] : w \in {"main", "colours"},
                                                  i \in 1..nk}
RegionTargets(nk) == {[w |-> "top", k |-> i, k2 |-> j] :
                          i \in 1..nk, j \in 1..nk} \cup
                     {[w |-> "inner", k |-> i, k2 |-> i] : i \in 1..nk}
Ops(nk) ==
    {[name |-> nm, tg |-> t, opt |-> ""] :
        nm \in {"Colour", "OMPParallelLoop", "OMPLoop", "RedundantComp"} \cup
               GenericOmp,
        t \in LoopTargets(nk)} \cup
    {[name |-> "ACCLoop", tg |-> t, opt |-> o] :
        t \in LoopTargets(nk), o \in AccOpts} \cup
    {[name |-> nm, tg |-> t, opt |-> ""] :
        nm \in {"OMPParallel", "ACCParallel", "ACCKernels"},
        t \in {r \in RegionTargets(nk) : r.k <= r.k2}}

DirOf(name) == CASE name \in {"OMPParallelLoop", "GenOMPParallelLoop"}
                                             -> "omp_parallel_do"
                 [] name \in {"OMPLoop", "GenOMPLoop"} -> "omp_do"
                 [] name = "ACCLoop"         -> "acc_loop"
                 [] name = "OMPParallel"     -> "omp_parallel"
                 [] name = "ACCParallel"     -> "acc_parallel"
                 [] name = "ACCKernels"      -> "acc_kernels"

Ok(s)      == [res |-> "ok", s |-> s]
Refused(b) == [res |-> "refused", s |-> b]

\* The intended behaviour of a transformation: its validation is LOCAL (the
\* target, what it contains, what encloses it); that these local checks keep
\* the global ColourRule is what the model check establishes.
Intended(b, kerns, dm, op) ==
    LET tg == Target(b, op.tg)
        p  == tg.p
    IN IF p = <<>> THEN Refused(b) ELSE
    LET n    == NodeAt(b, p)
        encl == {NodeAt(b, a).t : a \in DirAncs(b, p)}
    IN
    CASE op.name = "Colour" ->
           \* the new loop over colours must stay sequential
           IF n.k = "loop" /\ n.t = "cells" /\ encl \subseteq {"acc_kernels"}
           THEN Ok(Splice(b, p, 1,
                     <<Loop("colours", "", <<Loop("colour", n.x, n.body)>>)>>))
           ELSE Refused(b)
      [] op.name \in LoopDirOps ->
           \* a loop over colours is never parallelised; a loop over all cells
           \* only if no kernel increments shared DoFs
           IF /\ n.k = "loop" /\ n.t # "colours"
              /\ LoopNeedsColour(kerns, n) => n.t = "colour"
           THEN Ok(Splice(b, p, 1,
                     <<Dir(DirOf(op.name),
                           IF op.name = "ACCLoop" THEN op.opt ELSE "", <<n>>)>>))
           ELSE Refused(b)
      [] op.name \in {"OMPParallel", "ACCParallel"} ->
           LET ns == Siblings(b, p, tg.n) IN
           IF \A j \in DOMAIN ns : ~HasColours(ns[j])
           THEN Ok(Splice(b, p, tg.n, <<Dir(DirOf(op.name), "", ns)>>))
           ELSE Refused(b)
      [] op.name = "ACCKernels" ->
           Ok(Splice(b, p, tg.n,
                     <<Dir("acc_kernels", "", Siblings(b, p, tg.n))>>))
      [] op.name = "RedundantComp" ->
           IF /\ dm /\ n.k = "loop" /\ n.t \in {"cells", "dofs", "colour"}
              /\ encl = {}
           THEN Ok(Splice(b, p, 1, <<[n EXCEPT !.x = "halo"]>>))
           ELSE Refused(b)

\* --------------------------------------------------- the family of invokes
WrittenPairs == {<<"gh_inc", "continuous">>, <<"gh_inc", "any_space">>,
                 <<"gh_readinc", "continuous">>, <<"gh_readinc", "any_space">>,
                 <<"gh_write", "continuous">>, <<"gh_write", "discontinuous">>,
                 <<"gh_write", "any_space">>, <<"gh_write", "any_discontinuous">>,
                 <<"gh_readwrite", "discontinuous">>,
                 <<"gh_readwrite", "any_discontinuous">>}
Arg(a, f) == [acc |-> a, fs |-> f]
Catalogue ==
    {[over |-> "cells", args |-> <<Arg("gh_read", "continuous"), Arg(w[1], w[2])>>] :
        w \in WrittenPairs} \cup
    {[over |-> "cells", args |-> <<Arg("gh_inc", "continuous"),
                                   Arg("gh_write", "discontinuous")>>],
     [over |-> "cells", args |-> <<Arg("gh_readinc", "any_space"),
                                   Arg("gh_readwrite", "any_discontinuous")>>],
     [over |-> "dofs", args |-> <<Arg("gh_write", "any_space")>>],
     [over |-> "dofs", args |-> <<Arg("gh_read", "any_space"),
                                  Arg("gh_readwrite", "any_space")>>],
     [over |-> "domain", args |-> <<Arg("gh_readwrite", "discontinuous")>>]}

\* one representative per behaviour class, for the invokes of several kernels
Catalogue2 ==
    {[over |-> "cells", args |-> <<Arg("gh_read", "continuous"), Arg(w[1], w[2])>>] :
        w \in {<<"gh_inc", "continuous">>, <<"gh_readinc", "any_space">>,
               <<"gh_write", "discontinuous">>}} \cup
    {[over |-> "dofs", args |-> <<Arg("gh_write", "any_space")>>],
     [over |-> "domain", args |-> <<Arg("gh_readwrite", "discontinuous")>>]}

\* untransformed schedule: one loop per kernel (none for a domain kernel)
Plain(kern, i, x) == CASE kern.over = "cells" -> Loop("cells", x, <<Kern(i)>>)
                       [] kern.over = "dofs"  -> Loop("dofs", x, <<Kern(i)>>)
                       [] kern.over = "domain" -> Kern(i)
Bounds(dm) == IF dm THEN {"edge", "halo"} ELSE {"edge"}
InitScheds(kerns, dm) ==
    {[i \in DOMAIN kerns |-> Plain(kerns[i], i, xs[i])] :
        xs \in [DOMAIN kerns -> Bounds(dm)]}
\* (a domain kernel has no bound: both choices give the same node)

InFamily(init) ==
    /\ Len(init.kerns) \in 1..MaxKern
    /\ \A i \in DOMAIN init.kerns : LegalKernel(init.kerns[i])
    /\ init.dm \in BOOLEAN
    /\ init.sched \in InitScheds(init.kerns, init.dm)

EnvInits == JsonDeserialize(IOEnv.PV_INIT)        \* sequence of [kerns, dm, sched, maxlen]

\* ------------------------------------------------------------ state machine
VARIABLES iid,      \* which initial schedule (index in EnvInits; 0 = family)
          kerns, dm, sched,
          len,      \* accepted transformations so far
          lastOp
vars == <<iid, kerns, dm, sched, len, lastOp>>

NoOp == [op |-> [name |-> "Init", tg |-> [w |-> "", k |-> 0, k2 |-> 0], opt |-> ""],
         res |-> "ok"]

Init ==
    /\ len = 0 /\ lastOp = NoOp
    /\ IF Source = "env"
       THEN \E i \in DOMAIN EnvInits :
              /\ Assert(InFamily(EnvInits[i]),
                        <<"initial schedule outside the family", i>>)
              /\ iid = i
              /\ kerns = EnvInits[i].kerns /\ dm = EnvInits[i].dm
              /\ sched = EnvInits[i].sched
       ELSE /\ iid = 0
            /\ \/ kerns \in [1..1 -> Catalogue]
               \/ \E n \in 2..MaxKern : kerns \in [1..n -> Catalogue2]
            /\ dm \in BOOLEAN
            /\ sched \in InitScheds(kerns, dm)

Bound == IF Source = "env" THEN EnvInits[iid].maxlen
         ELSE IF Len(kerns) = 1 THEN MaxLen ELSE MaxLen2

\* every transformation either succeeds with its intended effect or refuses
\* and changes nothing (a refusal is always allowed)
Apply(op) ==
    LET r == Intended(sched, kerns, dm, op) IN
    /\ len < Bound
    /\ \/ /\ r.res = "ok"
          /\ sched' = r.s /\ len' = len + 1
          /\ lastOp' = [op |-> op, res |-> "ok"]
       \/ /\ sched' = sched /\ len' = len
          /\ lastOp' = [op |-> op, res |-> "refused"]
    /\ UNCHANGED <<iid, kerns, dm>>

Next == \E op \in Ops(Len(kerns)) : Apply(op)
Spec == Init /\ [][Next]_vars

\* ----------------------------------------------------------------- checking
InvColourRule        == ColourRule(sched, kerns)
InvSharedIncColoured == SharedIncColoured(sched, kerns)
InvColoursSequential == ColoursSequential(sched, kerns)
\* every kernel is still called exactly once, in order
InvKernelsKept == /\ UNION {KernsOf(sched[j]) : j \in DOMAIN sched} = DOMAIN kerns
                  /\ \A i \in DOMAIN kerns : KPath(sched, i) # <<>>

ViewLen   == <<iid, kerns, dm, sched, len>>     \* design level (any worker count)
ViewSched == <<iid, kerns, dm, sched>>          \* transition dump (one worker: BFS)

\* one line per transition of the reachable graph, refusals included
Dump == PrintT("TRANS " \o ToJson([iid |-> iid, from |-> sched,
                                   op |-> lastOp'.op, res |-> lastOp'.res,
                                   to |-> sched']))
=============================================================================
