INIT Init
NEXT Step
INVARIANT InvTranspose
INVARIANT InvPassiveUnchanged
INVARIANT InvNoNewUndefined
