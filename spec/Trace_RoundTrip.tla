--------------------------- MODULE Trace_RoundTrip ---------------------------
(* C03, trace validation.  The harness reads a program with the real reader,  *)
(* writes it with the real writer three times (w1 = W(R(src)), w2 = W(R(w1)), *)
(* w3 = W(R(w2))), itemises every text into a skeleton and records whether    *)
(* consecutive texts are equal.  This spec replays one RoundTrip action per   *)
(* consecutive pair and decides the clauses of RoundTrip.tla on it.           *)
(* Case: [id, src (is sk[1] the generator's source skeleton?), tab (item id   *)
(* -> [s scope, k kind, t key, n occurrence]), sk (sequence of skeletons =    *)
(* sequences of item ids), eq (text equality per pair), diff (first differing *)
(* line per pair)].                                                            *)
EXTENDS Naturals, Sequences, FiniteSets, TLC, Json, IOUtils

Cases == JsonDeserialize(IOEnv.PV_CASES)

VARIABLES prev, cur, pass          \* RoundTrip's variables
VARIABLES cid
RT == INSTANCE RoundTrip WITH Items <- {}, MaxLen <- 0, Writer <- "stable"

vars == <<prev, cur, pass, cid>>

\* what the reader is specified to keep when it reads a *source*: comments
\* (hence directives) are ignored by the reader of this version; accessibility
\* statements may be folded into declaration attributes by the writer
SrcKinds    == {"decl", "use", "use-name", "routine", "type", "interface", "stmt", "codeblock"}
SrcOrdered  == {"stmt", "codeblock"}
ReaderDrops == {"comment", "directive"}

Init == /\ cid \in 1..Len(Cases)
        /\ pass = 1
        /\ prev = Cases[cid].sk[1]
        /\ cur = IF Len(Cases[cid].sk) >= 2 THEN Cases[cid].sk[2] ELSE <<>>

Kind(c, x) == c.tab[x].k
Same(c, x, y) == /\ c.tab[x].s = c.tab[y].s /\ c.tab[x].k = c.tab[y].k
                 /\ c.tab[x].t = c.tab[y].t

Verdict(c, clause, wit) ==
    PrintT("VERDICT " \o ToJson([id |-> c.id, pass |-> pass, v |-> clause, w |-> wit]))

Judge(c) ==
  LET srcpass == c.src /\ pass = 1
      KeepsLoss(x) == IF srcpass THEN Kind(c, x) \in SrcKinds
                      ELSE Kind(c, x) \notin ReaderDrops
      KeepsDup(x)  == IF srcpass THEN Kind(c, x) \in SrcKinds ELSE TRUE
      Ordered(x)   == IF srcpass THEN Kind(c, x) \in SrcOrdered ELSE TRUE
      IsComment(x) == Kind(c, x) = "comment"
      SameText(x, y) == Same(c, x, y)
      lost == {x \in RT!RTLost(prev, cur) : KeepsLoss(x)}
      new  == {x \in RT!RTNew(prev, cur) : KeepsDup(x)}
      dropped == {x \in RT!RTLost(prev, cur) : ~KeepsLoss(x)}
      rd   == RT!RunDupAt(cur, IsComment, SameText)
      rd1  == IF pass = 1 /\ ~c.src THEN RT!RunDupAt(prev, IsComment, SameText) ELSE {}
  IN
  /\ IF dropped # {}
     THEN PrintT("DIVERGE " \o ToJson([id |-> c.id, pass |-> pass, n |-> Cardinality(dropped)]))
     ELSE TRUE
  /\ IF ~RT!NoLoss(prev, cur, KeepsLoss)
     THEN LET i == RT!RTFirst(prev, LAMBDA x : x \in lost) IN
          Verdict(c, "NoLoss", [pos |-> i, item |-> prev[i], n |-> Cardinality(lost)])
     ELSE IF ~RT!NoDup(prev, cur, KeepsDup)
     THEN LET i == RT!RTFirst(cur, LAMBDA x : x \in new) IN
          Verdict(c, "NoDup", [pos |-> i, item |-> cur[i], n |-> Cardinality(new),
                               dup |-> \E y \in RT!RTRange(prev) : Same(c, cur[i], y)])
     ELSE IF rd1 # {}
     THEN LET i == CHOOSE i \in rd1 : \A j \in rd1 : i <= j IN
          Verdict(c, "NoDup", [pos |-> i, item |-> prev[i], n |-> Cardinality(rd1),
                               dup |-> TRUE, run |-> TRUE, first |-> TRUE])
     ELSE IF rd # {}
     THEN LET i == CHOOSE i \in rd : \A j \in rd : i <= j IN
          Verdict(c, "NoDup", [pos |-> i, item |-> cur[i], n |-> Cardinality(rd),
                               dup |-> TRUE, run |-> TRUE])
     ELSE IF ~RT!SameOrder(prev, cur, Ordered)
     THEN LET a == SelectSeq(RT!RTCommon(prev, cur), Ordered)
              b == SelectSeq(RT!RTCommon(cur, prev), Ordered)
              i == RT!RTFirstDiff(a, b) IN
          Verdict(c, "SameOrder", [pos |-> i, item |-> a[i], now |-> b[i],
                                   n |-> Cardinality({j \in DOMAIN a : a[j] # b[j]})])
     ELSE IF ~srcpass /\ ~c.eq[pass]
     THEN Verdict(c, "TextStable", [line |-> c.diff[pass]])
     ELSE TRUE

\* RoundTrip!RoundTrip with the recorded result bound to cur'
\* c.fail # 0: reading back / re-writing the last recorded text raised
Step == LET c == Cases[cid] IN
  /\ \/ pass < Len(c.sk) /\ Judge(c)
     \/ /\ pass = Len(c.sk) /\ c.fail # 0
        /\ Verdict(c, "Reread", [text |-> pass])
  /\ pass' = pass + 1
  /\ prev' = cur
  /\ cur' = IF pass + 2 <= Len(c.sk) THEN c.sk[pass + 2] ELSE <<>>
  /\ UNCHANGED cid
Spec == Init /\ [][Step]_vars
===============================================================================
