\* design level, thorough: histories of up to 4 accepted transformations,
\* `acc loop` with and without the independent clause
CONSTANTS MaxLen = 4
 MaxLen2 = 3
 MaxKern = 2
 AccOpts = {"ind", "auto"}
 Source = "family"
INIT Init
NEXT Next
VIEW ViewLen
INVARIANT InvSharedIncColoured
INVARIANT InvColoursSequential
INVARIANT InvKernelsKept
