INIT Init
NEXT Step
