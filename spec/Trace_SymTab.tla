---------------------------- MODULE Trace_SymTab ----------------------------
(* C16, binding A: validates tuples (pre, op, outcome, result, post) recorded *)
(* from the REAL psyclone SymbolTable against the relation of SymTab.tla.     *)
(* File (PV_CASES): [names, atoms, states, ops, results, tuples]; a tuple is  *)
(*   <<pre index, op index, 1 = returned / 0 = raised, result index, post>>.  *)
(* Every tuple ends in a terminal state carrying SymTab!Verdict; only failing *)
(* ones are printed.  DIV lines report where the real call is allowed by the  *)
(* property but differs from the model's prediction SymTab!Eff (no alarm).    *)
EXTENDS Naturals, Sequences, FiniteSets, TLC, Json, IOUtils

VARIABLES st, depth, last, hist      \* SymTab's variables (not used here)
VARIABLES cid, verdict
M == INSTANCE SymTab WITH MaxId <- 40, Names <- {}, Tags <- {}, FindRoots <- {},
                          InitIds <- {}, MaxDepth <- 0, SimMode <- FALSE

File == JsonDeserialize(IOEnv.PV_CASES)
ToSet(q) == {q[i] : i \in DOMAIN q}
\* states are written compactly: names and strings are indices into the
\* tables File.names / File.atoms; a symbol is <<id, key, name, cls, ifc, dep>>,
\* a tag <<tag, id>>, a table <<syms, tags, args>>, a state [t, i, d]
Nm(k) == File.names[k]
At(k) == File.atoms[k]
ConvSt(j) == [tabs |-> [t \in 1..4 |->
                 [syms |-> {[id |-> q[1], key |-> Nm(q[2]), name |-> Nm(q[3]),
                             cls |-> At(q[4]), ifc |-> At(q[5]), dep |-> q[6]]
                            : q \in ToSet(j.t[t][1])},
                  tags |-> {[tag |-> At(g[1]), id |-> g[2]] : g \in ToSet(j.t[t][2])},
                  args |-> j.t[t][3]]],
              inner |-> j.i, dead |-> ToSet(j.d), calls |-> ToSet(j.c)]
ConvOp(j) == IF j.name = "merge" THEN [j EXCEPT !.skip = ToSet(@)] ELSE j
States == [i \in DOMAIN File.states |-> ConvSt(File.states[i])]
OpsTab == [i \in DOMAIN File.ops |-> ConvOp(File.ops[i])]
N == Len(File.tuples)

\* the model's prediction is only defined on well-formed states
PreWF(S) == /\ M!UniqueNormalisedNames(S)
            /\ \A x \in M!AllSyms(S) : Cardinality({y \in M!AllSyms(S) : y.id = x.id}) = 1
            /\ \A t \in M!Live(S) : \A g \in M!TagsOf(S, t) : g.id \in M!UsedIds(S)
            /\ \A t \in M!Live(S) : \A g, h \in M!TagsOf(S, t) : g.tag = h.tag => g = h

Diverge(pre, op, out, res, post) ==
  IF ~ PreWF(pre) THEN "prewf"
  ELSE LET e == M!Eff(pre, op)
       IN IF out = "exc" THEN (IF e.out = "ok" THEN "overrefusal" ELSE "same")
          ELSE IF e.out = "exc" THEN "underrefusal"
          ELSE IF e.post # post THEN "post"
          ELSE IF e.res # res THEN "res"
          ELSE "same"

Init == /\ cid \in 1..N
        /\ verdict = "run"
        /\ st = 0 /\ depth = 0 /\ last = 0 /\ hist = 0

Step ==
  /\ verdict = "run"
  /\ LET T    == File.tuples[cid]
         pre  == States[T[1]]
         op   == OpsTab[T[2]]
         out  == IF T[3] = 1 THEN "ok" ELSE "exc"
         res  == File.results[T[4]]
         post == States[T[5]]
         \* equal indices = equal states (states are interned by the harness)
         v    == IF T[3] = 0 /\ T[1] = T[5] /\ op.name \notin {"lookup", "lookup_tag"}
                 THEN "ok"
                 ELSE M!Verdict(pre, op, out, res, post)
         d    == IF v = "ok" THEN Diverge(pre, op, out, res, post) ELSE "same"
     IN /\ verdict' = v
        /\ (v # "ok") => PrintT("VERDICT " \o ToJson([id |-> cid, v |-> v]))
        /\ (d # "same") => PrintT("DIV " \o ToJson([id |-> cid, d |-> d]))
  /\ UNCHANGED <<st, depth, last, hist, cid>>
Spec == Init /\ [][Step]_<<st, depth, last, hist, cid, verdict>>
=============================================================================
