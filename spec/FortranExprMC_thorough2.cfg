CONSTANTS Depth = 3
 UOps = {"-", ".not."}
 BOps = {"*", "-", "<", ".and."}
 WithCalls = FALSE
 LeafSet = {1}
INIT Init
NEXT Next
INVARIANT RoundTrip
INVARIANT RoundTripFull
INVARIANT NeededParens
INVARIANT NoErr
