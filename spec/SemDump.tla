------------------------------- MODULE SemDump -------------------------------
(* Anchor self-test: prints the final values FortranSem computes for the live *)
(* variables of progs[1] of every case and input, to be compared with what    *)
(* the same program prints when compiled with gfortran (bin/verif selftest).  *)
EXTENDS FortranSem, Json, IOUtils
Cases == JsonDeserialize(IOEnv.PV_CASES)
VARIABLES cid, val, fm, done
vars == <<cid, val, fm, done>>
Init == /\ cid \in 1..Len(Cases)
        /\ val \in Valuations(Cases[cid].dom, Len(Cases[cid].dom))
        /\ fm \in SeqSet(Cases[cid].fills)
        /\ done = FALSE
Step == LET c == Cases[cid]
            M == ExecSeq(NewMachine(InitStore(c.decls, c.dom, val, fm), c.subs, FALSE),
                         c.progs[1].body, 1)
        IN /\ ~done
           /\ done' = TRUE
           /\ PrintT("FINAL " \o ToJson([id |-> c.id, val |-> val, fm |-> fm, sig |-> M.sig,
                                         st |-> IF M.sig \in {"", "return"} THEN LiveOf(M, c.live)
                                                ELSE <<>>]))
           /\ UNCHANGED <<cid, val, fm>>
Spec == Init /\ [][Step]_vars
===============================================================================
