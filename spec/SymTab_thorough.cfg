CONSTANTS MaxId = 10
 MaxDepth = 1
 Names <- NamesThorough
 Tags <- TagsDef
 FindRoots <- FindRootsDef
 SimMode = FALSE
 InitIds <- InitIdsThorough
INIT Init
NEXT Next
VIEW View
INVARIANT InvNames
INVARIANT InvTags
INVARIANT InvIds
INVARIANT DumpState
PROPERTY StepProp
