------------------------------ MODULE ModuleSort ------------------------------
(* C27 - the module manager's dependency sort.                                *)
(* A dependency map over modules 0..n-1; the name n stands for a module that  *)
(* is not a key of the map ("unknown").  The sort is a sequence of Picks.     *)
EXTENDS Naturals, Sequences, FiniteSets, TLC

SeqRange(s) == {s[i] : i \in DOMAIN s}

\* ---- operators parameterised by (n, d) so that the trace spec can reuse them
Mods(n)            == 0..(n-1)
Known(n, d, m)     == d[m] \cap Mods(n)          \* unknown dependencies are ignored
Ready(n, d, srt, m) == Known(n, d, m) \subseteq SeqRange(srt)
CanPick(n, d, srt, m) ==
    /\ m \in Mods(n) \ SeqRange(srt)
    /\ \/ Ready(n, d, srt, m)
       \/ ~ \E x \in Mods(n) \ SeqRange(srt) : Ready(n, d, srt, x)   \* cyclic fallback

\* reachability in the known-dependency graph (n is tiny)
RECURSIVE ReachK(_, _, _, _)
ReachK(n, d, S, k) == IF k = 0 THEN S
                      ELSE ReachK(n, d, S \cup UNION {Known(n, d, x) : x \in S}, k - 1)
DependsOn(n, d, m) == ReachK(n, d, Known(n, d, m), n)      \* transitive known deps of m
Acyclic(n, d)      == \A m \in Mods(n) : m \notin DependsOn(n, d, m)

Pos(srt, m) == CHOOSE i \in DOMAIN srt : srt[i] = m

Permutation(n, srt) == /\ Len(srt) = n
                       /\ SeqRange(srt) = Mods(n)
DepsFirst(n, d, srt) == Acyclic(n, d) =>
    \A m \in Mods(n) : \A x \in Known(n, d, m) : Pos(srt, x) < Pos(srt, m)

\* ---- the design-level state machine, model-checked for all maps over N modules
CONSTANT N, WithUnknown, WithSelf
VARIABLES deps, sorted
vars == <<deps, sorted>>

DepUniverse(m) == (Mods(N) \ (IF WithSelf THEN {} ELSE {m}))
                  \cup (IF WithUnknown THEN {N} ELSE {})

Init == /\ deps \in {f \in [Mods(N) -> SUBSET (0..N)] :
                       \A m \in Mods(N) : f[m] \subseteq DepUniverse(m)}
        /\ sorted = <<>>
Pick(m) == /\ CanPick(N, deps, sorted, m)
           /\ sorted' = Append(sorted, m)
           /\ UNCHANGED deps
Next == \E m \in Mods(N) : Pick(m)
Spec == Init /\ [][Next]_vars

Done == Len(sorted) = N
\* the sort can always continue until every module is listed
NoStuck         == ~Done => \E m \in Mods(N) : ENABLED Pick(m)
InvPermutation  == Done => Permutation(N, sorted)
InvNoDup        == Cardinality(SeqRange(sorted)) = Len(sorted)
InvDepsFirst    == Done => DepsFirst(N, deps, sorted)
\* prefix form: in an acyclic map nothing is listed before one of its known deps
InvPrefixDeps   == Acyclic(N, deps) =>
    \A i \in DOMAIN sorted : Known(N, deps, sorted[i]) \subseteq {sorted[j] : j \in 1..(i-1)}
===============================================================================
