\* thorough: the 2-nest, every OpenACC variant (gang/vector/seq/collapse, routine, enter data), length <= 3
CONSTANTS Alphabet = "acc"
 MaxLen = 3
 Skels = {"G"}
INIT Init
NEXT Next
INVARIANT TypeOK
INVARIANT SkelValid
INVARIANT OpsApplicable
