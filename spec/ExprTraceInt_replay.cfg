CONSTANT RMax = 4
INIT Init
NEXT Step
INVARIANT InvEqualSound
INVARIANT InvNeverEqualSound
INVARIANT InvSolutionSound
INVARIANT InvExpandSound
