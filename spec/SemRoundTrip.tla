----------------------------- MODULE SemRoundTrip -----------------------------
(* C01: reading and re-writing Fortran preserves program behaviour.           *)
(*                                                                            *)
(* A case is one generated program P (pv-ast, meaning given directly by       *)
(* FortranSem; it never passes through PSyclone) together with what PSyclone  *)
(* made of its Fortran text:                                                  *)
(*   progs[1] = P                   role "ref"                                *)
(*   progs[2] = P1 = export(read(text(P)))             role "Reader"          *)
(*   progs[3] = P2 = export(read(write(read(text))))   role "Writer"          *)
(* and the recorded outcome of the pipeline, c.status:                        *)
(*   "ok" | "read-error" | "write-error" | "reread-error"                     *)
(* (an exception other than the documented fall-back to a CodeBlock), or      *)
(*   "read-decl" | "write-decl": type / shape of a declared variable changed. *)
(* Every program is run from the same initial store for every input           *)
(* valuation x array fill.  progs[k] is compared with progs[k-1]: a P/P1      *)
(* difference is the reader's (clauses ReaderSameObservable,                  *)
(* ReaderNoNewUndefined), a P1/P2 difference the writer's (Writer...).        *)
(* Inputs on which P is undefined are discarded; an input on which P1 is      *)
(* undefined gives the writer nothing to answer for.                          *)
(* Static clauses ("compiles" beyond re-readability, PSyclone's reader being  *)
(* lenient): the routine interfaces and construct names of the written text   *)
(* (siface / wiface / wdefs / wrefs, projected from the texts by the driver)  *)
(* must be valid and keep what the original declares.                         *)
EXTENDS FortranSem, Json, IOUtils

Cases == JsonDeserialize(IOEnv.PV_CASES)

VARIABLES cid, val, fm, k, ref, bad, verdict
vars == <<cid, val, fm, k, ref, bad, verdict>>

SubsOf(c, p) == IF "subs" \in DOMAIN p THEN p.subs ELSE c.subs
Run(c, p) ==
  LET st0 == InitStore(c.decls, c.dom, val, fm)
      M == ExecSeq(NewMachine(st0, SubsOf(c, p), FALSE), p.body, 1)
  IN IF M.sig = "return" THEN [M EXCEPT !.sig = ""] ELSE M

Init == /\ cid \in 1..Len(Cases)
        /\ val \in Valuations(Cases[cid].dom, Len(Cases[cid].dom))
        /\ fm \in SeqSet(Cases[cid].fills)
        /\ k = 1
        /\ ref = <<>>
        /\ bad = FALSE
        /\ verdict = "run"

StatusClause(s) == CASE s = "read-error"   -> "ReadsWithoutInternalError"
                     [] s = "write-error"  -> "WritesWithoutInternalError"
                     [] s = "reread-error" -> "WrittenTextReadable"
                     [] s = "read-decl"    -> "ReaderKeepsDeclarations"
                     [] s = "write-decl"   -> "WriterKeepsDeclarations"
                     [] OTHER              -> "WellFormedCase"

Report(c, clause, names) ==
  PrintT("VERDICT " \o ToJson([id |-> c.id, v |-> clause,
                               w |-> [val |-> val, fm |-> fm, prog |-> k, names |-> names]]))

\* ---- static clauses: what the written text declares (projected by the driver
\* from the text itself, names lower-cased) against what the original declares
HasStatic(c) == "wiface" \in DOMAIN c
\* a RESULT clause may not name the function itself (F2008 C1256)
BadResult(c) == {w.name : w \in {x \in SeqSet(c.wiface) :
                                   x.kind = "function" /\ x.result # "" /\ x.result = x.name}}
\* every routine of the original is written, as the same kind, with as many dummies
LostRoutine(c) == {r.name : r \in {x \in SeqSet(c.siface) :
                     ~\E w \in SeqSet(c.wiface) :
                         w.name = x.name /\ w.kind = x.kind /\ w.nargs = x.nargs}}
\* a function referenced elementally (array actual) must still be ELEMENTAL
LostElemental(c) == {r.name : r \in {x \in SeqSet(c.siface) :
                       x.elemuse /\ \E w \in SeqSet(c.wiface) : w.name = x.name /\ ~w.elemental}}
\* EXIT / CYCLE may only name a construct that exists
UndefinedNames(c) == SeqSet(c.wrefs) \ SeqSet(c.wdefs)
\* a routine-local variable the original makes static (SAVE attribute, initial
\* value, SAVE statement, bare SAVE) is still static in the written text
\* ("routine:variable", lower case; FortranSem has no static storage, so the
\* execution clauses cannot see a lost SAVE: this clause alone decides it)
LostStatic(c) == SeqSet(c.sstatic) \ SeqSet(c.wstatic)
StaticClauses(c) ==
  IF ~HasStatic(c) THEN {}
  ELSE {x \in {<<"WrittenResultClauseValid", BadResult(c)>>,
                <<"WriterKeepsRoutines", LostRoutine(c)>>,
                <<"WriterKeepsElemental", LostElemental(c)>>,
                <<"WriterKeepsStatic", LostStatic(c)>>,
                <<"WrittenConstructNamesDefined", UndefinedNames(c)>>} : x[2] # {}}
ReportStatic(c) == \A x \in StaticClauses(c) : Report(c, x[1], x[2])

\* anchor self-test (c01_anchor): print the reference's final observables
Dump(c, M) == ("dump" \in DOMAIN c) =>
   PrintT("FINAL " \o ToJson([id |-> c.id, val |-> val, fm |-> fm, st |-> LiveOf(M, c.live)]))

Stop(v) == /\ verdict' = v
           /\ UNCHANGED <<cid, val, fm, k, ref, bad>>

Step ==
  LET c == Cases[cid] IN
  /\ verdict = "run"
  /\ IF c.status # "ok"
     THEN \* the pipeline itself failed: no program to run
          /\ Report(c, StatusClause(c.status), <<>>)
          /\ Stop("fail")
     ELSE LET M == Run(c, c.progs[k]) IN
       IF k = 1 THEN
          /\ ReportStatic(c)        \* independent of the input: repeated per input
          /\ IF M.sig # "" THEN /\ PrintT("DISCARD " \o ToJson([id |-> c.id]))
                                /\ Stop("discard")
             ELSE IF Len(c.progs) = 1
             THEN Dump(c, M) /\ Stop(IF StaticClauses(c) = {} THEN "ok" ELSE "fail")
             ELSE /\ ref' = LiveOf(M, c.live)
                  /\ k' = 2
                  /\ bad' = (StaticClauses(c) # {})
                  /\ UNCHANGED <<cid, val, fm, verdict>>
       ELSE
          LET role == c.progs[k].role
              und == M.sig # ""
              diff == IF und THEN {} ELSE LiveDiff(ref, M, c.live)
              clause == IF und THEN role \o "NoNewUndefined"
                        ELSE IF diff # {} THEN role \o "SameObservable" ELSE "ok"
              nowbad == bad \/ clause # "ok"
          IN /\ (clause # "ok") => Report(c, clause, diff)
             /\ IF und \/ k = Len(c.progs)
                THEN Stop(IF nowbad THEN "fail" ELSE "ok")
                ELSE /\ ref' = LiveOf(M, c.live)
                     /\ k' = k + 1
                     /\ bad' = nowbad
                     /\ UNCHANGED <<cid, val, fm, verdict>>
Spec == Init /\ [][Step]_vars
===============================================================================
