CONSTANTS MaxRuns = 3
 RunCounts = {2}
 Schemes = {"multiple", "single"}
 Versions = {1, 2}
 PreChoices = {0}
 SplitWrite = TRUE
INIT Init
NEXT Next
VIEW View
ACTION_CONSTRAINT DumpTransition
