------------------------------ MODULE FortranExpr ------------------------------
(* C02 / C17 - Fortran 2008 expressions: concrete syntax (grammar levels of    *)
(* clause 7.1.2, rules R1001-R1022), a recursive-descent parser over tokens,   *)
(* a reference minimal-parenthesis printer, and the integer meaning of an      *)
(* expression: truncating division, MOD, MIN, MAX and the power operator.      *)
(*                                                                             *)
(* Trees (records; field k is the tag, read other fields only after testing k) *)
(*   [k |-> "lit", ty, v, kd]      literal constant: type, digits, kind        *)
(*   [k |-> "ref", n]              scalar name                                 *)
(*   [k |-> "des", parts]          designator / function reference:            *)
(*        parts = << [n, ix, args] , ... >>  joined by %, ix = 1 iff the part  *)
(*        has a parenthesised list (array element, function or intrinsic call) *)
(*   [k |-> "un",  op, x]          op \in {"+", "-", ".not."}                  *)
(*   [k |-> "bin", op, l, r]       op \in BinOps                               *)
(*   [k |-> "err", why, at]        not an expression                           *)
(* (C17 solution trees additionally use the binary op "exdiv": exact quotient, *)
(*  defined only where the division leaves no remainder; it has no syntax.)    *)
(* Tokens (tuples): <<"id",name>> <<"op",sym>> <<"lp","(">> <<"rp",")">>       *)
(*   <<"cm",",">> <<"pc","%">> <<"lit",ty,v,kd>>                               *)
EXTENDS Integers, Sequences, FiniteSets, TLC

PowOps   == {"**"}
MulOps   == {"*", "/"}
AddOps   == {"+", "-"}
CatOps   == {"//"}
RelOps   == {"==", "/=", "<", "<=", ">", ">="}      \* .EQ. etc. are the same operators
NotOps   == {".not."}
AndOps   == {".and."}
OrOps    == {".or."}
EqvOps   == {".eqv.", ".neqv."}
BinOps   == PowOps \cup MulOps \cup AddOps \cup CatOps \cup RelOps \cup AndOps
            \cup OrOps \cup EqvOps
UnOps    == AddOps \cup NotOps

MkLit(ty, v, kd) == [k |-> "lit", ty |-> ty, v |-> v, kd |-> kd]
MkRef(n)         == [k |-> "ref", n |-> n]
MkPart(n, ix, a) == [n |-> n, ix |-> ix, args |-> a]
MkDes(parts)     == IF Len(parts) = 1 /\ parts[1].ix = 0 THEN MkRef(parts[1].n)
                    ELSE [k |-> "des", parts |-> parts]
MkUn(op, x)      == [k |-> "un", op |-> op, x |-> x]
MkBin(op, l, r)  == [k |-> "bin", op |-> op, l |-> l, r |-> r]
MkErr(why, at)   == [k |-> "err", why |-> why, at |-> at]
IsErr(t)         == t.k = "err"

(* ------------------------------------------------------------------------- *)
(* Parser.  Every P* operator takes the token sequence and a position and     *)
(* returns [ok, t, p]: success flag, tree (or error record), next position.   *)
(* ------------------------------------------------------------------------- *)
\* Operator tokens are classified once (token kind = operator class), then every
\* grammar rule tests one token kind.
OpClass(sym) == IF sym \in PowOps THEN "pow" ELSE IF sym \in MulOps THEN "mul"
                ELSE IF sym \in AddOps THEN "add" ELSE IF sym \in CatOps THEN "cat"
                ELSE IF sym \in RelOps THEN "rel" ELSE IF sym \in NotOps THEN "not"
                ELSE IF sym \in AndOps THEN "and" ELSE IF sym \in OrOps THEN "or"
                ELSE IF sym \in EqvOps THEN "eqv" ELSE "badop"
Classify(tk) == [i \in DOMAIN tk |-> IF tk[i][1] = "op" THEN <<OpClass(tk[i][2]), tk[i][2]>>
                                     ELSE tk[i]]
Kind(tk, p)  == IF p <= Len(tk) THEN tk[p][1] ELSE "eof"
IsOpIn(tk, p, cls) == p <= Len(tk) /\ tk[p][1] = cls
POk(t, p)    == [ok |-> TRUE, t |-> t, p |-> p]
PErr(why, p) == [ok |-> FALSE, t |-> MkErr(why, p), p |-> p]

RECURSIVE PExpr(_, _), PLevel5Rest(_, _, _), PEquivOperand(_, _),
          PEquivOperandRest(_, _, _), POrOperand(_, _), POrOperandRest(_, _, _),
          PAndOperand(_, _), PLevel4(_, _), PLevel3(_, _), PLevel3Rest(_, _, _),
          PLevel2(_, _), PLevel2Rest(_, _, _), PAddOperand(_, _),
          PAddOperandRest(_, _, _), PMultOperand(_, _), PPrimary(_, _),
          PDesignator(_, _, _), PArgs(_, _, _)

\* R1001 primary: literal | designator | function-reference | ( expr )
PPrimary(tk, p) ==
  LET k == Kind(tk, p) IN
  IF k = "lit" THEN POk(MkLit(tk[p][2], tk[p][3], tk[p][4]), p + 1)
  ELSE IF k = "id" THEN PDesignator(tk, p, <<>>)
  ELSE IF k = "lp" THEN
       LET r == PExpr(tk, p + 1) IN
       IF ~ r.ok THEN r
       ELSE IF Kind(tk, r.p) = "rp" THEN POk(r.t, r.p + 1)
       ELSE PErr("expected )", r.p)
  ELSE PErr("primary expected", p)

\* R611 data-ref: part-ref [ % part-ref ]...   (also R1219 function-reference)
PDesignator(tk, p, parts) ==
  LET n == tk[p][2]
      a == IF Kind(tk, p + 1) # "lp" THEN POk(<<>>, p + 1)
           ELSE IF Kind(tk, p + 2) = "rp" THEN POk(<<>>, p + 3)
           ELSE PArgs(tk, p + 2, <<>>)
  IN IF ~ a.ok THEN a
     ELSE LET part == MkPart(n, IF Kind(tk, p + 1) = "lp" THEN 1 ELSE 0, a.t)
              ps   == Append(parts, part)
          IN IF Kind(tk, a.p) = "pc"
             THEN IF Kind(tk, a.p + 1) = "id" THEN PDesignator(tk, a.p + 1, ps)
                  ELSE PErr("component name expected", a.p + 1)
             ELSE POk(MkDes(ps), a.p)

\* section-subscript-list / actual-arg-spec-list (positional, expressions only)
PArgs(tk, p, acc) ==
  LET r == PExpr(tk, p) IN
  IF ~ r.ok THEN r
  ELSE IF Kind(tk, r.p) = "cm" THEN PArgs(tk, r.p + 1, Append(acc, r.t))
  ELSE IF Kind(tk, r.p) = "rp" THEN POk(Append(acc, r.t), r.p + 1)
  ELSE PErr("expected , or )", r.p)

\* R1002 level-1-expr: [defined-unary-op] primary   (no defined operators here)
\* R1004 mult-operand: level-1-expr [ ** mult-operand ]          right-assoc
PMultOperand(tk, p) ==
  LET r == PPrimary(tk, p) IN
  IF ~ r.ok THEN r
  ELSE IF IsOpIn(tk, r.p, "pow")
       THEN LET r2 == PMultOperand(tk, r.p + 1) IN
            IF ~ r2.ok THEN r2 ELSE POk(MkBin(tk[r.p][2], r.t, r2.t), r2.p)
       ELSE r

\* R1005 add-operand: [add-operand mult-op] mult-operand          left-assoc
PAddOperand(tk, p) ==
  LET r == PMultOperand(tk, p) IN
  IF ~ r.ok THEN r ELSE PAddOperandRest(tk, r.t, r.p)
PAddOperandRest(tk, acc, p) ==
  IF IsOpIn(tk, p, "mul")
  THEN LET r == PMultOperand(tk, p + 1) IN
       IF ~ r.ok THEN r ELSE PAddOperandRest(tk, MkBin(tk[p][2], acc, r.t), r.p)
  ELSE POk(acc, p)

\* R1006 level-2-expr: [[level-2-expr] add-op] add-operand
\* a sign is only possible in front of the FIRST add-operand
PLevel2(tk, p) ==
  IF IsOpIn(tk, p, "add")
  THEN LET r == PAddOperand(tk, p + 1) IN
       IF ~ r.ok THEN r ELSE PLevel2Rest(tk, MkUn(tk[p][2], r.t), r.p)
  ELSE LET r == PAddOperand(tk, p) IN
       IF ~ r.ok THEN r ELSE PLevel2Rest(tk, r.t, r.p)
PLevel2Rest(tk, acc, p) ==
  IF IsOpIn(tk, p, "add")
  THEN LET r == PAddOperand(tk, p + 1) IN
       IF ~ r.ok THEN r ELSE PLevel2Rest(tk, MkBin(tk[p][2], acc, r.t), r.p)
  ELSE POk(acc, p)

\* R1010 level-3-expr: [level-3-expr concat-op] level-2-expr
PLevel3(tk, p) ==
  LET r == PLevel2(tk, p) IN
  IF ~ r.ok THEN r ELSE PLevel3Rest(tk, r.t, r.p)
PLevel3Rest(tk, acc, p) ==
  IF IsOpIn(tk, p, "cat")
  THEN LET r == PLevel2(tk, p + 1) IN
       IF ~ r.ok THEN r ELSE PLevel3Rest(tk, MkBin(tk[p][2], acc, r.t), r.p)
  ELSE POk(acc, p)

\* R1012 level-4-expr: [level-3-expr rel-op] level-3-expr        non-associative
PLevel4(tk, p) ==
  LET r == PLevel3(tk, p) IN
  IF ~ r.ok THEN r
  ELSE IF IsOpIn(tk, r.p, "rel")
       THEN LET r2 == PLevel3(tk, r.p + 1) IN
            IF ~ r2.ok THEN r2 ELSE POk(MkBin(tk[r.p][2], r.t, r2.t), r2.p)
       ELSE r

\* R1014 and-operand: [not-op] level-4-expr
PAndOperand(tk, p) ==
  IF IsOpIn(tk, p, "not")
  THEN LET r == PLevel4(tk, p + 1) IN
       IF ~ r.ok THEN r ELSE POk(MkUn(tk[p][2], r.t), r.p)
  ELSE PLevel4(tk, p)

\* R1015 or-operand: [or-operand and-op] and-operand
POrOperand(tk, p) ==
  LET r == PAndOperand(tk, p) IN
  IF ~ r.ok THEN r ELSE POrOperandRest(tk, r.t, r.p)
POrOperandRest(tk, acc, p) ==
  IF IsOpIn(tk, p, "and")
  THEN LET r == PAndOperand(tk, p + 1) IN
       IF ~ r.ok THEN r ELSE POrOperandRest(tk, MkBin(tk[p][2], acc, r.t), r.p)
  ELSE POk(acc, p)

\* R1016 equiv-operand: [equiv-operand or-op] or-operand
PEquivOperand(tk, p) ==
  LET r == POrOperand(tk, p) IN
  IF ~ r.ok THEN r ELSE PEquivOperandRest(tk, r.t, r.p)
PEquivOperandRest(tk, acc, p) ==
  IF IsOpIn(tk, p, "or")
  THEN LET r == POrOperand(tk, p + 1) IN
       IF ~ r.ok THEN r ELSE PEquivOperandRest(tk, MkBin(tk[p][2], acc, r.t), r.p)
  ELSE POk(acc, p)

\* R1017 level-5-expr: [level-5-expr equiv-op] equiv-operand ; R1022 expr
PExpr(tk, p) ==
  LET r == PEquivOperand(tk, p) IN
  IF ~ r.ok THEN r ELSE PLevel5Rest(tk, r.t, r.p)
PLevel5Rest(tk, acc, p) ==
  IF IsOpIn(tk, p, "eqv")
  THEN LET r == PEquivOperand(tk, p + 1) IN
       IF ~ r.ok THEN r ELSE PLevel5Rest(tk, MkBin(tk[p][2], acc, r.t), r.p)
  ELSE POk(acc, p)

\* the whole token sequence must be one expression
Parse(toks) ==
  LET tk == Classify(toks)
      r  == PExpr(tk, 1) IN
  IF ~ r.ok THEN r.t
  ELSE IF r.p = Len(tk) + 1 THEN r.t
  ELSE MkErr("unexpected token after expression", r.p)

(* ------------------------------------------------------------------------- *)
(* The same grammar as a table: the syntactic category ("level") an operator  *)
(* node belongs to and the loosest category each operand slot accepts.  An    *)
(* operand of a looser category has to be written in parentheses.             *)
(*   0 primary  1 mult-operand  2 add-operand  3 level-2  4 level-3           *)
(*   5 level-4  6 and-operand  7 or-operand  8 equiv-operand  9 level-5/expr  *)
(* ------------------------------------------------------------------------- *)
BinLevel(op) == IF op \in PowOps THEN 1 ELSE IF op \in MulOps THEN 2
                ELSE IF op \in AddOps THEN 3 ELSE IF op \in CatOps THEN 4
                ELSE IF op \in RelOps THEN 5 ELSE IF op \in AndOps THEN 7
                ELSE IF op \in OrOps THEN 8 ELSE 9
UnLevel(op)  == IF op \in AddOps THEN 3 ELSE 6
NodeLevel(t) == IF t.k = "bin" THEN BinLevel(t.op)
                ELSE IF t.k = "un" THEN UnLevel(t.op) ELSE 0
LeftSlot(op)  == IF op \in PowOps THEN 0            \* level-1-expr ** ...
                 ELSE IF op \in RelOps THEN 4       \* level-3 rel level-3
                 ELSE BinLevel(op)                  \* left-recursive rules
RightSlot(op) == IF op \in PowOps THEN 1            \* ... ** mult-operand
                 ELSE IF op \in RelOps THEN 4
                 ELSE IF op \in AndOps THEN 6
                 ELSE BinLevel(op) - 1
UnSlot(op)    == IF op \in AddOps THEN 2 ELSE 5     \* sign add-operand ; .not. level-4

RECURSIVE Unparse(_), UnparseArgs(_, _), UnparseParts(_, _)
Paren(t, slot) == IF NodeLevel(t) > slot THEN <<<<"lp", "(">>>> \o Unparse(t) \o <<<<"rp", ")">>>>
                  ELSE Unparse(t)
UnparseArgs(args, i) ==
  IF i > Len(args) THEN <<>>
  ELSE (IF i > 1 THEN <<<<"cm", ",">>>> ELSE <<>>) \o Unparse(args[i]) \o UnparseArgs(args, i + 1)
UnparseParts(parts, i) ==
  IF i > Len(parts) THEN <<>>
  ELSE (IF i > 1 THEN <<<<"pc", "%">>>> ELSE <<>>) \o <<<<"id", parts[i].n>>>>
       \o (IF parts[i].ix = 1
           THEN <<<<"lp", "(">>>> \o UnparseArgs(parts[i].args, 1) \o <<<<"rp", ")">>>>
           ELSE <<>>)
       \o UnparseParts(parts, i + 1)
\* reference printer: parentheses exactly where the grammar needs them
Unparse(t) ==
  IF t.k = "lit" THEN <<<<"lit", t.ty, t.v, t.kd>>>>
  ELSE IF t.k = "ref" THEN <<<<"id", t.n>>>>
  ELSE IF t.k = "des" THEN UnparseParts(t.parts, 1)
  ELSE IF t.k = "un" THEN <<<<"op", t.op>>>> \o Paren(t.x, UnSlot(t.op))
  ELSE Paren(t.l, LeftSlot(t.op)) \o <<<<"op", t.op>>>> \o Paren(t.r, RightSlot(t.op))

RECURSIVE UnparseFull(_), UnparseFullArgs(_, _)
UnparseFullArgs(args, i) ==
  IF i > Len(args) THEN <<>>
  ELSE (IF i > 1 THEN <<<<"cm", ",">>>> ELSE <<>>) \o UnparseFull(args[i])
       \o UnparseFullArgs(args, i + 1)
\* fully parenthesised printer (every operator node in parentheses)
UnparseFull(t) ==
  IF t.k \in {"lit", "ref"} THEN Unparse(t)
  ELSE IF t.k = "des" THEN
       IF Len(t.parts) = 1
       THEN <<<<"id", t.parts[1].n>>, <<"lp", "(">>>> \o UnparseFullArgs(t.parts[1].args, 1)
            \o <<<<"rp", ")">>>>
       ELSE Unparse(t)
  ELSE IF t.k = "un" THEN <<<<"lp", "(">>, <<"op", t.op>>>> \o UnparseFull(t.x) \o <<<<"rp", ")">>>>
  ELSE <<<<"lp", "(">>>> \o UnparseFull(t.l) \o <<<<"op", t.op>>>> \o UnparseFull(t.r)
       \o <<<<"rp", ")">>>>

(* ------------------------------------------------------------------------- *)
(* C02 clauses over one written expression                                    *)
(* ------------------------------------------------------------------------- *)
Conforming(tk)     == ~ IsErr(Parse(tk))
SameTree(tree, tk) == Parse(tk) = tree       \* parentheses are transparent

(* ------------------------------------------------------------------------- *)
(* C17: integer value of a tree.  Result [d, v]: d = 1 defined, d = 0 not     *)
(* defined for this valuation (division by zero, 0**0, 0**negative, result    *)
(* outside the model's magnitude bound) - such valuations are excluded -,     *)
(* d = 2 construct outside the integer model (a machinery problem).           *)
(* A valuation is [x |-> function name -> value, fn |-> array-function id].   *)
(* ------------------------------------------------------------------------- *)
Big == 30000                                  \* |intermediate| bound (32-bit TLC ints)
IAbs(a) == IF a < 0 THEN 0 - a ELSE a
ISgn(a) == IF a < 0 THEN 0 - 1 ELSE IF a > 0 THEN 1 ELSE 0
TDiv(a, b) == ISgn(a) * ISgn(b) * (IAbs(a) \div IAbs(b))      \* truncation toward zero
FMod(a, b) == a - b * TDiv(a, b)                                \* sign of the dividend
IMin(a, b) == IF a <= b THEN a ELSE b
IMax(a, b) == IF a >= b THEN a ELSE b
Val(v)   == [d |-> 1, v |-> v]
Undef    == [d |-> 0, v |-> 0]
Unsup    == [d |-> 2, v |-> 0]
Guard(v) == IF IAbs(v) > Big THEN Undef ELSE Val(v)

RECURSIVE IPowAcc(_, _, _)
IPowAcc(b, e, acc) ==     \* acc * b**e for |b| >= 2, e >= 0; at most 15 steps to the bound
  IF e = 0 THEN Val(acc)
  ELSE IF IAbs(acc * b) > Big THEN Undef
  ELSE IPowAcc(b, e - 1, acc * b)
IPow(b, e) ==
  IF b = 0 THEN (IF e > 0 THEN Val(0) ELSE Undef)   \* 0**0, 0**negative: not defined
  ELSE IF b = 1 THEN Val(1)
  ELSE IF b = 0 - 1 THEN Val(IF IAbs(e) % 2 = 0 THEN 1 ELSE 0 - 1)
  ELSE IF e >= 0 THEN IPowAcc(b, e, 1)
  ELSE Val(0)                                       \* 1 / b**|e| truncates to 0

\* value of an integer literal constant (digit strings are opaque to TLC)
LitTable == [s \in {"0", "1", "2", "3", "4", "5", "6", "7", "8", "9", "10", "11",
                    "12", "13", "14", "15", "16", "17", "18", "19", "20", "21", "22", "23",
                    "24", "25", "26", "27", "28", "29", "30", "31", "32", "33", "34", "35",
                    "36", "37", "38", "39", "40", "48", "64"} |->
             CASE s = "0" -> 0 [] s = "1" -> 1 [] s = "2" -> 2 [] s = "3" -> 3 [] s = "4" -> 4
            [] s = "5" -> 5 [] s = "6" -> 6 [] s = "7" -> 7 [] s = "8" -> 8 [] s = "9" -> 9
            [] s = "10" -> 10 [] s = "11" -> 11 [] s = "12" -> 12 [] s = "13" -> 13 [] s = "14" -> 14
            [] s = "15" -> 15 [] s = "16" -> 16 [] s = "17" -> 17 [] s = "18" -> 18 [] s = "19" -> 19
            [] s = "20" -> 20 [] s = "21" -> 21 [] s = "22" -> 22 [] s = "23" -> 23 [] s = "24" -> 24
            [] s = "25" -> 25 [] s = "26" -> 26 [] s = "27" -> 27 [] s = "28" -> 28 [] s = "29" -> 29
            [] s = "30" -> 30 [] s = "31" -> 31 [] s = "32" -> 32 [] s = "33" -> 33 [] s = "34" -> 34
            [] s = "35" -> 35 [] s = "36" -> 36 [] s = "37" -> 37 [] s = "38" -> 38 [] s = "39" -> 39
            [] s = "40" -> 40 [] s = "48" -> 48 [] s = "64" -> 64]

\* the family standing for "any array": identity, reversal, a non-injective map, constant
ArrFns == 1..4
ArrFn(fn, name, i) == CASE fn = 1 -> i
                        [] fn = 2 -> 3 - i
                        [] fn = 3 -> (i * i) % 5
                        [] fn = 4 -> 7
IntIntrinsics == {"mod", "min", "max", "abs"}

Arith(op, a, b) ==
  CASE op = "+"  -> Guard(a + b)
    [] op = "-"  -> Guard(a - b)
    [] op = "*"  -> Guard(a * b)
    [] op = "/"  -> IF b = 0 THEN Undef ELSE Val(TDiv(a, b))
    [] op = "exdiv" -> IF b = 0 THEN Undef                  \* exact quotient (solutions only)
                       ELSE IF FMod(a, b) # 0 THEN Undef ELSE Val(TDiv(a, b))
    [] op = "**" -> IPow(a, b)
    [] OTHER     -> Unsup

\* trees EvalInt gives a meaning to (never d = 2), names = the variables valued
RECURSIVE IsIntTree(_, _)
IsIntTree(t, names) ==
  IF t.k = "lit" THEN t.ty = "int" /\ t.v \in DOMAIN LitTable
  ELSE IF t.k = "ref" THEN t.n \in names
  ELSE IF t.k = "un" THEN t.op \in AddOps /\ IsIntTree(t.x, names)
  ELSE IF t.k = "bin" THEN /\ t.op \in {"+", "-", "*", "/", "exdiv", "**"}
                           /\ IsIntTree(t.l, names) /\ IsIntTree(t.r, names)
  ELSE IF t.k = "des" THEN
       /\ Len(t.parts) = 1
       /\ LET nm == t.parts[1].n
              as == t.parts[1].args
          IN /\ Len(as) >= 1
             /\ \A i \in DOMAIN as : IsIntTree(as[i], names)
             /\ (nm = "mod" => Len(as) = 2)
             /\ (nm \in {"min", "max"} => Len(as) >= 2)
             /\ (nm \notin {"mod", "min", "max"} => Len(as) = 1)
  ELSE FALSE

RECURSIVE EvalInt(_, _), EvalFold(_, _, _, _, _)
\* MIN / MAX over args[i..]
EvalFold(name, args, i, acc, val) ==
  IF i > Len(args) THEN Val(acc)
  ELSE LET r == EvalInt(args[i], val) IN
       IF r.d # 1 THEN r
       ELSE EvalFold(name, args, i + 1,
                     IF name = "min" THEN IMin(acc, r.v) ELSE IMax(acc, r.v), val)
EvalInt(t, val) ==
  IF t.k = "lit" THEN
     (IF t.ty = "int" /\ t.v \in DOMAIN LitTable THEN Val(LitTable[t.v]) ELSE Unsup)
  ELSE IF t.k = "ref" THEN
     (IF t.n \in DOMAIN val.x THEN Val(val.x[t.n]) ELSE Unsup)
  ELSE IF t.k = "un" THEN
     (IF t.op \notin AddOps THEN Unsup
      ELSE LET r == EvalInt(t.x, val) IN
           IF r.d # 1 THEN r ELSE IF t.op = "-" THEN Val(0 - r.v) ELSE r)
  ELSE IF t.k = "bin" THEN
     LET a == EvalInt(t.l, val) IN
     IF a.d # 1 THEN a
     ELSE LET b == EvalInt(t.r, val) IN
          IF b.d # 1 THEN b ELSE Arith(t.op, a.v, b.v)
  ELSE IF t.k = "des" THEN
     (IF Len(t.parts) # 1 \/ Len(t.parts[1].args) < 1 THEN Unsup
      ELSE LET nm == t.parts[1].n
               as == t.parts[1].args
               a1 == EvalInt(as[1], val)
           IN IF a1.d # 1 THEN a1
              ELSE IF nm = "abs" THEN (IF Len(as) = 1 THEN Val(IAbs(a1.v)) ELSE Unsup)
              ELSE IF nm \in {"min", "max"} THEN
                   (IF Len(as) < 2 THEN Unsup ELSE EvalFold(nm, as, 2, a1.v, val))
              ELSE IF nm = "mod" THEN
                   (IF Len(as) # 2 THEN Unsup
                    ELSE LET a2 == EvalInt(as[2], val) IN
                         IF a2.d # 1 THEN a2
                         ELSE IF a2.v = 0 THEN Undef ELSE Val(FMod(a1.v, a2.v)))
              ELSE IF Len(as) = 1 THEN Guard(ArrFn(val.fn, nm, a1.v))   \* array element
              ELSE Unsup)
  ELSE Unsup
===============================================================================
