--------------------------- MODULE Trace_TransTxn ---------------------------
(* Validates recorded transformation attempts (c26_recorder) against the     *)
(* actions of TransTxn.  File: [sessions |-> <<session>>], session =          *)
(* [id, closed, lines]; a line is                                              *)
(*    <<"B", seq, trans, text, syms, tree, c>>   Begin(trans) with fp = ...   *)
(*         (c = 1: no edit since the previous top-level attempt ended)        *)
(*    <<"E", seq, outcome, text, syms, tree>>    outcome "ok"      -> Commit  *)
(*                                                       "refused" -> Refuse  *)
(*                                                       "crash"   -> Crash   *)
(* ("" components of an "ok" line: the recorder did not look).  A session is  *)
(* the history of one script/test on its trees; `closed` sessions (generated  *)
(* driver) have no edits between top-level attempts.  Every line is consumed; *)
(* a refused line that is not a Refuse step of TransTxn prints a VERDICT with *)
(* the broken clause and the history goes on from the recorded state.         *)
EXTENDS Naturals, Sequences, FiniteSets, TLC, Json, IOUtils

Data     == JsonDeserialize(IOEnv.PV_CASES)
Sessions == Data.sessions

VARIABLES fp, stack            \* TransTxn's variables
VARIABLES cid, pos
M == INSTANCE TransTxn WITH Trans <- {}, Texts <- {}, Syms <- {}, Trees <- {},
                            MaxAttempts <- 0, MaxDepth <- 0, Disciplined <- TRUE,
                            begun <- pos, last <- pos, shadow <- fp

vars == <<fp, stack, cid, pos>>
Lines   == Sessions[cid].lines
NoFp    == [text |-> "", syms |-> "", tree |-> ""]
FpOf(l) == [text |-> l[4], syms |-> l[5], tree |-> l[6]]
Unknown(f) == f.text = "" /\ f.syms = "" /\ f.tree = ""

Init == /\ cid \in 1..Len(Sessions)
        /\ pos = 1
        /\ stack = <<>>
        /\ fp = NoFp

Verdict(l, clause, w) ==
    PrintT("VERDICT " \o ToJson([sid |-> Sessions[cid].id, seq |-> l[2],
                                 v |-> clause, w |-> w]))

IsEvent(kind) == pos <= Len(Lines) /\ Lines[pos][1] = kind

\* TransTxn!Begin(t) (+ Env/Edit: whatever happened since the last line)
BeginStep ==
  /\ IsEvent("B")
  /\ LET l == Lines[pos] IN
     /\ (Sessions[cid].closed /\ l[7] = 1 /\ stack = <<>> /\ fp # FpOf(l))
           => Verdict(l, "Discontinuity", [depth |-> 0])
     /\ stack' = Append(stack, M!Open([seq |-> l[2], name |-> l[3]], FpOf(l),
                                       "mutating"))
     /\ fp' = FpOf(l)
     /\ pos' = pos + 1
     /\ UNCHANGED cid

\* TransTxn!Commit | Refuse | Crash
EndStep ==
  /\ IsEvent("E")
  /\ LET l == Lines[pos]
         post == FpOf(l) IN
     /\ IF stack = <<>> \/ M!Top(stack).trans.seq # l[2]
        THEN /\ Verdict(l, "BadNesting", [depth |-> Len(stack)])
             /\ UNCHANGED <<stack, fp>>
        ELSE LET top == M!Top(stack) IN
             /\ stack' = M!Pop(stack)
             /\ fp' = IF Unknown(post) THEN fp ELSE post
             /\ (l[3] = "refused" /\ ~M!CanRefuse(stack, post))      \* not a Refuse step
                  => Verdict(l, M!BrokenClause(top.fp0, post),
                             [trans |-> top.trans.name, depth |-> Len(stack)])
     /\ pos' = pos + 1
     /\ UNCHANGED cid

Step == BeginStep \/ EndStep
Spec == Init /\ [][Step]_vars
==============================================================================
