CONSTANTS MaxN = 4
 Tier = "quick"
INIT InitTab
NEXT NextTab
INVARIANT InvLastWins
INVARIANT InvBuiltinsStay
PROPERTY PropNoInterference
