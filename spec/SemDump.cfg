INIT Init
NEXT Step
