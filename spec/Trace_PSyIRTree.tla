--------------------------- MODULE Trace_PSyIRTree ---------------------------
(* C14, binding A/B: validates calls executed on REAL psyclone nodes against   *)
(* the relation of PSyIRTree.tla.                                              *)
(* File $PV_CASES:                                                             *)
(*   universes : << kinds_1, kinds_2, ... >>      (sequence of kind sequences) *)
(*   states    : << <<children, parent>>, ... >>  projected real states        *)
(*   items     : << <<id, u, pre, op, raised, post>>, ... >>                   *)
(*     u = index into universes; pre/post = indices into states (the harness   *)
(*     only de-duplicates equal values; equality is decided here on values);   *)
(*     op = <<name, p, i, c, d>> as in PSyIRTree; raised = 1 iff the real call *)
(*     raised an exception.                                                    *)
(* Every item is one behaviour of two states: the recorded pre-state, then the *)
(* recorded post-state together with the verdict.                              *)
EXTENDS Integers, Sequences, FiniteSets, TLC, Json, IOUtils

File   == JsonDeserialize(IOEnv.PV_CASES)
Items  == File.items
States == File.states

VARIABLES children, parent          \* the real tree, as projected by the harness
VARIABLES cid, verdict
vars == <<children, parent, cid, verdict>>

T == INSTANCE PSyIRTree WITH
       Universe <- [kinds |-> <<"Schedule">>, inits |-> <<>>, parents |-> <<>>,
                    ops |-> <<>>, depth |-> 0, slack |-> 0, pairs |-> 0],
       lastOp <- 0, steps <- 0, hist <- 0, rng <- 0

KindsOf(i) == File.universes[Items[i][2]]
OpOf(i)    == Items[i][4]
Raised(i)  == Items[i][5] = 1
AsFun(K, s) == [n \in T!NodesOf(K) |-> s[n]]

Init == /\ cid \in 1..Len(Items)
        /\ children = AsFun(KindsOf(cid), States[Items[cid][3]][1])
        /\ parent   = AsFun(KindsOf(cid), States[Items[cid][3]][2])
        /\ verdict = "run"

\* witness of an ill-formed state: the offending (parent, position) pairs and nodes
Witness(K, ch, pa) ==
  [badpos   |-> UNION {{<<p, i - 1>> : i \in {j \in DOMAIN ch[p] :
                                    ~T!ValidAt(K[p], j - 1, K[ch[p][j]])}} :
                       p \in T!NodesOf(K)},
   unlinked |-> {c \in T!NodesOf(K) :
                   \/ \E p \in T!NodesOf(K) : c \in T!SeqSet(ch[p]) /\ pa[c] # p
                   \/ pa[c] # T!None /\ T!Occurs(ch[pa[c]], c) # 1}]

\* the list effect PSyIRTree predicts for the call (for the report / matchers)
EffectOf(i) == LET e == T!Effect(children, parent, OpOf(i))
               IN [effok |-> e.ok, eff |-> IF e.ok THEN e.ch ELSE <<>>]
Fail(clause, K, ch, pa) ==
  /\ verdict' = clause
  /\ PrintT("VERDICT " \o ToJson([id |-> Items[cid][1], v |-> clause,
                                   w |-> Witness(K, ch, pa) @@ EffectOf(cid)]))

Step ==
  LET K    == KindsOf(cid)
      op   == OpOf(cid)
      post == States[Items[cid][6]]
      ch2  == AsFun(K, post[1])
      pa2  == AsFun(K, post[2])
  IN
  /\ verdict = "run"
  /\ children' = ch2 /\ parent' = pa2 /\ cid' = cid
  /\ IF ~T!WellFormedOf(K, children, parent)
     THEN Fail("PreNotWellFormed", K, children, parent)
     ELSE IF Raised(cid)
     THEN IF T!IsRefusalOf(children, parent, ch2, pa2)          \* = PSyIRTree!Refuse
          THEN verdict' = "ok"
          ELSE Fail("RefusalAtomic", K, ch2, pa2)
     ELSE IF T!IsSuccessOf(K, children, parent, op, ch2, pa2)   \* = PSyIRTree!Success
          THEN verdict' = "ok"
          ELSE IF T!WellFormedOf(K, ch2, pa2)
          THEN /\ verdict' = "diverged"        \* property holds, model predicted otherwise
               /\ PrintT("DIVERGE " \o ToJson([id |-> Items[cid][1]]))
          ELSE Fail(T!FailingClause(K, ch2, pa2), K, ch2, pa2)
Spec == Init /\ [][Step]_vars
===============================================================================
