---------------------------- MODULE LFRicArgOrder ----------------------------
(* C21 - the DOCUMENTED argument-ordering rules of LFRic kernels, transcribed *)
(* from doc/user_guide/dynamo0p3.rst (sections "Rules for General-Purpose     *)
(* Kernels", "Rules for CMA Kernels", "Rules for Inter-Grid Kernels", "Rules  *)
(* for Domain Kernels", "Argument Intents", "Stencils", "gh_shape and         *)
(* gh_evaluator_targets") - NOT from arg_ordering.py.                         *)
(*                                                                            *)
(* A metadata record md:                                                      *)
(*   on      "cell_column" | "domain"                                         *)
(*   args    sequence of [t, dt, acc, fs, fs2, vec, st, mesh]                 *)
(*             t   "scalar" | "field" | "op" (LMA) | "cma"                    *)
(*             dt  "real" | "integer" | "logical"                             *)
(*             acc "read" | "write" | "readwrite" | "inc" | "readinc"         *)
(*             fs  function space of a field / to-space of an operator        *)
(*             fs2 from-space of an operator ("" otherwise)                   *)
(*             vec vector size (1 = plain field)                              *)
(*             st  "none"|"x1d"|"y1d"|"xory1d"|"cross"|"region"|"cross2d"     *)
(*             mesh "none" | "coarse" | "fine"   (inter-grid)                 *)
(*   funcs   sequence of [fs, ops] ; ops a sequence over {"basis","diff"}     *)
(*   shapes  sequence over {"xyoz","face","edge","evaluator"}   (gh_shape)    *)
(*   targets sequence of function spaces (gh_evaluator_targets, <<>> = unset) *)
(*   refel   sequence of reference-element properties                         *)
(*   mesh    sequence of mesh properties ("adjacent_face")                    *)
(*                                                                            *)
(* Args(md) is the documented kernel argument list: a sequence of items       *)
(*   [w (what), a (metadata position, "0" = none), fs, x (vector component /  *)
(*    quadrature shape / evaluator target), ty, k (kind), r (rank), in        *)
(*    (intent)]; all fields are strings; "any" = the guide does not say.      *)
(* The second half of the module is the bounded INPUT FAMILY MdSet that TLC   *)
(* enumerates (one implementation test per metadata state).                   *)
EXTENDS Naturals, Sequences, FiniteSets, TLC, Json

\* --------------------------------------------------------------- utilities
RECURSIVE LConcat(_)
LConcat(ss) == IF ss = <<>> THEN <<>> ELSE Head(ss) \o LConcat(Tail(ss))
RECURSIVE LUniq(_, _)
LUniq(s, seen) == IF s = <<>> THEN <<>>
                  ELSE IF Head(s) \in seen THEN LUniq(Tail(s), seen)
                  ELSE <<Head(s)>> \o LUniq(Tail(s), seen \cup {Head(s)})
LRange(s) == {s[i] : i \in DOMAIN s}
Str(n) == ToString(n)

Item(w, a, fs, x, ty, k, r, in) ==
  [w |-> w, a |-> a, fs |-> fs, x |-> x, ty |-> ty, k |-> k, r |-> r, in |-> in]
IntIn(w, a, fs, x, r)  == Item(w, a, fs, x, "integer", "i_def", r, "in")
IntAny(w, a, fs, x, r) == Item(w, a, fs, x, "integer", "i_def", r, "any")

\* default-precision kinds (the generated algorithm declares field_type,
\* integer_field_type, operator_type, r_def/i_def/l_def scalars: "Mixed
\* Precision" table of the guide)
DefKind(dt) == CASE dt = "real" -> "r_def" [] dt = "integer" -> "i_def"
                 [] dt = "logical" -> "l_def"
\* "Argument Intents": GH_READ -> in; GH_WRITE, GH_INC, GH_READINC,
\* GH_READWRITE -> inout
IntentOf(acc) == IF acc = "read" THEN "in" ELSE "inout"

\* ---------------------------------------------------- kernel classification
IsField(a)  == a.t = "field"
IsOp(a)     == a.t = "op"
IsCma(a)    == a.t = "cma"
IsScalar(a) == a.t = "scalar"
HasLma(md)  == \E i \in DOMAIN md.args : IsOp(md.args[i])
HasCma(md)  == \E i \in DOMAIN md.args : IsCma(md.args[i])
InterGrid(md) == \E i \in DOMAIN md.args : md.args[i].mesh # "none"
\* "Rules for Kernels that work with CMA Operators"
CmaKind(md) ==
  IF ~HasCma(md) THEN "none"
  ELSE IF \A i \in DOMAIN md.args : IsCma(md.args[i]) \/ IsScalar(md.args[i])
       THEN "matrix-matrix"
  ELSE IF \E i \in DOMAIN md.args : IsCma(md.args[i]) /\ md.args[i].acc # "read"
       THEN "assembly"
  ELSE "apply"

\* function spaces in the order they appear in the metadata arguments, the
\* to-space of an operator before its from-space
ArgSpaces(a) == IF IsField(a) THEN <<a.fs>>
                ELSE IF IsOp(a) \/ IsCma(a) THEN <<a.fs, a.fs2>> ELSE <<>>
UniqueSpaces(md) ==
  LUniq(LConcat([i \in DOMAIN md.args |-> ArgSpaces(md.args[i])]), {})
FieldOn(md, fs) == \E i \in DOMAIN md.args :
                     IsField(md.args[i]) /\ md.args[i].fs = fs
CmaOn(md, fs) == \E i \in DOMAIN md.args :
                   IsCma(md.args[i]) /\ fs \in {md.args[i].fs, md.args[i].fs2}

\* ----------------------------------- rule 3: one entry per meta_args element
StencilItems(i, a) ==
  LET n == Str(i) two == a.st = "cross2d" IN
  IF a.st = "none" THEN <<>>
  ELSE <<IntIn("stencil_size", n, "", "", IF two THEN "1" ELSE "0")>>       \* 3.2.1
       \o (IF two THEN <<IntIn("max_branch_length", n, "", "", "0")>>       \* 3.2.2
           ELSE <<>>)
       \o <<IntIn("stencil_dofmap", n, "", "", IF two THEN "3" ELSE "2")>>  \* 3.2.3
       \o (IF a.st = "xory1d" THEN <<IntIn("direction", n, "", "", "0")>>   \* 3.2.4
           ELSE <<>>)

FieldData(i, a) ==
  [v \in 1..a.vec |->
     Item("field", Str(i), a.fs, IF a.vec = 1 THEN "" ELSE "v" \o Str(v),
          a.dt, DefKind(a.dt), "1", IntentOf(a.acc))]
\* a field vector is passed as its components; the stencil information of the
\* argument follows once (the algorithm layer supplies one extent per argument)
FieldItems(i, a) == FieldData(i, a) \o StencilItems(i, a)

ScalarItems(i, a) ==
  <<Item("scalar", Str(i), "", "", a.dt, DefKind(a.dt), "0", IntentOf(a.acc))>>

LmaItems(i, a) ==                                                          \* 3.4
  << IntAny("op_ncell_3d", Str(i), "", "", "0"),
     Item("op", Str(i), "", "", "real", "r_def", "3", IntentOf(a.acc)) >>

\* CMA Assembly rule 5.2 (also used by apply rule 3.2 and matrix-matrix 3.1)
CmaItems(i, a) ==
  LET n == Str(i) IN
  << Item("cma_op", n, "", "", "real", "r_solver", "3", IntentOf(a.acc)),
     IntIn("cma_nrow", n, "", "", "0") >>
  \o (IF a.fs # a.fs2 THEN <<IntIn("cma_ncol", n, "", "", "0")>> ELSE <<>>)
  \o << IntIn("cma_bandwidth", n, "", "", "0"), IntIn("cma_alpha", n, "", "", "0"),
        IntIn("cma_beta", n, "", "", "0"), IntIn("cma_gamma_m", n, "", "", "0"),
        IntIn("cma_gamma_p", n, "", "", "0") >>

\* ----------------------------------------------- rule 4.3: basis functions
OpsFor(md, fs) ==
  IF \E j \in DOMAIN md.funcs : md.funcs[j].fs = fs
  THEN md.funcs[CHOOSE j \in DOMAIN md.funcs : md.funcs[j].fs = fs].ops
  ELSE <<>>
\* "gh_shape and gh_evaluator_targets": without gh_evaluator_targets the
\* evaluator is provided for each function space associated with the
\* quantities the kernel updates (for an operator: its to-space, see the
\* first example of "Rules for General-Purpose Kernels")
UpdatedSpaces(md) ==
  LUniq(LConcat([i \in DOMAIN md.args |->
           IF ~IsScalar(md.args[i]) /\ md.args[i].acc # "read"
           THEN <<md.args[i].fs>> ELSE <<>>]), {})
Targets(md) == IF md.targets # <<>> THEN md.targets ELSE UpdatedSpaces(md)
FuncName(o) == IF o = "basis" THEN "basis" ELSE "diff_basis"
BasisFor(md, fs, o) ==
  LConcat([s \in DOMAIN md.shapes |->
     IF md.shapes[s] = "evaluator"
     THEN LET tg == Targets(md) IN
          [t \in DOMAIN tg |-> Item(FuncName(o), "0", fs, "on:" \o tg[t],
                                    "real", "r_def", "3", "in")]
     ELSE <<Item(FuncName(o), "0", fs, md.shapes[s], "real", "r_def", "4", "in")>>])
BasisItems(md, fs) ==
  LET ops == OpsFor(md, fs) IN
  LConcat([o \in DOMAIN ops |-> BasisFor(md, fs, ops[o])])

\* rule 4 for one function space (general-purpose and domain kernels)
SpaceItems(md, fs) ==
  <<IntIn("ndf", "0", fs, "", "0")>>
  \o (IF FieldOn(md, fs)
      THEN <<IntIn("undf", "0", fs, "", "0"), IntIn("map", "0", fs, "", "1")>>
      ELSE <<>>)
  \o BasisItems(md, fs)

\* ------------------------------------ rule 5: reference-element properties
Horiz == {"normals_to_horizontal_faces", "outward_normals_to_horizontal_faces"}
Vert  == {"normals_to_vertical_faces", "outward_normals_to_vertical_faces"}
AllF  == {"normals_to_faces", "outward_normals_to_faces"}
RefProps == Horiz \cup Vert \cup AllF
NeedH(md) == LRange(md.refel) \cap Horiz # {}
NeedV(md) == LRange(md.refel) \cap Vert # {}
NeedA(md) == LRange(md.refel) \cap AllF # {}
\* the guide names the three counts but not their relative order: `order` is a
\* permutation of <<"nfaces_re_h", "nfaces_re_v", "nfaces_re">>
RefCounts(md, order) ==
  LConcat([j \in DOMAIN order |->
     IF \/ order[j] = "nfaces_re_h" /\ NeedH(md)
        \/ order[j] = "nfaces_re_v" /\ NeedV(md)
        \/ order[j] = "nfaces_re" /\ NeedA(md)
     THEN <<IntAny(order[j], "0", "", "", "0")>> ELSE <<>>])
\* 5.1-5.3: "a rank-2 integer array of kind i_def"
RefArrays(md) ==
  [j \in DOMAIN md.refel |->
     Item("refel", "0", "", md.refel[j], "integer", "i_def", "2", "any")]
\* rule 6: adjacent_face
MeshItems(md) ==
  IF "adjacent_face" \in LRange(md.mesh)
  THEN (IF NeedH(md) THEN <<>> ELSE <<IntAny("nfaces_re_h", "0", "", "", "0")>>)
       \o <<IntAny("adjacent_face", "0", "", "", "1")>>
  ELSE <<>>
\* rule 7: quadrature
QuadItems(md) ==
  LConcat([s \in DOMAIN md.shapes |->
    LET sh == md.shapes[s] IN
    CASE sh = "xyoz" ->
           << IntIn("np_xy", "0", "", sh, "0"), IntIn("np_z", "0", "", sh, "0"),
              Item("weights_xy", "0", "", sh, "real", "r_def", "1", "any"),
              Item("weights_z", "0", "", sh, "real", "r_def", "1", "any") >>
      [] sh \in {"face", "edge"} ->
           << IntIn(IF sh = "face" THEN "nfaces" ELSE "nedges", "0", "", sh, "0"),
              IntIn("np_xyz", "0", "", sh, "0"),
              Item("weights_xyz", "0", "", sh, "real", "r_def", "2", "any") >>
      [] OTHER -> <<>>])

DataItems(md) ==
  LConcat([i \in DOMAIN md.args |->
     LET a == md.args[i] IN
     CASE IsScalar(a) -> ScalarItems(i, a)
       [] IsField(a)  -> FieldItems(i, a)
       [] IsOp(a)     -> LmaItems(i, a)
       [] IsCma(a)    -> CmaItems(i, a)])

\* -------------------- "Rules for General-Purpose Kernels" / "Domain Kernels"
GeneralArgs(md, order) ==
  (IF HasLma(md) THEN <<IntIn("cell", "0", "", "", "0")>> ELSE <<>>)         \* 1
  \o <<IntIn("nlayers", "0", "", "", "0")>>                                 \* 2
  \o (IF md.on = "domain"                   \* "Rules for Domain Kernels"
      THEN <<IntIn("ncell_2d_no_halos", "0", "", "", "0")>> ELSE <<>>)
  \o DataItems(md)                                                          \* 3
  \o LConcat([j \in DOMAIN UniqueSpaces(md) |->                             \* 4
                SpaceItems(md, UniqueSpaces(md)[j])])
  \o RefCounts(md, order) \o RefArrays(md)                                  \* 5
  \o MeshItems(md)                                                          \* 6
  \o QuadItems(md)                                                          \* 7

\* ------------------------------------------ "Rules for Inter-Grid Kernels"
MeshOf(md, fs) ==
  md.args[CHOOSE i \in DOMAIN md.args : IsField(md.args[i]) /\ md.args[i].fs = fs].mesh
InterGridArgs(md) ==
  << IntIn("nlayers", "0", "", "", "0"),                                    \* 1
     IntIn("cell_map", "0", "", "", "2"),                                   \* 2
     IntIn("ncell_f_per_c_x", "0", "", "", "0"),                            \* 3
     IntIn("ncell_f_per_c_y", "0", "", "", "0"),
     IntIn("ncell_f", "0", "", "", "0") >>                                  \* 4
  \o DataItems(md)                                                          \* 5
  \o LConcat([j \in DOMAIN UniqueSpaces(md) |->                             \* 6
       LET fs == UniqueSpaces(md)[j] IN
       IF MeshOf(md, fs) = "fine"
       THEN << Item("ndf", "0", fs, "", "any", "any", "0", "any"),
               Item("undf", "0", fs, "", "any", "any", "0", "any"),
               IntIn("map", "0", fs, "", "2") >>
       ELSE << IntIn("undf", "0", fs, "", "0"), IntIn("map", "0", fs, "", "1") >>])

\* ------------------------------------------------- "Rules for CMA Kernels"
\* Assembly.  Rule 4 passes ncell_3d once; an LMA operator (5.1) is then just
\* the rank-3 array.
CmaAssemblyArgs(md) ==
  << IntIn("cell", "0", "", "", "0"), IntIn("nlayers", "0", "", "", "0"),
     IntIn("ncell_2d", "0", "", "", "0"), IntIn("ncell_3d", "0", "", "", "0") >>
  \o LConcat([i \in DOMAIN md.args |->
       LET a == md.args[i] IN
       CASE IsOp(a) -> <<Item("op", Str(i), "", "", "real", "r_def", "3", "any")>>
         [] IsCma(a) -> CmaItems(i, a)
         [] IsField(a) -> FieldItems(i, a)
         [] IsScalar(a) -> ScalarItems(i, a)])
  \o LConcat([j \in DOMAIN UniqueSpaces(md) |->
       LET fs == UniqueSpaces(md)[j] IN
       <<IntIn("ndf", "0", fs, "", "0")>>
       \o (IF FieldOn(md, fs)
           THEN <<IntIn("undf", "0", fs, "", "0"), IntIn("map", "0", fs, "", "1")>>
           ELSE <<>>)
       \o (IF CmaOn(md, fs) THEN <<IntAny("cbanded_map", "0", fs, "", "2")>>
           ELSE <<>>)])
\* Application / inverse application
TheCma(md) == md.args[CHOOSE i \in DOMAIN md.args : IsCma(md.args[i])]
CmaApplyArgs(md) ==
  << IntIn("cell", "0", "", "", "0"), IntIn("ncell_2d", "0", "", "", "0") >>
  \o DataItems(md)
  \o LConcat([j \in DOMAIN UniqueSpaces(md) |->
       LET fs == UniqueSpaces(md)[j] IN
       << IntIn("ndf", "0", fs, "", "0"), IntIn("undf", "0", fs, "", "0"),
          IntAny("map", "0", fs, "", "1") >>])
  \o <<IntAny("cma_indirection_map", "0", TheCma(md).fs, "", "1")>>          \* 5
  \o (IF TheCma(md).fs # TheCma(md).fs2                                      \* 6
      THEN <<IntAny("cma_indirection_map", "0", TheCma(md).fs2, "", "1")>>
      ELSE <<>>)
CmaMatrixArgs(md) ==
  << IntIn("cell", "0", "", "", "0"), IntIn("ncell_2d", "0", "", "", "0") >>
  \o DataItems(md)

\* the documented argument list
ArgsWith(md, order) ==
  IF InterGrid(md) THEN InterGridArgs(md)
  ELSE CASE CmaKind(md) = "assembly" -> CmaAssemblyArgs(md)
         [] CmaKind(md) = "apply" -> CmaApplyArgs(md)
         [] CmaKind(md) = "matrix-matrix" -> CmaMatrixArgs(md)
         [] OTHER -> GeneralArgs(md, order)
CountOrders == { <<"nfaces_re_h", "nfaces_re_v", "nfaces_re">>,
                 <<"nfaces_re_h", "nfaces_re", "nfaces_re_v">>,
                 <<"nfaces_re_v", "nfaces_re_h", "nfaces_re">>,
                 <<"nfaces_re_v", "nfaces_re", "nfaces_re_h">>,
                 <<"nfaces_re", "nfaces_re_h", "nfaces_re_v">>,
                 <<"nfaces_re", "nfaces_re_v", "nfaces_re_h">> }
Args(md) == ArgsWith(md, <<"nfaces_re_h", "nfaces_re_v", "nfaces_re">>)

\* =========================================================================
\* Valid metadata (user guide: "Rules for all User-Supplied Kernels ...",
\* "Valid Data Types", "Valid Access Modes", "Stencil Metadata", "meta_funcs",
\* "gh_shape and gh_evaluator_targets", rules for CMA / inter-grid / domain)
ContSpaces == {"w0", "w1", "w2", "w2h", "w2trace", "w2htrace", "any_w2",
               "any_space_1", "any_space_2"}
DiscSpaces == {"w2broken", "w2v", "w2vtrace", "w3", "wtheta",
               "any_discontinuous_space_1", "any_discontinuous_space_2"}
Modified(a) == ~IsScalar(a) /\ a.acc # "read"
ValidArg(a) ==
  CASE IsScalar(a) -> a.acc = "read" /\ a.dt \in {"real", "integer", "logical"}
    [] IsField(a) ->
         /\ a.dt \in {"real", "integer"}
         /\ a.fs \in ContSpaces \cup DiscSpaces
         /\ a.acc \in (IF a.fs \in ContSpaces
                       THEN {"read", "write", "inc", "readinc"}
                       ELSE {"read", "write", "readwrite"})
         /\ (a.st # "none" => a.acc = "read" /\ a.mesh = "none")
    [] OTHER -> a.dt = "real" /\ a.acc \in {"read", "write", "readwrite"}
                /\ a.st = "none" /\ a.vec = 1
ValidMd(md) ==
  LET A == md.args  N == DOMAIN md.args  S == LRange(UniqueSpaces(md)) IN
  /\ \A i \in N : ValidArg(A[i])
  /\ \E i \in N : Modified(A[i])
  \* an operator argument excludes integer-valued fields
  /\ (HasLma(md) \/ HasCma(md)) => \A i \in N : IsField(A[i]) => A[i].dt = "real"
  /\ md.on = "domain" =>
       /\ \A i \in N : IsField(A[i]) \/ IsScalar(A[i])
       /\ \A i \in N : IsField(A[i]) => A[i].fs \in DiscSpaces /\ A[i].st = "none"
       /\ ~InterGrid(md)
  /\ InterGrid(md) =>
       /\ \A i \in N : IsField(A[i]) /\ A[i].mesh # "none" /\ A[i].st = "none"
       /\ {A[i].mesh : i \in N} = {"coarse", "fine"}
       /\ \A i, j \in N : (A[i].mesh = A[j].mesh) <=> (A[i].fs = A[j].fs)
       /\ md.funcs = <<>> /\ md.refel = <<>> /\ md.mesh = <<>>
  /\ HasCma(md) =>
       /\ md.on = "cell_column" /\ ~InterGrid(md)
       /\ \A i \in N : A[i].vec = 1 /\ A[i].st = "none"
       /\ md.funcs = <<>> /\ md.refel = <<>> /\ md.mesh = <<>>
       /\ CASE CmaKind(md) = "assembly" ->
                 /\ Cardinality({i \in N : IsCma(A[i])}) = 1
                 /\ HasLma(md)
                 /\ \A i \in N : ~IsCma(A[i]) => A[i].acc = "read"
            [] CmaKind(md) = "apply" ->
                 /\ Cardinality({i \in N : IsCma(A[i])}) = 1
                 /\ Cardinality({i \in N : IsField(A[i])}) = 2
                 /\ Len(A) = 3
                 /\ \E i, j \in N :
                      /\ IsField(A[i]) /\ A[i].acc # "read" /\ A[i].fs = TheCma(md).fs
                      /\ IsField(A[j]) /\ A[j].acc = "read" /\ A[j].fs = TheCma(md).fs2
                      /\ i # j
            [] OTHER ->
                 Cardinality({i \in N : IsCma(A[i]) /\ A[i].acc # "read"}) = 1
  \* meta_funcs: one entry per space, on spaces of the arguments; gh_shape is
  \* given exactly when basis/diff-basis functions are required
  /\ \A j \in DOMAIN md.funcs :
       /\ md.funcs[j].fs \in S
       /\ md.funcs[j].ops # <<>>
       /\ \A k \in DOMAIN md.funcs : md.funcs[k].fs = md.funcs[j].fs => k = j
  /\ (md.funcs = <<>>) <=> (md.shapes = <<>>)
  /\ \A s, t \in DOMAIN md.shapes : md.shapes[s] = md.shapes[t] => s = t
  /\ md.targets # <<>> =>
       "evaluator" \in LRange(md.shapes) /\ LRange(md.targets) \subseteq S
  /\ \A s, t \in DOMAIN md.targets : md.targets[s] = md.targets[t] => s = t
  /\ LRange(md.refel) \subseteq RefProps
  /\ \A s, t \in DOMAIN md.refel : md.refel[s] = md.refel[t] => s = t

\* =========================================================================
\* The bounded input family.
CONSTANT Tier        \* "smoke" | "quick" | "thorough"

Sc(dt) == [t |-> "scalar", dt |-> dt, acc |-> "read", fs |-> "", fs2 |-> "",
           vec |-> 1, st |-> "none", mesh |-> "none"]
Fld(dt, acc, fs, vec, st) ==
  [t |-> "field", dt |-> dt, acc |-> acc, fs |-> fs, fs2 |-> "", vec |-> vec,
   st |-> st, mesh |-> "none"]
FldM(acc, fs, vec, mesh) ==
  [t |-> "field", dt |-> "real", acc |-> acc, fs |-> fs, fs2 |-> "", vec |-> vec,
   st |-> "none", mesh |-> mesh]
Op(acc, to, from) ==
  [t |-> "op", dt |-> "real", acc |-> acc, fs |-> to, fs2 |-> from, vec |-> 1,
   st |-> "none", mesh |-> "none"]
Cma(acc, to, from) ==
  [t |-> "cma", dt |-> "real", acc |-> acc, fs |-> to, fs2 |-> from, vec |-> 1,
   st |-> "none", mesh |-> "none"]
Md(on, args, funcs, shapes, targets, refel, mesh) ==
  [on |-> on, args |-> args, funcs |-> funcs, shapes |-> shapes,
   targets |-> targets, refel |-> refel, mesh |-> mesh]
Plain(args) == Md("cell_column", args, <<>>, <<>>, <<>>, <<>>, <<>>)

StencilTypes == {"x1d", "y1d", "xory1d", "cross", "region", "cross2d"}
\* a pairwise-covering choice of argument descriptors: every value of
\* (argument type, data type, access, continuity class, vector, stencil type)
\* occurs, and every pair of them that is valid occurs at least once
PlainFields ==
  { Fld("real", "inc", "w1", 1, "none"),      Fld("real", "read", "w2", 1, "none"),
    Fld("integer", "read", "w3", 1, "none"),  Fld("real", "readwrite", "w3", 1, "none"),
    Fld("real", "write", "wtheta", 3, "none"), Fld("integer", "inc", "w0", 1, "none"),
    Fld("real", "readinc", "w2", 3, "none"),  Fld("real", "read", "w1", 3, "none"),
    Fld("integer", "readwrite", "wtheta", 2, "none"),
    Fld("real", "write", "w0", 1, "none"),    Fld("real", "read", "any_space_1", 1, "none"),
    Fld("real", "inc", "any_space_1", 1, "none"),
    Fld("real", "readwrite", "any_discontinuous_space_1", 1, "none"),
    Fld("real", "read", "any_w2", 1, "none") }
StencilFields ==
  { Fld("real", "read", "w2", 1, s) : s \in StencilTypes }
  \cup { Fld("integer", "read", "w3", 1, "cross"), Fld("real", "read", "w1", 3, "region"),
         Fld("real", "read", "w3", 3, "xory1d"), Fld("real", "read", "wtheta", 2, "cross2d") }
Operators ==
  { Op("read", "w0", "w1"), Op("write", "w3", "w3"), Op("readwrite", "w2", "w3"),
    Op("read", "w1", "w1"), Op("write", "any_space_1", "any_discontinuous_space_1") }
Scalars == { Sc("real"), Sc("integer"), Sc("logical") }
ArgOpt == PlainFields \cup StencilFields \cup Operators \cup Scalars

SeqsUpTo(S, n) == UNION { [1..k -> S] : k \in 1..n }
\* (the families take the tier as a parameter so that TLC does not evaluate
\* them when the module is only instantiated for Args)
\* S1: valid argument lists without optional metadata.  Core is a sub-cover of
\* ArgOpt (every argument type, access, stencil family and space class once).
\* quick: all single arguments and all pairs whose first member is in Core;
\* thorough: all pairs and all triples over Core3 (a sub-cover of Core).
Core == { Fld("real", "inc", "w1", 1, "none"), Fld("real", "read", "w2", 1, "none"),
          Fld("real", "readwrite", "w3", 1, "none"), Fld("real", "write", "wtheta", 3, "none"),
          Fld("integer", "read", "w3", 1, "none"),
          Fld("real", "read", "w2", 1, "xory1d"), Fld("real", "read", "w2", 1, "cross2d"),
          Fld("real", "read", "w1", 3, "region"),
          Op("read", "w0", "w1"), Op("readwrite", "w2", "w3"), Sc("real"), Sc("logical") }
Core3 == { Fld("real", "inc", "w1", 1, "none"), Fld("real", "readwrite", "w3", 1, "none"),
           Fld("real", "write", "wtheta", 3, "none"), Fld("real", "read", "w2", 1, "xory1d"),
           Fld("real", "read", "w2", 1, "cross2d"), Fld("real", "read", "w1", 3, "region"),
           Op("read", "w0", "w1"), Op("readwrite", "w2", "w3"), Sc("logical") }
MaxLen(t) == IF t = "thorough" THEN 3 ELSE 2
S1(t) == { Plain(a) : a \in SeqsUpTo(ArgOpt, 1) }
         \cup { Plain(a) : a \in { b \in [1..2 -> ArgOpt] :
                                     t = "thorough" \/ b[1] \in Core } }
         \cup (IF t = "thorough" THEN { Plain(a) : a \in [1..3 -> Core3] } ELSE {})
         \* every ordered pair of stencil types next to one written field
         \cup { Plain(<<Fld("real", "readwrite", "w3", 1, "none"),
                        Fld("real", "read", "w2", 1, p[1]), Fld("real", "read", "w2", 1, p[2])>>) :
                  p \in StencilTypes \X StencilTypes }

\* S2: optional-metadata families over base argument lists
B1 == << Fld("real", "inc", "w1", 1, "none"), Fld("real", "read", "w2", 1, "none") >>
B2 == << Op("write", "w0", "w1"), Fld("real", "read", "w0", 3, "none"), Sc("integer") >>
B3 == << Fld("real", "readwrite", "w3", 1, "none"), Fld("real", "read", "w2", 1, "cross"),
         Op("read", "w3", "w2") >>
Bases(t) == IF t = "thorough" THEN {B1, B2, B3} ELSE {B1, B2}
OpsChoices == { <<"basis">>, <<"diff">>, <<"basis", "diff">>, <<"diff", "basis">> }
SpacesOf(b) == LRange(UniqueSpaces(Plain(b)))
Funcs1(b) == { <<[fs |-> f, ops |-> o]>> : f \in SpacesOf(b), o \in OpsChoices }
Funcs2(b) == { <<[fs |-> f, ops |-> o], [fs |-> g, ops |-> p]>> :
                 f \in SpacesOf(b), g \in SpacesOf(b), o \in OpsChoices, p \in OpsChoices }
Shapes == {"xyoz", "face", "edge", "evaluator"}
AllShapeSeqs == { s \in SeqsUpTo(Shapes, 2) : Len(s) = 2 => s[1] # s[2] }
                \cup { <<"xyoz", "evaluator", "edge">>, <<"evaluator", "face", "xyoz">> }
\* quick: every single shape, every pair with the evaluator, one quadrature
\* pair and the two triples
ShapeSeqs(t) ==
  IF t = "thorough" THEN AllShapeSeqs
  ELSE { s \in AllShapeSeqs : Len(s) = 2 =>
           \/ "evaluator" \in LRange(s)
           \/ s = <<"edge", "xyoz">> }
FewShapes == { <<"xyoz">>, <<"evaluator">>, <<"evaluator", "face">> }
FewOps == { <<"basis">>, <<"diff", "basis">> }
TargetChoices(t, b, sh) ==
  IF "evaluator" \in LRange(sh)
  THEN {<<>>}
       \cup { tg \in { <<f, g>> : f \in SpacesOf(b), g \in SpacesOf(b) } :
                 /\ tg[1] # tg[2]
                 /\ t = "thorough" \/ tg[1] # UniqueSpaces(Plain(b))[1] }
       \cup (IF t = "thorough" /\ b = B1 THEN { <<f>> : f \in SpacesOf(b) } ELSE {})
  ELSE {<<>>}
S2Q(t) ==
  UNION { UNION { { Md("cell_column", b, f, sh, tg, <<>>, <<>>) :
                      f \in Funcs1(b), tg \in TargetChoices(t, b, sh) }
                  : sh \in (IF t = "thorough" \/ b = B1 THEN ShapeSeqs(t)
                            ELSE FewShapes) }
          : b \in Bases(t) }
  \cup UNION { { Md("cell_column", b, f, sh, <<>>, <<>>, <<>>) :
                   f \in { g \in Funcs2(b) : t = "thorough" \/
                            (g[1].ops \in FewOps /\ g[2].ops \in FewOps) } }
               : b \in Bases(t),
                 sh \in FewShapes }
RefelSeqs == {<<>>} \cup { s \in SeqsUpTo(RefProps, 2) : Len(s) = 2 => s[1] # s[2] }
MeshSeqs == { <<>>, <<"adjacent_face">> }
QFew(b) == { <<<<>>, <<>>>>,
             << <<[fs |-> UniqueSpaces(Plain(b))[1], ops |-> <<"basis">>]>>, <<"face">> >> }
\* quick: pairs of properties only without basis functions
S2R(t) == UNION { { x \in { Md("cell_column", b, q[1], q[2], <<>>, r, m) :
                             q \in QFew(b), r \in RefelSeqs, m \in MeshSeqs } :
                      t = "thorough" \/ Len(x.refel) <= 1 \/ x.funcs = <<>> }
                  : b \in (IF t = "thorough" THEN Bases(t) ELSE {B1}) }

\* S3: kernels that operate on the domain
DomainOpt == { a \in PlainFields : a.fs \in DiscSpaces } \cup Scalars
S3(t) ==
  { Md("domain", a, <<>>, <<>>, <<>>, <<>>, <<>>) : a \in SeqsUpTo(DomainOpt, 2) }
  \cup { Md("domain", <<Fld("real", "readwrite", "w3", 1, "none")>>,
            <<[fs |-> "w3", ops |-> o]>>, sh, <<>>, r, <<>>) :
           o \in (IF t = "thorough" THEN OpsChoices ELSE {<<"basis">>}),
           sh \in {<<"xyoz">>, <<"face", "edge">>},
           r \in (IF t = "thorough" THEN {<<>>, <<"normals_to_faces">>} ELSE {<<>>}) }

\* S4: inter-grid kernels
IgOpt == { FldM(acc, fs, v, m) :
             acc \in {"read", "readwrite"}, v \in {1, 3},
             fs \in {"any_discontinuous_space_1", "any_discontinuous_space_2"},
             m \in {"coarse", "fine"} }
S4(t) == { Plain(a) : a \in SeqsUpTo({ o \in IgOpt : t = "thorough" \/ o.vec = 1 \/ o.acc = "read" }, 2) }
         \cup (IF t = "thorough"
               THEN { Plain(a) : a \in [1..3 -> { o \in IgOpt : o.vec = 1 }] } ELSE {})

\* S5: CMA kernels (assembly, application, matrix-matrix)
CmaSpaces(t) == IF t = "thorough" THEN {<<"w0", "w3">>, <<"w3", "w3">>, <<"w3", "w0">>}
                ELSE {<<"w0", "w3">>, <<"w3", "w3">>}
CmaOpt(t) ==
  { Cma(acc, p[1], p[2]) : acc \in {"read", "write"}, p \in CmaSpaces(t) }
  \cup { Op("read", "w0", "w3"),
         Fld("real", "inc", "w0", 1, "none"), Fld("real", "read", "w3", 1, "none"),
         Fld("real", "readwrite", "w3", 1, "none"), Sc("real") }
  \cup (IF t = "thorough"
        THEN { Op("read", "w3", "w3"), Fld("real", "read", "w0", 1, "none") } ELSE {})
S5(t) == { m \in { Plain(a) : a \in SeqsUpTo(CmaOpt(t), 3) } :
             /\ HasCma(m)
             /\ (t # "thorough" /\ Len(m.args) = 3) => CmaKind(m) # "matrix-matrix" }
         \cup { Plain(<<Cma("write", "w0", "w3"), Cma("read", "w0", "w3"), Sc("real")>>),
                Plain(<<Cma("read", "w3", "w3"), Sc("real"), Cma("write", "w0", "w3")>>) }

\* a handful of metadata for demonstrations (mutants, replays)
Smoke == { Plain(<<Fld("real", "inc", "w1", 1, "none")>>),
           Plain(<<Fld("real", "inc", "w1", 1, "none"), Fld("real", "read", "w2", 1, "xory1d")>>),
           Plain(<<Fld("real", "readwrite", "w3", 1, "none"), Fld("real", "read", "w3", 3, "xory1d"),
                   Fld("real", "read", "w2", 1, "cross2d")>>),
           Plain(<<Op("readwrite", "w2", "w3"), Fld("real", "read", "w2", 1, "none"), Sc("logical")>>),
           Md("cell_column", B1, <<[fs |-> "w1", ops |-> <<"basis", "diff">>]>>, <<"xyoz">>,
              <<>>, <<>>, <<"adjacent_face">>),
           Md("cell_column", B2, <<[fs |-> "w0", ops |-> <<"basis">>]>>, <<"evaluator", "face">>,
              <<>>, <<"normals_to_horizontal_faces">>, <<>>),
           Md("cell_column", B1, <<[fs |-> "w2", ops |-> <<"diff", "basis">>]>>, <<"evaluator">>,
              <<"w2", "w1">>, <<>>, <<>>),
           Md("cell_column", B1, <<[fs |-> "w1", ops |-> <<"diff">>]>>, <<"evaluator">>,
              <<>>, <<>>, <<>>) }

MdSetOf(t) ==
  IF t = "smoke" THEN Smoke
  ELSE { m \in S1(t) \cup S2Q(t) \cup S2R(t) \cup S3(t) \cup S4(t) \cup S5(t) : ValidMd(m) }

\* =========================================================================
\* MULTI-KERNEL INVOKES: one actual argument (CMA operator, LMA operator,
\* field, field vector, stencil field, quadrature object) is passed to two or
\* three kernels of one invoke whose metadata for it differ.  The property is
\* per call: the argument list of every call must be Args(metadata of THAT
\* kernel).  A record [ks, act, qsh]: ks = the kernels' metadata in call order,
\* act[k][i] = identity of the actual passed as argument i of kernel k (equal
\* numbers = the same algorithm-layer variable), qsh = the kernels share one
\* quadrature object per shape.
V(m, sh) == [md |-> m, sh |-> sh]           \* sh = position of the shared argument
MultiOf(vs, qsh) ==
  [ks  |-> [k \in DOMAIN vs |-> vs[k].md],
   act |-> [k \in DOMAIN vs |->
              [i \in DOMAIN vs[k].md.args |-> IF i = vs[k].sh THEN 1 ELSE 10 * k + i]],
   qsh |-> qsh]
OrdPairs(G)   == { <<a, b>> : a \in G, b \in G } \ { <<a, a>> : a \in G }
OrdTriples(G) == { t \in [1..3 -> G] : t[1] # t[2] /\ t[1] # t[3] /\ t[2] # t[3] }

\* a column-wise operator: square / non-square, assembled / applied / combined
CmaVars ==
  { V(Plain(<<Op("read", "w0", "w3"), Cma("write", "w0", "w3")>>), 2),
    V(Plain(<<Op("read", "w3", "w3"), Cma("write", "w3", "w3")>>), 2),
    V(Plain(<<Fld("real", "inc", "w0", 1, "none"), Fld("real", "read", "w3", 1, "none"),
              Cma("read", "w0", "w3")>>), 3),
    V(Plain(<<Fld("real", "readwrite", "w3", 1, "none"), Fld("real", "read", "w3", 1, "none"),
              Cma("read", "w3", "w3")>>), 3),
    V(Plain(<<Cma("write", "w0", "w3"), Cma("read", "w0", "w3"), Sc("real")>>), 2),
    V(Plain(<<Cma("write", "w3", "w3"), Cma("read", "w3", "w3")>>), 2),
    \* the metadata of the repository's columnwise_op_asm_field_kernel and
    \* columnwise_op_app_same_fs_kernel
    V(Plain(<<Fld("real", "read", "any_space_1", 1, "none"),
              Op("read", "any_space_1", "any_space_2"),
              Cma("write", "any_space_1", "any_space_2")>>), 3),
    V(Plain(<<Fld("real", "inc", "any_space_2", 1, "none"),
              Fld("real", "read", "any_space_2", 1, "none"),
              Cma("read", "any_space_2", "any_space_2")>>), 3) }
LmaVars ==
  { V(Plain(<<Op("write", "w0", "w1"), Fld("real", "read", "w0", 1, "none")>>), 1),
    V(Plain(<<Fld("real", "inc", "w1", 1, "none"), Op("read", "w0", "w1")>>), 2),
    V(Plain(<<Fld("real", "inc", "any_space_1", 1, "none"),
              Op("read", "any_space_1", "any_space_2")>>), 2),
    V(Plain(<<Op("readwrite", "w1", "w1"), Sc("real")>>), 1) }
FldVars ==
  { V(Plain(<<Fld("real", "inc", "w1", 1, "none"), Fld("real", "read", "w2", 1, "none")>>), 1),
    V(Plain(<<Fld("real", "readwrite", "w3", 1, "none"), Fld("real", "read", "w1", 1, "cross")>>), 2),
    V(Plain(<<Fld("real", "readwrite", "w3", 1, "none"), Fld("real", "read", "w1", 1, "xory1d")>>), 2),
    V(Plain(<<Fld("real", "readwrite", "w3", 1, "none"), Fld("real", "read", "w1", 1, "cross2d")>>), 2),
    V(Plain(<<Fld("real", "inc", "any_space_1", 1, "none"), Fld("real", "read", "w2", 1, "none")>>), 1),
    V(Md("cell_column", <<Fld("real", "read", "w1", 1, "none"), Fld("real", "inc", "w2", 1, "none")>>,
         <<[fs |-> "w1", ops |-> <<"basis">>]>>, <<"xyoz">>, <<>>, <<>>, <<>>), 1),
    V(Md("cell_column", <<Fld("real", "readinc", "w1", 1, "none"), Fld("real", "read", "w2", 1, "none")>>,
         <<[fs |-> "w1", ops |-> <<"diff">>], [fs |-> "w2", ops |-> <<"basis">>]>>,
         <<"evaluator">>, <<>>, <<>>, <<>>), 1) }
VecVars ==
  { V(Plain(<<Fld("real", "inc", "w1", 3, "none")>>), 1),
    V(Plain(<<Fld("real", "readwrite", "w3", 1, "none"), Fld("real", "read", "w1", 3, "region")>>), 2),
    V(Plain(<<Fld("real", "readwrite", "w3", 1, "none"),
              Fld("real", "read", "any_space_1", 3, "none"), Sc("integer")>>), 2) }
\* kernels that share their quadrature objects (no shared data argument)
QrVars ==
  { V(Md("cell_column", B1, <<[fs |-> "w1", ops |-> <<"basis">>]>>, <<"xyoz">>, <<>>, <<>>, <<>>), 0),
    V(Md("cell_column", B1, <<[fs |-> "w2", ops |-> <<"diff">>]>>, <<"xyoz", "face">>, <<>>, <<>>, <<>>), 0),
    V(Md("cell_column", B1, <<[fs |-> "w1", ops |-> <<"diff", "basis">>]>>, <<"face">>, <<>>, <<>>, <<>>), 0) }

MultiSmoke ==
  { MultiOf(<<V(Plain(<<Fld("real", "read", "any_space_1", 1, "none"),
                         Op("read", "any_space_1", "any_space_2"),
                         Cma("write", "any_space_1", "any_space_2")>>), 3),
              V(Plain(<<Fld("real", "inc", "any_space_2", 1, "none"),
                        Fld("real", "read", "any_space_2", 1, "none"),
                        Cma("read", "any_space_2", "any_space_2")>>), 3)>>, FALSE) }
MultiSetOf(t) ==
  IF t = "smoke" THEN MultiSmoke
  ELSE { MultiOf(p, FALSE) : p \in OrdPairs(CmaVars) \cup OrdPairs(LmaVars)
                                   \cup OrdPairs(FldVars) \cup OrdPairs(VecVars) }
       \cup { MultiOf(p, TRUE) : p \in OrdPairs(QrVars) }
       \cup { MultiOf(p, FALSE) :
                p \in (IF t = "thorough"
                       THEN OrdTriples({ v \in CmaVars : v.md.args[v.sh].fs \in {"w0", "w3"} })
                            \cup OrdTriples(LmaVars) \cup OrdTriples(VecVars)
                       ELSE { q \in OrdTriples(CmaVars) :
                                q[1].md.args[q[1].sh].fs = "w0" /\ q[1].md.args[q[1].sh].acc = "write"
                                /\ q[2].md.args[q[2].sh].fs = "w3" /\ q[3].md.args[q[3].sh].fs = "w0" }) }
       \cup { MultiOf(p, TRUE) : p \in OrdTriples(QrVars) }

IsMulti(m) == "ks" \in DOMAIN m
\* the same actual has one algorithm-layer type; it is passed once per kernel
MultiValid(m) ==
  /\ \A k \in DOMAIN m.ks : ValidMd(m.ks[k])
  /\ \A k, l \in DOMAIN m.ks : \A i \in DOMAIN m.act[k] : \A j \in DOMAIN m.act[l] :
       m.act[k][i] = m.act[l][j] =>
         /\ (k = l => i = j)
         /\ m.ks[k].args[i].t = m.ks[l].args[j].t
         /\ m.ks[k].args[i].dt = m.ks[l].args[j].dt
         /\ m.ks[k].args[i].vec = m.ks[l].args[j].vec

\* ------------------------------------------------ enumeration as a TLC model
VARIABLE md
Init == \/ /\ md \in MdSetOf(Tier)
           /\ PrintT("MD " \o ToJson(md))
        \/ /\ md \in MultiSetOf(Tier)
           /\ PrintT("MK " \o ToJson(md))
Next == UNCHANGED md
Spec == Init /\ [][Next]_md

\* design-level sanity of the transcription, checked on every generated state
ItemOK(it) == /\ it.ty \in {"integer", "real", "logical", "any"}
              /\ it.r \in {"0", "1", "2", "3", "4"}
              /\ it.in \in {"in", "inout", "any"}
WellFormed(m) ==
  LET A == Args(m) IN
  /\ \A p \in DOMAIN A : ItemOK(A[p])
  \* every metadata argument is represented, in metadata order
  /\ \A i \in DOMAIN m.args : \E p \in DOMAIN A : A[p].a = Str(i)
  /\ \A i, j \in DOMAIN m.args : i < j =>
       \A p, q \in DOMAIN A : (A[p].a = Str(i) /\ A[q].a = Str(j)) => p < q
  \* the order of the reference-element counts never changes the length
  /\ m.refel # <<>> => \A o \in CountOrders : Len(ArgsWith(m, o)) = Len(A)
ArgsWellFormed == IF IsMulti(md) THEN \A k \in DOMAIN md.ks : WellFormed(md.ks[k])
                  ELSE WellFormed(md)
GeneratedValid == IF IsMulti(md) THEN MultiValid(md) ELSE ValidMd(md)
===============================================================================
