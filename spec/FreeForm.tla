------------------------------- MODULE FreeForm -------------------------------
(* C18 - Fortran free source form, as far as a line-length limiter can touch  *)
(* it.  Text is a sequence of physical lines, a line a sequence of character  *)
(* codes (TLC has no string indexing).                                        *)
(*                                                                            *)
(*  Part 1  scanner: character context, comment start, continuation           *)
(*  Part 2  Items(lines): the logical statements / directives / comments      *)
(*          (Join), Norm: their token / word sequences (Tokens)               *)
(*  Part 3  the clauses of the property                                       *)
(*  Part 4  a nondeterministic reference wrapper (Break/Emit actions); TLC    *)
(*          checks Join o Wrap = identity (token level) for every small line  *)
(*          over a tiny alphabet - this is the design-level model.            *)
EXTENDS Integers, Sequences, FiniteSets, TLC, SequencesExt

BL   == 32      \* blank
BANG == 33      \* !
DQ   == 34      \* "
AMP  == 38      \* &
SQ   == 39      \* '
BAD  == 0       \* marker "ill-formed here" (never a character of a real text)

\* character classes, tabulated once: 1 letter/digit/underscore, 2 quote, 0 other
ClassTab == [c \in 0..255 |->
               IF \/ (c >= 48 /\ c <= 57) \/ (c >= 65 /\ c <= 90)
                  \/ (c >= 97 /\ c <= 122) \/ c = 95 THEN 1
               ELSE IF c = SQ \/ c = DQ THEN 2 ELSE 0]
IsAlnum(c) == ClassTab[c] = 1
IsQuote(c) == ClassTab[c] = 2
Lower(c)   == IF c >= 65 /\ c <= 90 THEN c + 32 ELSE c

SentOmp == <<33, 36, 111, 109, 112>>      \* !$omp
SentAcc == <<33, 36, 97, 99, 99>>         \* !$acc
\* two-character operators are one token (a blank inside changes the program)
TwoOps == { <<61,61>>, <<47,61>>, <<60,61>>, <<62,61>>, <<61,62>>,
            <<42,42>>, <<47,47>>, <<58,58>> }   \* == /= <= >= => ** // ::

\* ------------------------------------------------------------------ Part 1
\* (character-level loops are FoldLeft / SelectInSubSeq of SequencesExt: TLC
\* evaluates them iteratively; a RECURSIVE operator per character is quadratic
\* in TLC and overflows its stack at ~150 characters)
NonBlank(c) == c # BL
\* first non-blank index >= i (Len+1 if none; i if i > Len)
FirstNB(s, i) == IF i > Len(s) THEN i
                 ELSE LET k == SelectInSubSeq(s, i, Len(s), NonBlank)
                      IN IF k = 0 THEN Len(s) + 1 ELSE k
\* last non-blank index <= i (0 if none)
LastNB(s, i) == IF i < 1 THEN 0 ELSE SelectLastInSubSeq(s, 1, i, NonBlank)

Sub(s, a, b) == IF a > b THEN <<>> ELSE SubSeq(s, a, b)

\* Scan s[i..] starting in character context ctx (0, SQ or DQ).  Outside
\* character context `!` starts a comment.  A doubled quote inside a literal
\* closes and re-opens the context, which is the same context.
\* Result: cmt = index of the comment's `!` (Len+1 if none), ctx = context there.
\* (the fold runs over the indices; the state is returned unchanged - no new
\* record - for every character that changes nothing)
ScanCode(s, from, ctx0) ==
  LET Step(st, i) ==
        IF i < from \/ st.cmt > 0 THEN st
        ELSE IF st.ctx = 0
             THEN IF s[i] = BANG THEN [st EXCEPT !.cmt = i]
                  ELSE IF IsQuote(s[i]) THEN [st EXCEPT !.ctx = s[i]] ELSE st
             ELSE IF s[i] = st.ctx THEN [st EXCEPT !.ctx = 0] ELSE st
      r == FoldLeftDomain(Step, [ctx |-> ctx0, cmt |-> 0], s)
  IN [cmt |-> IF r.cmt > 0 THEN r.cmt ELSE Len(s) + 1, ctx |-> r.ctx]

IsSent(s, f, sent) == /\ f + 4 <= Len(s)
                      /\ \A k \in 0..4 : Lower(s[f + k]) = sent[k + 1]
\* "blank", "cmt", "omp", "acc" or "code"; decided by the first non-blank
LineKind(s) == LET f == FirstNB(s, 1) IN
  IF f > Len(s) THEN "blank"
  ELSE IF s[f] # BANG THEN "code"
  ELSE IF IsSent(s, f, SentOmp) THEN "omp"
  ELSE IF IsSent(s, f, SentAcc) THEN "acc"
  ELSE "cmt"

\* ------------------------------------------------------------------ Part 2
\* Fold over the physical lines.  st = [items, mode, text, ctx, pend]:
\*   items  finished logical lines, [k |-> "stmt"|"omp"|"acc"|"cmt", x |-> raw text]
\*   mode   "none" or the kind of the logical line being continued
\*   text   its joined significant text so far;  ctx its character context
\*   pend   comments met while it is being continued (emitted after it)
St0 == [items |-> <<>>, mode |-> "none", text |-> <<>>, ctx |-> 0, pend |-> <<>>]

CmtItems(pend) == [i \in 1..Len(pend) |-> [k |-> "cmt", x |-> pend[i]]]

Finalize(st, kind, text, pend) ==
  [items |-> st.items \o <<[k |-> kind, x |-> text]>> \o CmtItems(pend),
   mode |-> "none", text |-> <<>>, ctx |-> 0, pend |-> <<>>]

\* significant text of L from `start` (context ctx0) is appended to `text`
Significant(st, L, start, ctx0, kind, text) ==
  LET n    == Len(L)
      sc   == ScanCode(L, start, ctx0)
      r    == LastNB(L, sc.cmt - 1)
      cont == r >= start /\ L[r] = AMP          \* `&` last before the comment
      last == IF cont THEN r - 1 ELSE sc.cmt - 1
      txt  == text \o Sub(L, start, last)
      pend == IF sc.cmt <= n THEN Append(st.pend, Sub(L, sc.cmt + 1, n))
              ELSE st.pend
  IN IF cont THEN [items |-> st.items, mode |-> kind, text |-> txt,
                   ctx |-> sc.ctx, pend |-> pend]
     ELSE Finalize(st, kind, txt, pend)

\* a full-line comment; PSyclone's `!&` continues the previous comment
AddComment(st, L, f) ==
  LET n    == Len(L)
      isc  == f < n /\ L[f + 1] = AMP
      body == IF isc THEN Sub(L, IF f + 2 <= n /\ L[f + 2] = BL THEN f + 3 ELSE f + 2, n)
              ELSE Sub(L, f + 1, n)
      ni   == Len(st.items)
      np   == Len(st.pend)
  IN IF st.mode # "none"
     THEN IF isc /\ np > 0
          THEN [st EXCEPT !.pend = [@ EXCEPT ![np] = @ \o body]]
          ELSE [st EXCEPT !.pend = Append(@, body)]
     ELSE IF isc /\ ni > 0 /\ st.items[ni].k = "cmt"
          THEN [st EXCEPT !.items = [@ EXCEPT ![ni] = [k |-> "cmt", x |-> @.x \o body]]]
          ELSE [st EXCEPT !.items = Append(@, [k |-> "cmt", x |-> body])]

\* a directive line; j = index after the sentinel
DirLine(st, L, j, kind, isCont) ==
  LET g  == FirstNB(L, j)
      j0 == IF isCont /\ g <= Len(L) /\ L[g] = AMP THEN g + 1 ELSE j
  IN Significant(st, L, j0, 0, kind, st.text \o <<BL>>)

Fresh(st, L) ==
  LET f == FirstNB(L, 1)
      k == LineKind(L)
  IN CASE k = "blank" -> st
       [] k = "cmt"   -> AddComment(st, L, f)
       [] k \in {"omp", "acc"} -> DirLine(st, L, f + 5, k, FALSE)
       [] OTHER       -> Significant(st, L, 1, 0, "stmt", <<>>)

StepLine(st, L) ==
  LET f == FirstNB(L, 1)
      k == LineKind(L)
  IN IF st.mode = "none" THEN Fresh(st, L)
     ELSE IF k = "blank" THEN st
     ELSE IF st.mode = "stmt"
     THEN IF k # "code" THEN AddComment(st, L, f)      \* comment line in between
          ELSE IF L[f] = AMP
          THEN Significant(st, L, f + 1, st.ctx, "stmt", st.text)
          \* no leading `&`: the whole line continues the statement but a token
          \* cannot be continued; inside character context that is illegal
          ELSE Significant(st, L, 1, st.ctx, "stmt",
                           st.text \o (IF st.ctx # 0 THEN <<BAD>> ELSE <<BL>>))
     ELSE IF k = st.mode THEN DirLine(st, L, f + 5, k, TRUE)
     ELSE IF k = "cmt" THEN AddComment(st, L, f)
     \* a continued directive followed by something else: ill-formed
     ELSE Fresh(Finalize(st, st.mode, st.text \o <<BL, BAD>>, st.pend), L)

\* Join: the logical lines of a text (a continuation at end of text is ill-formed)
Items(lines) ==
  LET st == FoldLeft(StepLine, St0, lines)
  IN IF st.mode = "none" THEN st.items
     ELSE Finalize(st, st.mode, st.text \o <<BL, BAD>>, st.pend).items

\* ---- Tokens: names/numbers, character literals (exact), operators; blanks
\* only separate
\* one pass over the indices; st = [toks, b, m]: b = start of the open token,
\* m = 0 none | 1 name/number | 2 operator character (may become a
\* two-character operator) | SQ/DQ inside a literal | SQ+100/DQ+100 the
\* previous character was that quote inside the literal (closing or doubled)
Tokens(s) ==
  LET Tok(st, e) == Append(st.toks, SubSeq(s, st.b, e))
      Begin(toks, i) ==
        IF s[i] = BL THEN [toks |-> toks, b |-> 0, m |-> 0]
        ELSE [toks |-> toks, b |-> i,
              m |-> IF IsAlnum(s[i]) THEN 1 ELSE IF IsQuote(s[i]) THEN s[i] ELSE 2]
      Step(st, i) ==
        CASE st.m = 1 -> IF IsAlnum(s[i]) THEN st ELSE Begin(Tok(st, i - 1), i)
          [] st.m = 0 -> IF s[i] = BL THEN st ELSE Begin(st.toks, i)
          [] st.m = 2 -> IF <<s[st.b], s[i]>> \in TwoOps
                         THEN [toks |-> Tok(st, i), b |-> 0, m |-> 0]
                         ELSE Begin(Tok(st, i - 1), i)
          [] st.m < 100 -> IF s[i] = st.m THEN [st EXCEPT !.m = st.m + 100] ELSE st
          [] OTHER    -> IF s[i] = st.m - 100 THEN [st EXCEPT !.m = s[i]]
                         ELSE Begin(Tok(st, i - 1), i)
      r == FoldLeftDomain(Step, [toks |-> <<>>, b |-> 0, m |-> 0], s)
  IN IF r.m = 0 THEN r.toks ELSE Append(r.toks, SubSeq(s, r.b, Len(s)))

Words(s) ==
  LET Step(st, i) ==
        IF s[i] = BL
        THEN IF st.b = 0 THEN st
             ELSE [ws |-> Append(st.ws, SubSeq(s, st.b, i - 1)), b |-> 0]
        ELSE IF st.b = 0 THEN [st EXCEPT !.b = i] ELSE st
      r == FoldLeftDomain(Step, [ws |-> <<>>, b |-> 0], s)
  IN IF r.b = 0 THEN r.ws ELSE Append(r.ws, SubSeq(s, r.b, Len(s)))

Norm(items) == [i \in 1..Len(items) |->
                  [k |-> items[i].k,
                   t |-> IF items[i].k = "cmt" THEN Words(items[i].x)
                         ELSE Tokens(items[i].x)]]
Program(lines) == Norm(Items(lines))

\* ------------------------------------------------------------------ Part 3
TooLong(lines, limit) == {i \in 1..Len(lines) : Len(lines[i]) > limit}
MaxLenOK(lines, limit) == TooLong(lines, limit) = {}
SameProgram(a, b) == Program(a) = Program(b)

FirstDiff(p, q) ==       \* first index at which two sequences differ
  LET n == IF Len(p) < Len(q) THEN Len(p) ELSE Len(q)
      D == {i \in 1..n : p[i] # q[i]}
  IN IF D = {} THEN n + 1 ELSE CHOOSE i \in D : \A j \in D : i <= j

\* "Text it is asked to wrap": a line is in the domain of NeverFails iff it has
\* a break point inside: code/directive - a blank, comma or operator character
\* outside character literals strictly inside the significant text; comment -
\* a blank between two words.
IsBreakChar(c) == ~IsAlnum(c) /\ ~IsQuote(c) /\ c # AMP /\ c # BANG /\ c # BAD
HasBreak(s, lo, hi, ctx0) ==     \* a break char in s[lo..hi-1], outside literals
  LET Step(st, i) ==
        IF i < lo \/ i >= hi \/ st.f THEN st
        ELSE IF st.ctx = 0
             THEN IF IsBreakChar(s[i]) THEN [st EXCEPT !.f = TRUE]
                  ELSE IF IsQuote(s[i]) THEN [st EXCEPT !.ctx = s[i]] ELSE st
             ELSE IF s[i] = st.ctx THEN [st EXCEPT !.ctx = 0] ELSE st
  IN FoldLeftDomain(Step, [ctx |-> ctx0, f |-> FALSE], s).f
LineInDomain(L) ==
  LET k == LineKind(L)
      f == FirstNB(L, 1)
  IN CASE k = "blank" -> TRUE
       [] k = "cmt"   -> Len(Words(Sub(L, f + 1, Len(L)))) >= 2
       [] k \in {"omp", "acc"} ->
            LET sc == ScanCode(L, f + 5, 0)
                g  == FirstNB(L, f + 5)
            IN HasBreak(L, g + 1, LastNB(L, sc.cmt - 1), 0)
       [] OTHER ->
            LET sc == ScanCode(L, 1, 0)
                q  == IF IsQuote(L[f]) THEN L[f] ELSE 0
            IN HasBreak(L, f + 1, LastNB(L, sc.cmt - 1), q)
InDomain(lines, limit) == \A i \in TooLong(lines, limit) : LineInDomain(lines[i])

\* structural facts used in witnesses (shape of a failure)
\* a statement/directive line whose trailing comment ends in `&` and whose
\* successor starts like a continuation: the break fell inside the comment
AmpInComment(lines) == \E i \in 1..(Len(lines) - 1) :
  LET L  == lines[i]
      k  == LineKind(L)
      f  == FirstNB(L, 1)
      sc == ScanCode(L, IF k \in {"omp", "acc"} THEN f + 5 ELSE 1, 0)
      N  == lines[i + 1]
      g  == FirstNB(N, 1)
      kn == LineKind(N)
  IN /\ k \in {"code", "omp", "acc"}
     /\ sc.cmt <= Len(L)
     /\ L[LastNB(L, Len(L))] = AMP
     /\ LastNB(L, Len(L)) > sc.cmt
     /\ \/ kn = "code" /\ N[g] = AMP
        \/ kn \in {"omp", "acc"} /\ g + 5 <= Len(N) /\ N[g + 5] = AMP
\* a continued line (`... & ! comment`) cut directly in front of its comment:
\* `... & &` followed by `&! comment` ends the statement
AmpAmpThenComment(lines) == \E i \in 1..(Len(lines) - 1) :
  LET L  == lines[i]
      N  == lines[i + 1]
      r  == LastNB(L, Len(L))
      r2 == LastNB(L, r - 1)
      g  == FirstNB(N, 1)
      h  == FirstNB(N, g + 1)
  IN /\ r > 1 /\ L[r] = AMP /\ r2 > 0 /\ L[r2] = AMP
     /\ g <= Len(N) /\ N[g] = AMP /\ h <= Len(N) /\ N[h] = BANG
\* a directive line ending in `= &` continued by a line starting with `=`/`>`
DirOpSplit(lines) == \E i \in 1..(Len(lines) - 1) :
  LET L  == lines[i]
      N  == lines[i + 1]
      k  == LineKind(L)
      r  == LastNB(L, Len(L))
      r2 == LastNB(L, r - 1)
      g  == FirstNB(N, 1)
      h  == FirstNB(N, g + 6)
  IN /\ k \in {"omp", "acc"} /\ LineKind(N) = k
     /\ r > 0 /\ L[r] = AMP /\ r2 > 0 /\ L[r2] = 61
     /\ g + 5 <= Len(N) /\ N[g + 5] = AMP
     /\ h <= Len(N) /\ N[h] \in {61, 62}

\* ------------------------------------------------------------------ Part 4
\* Reference wrapper.  One input line is cut into pieces; every piece but the
\* last gets the continuation end of its kind, every piece but the first the
\* continuation start.  Cuts are nondeterministic: any position of the
\* significant text with the leading-`&` form, token boundaries without it
\* and in directives, any position of a comment.
\* phase "pick": the input line is being chosen character by character (so
\* that TLC's workers share the lines); "run": being cut; "done": emitted.
CONSTANTS Alphabet, MaxBody, CodeLimits, DirLimits, LinePrefixes
VARIABLES line, limit, rest, out, ctx, lead, phase, ref
vars == <<line, limit, rest, out, ctx, lead, phase, ref>>

KindOf     == LineKind(line)
ContEnd(kind) == CASE kind = "code" -> <<AMP>>
                   [] kind = "cmt"  -> <<>>
                   [] OTHER         -> <<BL, AMP>>
ContStart(kind) ==
  IF out = <<>> THEN <<>>
  ELSE CASE kind = "code" -> (IF lead THEN <<AMP>> ELSE <<>>)
         [] kind = "cmt"  -> <<BANG, AMP, BL>>
         [] kind = "omp"  -> SentOmp \o <<AMP, BL>>
         [] OTHER         -> SentAcc \o <<AMP, BL>>

PrefixesStd == {<<>>, SentOmp \o <<BL>>, SentAcc \o <<BL>>}   \* for the cfg files
Init == /\ line \in LinePrefixes
        /\ limit \in (IF line = <<>> THEN CodeLimits ELSE DirLimits)
        /\ rest = <<>> /\ out = <<>> /\ ctx = 0 /\ lead = TRUE /\ phase = "pick"
        /\ ref = <<>>
\* rest counts the body characters chosen so far while picking
Grow(c) == /\ phase = "pick" /\ Len(rest) < MaxBody
           /\ line' = Append(line, c) /\ rest' = Append(rest, c)
           /\ UNCHANGED <<limit, out, ctx, lead, phase, ref>>
\* ref: the program the unwrapped line stands for
Start == /\ phase = "pick"
         /\ phase' = "run" /\ rest' = line /\ ref' = Program(<<line>>)
         /\ UNCHANGED <<line, limit, out, ctx, lead>>

\* cutting between rest[k] and rest[k+1] does not split or merge tokens even if
\* blanks are inserted there
TokenBoundary(k) ==
  /\ ~(IsAlnum(rest[k]) /\ IsAlnum(rest[k + 1]))
  /\ <<rest[k], rest[k + 1]>> \notin TwoOps
  /\ ~(IsQuote(rest[k]) /\ rest[k + 1] = rest[k])       \* 'a''b' is one literal

\* the start index of the scan of `rest` (directive: first piece holds the sentinel)
DirFrom == IF out = <<>> THEN FirstNB(rest, 1) + 5 ELSE 1

\* Cut `rest` behind position k.  kind = kind of the line, cmt = start of its
\* trailing comment in rest, c1 = character context behind position k.
\* Common guards: the piece fits and is not blank (a line holding only `&` is
\* not allowed); something significant is left for the next line (a cut
\* directly behind a trailing `&` would turn that `&` into text).
Cut(k, kind, withLead, c1) ==
  /\ Len(ContStart(kind) \o SubSeq(rest, 1, k) \o ContEnd(kind)) <= limit
  /\ FirstNB(rest, 1) <= k
  /\ out' = Append(out, ContStart(kind) \o SubSeq(rest, 1, k) \o ContEnd(kind))
  /\ rest' = SubSeq(rest, k + 1, Len(rest))
  /\ lead' = withLead
  /\ ctx' = c1
  /\ UNCHANGED <<line, limit, phase, ref>>
SomethingLeft(k, cmt) == FirstNB(rest, k + 1) < cmt

BreakCode(k, kind, cmt, c1) ==   \* leading-`&` form: any position before the comment
  /\ kind = "code"
  /\ SomethingLeft(k, cmt)
  /\ Cut(k, kind, TRUE, c1)
BreakPlain(k, kind, cmt, c1) ==  \* no `&` on the next line: token boundaries only
  /\ kind = "code"
  /\ SomethingLeft(k, cmt)
  /\ c1 = 0
  /\ TokenBoundary(k)
  /\ rest[FirstNB(rest, k + 1)] # AMP           \* not taken for a leading `&`
  /\ Cut(k, kind, FALSE, 0)
BreakDir(k, kind, cmt, c1) ==
  /\ kind \in {"omp", "acc"}
  /\ k >= DirFrom - 1
  /\ SomethingLeft(k, cmt)
  /\ c1 = 0
  /\ TokenBoundary(k)
  /\ Cut(k, kind, TRUE, 0)
BreakCmt(k, kind) ==
  /\ kind = "cmt"
  \* `!&` at the start of a comment is PSyclone's marker: not cut in two
  /\ ~(out = <<>> /\ k = FirstNB(rest, 1) /\ rest[k + 1] = AMP)
  /\ Cut(k, kind, TRUE, 0)
Break ==
  /\ phase = "run"
  /\ LET kind == KindOf
         from == IF kind \in {"omp", "acc"} THEN DirFrom ELSE 1
         cmt  == ScanCode(rest, from, ctx).cmt
     IN \E k \in 1..(Len(rest) - 1) :
          LET c1 == ScanCode(SubSeq(rest, 1, k), from, ctx).ctx
          IN \/ BreakCode(k, kind, cmt, c1)
             \/ BreakPlain(k, kind, cmt, c1)
             \/ BreakDir(k, kind, cmt, c1)
             \/ BreakCmt(k, kind)
Emit ==
  /\ phase = "run" /\ Len(ContStart(KindOf) \o rest) <= limit
  /\ out' = Append(out, ContStart(KindOf) \o rest)
  /\ rest' = <<>> /\ phase' = "done"
  /\ UNCHANGED <<line, limit, ctx, lead, ref>>
Next == \/ \E c \in Alphabet : Grow(c)
        \/ Start
        \/ Emit
        \/ Break
Spec == Init /\ [][Next]_vars

\* what the wrapper has produced so far, completed by the unwrapped remainder
Pending == IF phase = "done" THEN out ELSE Append(out, ContStart(KindOf) \o rest)
\* Join o Wrap = identity at token level, at every point of every behaviour
InvJoin   == phase # "pick" => Program(Pending) = ref
InvMaxLen == \A i \in 1..Len(out) : Len(out[i]) <= limit
\* wrapping the result again does nothing: no output line is longer than the
\* limit, so each of them can only be Emitted unchanged
InvIdem   == phase = "done" => MaxLenOK(out, limit)
\* a one-piece wrap is the line itself
InvSingle == (phase = "done" /\ Len(out) = 1) => out[1] = line
\* tokens and words are non-empty and contain no blank (literals excepted)
InvTokens == phase = "run" /\ out = <<>> =>
  \A i \in 1..Len(ref) : \A j \in 1..Len(ref[i].t) :
     /\ Len(ref[i].t[j]) > 0
     /\ (ref[i].k = "cmt" \/ ~IsQuote(ref[i].t[j][1]))
          => \A c \in 1..Len(ref[i].t[j]) : ref[i].t[j][c] # BL
===============================================================================
