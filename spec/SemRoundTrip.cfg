INIT Init
NEXT Step
