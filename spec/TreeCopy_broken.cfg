\* vacuity check: a Copy that does not re-point the symbols mentioned inside
\* declarations (kind, shape, initial value) - what psyclone 2.5.0 does -
\* must be refuted: TLC reports InvOtherRenderUnchanged violated.
CONSTANTS RepointRoles <- RolesNoDecl
 MaxEdits = 1
 MaxEditsFile = 1
 Wide = FALSE
 NewNames <- NamesQuick
 OpKinds <- AllOpKinds
 ProgIds <- AllProgs
 SimMode = FALSE
 LoopVarByName = FALSE
INIT Init
NEXT Next
INVARIANT InvOtherRenderUnchanged
