\* history generator, thorough tier: as LFRicSched_dump.cfg plus `acc loop`
\* without the independent clause
CONSTANTS MaxLen = 0
 MaxLen2 = 0
 MaxKern = 2
 AccOpts = {"ind", "auto"}
 Source = "env"
INIT Init
NEXT Next
VIEW ViewLen
ACTION_CONSTRAINT Dump
INVARIANT InvSharedIncColoured
INVARIANT InvColoursSequential
INVARIANT InvKernelsKept
