-------------------------- MODULE Trace_LFRicSched --------------------------
(* C23 - judges schedules projected from GENERATED LFRic PSy layers.          *)
(* A case is one accepted step of a transformation history replayed on a real *)
(* invoke:  [id, kerns, dm, from, op, post]                                    *)
(*   kerns  kernel summaries taken from the kernel metadata                    *)
(*   from   the schedule the specification predicts before the step           *)
(*   op     the operation (LFRicSched alphabet; "Init" = untransformed invoke) *)
(*   post   the schedule itemised from the Fortran generated after the step    *)
(* Verdicts: the clauses of LFRicSched!ColourRule on post (a violation), and   *)
(* whether post is the outcome LFRicSched!Intended allows for the step         *)
(* (conform / noeffect / diverge - a divergence is counted, not an error).     *)
EXTENDS Naturals, Sequences, FiniteSets, TLC, Json, IOUtils

Data  == JsonDeserialize(IOEnv.PV_CASES)
Cases == Data.cases

VARIABLES iid, kerns, dm, sched, len, lastOp      \* LFRicSched's variables
VARIABLES cid, verdict
M == INSTANCE LFRicSched WITH MaxLen <- 0, MaxLen2 <- 0, MaxKern <- 2,
                              AccOpts <- {"ind", "auto"}, Source <- "trace"

vars == <<iid, kerns, dm, sched, len, lastOp, cid, verdict>>

Init == /\ cid \in 1..Len(Cases)
        /\ iid = 0 /\ len = 0 /\ lastOp = M!NoOp
        /\ kerns = Cases[cid].kerns /\ dm = Cases[cid].dm
        /\ sched = Cases[cid].from
        /\ verdict = "run"

Step ==
    LET c   == Cases[cid]
        bad == M!Violations(c.post, kerns)
        exp == IF c.op.name = "Init" THEN M!Ok(sched)
               ELSE M!Intended(sched, kerns, dm, c.op)
    IN
    /\ verdict = "run"
    /\ sched' = c.post /\ len' = 1
    /\ lastOp' = [op |-> c.op, res |-> "ok"]
    /\ UNCHANGED <<iid, kerns, dm, cid>>
    /\ IF bad # {}
       THEN /\ verdict' = "violation"
            /\ PrintT("VERDICT " \o ToJson([id |-> c.id, ws |-> bad]))
       ELSE IF exp.res = "ok" /\ exp.s = c.post
       THEN verdict' = "conform"
       ELSE IF c.post = sched
       THEN /\ verdict' = "noeffect"
            /\ PrintT("DIVERGE " \o ToJson([id |-> c.id, kind |-> "noeffect",
                                            model |-> exp.res]))
       ELSE /\ verdict' = "diverge"
            /\ PrintT("DIVERGE " \o ToJson([id |-> c.id, kind |-> "effect",
                                            model |-> exp.res]))
Spec == Init /\ [][Step]_vars

\* single-case replay (verif replay): a violating case stops TLC with a trace
InvSharedIncColoured == verdict = "run" \/ M!SharedIncColoured(sched, kerns)
InvColoursSequential == verdict = "run" \/ M!ColoursSequential(sched, kerns)
=============================================================================
