------------------------------- MODULE PSyIRTree -------------------------------
(* C14 - the PSyIR tree stays well-formed under any sequence of edits.        *)
(*                                                                            *)
(* A small universe of nodes 1..N with fixed kinds; the state is the pair     *)
(* (children, parent).  One action per public tree-editing operation of       *)
(* psyclone.psyir.nodes.node (ChildrenList methods, Node.children setter,     *)
(* addchild, detach, replace_with, pop_all_children).  Each action is the     *)
(* relation the property allows:                                              *)
(*     Success: the Python-list effect of the call, landing in a WellFormed   *)
(*              tree,          or                                             *)
(*     Refuse : nothing changed.                                              *)
(* All operators that define well-formedness and the list effects take the    *)
(* kinds / state as parameters so that Trace_PSyIRTree.tla can apply the very *)
(* same definitions to states projected from real PSyclone nodes.             *)
EXTENDS Integers, Sequences, FiniteSets, TLC, Json, IOUtils

None == 0                                   \* "no parent" / "no node"

\* ------------------------------------------------------------------ kinds
\* class hierarchy of the modelled kinds (psyir/nodes/*.py): Call and CodeBlock
\* are both Statement and DataNode; Range is neither.
StatementKinds == {"Assignment", "Loop", "WhileLoop", "IfBlock", "Call", "Return",
                   "OMPParallel", "CodeBlock"}
DataNodeKinds  == {"Reference", "ArrayReference", "Literal", "BinaryOperation",
                   "UnaryOperation", "Call", "CodeBlock"}
IsStatement(k) == k \in StatementKinds
IsDataNode(k)  == k \in DataNodeKinds

\* Transcription of the documented `_children_valid_format` strings
\* (pos is the 0-based position of the child):
\*   Schedule "[Statement]*"; Loop "DataNode, DataNode, DataNode, Schedule";
\*   WhileLoop "DataNode, Schedule"; IfBlock "DataNode, Schedule [, Schedule]";
\*   Assignment / BinaryOperation "DataNode, DataNode"; UnaryOperation "DataNode";
\*   Call "Reference, [DataNode]*"; Range "DataNode, DataNode, DataNode";
\*   ArrayReference "[DataNode | Range]+";
\*   OMPParallel "Schedule, OMPDefaultClause, OMPPrivateClause, OMPFirstprivate,
\*                [OMPReductionClause]*";  every other kind is a leaf.
ValidAt(pk, pos, ck) ==
  /\ pos >= 0
  /\ CASE pk = "Schedule"        -> IsStatement(ck)
       [] pk = "Loop"            -> \/ (pos \in 0..2 /\ IsDataNode(ck))
                                    \/ (pos = 3 /\ ck = "Schedule")
       [] pk = "WhileLoop"       -> \/ (pos = 0 /\ IsDataNode(ck))
                                    \/ (pos = 1 /\ ck = "Schedule")
       [] pk = "IfBlock"         -> \/ (pos = 0 /\ IsDataNode(ck))
                                    \/ (pos \in 1..2 /\ ck = "Schedule")
       [] pk = "Assignment"      -> pos \in 0..1 /\ IsDataNode(ck)
       [] pk = "BinaryOperation" -> pos \in 0..1 /\ IsDataNode(ck)
       [] pk = "UnaryOperation"  -> pos = 0 /\ IsDataNode(ck)
       [] pk = "Call"            -> \/ (pos = 0 /\ ck \in {"Reference", "ArrayReference"})
                                    \/ (pos >= 1 /\ IsDataNode(ck))
       [] pk = "Range"           -> pos \in 0..2 /\ IsDataNode(ck)
       [] pk = "ArrayReference"  -> IsDataNode(ck) \/ ck = "Range"
       [] pk = "OMPParallel"     -> \/ (pos = 0 /\ ck = "Schedule")
                                    \/ (pos = 1 /\ ck = "OMPDefaultClause")
                                    \/ (pos = 2 /\ ck = "OMPPrivateClause")
                                    \/ (pos = 3 /\ ck = "OMPFirstprivateClause")
                                    \/ (pos >= 4 /\ ck = "OMPReductionClause")
       [] OTHER                  -> FALSE

\* ------------------------------------------------- well-formedness of (ch, pa)
\* K : sequence of kinds (node n has kind K[n]);  ch : [1..N -> Seq(1..N)];
\* pa : [1..N -> 0..N].
NodesOf(K)   == 1..Len(K)
SeqSet(s)    == {s[i] : i \in DOMAIN s}
Occurs(s, x) == Cardinality({i \in DOMAIN s : s[i] = x})

\* every listed child points back to the list's owner ...
ListedImpliesParent(K, ch, pa) ==
  \A p \in NodesOf(K) : \A i \in DOMAIN ch[p] : pa[ch[p][i]] = p
\* ... and a node with a parent is listed by that parent exactly once
ParentListsOnce(K, ch, pa) ==
  \A c \in NodesOf(K) : pa[c] # None => Occurs(ch[pa[c]], c) = 1
ParentChildAgreeOf(K, ch, pa) ==
  ListedImpliesParent(K, ch, pa) /\ ParentListsOnce(K, ch, pa)

ValidAtPositionOf(K, ch) ==
  \A p \in NodesOf(K) : \A i \in DOMAIN ch[p] : ValidAt(K[p], i - 1, K[ch[p][i]])

RECURSIVE DescK(_, _, _)
DescK(ch, S, k) == IF k = 0 THEN S
                   ELSE DescK(ch, S \cup UNION {SeqSet(ch[x]) : x \in S}, k - 1)
Descendants(K, ch, n) == DescK(ch, SeqSet(ch[n]), Len(K))      \* strict
RECURSIVE AncK(_, _, _)
AncK(pa, S, k) == IF k = 0 THEN S
                  ELSE AncK(pa, S \cup ({pa[x] : x \in S} \ {None}), k - 1)
Ancestors(K, pa, n) == AncK(pa, {pa[n]} \ {None}, Len(K))       \* strict
AcyclicOf(K, ch, pa) ==
  \A n \in NodesOf(K) : n \notin Descendants(K, ch, n) /\ n \notin Ancestors(K, pa, n)

WellFormedOf(K, ch, pa) == /\ ParentChildAgreeOf(K, ch, pa)
                           /\ ValidAtPositionOf(K, ch)
                           /\ AcyclicOf(K, ch, pa)
\* name of the first failing clause ("" when well-formed)
FailingClause(K, ch, pa) ==
  IF ~ParentChildAgreeOf(K, ch, pa) THEN "ParentChildAgree"
  ELSE IF ~ValidAtPositionOf(K, ch) THEN "ValidAtPosition"
  ELSE IF ~AcyclicOf(K, ch, pa) THEN "Acyclic"
  ELSE ""

\* ------------------------------- local well-formedness (binding B, code -> spec)
\* The recorder of real calls projects only the neighbourhood of the edited
\* node: nodes 1..n, of which the set Full have their child list recorded (the
\* edited node completely; the parents of the items only as far as the listed
\* nodes are in the neighbourhood).  KP[n] is the kind whose format the node
\* applies to its children ("?" = not judged, "Leaf" = accepts none), KC[n] the
\* kind it counts as when it is a child ("?" = unknown, not judged); ab[p] are
\* the real ancestors of p that are in the neighbourhood.  The clauses are the
\* ones of WellFormedOf, restricted to what the neighbourhood determines.
LocalListedImpliesParent(Full, ch, pa) ==
  \A p \in Full : \A i \in DOMAIN ch[p] : pa[ch[p][i]] = p
LocalParentListsOnce(n, Full, ch, pa) ==
  \A c \in 1..n : pa[c] \in Full => Occurs(ch[pa[c]], c) = 1
LocalParentChildAgree(n, Full, ch, pa) ==
  LocalListedImpliesParent(Full, ch, pa) /\ LocalParentListsOnce(n, Full, ch, pa)
LocalValidAtPosition(KP, KC, Full, ch) ==
  \A p \in Full : KP[p] # "?" =>
     \A i \in DOMAIN ch[p] : KC[ch[p][i]] = "?" \/ ValidAt(KP[p], i - 1, KC[ch[p][i]])
LocalAcyclic(n, Full, ch, pa, ab) ==
  /\ \A p \in Full : /\ p \notin SeqSet(ab[p])
                     /\ \A i \in DOMAIN ch[p] : ch[p][i] # p /\ ch[p][i] \notin SeqSet(ab[p])
  /\ \A c \in 1..n : c \notin AncK(pa, {pa[c]} \ {None}, n)
LocalFailingClause(n, KP, KC, Full, ch, pa, ab) ==
  IF ~LocalParentChildAgree(n, Full, ch, pa) THEN "ParentChildAgree"
  ELSE IF ~LocalValidAtPosition(KP, KC, Full, ch) THEN "ValidAtPosition"
  ELSE IF ~LocalAcyclic(n, Full, ch, pa, ab) THEN "Acyclic"
  ELSE ""

\* ---------------------------------------------- Python list index semantics
PyIdx(i, len)    == IF i < 0 THEN i + len ELSE i                \* negative = from the end
ClampIdx(j, len) == IF j < 0 THEN 0 ELSE IF j > len THEN len ELSE j   \* list.insert clamps
InsertAt(s, k, x) == SubSeq(s, 1, k) \o <<x>> \o SubSeq(s, k + 1, Len(s))   \* k 0-based
RemoveAt(s, k)    == SubSeq(s, 1, k) \o SubSeq(s, k + 2, Len(s))            \* k 0-based
ReverseSeq(s)     == [i \in 1..Len(s) |-> s[Len(s) + 1 - i]]
FirstPos(s, x)    == IF \E i \in DOMAIN s : s[i] = x                        \* 0-based, -1
                     THEN (CHOOSE i \in DOMAIN s :
                             s[i] = x /\ \A j \in 1..(i - 1) : s[j] # x) - 1
                     ELSE -1
Relink(pa, S, p)  == [n \in DOMAIN pa |-> IF n \in S THEN p ELSE pa[n]]

\* An operation is a tuple <<name, p, i, c, d>>: p the edited parent (or, for
\* detach / replace, unused), i an index, c and d nodes (0 = absent); for
\* extend / iadd / setchildren the item list is <<>>, <<c>> or <<c, d>>.
OpName(op) == op[1]
OpP(op) == op[2]
OpI(op) == op[3]
OpC(op) == op[4]
OpD(op) == op[5]
Items(op) == IF OpC(op) = None THEN <<>>
             ELSE IF OpD(op) = None THEN <<OpC(op)>> ELSE <<OpC(op), OpD(op)>>

\* The list effect of an operation: [ok, ch, pa].  ok = FALSE when the Python
\* list operation itself has no effect to offer (IndexError, ValueError, a
\* node without parent asked to be replaced): such a call can only be refused.
NoEffect(ch, pa) == [ok |-> FALSE, ch |-> ch, pa |-> pa]
Eff(ch, pa)      == [ok |-> TRUE, ch |-> ch, pa |-> pa]

EffInsert(ch, pa, p, i, c) ==
  LET len == Len(ch[p])
      k   == ClampIdx(PyIdx(i, len), len)
  IN Eff([ch EXCEPT ![p] = InsertAt(@, k, c)], [pa EXCEPT ![c] = p])
EffAppend(ch, pa, p, c) == EffInsert(ch, pa, p, Len(ch[p]), c)
EffSetItem(ch, pa, p, i, c) ==
  LET len == Len(ch[p])
      j   == PyIdx(i, len)
  IN IF j < 0 \/ j >= len THEN NoEffect(ch, pa)                    \* IndexError
     ELSE LET old == ch[p][j + 1]
          IN Eff([ch EXCEPT ![p][j + 1] = c],
                 [[pa EXCEPT ![old] = None] EXCEPT ![c] = p])
EffPop(ch, pa, p, i) ==
  LET len == Len(ch[p])
      j   == PyIdx(i, len)
  IN IF j < 0 \/ j >= len THEN NoEffect(ch, pa)                    \* IndexError
     ELSE Eff([ch EXCEPT ![p] = RemoveAt(@, j)], [pa EXCEPT ![ch[p][j + 1]] = None])
EffRemove(ch, pa, p, c) ==
  LET k == FirstPos(ch[p], c)
  IN IF k < 0 THEN NoEffect(ch, pa)                                \* ValueError
     ELSE Eff([ch EXCEPT ![p] = RemoveAt(@, k)], [pa EXCEPT ![c] = None])
EffExtend(ch, pa, p, items) ==
  Eff([ch EXCEPT ![p] = @ \o items], Relink(pa, SeqSet(items), p))
EffClear(ch, pa, p) ==
  Eff([ch EXCEPT ![p] = <<>>], Relink(pa, SeqSet(ch[p]), None))
EffSetChildren(ch, pa, p, items) ==
  LET e == EffClear(ch, pa, p) IN EffExtend(e.ch, e.pa, p, items)
EffReverse(ch, pa, p) == Eff([ch EXCEPT ![p] = ReverseSeq(@)], pa)
EffDetach(ch, pa, c) ==
  IF pa[c] = None THEN Eff(ch, pa)                                  \* already detached
  ELSE LET k == FirstPos(ch[pa[c]], c)
       IN IF k < 0 THEN NoEffect(ch, pa) ELSE EffPop(ch, pa, pa[c], k)
EffReplace(ch, pa, c, d) ==
  IF pa[c] = None THEN NoEffect(ch, pa)                             \* nothing to replace in
  ELSE LET k == FirstPos(ch[pa[c]], c)
       IN IF k < 0 THEN NoEffect(ch, pa) ELSE EffSetItem(ch, pa, pa[c], k, d)

OpNames == {"append", "addchild", "insert", "addchild_at", "setitem", "delitem", "pop",
            "pop_last", "remove", "extend", "iadd", "setchildren", "clear", "reverse",
            "pop_all", "detach", "replace_with"}

Effect(ch, pa, op) ==
  LET nm == OpName(op) p == OpP(op) i == OpI(op) c == OpC(op) d == OpD(op) IN
  CASE nm \in {"append", "addchild"}    -> EffAppend(ch, pa, p, c)
    [] nm \in {"insert", "addchild_at"} -> EffInsert(ch, pa, p, i, c)
    [] nm = "setitem"                   -> EffSetItem(ch, pa, p, i, c)
    [] nm \in {"delitem", "pop"}        -> EffPop(ch, pa, p, i)
    [] nm = "pop_last"                  -> EffPop(ch, pa, p, -1)
    [] nm = "remove"                    -> EffRemove(ch, pa, p, c)
    [] nm \in {"extend", "iadd"}        -> EffExtend(ch, pa, p, Items(op))
    [] nm = "setchildren"               -> EffSetChildren(ch, pa, p, Items(op))
    [] nm \in {"clear", "pop_all"}      -> EffClear(ch, pa, p)
    [] nm = "reverse"                   -> EffReverse(ch, pa, p)
    [] nm = "detach"                    -> EffDetach(ch, pa, c)
    [] nm = "replace_with"              -> EffReplace(ch, pa, c, d)

\* The relation of one call, as the property allows it, between (ch, pa) and
\* (ch2, pa2).  Used by Success/Refuse below and by the trace spec.
IsSuccessOf(K, ch, pa, op, ch2, pa2) ==
  LET e == Effect(ch, pa, op)
  IN e.ok /\ ch2 = e.ch /\ pa2 = e.pa /\ WellFormedOf(K, ch2, pa2)
IsRefusalOf(ch, pa, ch2, pa2) == ch2 = ch /\ pa2 = pa
CanSucceed(K, ch, pa, op) ==
  LET e == Effect(ch, pa, op) IN e.ok /\ WellFormedOf(K, e.ch, e.pa)

\* ------------------------------------------------------------ the state machine
\* Universe: [kinds: Seq(STRING), inits: Seq(children), parents: Seq(Node),
\*            ops: Seq(STRING), depth: Nat, slack: Nat, pairs: 0..1]
CONSTANT Universe
EnvUniverse  == JsonDeserialize(IOEnv.PV_UNIVERSE)      \* written by the harness
DemoUniverse == [kinds   |-> <<"Loop", "Schedule", "Literal", "Literal", "Reference">>,
                 inits   |-> << <<<<>>, <<>>, <<>>, <<>>, <<>>>>,
                                <<<<3, 4, 5, 2>>, <<>>, <<>>, <<>>, <<>>>> >>,
                 parents |-> <<1, 2>>,
                 ops     |-> <<"append", "insert", "setitem", "delitem", "pop", "pop_last",
                               "remove", "extend", "setchildren", "clear", "reverse",
                               "pop_all", "detach", "replace_with">>,
                 depth |-> 3, slack |-> 2, pairs |-> 1]

K        == Universe.kinds
Node     == NodesOf(K)
Parents  == SeqSet(Universe.parents)
UsedOps  == SeqSet(Universe.ops)
MaxSteps == Universe.depth
Slack    == Universe.slack
\* (zero-arity constant definitions are evaluated once by TLC; a direct
\* `Universe.x` inside an action would re-read the JSON file at every step)
OpSeq     == Universe.ops
ParentSeq == Universe.parents
Inits     == Universe.inits
Pairs     == Universe.pairs
NumTraces == IF "traces" \in DOMAIN Universe THEN Universe.traces ELSE 0
GenSeed   == IF "seed" \in DOMAIN Universe THEN Universe.seed ELSE 0

VARIABLES children, parent, lastOp, steps, hist, rng
vars == <<children, parent, lastOp, steps, hist, rng>>
Abs  == <<children, parent>>            \* the VIEW: the abstract tree only

ParentOfChildren(ch) ==
  [n \in Node |-> IF \E p \in Node : n \in SeqSet(ch[p])
                  THEN CHOOSE p \in Node : n \in SeqSet(ch[p]) ELSE None]

IdxRange(p) == (0 - (Len(children[p]) + Slack))..(Len(children[p]) + Slack)
NodeOrNone  == Node \cup {None}
SecondItems == IF Pairs = 1 THEN NodeOrNone ELSE {None}

\* every call the histories quantify over in the current state
OpsAt ==
  UNION {
    IF "append" \in UsedOps THEN {<<"append", p, 0, c, 0>> : p \in Parents, c \in Node} ELSE {},
    IF "addchild" \in UsedOps THEN {<<"addchild", p, 0, c, 0>> : p \in Parents, c \in Node} ELSE {},
    IF "insert" \in UsedOps
      THEN UNION {{<<"insert", p, i, c, 0>> : i \in IdxRange(p), c \in Node} : p \in Parents} ELSE {},
    IF "addchild_at" \in UsedOps
      THEN UNION {{<<"addchild_at", p, i, c, 0>> : i \in IdxRange(p), c \in Node} : p \in Parents} ELSE {},
    IF "setitem" \in UsedOps
      THEN UNION {{<<"setitem", p, i, c, 0>> : i \in IdxRange(p), c \in Node} : p \in Parents} ELSE {},
    IF "delitem" \in UsedOps
      THEN UNION {{<<"delitem", p, i, 0, 0>> : i \in IdxRange(p)} : p \in Parents} ELSE {},
    IF "pop" \in UsedOps
      THEN UNION {{<<"pop", p, i, 0, 0>> : i \in IdxRange(p)} : p \in Parents} ELSE {},
    IF "pop_last" \in UsedOps THEN {<<"pop_last", p, 0, 0, 0>> : p \in Parents} ELSE {},
    IF "remove" \in UsedOps THEN {<<"remove", p, 0, c, 0>> : p \in Parents, c \in Node} ELSE {},
    IF "extend" \in UsedOps
      THEN {<<"extend", p, 0, c, d>> : p \in Parents, c \in Node, d \in SecondItems}
           \cup {<<"extend", p, 0, 0, 0>> : p \in Parents} ELSE {},
    IF "iadd" \in UsedOps THEN {<<"iadd", p, 0, c, 0>> : p \in Parents, c \in Node} ELSE {},
    IF "setchildren" \in UsedOps
      THEN {<<"setchildren", p, 0, c, d>> : p \in Parents, c \in Node, d \in SecondItems}
           \cup {<<"setchildren", p, 0, 0, 0>> : p \in Parents} ELSE {},
    IF "clear" \in UsedOps THEN {<<"clear", p, 0, 0, 0>> : p \in Parents} ELSE {},
    IF "reverse" \in UsedOps THEN {<<"reverse", p, 0, 0, 0>> : p \in Parents} ELSE {},
    IF "pop_all" \in UsedOps THEN {<<"pop_all", p, 0, 0, 0>> : p \in Parents} ELSE {},
    IF "detach" \in UsedOps THEN {<<"detach", 0, 0, c, 0>> : c \in Node} ELSE {},
    IF "replace_with" \in UsedOps
      THEN {<<"replace_with", 0, 0, c, d>> : c \in Node, d \in Node} ELSE {}
  }

InitTree == \E k \in DOMAIN Inits :
              /\ children = [n \in Node |-> Inits[k][n]]
              /\ parent = ParentOfChildren(children)
Init == /\ InitTree
        /\ lastOp = [op |-> <<"init", 0, 0, 0, 0>>, res |-> "ok"]
        /\ steps = 0
        /\ hist = <<>>
        /\ rng = <<0, 0, 0>>

Success(op) == /\ IsSuccessOf(K, children, parent, op, children', parent')
               /\ lastOp' = [op |-> op, res |-> "ok"]
Refuse(op)  == /\ IsRefusalOf(children, parent, children', parent')
               /\ lastOp' = [op |-> op, res |-> "refused"]

Next == /\ steps < MaxSteps
        /\ steps' = steps + 1
        /\ UNCHANGED <<hist, rng>>
        /\ \E op \in OpsAt : Success(op) \/ Refuse(op)
Spec == Init /\ [][Next]_vars

\* ------------------------------------------------------------------ properties
TypeOK == /\ children \in [Node -> Seq(Node)]
          /\ parent \in [Node -> NodeOrNone]
ParentChildAgree == ParentChildAgreeOf(K, children, parent)
ValidAtPosition  == ValidAtPositionOf(K, children)
Acyclic          == AcyclicOf(K, children, parent)
WellFormed       == WellFormedOf(K, children, parent)
\* the parent map is a function of the child lists in every reachable state
ParentDetermined == parent = ParentOfChildren(children)
RefusalAtomic    == [][lastOp'.res = "refused" => UNCHANGED <<children, parent>>]_vars

\* ---------------------------------------------------- binding A: transition dump
\* With VIEW Abs the ACTION_CONSTRAINT below sees every labelled transition of
\* the reachable graph once.  For each (state, call) one line is printed: the
\* successful transition when the property allows one, else the refusal (the
\* list effect would not be well-formed: the call can only be refused).
DumpTransition ==
  LET op == lastOp'.op
      cs == CanSucceed(K, children, parent, op)
  IN IF lastOp'.res = "ok"
     THEN PrintT("TR " \o ToJson(<<children, op, 1, children'>>))
     ELSE IF ~cs THEN PrintT("TR " \o ToJson(<<children, op, 0, children>>))
     ELSE TRUE

\* ---------------------------------------------- long histories (generator)
\* Beyond the exhaustive bound TLC generates long pseudo-random histories of
\* the same actions.  Evaluating every successor of every state of a behaviour
\* (plain -simulate) costs ~700 list effects per step, and TLC's RandomElement
\* is not reproducible across runs here, so the draw is part of the
\* specification: a Wichmann-Hill generator (three small multiplicative
\* congruential generators, 32-bit safe) carried in `rng` selects the operation
\* name and each argument independently.  The k-th draw of a step is computed
\* directly from `rng` with the precomputed powers of the multipliers (a nested
\* NextRng(NextRng(..)) is re-evaluated exponentially often by TLC).  Every
\* state has one successor, so a plain TLC run (any number of workers) over
\* NumTraces seeds yields exactly that many behaviours, reproducibly.  Each
\* call takes the successful branch when the property allows one; the single
\* Finish step prints the history.
WHM == <<30269, 30307, 30323>>
WHA == <<171, 172, 170>>
\* WHPow[j][k] = WHA[j]^k mod WHM[j]  (k = 1..7), written out
WHPow == <<<<171, 29241, 5826, 27638, 4134, 10727, 18177>>,
          <<172, 29584, 27179, 7510, 18826, 25530, 26952>>,
          <<170, 28900, 674, 23611, 11234, 29754, 24562>>>>
Draw(k) == ((rng[1] * WHPow[1][k]) % WHM[1]) + ((rng[2] * WHPow[2][k]) % WHM[2])
           + ((rng[3] * WHPow[3][k]) % WHM[3])
RngAfterStep == [j \in 1..3 |-> (rng[j] * WHPow[j][7]) % WHM[j]]
SeedOf(t) == <<1 + ((GenSeed * 7 + t * 13) % 30268),
               1 + ((GenSeed * 11 + t * 101) % 30306),
               1 + ((GenSeed + t * 7919) % 30322)>>

\* the call tuple of a name and independently drawn arguments (unused ones = 0)
ShapeOp(nm, p, i, c, c0, d, d1) ==
  CASE nm \in {"append", "addchild", "remove", "iadd"}  -> <<nm, p, 0, c, 0>>
    [] nm \in {"insert", "addchild_at", "setitem"}      -> <<nm, p, i, c, 0>>
    [] nm \in {"delitem", "pop"}                        -> <<nm, p, i, 0, 0>>
    [] nm \in {"pop_last", "clear", "reverse", "pop_all"} -> <<nm, p, 0, 0, 0>>
    [] nm \in {"extend", "setchildren"}                 ->
         IF c0 = None THEN <<nm, p, 0, 0, 0>> ELSE <<nm, p, 0, c0, d>>
    [] nm = "detach"                                    -> <<nm, 0, 0, c, 0>>
    [] nm = "replace_with"                              -> <<nm, 0, 0, c, d1>>

GenInit == /\ InitTree
           /\ lastOp = [op |-> <<"init", 0, 0, 0, 0>>, res |-> "ok"]
           /\ steps = 0
           /\ hist = << <<lastOp.op, 1, children>> >>
           /\ \E t \in 1..NumTraces : rng = SeedOf(t)

GenNext ==
  \/ /\ steps < MaxSteps
     /\ steps' = steps + 1
     /\ LET n  == Len(K)
            nm == OpSeq[(Draw(1) % Len(OpSeq)) + 1]
            p  == ParentSeq[(Draw(2) % Len(ParentSeq)) + 1]
            w  == Len(children[p]) + Slack
            i  == (Draw(3) % (2 * w + 1)) - w
            c  == (Draw(4) % n) + 1
            c0 == Draw(5) % (n + 1)
            d  == IF Pairs = 1 THEN Draw(6) % (n + 1) ELSE 0
            d1 == (Draw(7) % n) + 1
            op == ShapeOp(nm, p, i, c, c0, d, d1)
        IN /\ rng' = RngAfterStep
           /\ IF CanSucceed(K, children, parent, op) THEN Success(op) ELSE Refuse(op)
           /\ hist' = Append(hist, <<op, IF lastOp'.res = "ok" THEN 1 ELSE 0, children'>>)
  \/ /\ steps = MaxSteps
     /\ PrintT("HIST " \o ToJson(hist))
     /\ steps' = steps + 1
     /\ UNCHANGED <<children, parent, lastOp, hist, rng>>
GenSpec == GenInit /\ [][GenNext]_vars
===============================================================================
