------------------------------ MODULE DeclOrder ------------------------------
(* C04 - generated code declares every entity it uses, in a valid order.      *)
(* A written program unit is a sequence of scoping units (the unit itself and *)
(* the routines it contains, each naming its host).  A scoping unit is a      *)
(* sequence of events                                                          *)
(*    [e |-> "use",  m, all (no only-list), names (local names it lists)]      *)
(*    [e |-> "decl", n, k in {param,var,type,iface,proc}, deps (names the      *)
(*           declaration mentions: kind parameter, bounds, length, value)]     *)
(* followed by the names its executable part references.                       *)
(* Part 1: the rules, as operators over such a unit (used by Trace_DeclOrder). *)
(* Part 2: a design-level machine - a writer that emits declarations in a      *)
(* topological order of the dependency relation satisfies the invariants, a    *)
(* writer that emits them in any order does not (vacuity check).               *)
EXTENDS Naturals, Sequences, FiniteSets, TLC

DSeqRange(s) == {s[i] : i \in DOMAIN s}

\* ------------------------------------------------------------------ rules
DeclEvents(sc)  == {i \in DOMAIN sc.events : sc.events[i].e = "decl"}
UseEvents(sc)   == {i \in DOMAIN sc.events : sc.events[i].e = "use"}
DeclNames(sc)   == {sc.events[i].n : i \in DeclEvents(sc)}
DeclaredBefore(sc, p) == {sc.events[i].n : i \in {j \in DeclEvents(sc) : j < p}}
OnlyNames(sc)   == UNION {DSeqRange(sc.events[i].names) : i \in UseEvents(sc)}
Wildcard(sc)    == \E i \in UseEvents(sc) : sc.events[i].all
KindOf(sc, n)   == LET i == CHOOSE i \in DeclEvents(sc) : sc.events[i].n = n
                   IN sc.events[i].k

RECURSIVE HostsOf(_, _)
HostsOf(u, si) == IF u[si].parent = 0 THEN {}
                  ELSE {u[si].parent} \cup HostsOf(u, u[si].parent)

LocalVisible(sc) == DeclNames(sc) \cup OnlyNames(sc)
\* host association: everything the hosts declare or import, and their names
HostVisible(u, si) == UNION {LocalVisible(u[h]) \cup {u[h].name} : h \in HostsOf(u, si)}
Resolves(u, si, n) == \/ n \in LocalVisible(u[si])
                      \/ n = u[si].name
                      \/ n \in HostVisible(u, si)
\* a use without only-list (here or in a host) may provide any name
PossiblyImported(u, si) == \/ Wildcard(u[si])
                           \/ \E h \in HostsOf(u, si) : Wildcard(u[h])

\* clause DeclaredOnce for the declaration at position p of scope sc
OnceAt(sc, p) == LET ev == sc.events[p] IN
    /\ ev.n \notin DeclaredBefore(sc, p)
    /\ ev.n \notin OnlyNames(sc)
\* clause DeclaredBeforeDependent: a name the declaration mentions that this
\* scope declares must have been declared earlier.  Procedures and generic
\* interfaces are not ordered; a derived type may mention a later type
\* (pointer components).
LateDeps(sc, p) == LET ev == sc.events[p] IN
    {d \in DSeqRange(ev.deps) \ {ev.n} :
        /\ d \in DeclNames(sc)
        /\ d \notin DeclaredBefore(sc, p)
        /\ KindOf(sc, d) \notin {"proc", "iface"}
        /\ ~(ev.k = "type" /\ KindOf(sc, d) = "type")}
\* clause EveryReferenceResolves
Unresolved(u, si, ns) == IF PossiblyImported(u, si) THEN {}
                         ELSE {n \in ns : ~Resolves(u, si, n)}
\* clause NoCapture: pairs <<identity of the symbol in the tree that was
\* written, name in the text>> of one routine form a one-to-one relation
Captured(pairs) == {p \in DSeqRange(pairs) :
                      \E q \in DSeqRange(pairs) : (p[1] = q[1]) # (p[2] = q[2])}

\* ---------------------------------------------------------- design machine
CONSTANTS Names,       \* entities of one scope
          Order        \* "topological" | "any"
VARIABLES deps, emitted, refs
dvars == <<deps, emitted, refs>>

RECURSIVE Reach(_, _, _)
Reach(d, S, k) == IF k = 0 THEN S
                  ELSE Reach(d, S \cup UNION {d[x] : x \in S}, k - 1)
Acyclic(d) == \A x \in Names : x \notin Reach(d, d[x], Cardinality(Names))

Init == /\ deps \in {d \in [Names -> SUBSET Names] : Acyclic(d)}
        /\ emitted = <<>>
        /\ refs \in SUBSET Names
Declare(x) == /\ x \notin DSeqRange(emitted)
              /\ Order = "topological" => deps[x] \subseteq DSeqRange(emitted)
              /\ emitted' = Append(emitted, x)
              /\ UNCHANGED <<deps, refs>>
Next == \E x \in Names : Declare(x)
Spec == Init /\ [][Next]_dvars

\* the written scope as a unit of part 1
AsScope == [name |-> "s", parent |-> 0,
            events |-> [i \in DOMAIN emitted |->
                          [e |-> "decl", n |-> emitted[i], k |-> "param",
                           deps |-> (LET S == deps[emitted[i]]
                                     IN IF S = {} THEN <<>>
                                        ELSE CHOOSE q \in [1..Cardinality(S) -> S] :
                                               DSeqRange(q) = S)]]]
Done == Len(emitted) = Cardinality(Names)
InvDeclaredOnce   == \A p \in DOMAIN emitted : OnceAt(AsScope, p)
InvDeclaredBefore == \A p \in DOMAIN emitted : LateDeps(AsScope, p) = {}
InvResolves       == Done => Unresolved(<<AsScope>>, 1, refs) = {}
\* a topological writer never gets stuck
InvProgress       == (Order = "topological" /\ ~Done) => \E x \in Names : ENABLED Declare(x)
===============================================================================
