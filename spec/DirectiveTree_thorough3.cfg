\* thorough: every history of length <= 3 over the core alphabet on the other skeletons
CONSTANTS Alphabet = "core"
 MaxLen = 3
 Skels = {"B", "C", "E", "F"}
INIT Init
NEXT Next
INVARIANT TypeOK
INVARIANT SkelValid
INVARIANT OpsApplicable
