\* thorough: the 2-nest, core+ alphabet, length <= 3 ... and core, length <= 4 would be 1.6M: use 3
CONSTANTS Alphabet = "core+"
 MaxLen = 3
 Skels = {"G"}
INIT Init
NEXT Next
INVARIANT TypeOK
INVARIANT SkelValid
INVARIANT OpsApplicable
