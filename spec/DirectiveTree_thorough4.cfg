\* thorough: the 2-nest, core+ alphabet (adds parallel do, kernels, master), length <= 3
CONSTANTS Alphabet = "core+"
 MaxLen = 3
 Skels = {"G"}
INIT Init
NEXT Next
INVARIANT TypeOK
INVARIANT SkelValid
INVARIANT OpsApplicable
