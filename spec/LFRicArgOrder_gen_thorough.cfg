CONSTANT Tier = "thorough"
INIT Init
NEXT Next
INVARIANT ArgsWellFormed
INVARIANT GeneratedValid
