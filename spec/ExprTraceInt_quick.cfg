CONSTANT RMax = 4
INIT Init
NEXT Step
