CONSTANTS Depth = 2
 UOps = {"+", "-", ".not."}
 BOps = {"**", "*", "/", "+", "-", "//", "==", "/=", "<", "<=", ">", ">=", ".and.", ".or.", ".eqv.", ".neqv."}
 WithCalls = TRUE
 LeafSet = {1, 2}
INIT Init
NEXT Next
INVARIANT RoundTrip
INVARIANT RoundTripFull
INVARIANT NeededParens
INVARIANT NoErr
