------------------------- MODULE Trace_InvokeBinding -------------------------
(* Validates what the real generator produced for one invoke against the     *)
(* clauses of InvokeBinding.  A case (built by harness/pv/c24.py):             *)
(*   id    case number                                                         *)
(*   call  name called by the generated algorithm layer                        *)
(*   acts  texts of the actual arguments of that call                          *)
(*   subs  names of all subroutines of the generated PSy module                *)
(*   dums  dummy arguments of the PSy routine of this invoke                   *)
(*   kargs kargs[k][j] = provenance of the data of the j-th argument of the    *)
(*         k-th kernel call in that routine: [t |-> "d", n |-> dummy] or       *)
(*         [t |-> "l", v |-> literal text]                                     *)
(*   orig  orig[k][j] = text written at that position in the source invoke     *)
(*   okinds okinds[k][j] = kind of that argument (kernel signature of the spec) *)
(*   dtypes declared type class of every dummy (<<>> = not itemised)            *)
EXTENDS Naturals, Sequences, FiniteSets, TLC, Json, IOUtils

Cases == JsonDeserialize(IOEnv.PV_CASES)

VARIABLES sid, inv, pos, acts, akeys, dums, dkeys, kargs, ninv, flat   \* InvokeBinding's (unused)
VARIABLES cid, ph, k, j, nbad
IB == INSTANCE InvokeBinding WITH Api <- "lfric", Stride <- 1, Offset <- 0,
                                  AlgKey <- "canon", PsyKey <- "canon"

tvars == <<cid, ph, k, j, nbad>>
C == Cases[cid]

Init == /\ cid \in 1..Len(Cases)
        /\ ph = "head" /\ k = 1 /\ j = 1 /\ nbad = 0
        /\ sid = 0 /\ inv = 0 /\ pos = 0 /\ acts = <<>> /\ akeys = <<>>
        /\ dums = <<>> /\ dkeys = <<>> /\ kargs = <<>> /\ ninv = 0 /\ flat = <<>>

Report(clause, w) ==
    PrintT("VERDICT " \o ToJson([id |-> C.id, v |-> clause, w |-> w]))

\* clauses about the two lists and the names; all failing ones are reported
HeadFailures ==
    LET c == C IN
    (IF IB!NameDefined(c.call, c.subs) THEN {} ELSE {"NameDefined"})
    \cup (IF IB!SameLength(c.acts, c.dums) THEN {} ELSE {"SameLength"})
    \cup (IF IB!NoDuplicateDummies(c.dums) THEN {} ELSE {"NoDuplicateDummies"})
    \cup (IF IB!ActualsFromInvoke(c.acts, c.orig) THEN {} ELSE {"ActualsFromInvoke"})
    \cup (IF IB!TypeMismatches(c.acts, c.dtypes, c.orig, c.okinds) = {} THEN {}
          ELSE {"TypeAgree"})

\* next (k, j) with an argument, searching from (k0, j0); <<0, 0>> if none
RECURSIVE NextArg(_, _, _)
NextArg(ka, k0, j0) ==
    IF k0 > Len(ka) THEN <<0, 0>>
    ELSE IF j0 <= Len(ka[k0]) THEN <<k0, j0>>
    ELSE NextArg(ka, k0 + 1, 1)

HeadStep ==
    /\ ph = "head"
    /\ LET bad == HeadFailures
           nx  == NextArg(C.kargs, 1, 1)
       IN /\ \A b \in bad : Report(b, [nacts |-> Len(C.acts), ndums |-> Len(C.dums)])
          /\ IF [i \in DOMAIN C.acts |-> IB!Canon(C.acts[i])] = IB!PredictedActuals(C.orig, C.okinds)
             THEN TRUE
             ELSE PrintT("DIVERGE " \o ToJson([id |-> C.id, v |-> "PredictedActuals"]))
          /\ nbad' = Cardinality(bad)
          /\ IF nx = <<0, 0>> THEN /\ ph' = "done" /\ UNCHANGED <<k, j>>
             ELSE /\ ph' = "args" /\ k' = nx[1] /\ j' = nx[2]
    /\ UNCHANGED cid

ArgStep ==
    /\ ph = "args"
    /\ LET ka == C.kargs[k][j]
           v  == IF k > Len(C.orig) \/ j > Len(C.orig[k]) THEN "OrigMissing"
                 ELSE IB!BindVerdict(C.acts, C.dums, ka, C.orig[k][j])
           nx == NextArg(C.kargs, k, j + 1)
       IN /\ IF v = "ok" THEN nbad' = nbad
             ELSE /\ Report(v, [k |-> k, j |-> j,
                                pos |-> IF ka.t = "d" THEN IB!PosOf(ka.n, C.dums) ELSE 0])
                  /\ nbad' = nbad + 1
          /\ IF nx = <<0, 0>> THEN /\ ph' = "done" /\ UNCHANGED <<k, j>>
             ELSE /\ ph' = "args" /\ k' = nx[1] /\ j' = nx[2]
    /\ UNCHANGED cid

Step == (HeadStep \/ ArgStep) /\ UNCHANGED <<sid, inv, pos, acts, akeys, dums, dkeys, kargs, ninv, flat>>
Spec == Init /\ [][Step]_<<tvars, sid, inv, pos, acts, akeys, dums, dkeys, kargs, ninv, flat>>

\* single-case replay configuration: the property as a TLC invariant
InvAgree == ph = "done" => nbad = 0
===============================================================================
