INIT Init
NEXT Step
