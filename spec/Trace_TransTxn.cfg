INIT Init
NEXT Step
