CONSTANT RMax = 6
INIT Init
NEXT Step
