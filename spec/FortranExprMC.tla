----------------------------- MODULE FortranExprMC -----------------------------
(* Design-level model checking of FortranExpr: for EVERY tree up to Depth over *)
(* the given operators the reference printer (parentheses only where the level *)
(* table demands them) followed by Parse is the identity, the fully            *)
(* parenthesised text parses to the same tree, and each parenthesis pair the   *)
(* printer emits around a direct operand is necessary (dropping it changes the *)
(* parse or makes the text non-conforming).                                    *)
EXTENDS FortranExpr
CONSTANTS Depth, UOps, BOps, WithCalls, LeafSet
VARIABLES st, t
\* st = 0 start, 1 = left operand chosen (t is that operand), 2 = t is a tree to check.
\* The enumeration is staged only so that TLC's workers share it.

AllLeaves == <<MkRef("a"), MkLit("int", "1", ""), MkLit("real", "1.5e0", "d")>>
Leaves == {AllLeaves[i] : i \in LeafSet}

RECURSIVE Trees(_)
Trees(d) ==
  IF d = 0 THEN Leaves
  ELSE LET s == Trees(d - 1) IN
       Leaves \cup {MkUn(op, x) : op \in UOps, x \in s}
              \cup {MkBin(op, l, r) : op \in BOps, l \in s, r \in s}
              \cup (IF WithCalls
                    THEN {MkDes(<<MkPart("f", 1, <<x>>)>>) : x \in s}
                         \cup {MkDes(<<MkPart("s", 1, <<x>>), MkPart("c", 0, <<>>)>>) : x \in s}
                         \cup {MkDes(<<MkPart("g", 1, <<x, MkRef("a")>>)>>) : x \in s}
                    ELSE {})
Sub == Trees(Depth - 1)          \* operands of the top node

Init == st = 0 /\ t = MkRef("start")
Next ==
  \/ /\ st = 0 /\ st' = 2 /\ t' \in Leaves
  \/ /\ st = 0 /\ st' = 1 /\ t' \in Sub
  \/ /\ st = 1 /\ st' = 2
     /\ \/ \E op \in UOps : t' = MkUn(op, t)
        \/ \E op \in BOps : \E r \in Sub : t' = MkBin(op, t, r)
        \/ /\ WithCalls
           /\ t' \in {MkDes(<<MkPart("f", 1, <<t>>)>>),
                      MkDes(<<MkPart("s", 1, <<t>>), MkPart("c", 0, <<>>)>>),
                      MkDes(<<MkPart("g", 1, <<t, MkRef("a")>>)>>)}
\* number of states the staged enumeration must reach: 1 + |Sub| + |Trees(Depth)|
ExpectedStates == 1 + Cardinality(Sub) + Cardinality(Leaves)
                  + Cardinality(Sub) * (Cardinality(UOps) + Cardinality(BOps) * Cardinality(Sub)
                                        + (IF WithCalls THEN 3 ELSE 0))
ASSUME PrintT(<<"EXPECTED", ExpectedStates>>)

RoundTrip     == st = 2 => Parse(Unparse(t)) = t
RoundTripFull == st = 2 => Parse(UnparseFull(t)) = t
Bare(x) == Unparse(x)
\* a parenthesis pair around a direct operand is never redundant
NeededParens == st = 2 =>
  /\ t.k = "un" /\ NodeLevel(t.x) > UnSlot(t.op)
       => Parse(<<<<"op", t.op>>>> \o Bare(t.x)) # t
  /\ t.k = "bin" /\ NodeLevel(t.l) > LeftSlot(t.op)
       => Parse(Bare(t.l) \o <<<<"op", t.op>>>> \o Paren(t.r, RightSlot(t.op))) # t
  /\ t.k = "bin" /\ NodeLevel(t.r) > RightSlot(t.op)
       => Parse(Paren(t.l, LeftSlot(t.op)) \o <<<<"op", t.op>>>> \o Bare(t.r)) # t
NoErr == st = 2 => ~ IsErr(Parse(Unparse(t)))

\* anchor points of the grammar (F2008 7.1.2/7.1.3), evaluated once
A == <<"id", "a">>
B == <<"id", "b">>
C == <<"id", "c">>
O(s) == <<"op", s>>
LP == <<"lp", "(">>
RP == <<"rp", ")">>
ra == MkRef("a")
rb == MkRef("b")
rc == MkRef("c")
ASSUME Parse(<<A, O("**"), B, O("**"), C>>) = MkBin("**", ra, MkBin("**", rb, rc))
ASSUME Parse(<<O("-"), A, O("**"), B>>) = MkUn("-", MkBin("**", ra, rb))
ASSUME Parse(<<O("-"), A, O("*"), B>>) = MkUn("-", MkBin("*", ra, rb))
ASSUME Parse(<<O("-"), A, O("+"), B>>) = MkBin("+", MkUn("-", ra), rb)
ASSUME Parse(<<A, O("-"), B, O("-"), C>>) = MkBin("-", MkBin("-", ra, rb), rc)
ASSUME Parse(<<A, O("/"), B, O("*"), C>>) = MkBin("*", MkBin("/", ra, rb), rc)
ASSUME Parse(<<A, O("-"), LP, B, O("-"), C, RP>>) = MkBin("-", ra, MkBin("-", rb, rc))
ASSUME IsErr(Parse(<<A, O("*"), O("-"), B>>))
ASSUME IsErr(Parse(<<A, O("**"), O("-"), B>>))
ASSUME IsErr(Parse(<<A, O("+"), O("-"), B>>))
ASSUME IsErr(Parse(<<O("-"), O("-"), A>>))
ASSUME IsErr(Parse(<<A, O("=="), B, O("=="), C>>))
ASSUME IsErr(Parse(<<O(".not."), O(".not."), A>>))
ASSUME IsErr(Parse(<<A, B>>))
ASSUME IsErr(Parse(<<LP, A>>))
ASSUME IsErr(Parse(<<>>))
ASSUME Parse(<<O(".not."), A, O("=="), B, O(".and."), C, O(".or."), A, O(".eqv."), B>>)
       = MkBin(".eqv.", MkBin(".or.", MkBin(".and.", MkUn(".not.", MkBin("==", ra, rb)), rc),
                              ra), rb)
ASSUME Parse(<<A, O("=="), O("-"), B, O("+"), C>>)
       = MkBin("==", ra, MkBin("+", MkUn("-", rb), rc))
ASSUME Parse(<<A, LP, B, O("+"), C, <<"cm", ",">>, A, RP, <<"pc", "%">>, B, <<"pc", "%">>, C,
               LP, A, RP>>)
       = MkDes(<<MkPart("a", 1, <<MkBin("+", rb, rc), ra>>), MkPart("b", 0, <<>>),
                 MkPart("c", 1, <<ra>>)>>)
\* integer meaning
NoVal == [x |-> [n \in {} |-> 0], fn |-> 1]
ASSUME TDiv(0 - 7, 2) = 0 - 3 /\ TDiv(7, 0 - 2) = 0 - 3 /\ TDiv(0 - 7, 0 - 2) = 3
ASSUME FMod(0 - 7, 3) = 0 - 1 /\ FMod(7, 0 - 3) = 1 /\ FMod(0 - 7, 0 - 3) = 0 - 1
ASSUME IPow(2, 10) = Val(1024) /\ IPow(2, 0 - 1) = Val(0) /\ IPow(0 - 1, 0 - 3) = Val(0 - 1)
ASSUME IPow(0, 0 - 1) = Undef /\ IPow(10, 9) = Undef
ASSUME EvalInt(MkBin("*", MkBin("/", MkLit("int", "7", ""), MkLit("int", "2", "")),
                     MkLit("int", "2", "")), NoVal) = Val(6)
===============================================================================
