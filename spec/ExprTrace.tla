------------------------------- MODULE ExprTrace -------------------------------
(* C02 - validates expressions written by the real FortranWriter against the   *)
(* grammar of FortranExpr.  A case is                                           *)
(*   [id, tree, toks, rd, rt]                                                   *)
(* tree = the PSyIR expression that was written (projected), toks = the tokens *)
(* of the text the writer produced, rd = what FortranReader did with that text:*)
(* 0 refused it, 1 returned a tree equal to `tree`, 2 returned the different   *)
(* tree rt.  Clauses:                                                           *)
(*   Conforming   the text is an expression of the F2008 grammar               *)
(*   SameTree     ... and it denotes exactly `tree` (grouping preserved)       *)
(*   ReaderAgrees the reader read what the grammar says the text denotes       *)
(* A case that satisfies all clauses but whose text differs from the reference *)
(* printer's (redundant parentheses) is reported as DIVERGES, not a violation. *)
EXTENDS FortranExpr, Json, IOUtils

Cases == JsonDeserialize(IOEnv.PV_CASES)

VARIABLES cid, verdict
vars == <<cid, verdict>>

Init == /\ cid \in 1..Len(Cases)
        /\ verdict = "run"

ReaderAgrees(c, parsed) ==
  CASE c.rd = 0 -> IsErr(parsed)
    [] c.rd = 1 -> parsed = c.tree
    [] c.rd = 2 -> parsed = c.rt
    [] OTHER    -> FALSE

Failing(c, parsed) ==
  (IF IsErr(parsed) THEN <<"Conforming">>
   ELSE IF parsed # c.tree THEN <<"SameTree">> ELSE <<>>)
  \o (IF ReaderAgrees(c, parsed) THEN <<>> ELSE <<"ReaderAgrees">>)

Step ==
  /\ verdict = "run"
  /\ LET c      == Cases[cid]
         parsed == Parse(c.toks)
         bad    == Failing(c, parsed)
     IN /\ verdict' = IF bad = <<>> THEN "ok" ELSE "fail"
        /\ bad # <<>> => PrintT("VERDICT " \o ToJson([id |-> c.id, v |-> bad,
                                                      w |-> [parsed |-> parsed]]))
        \* property holds but the text is not the reference printer's text
        /\ (bad = <<>> /\ Unparse(c.tree) # c.toks) => PrintT("DIVERGES " \o ToJson(c.id))
  /\ UNCHANGED cid
Spec == Init /\ [][Step]_vars

\* replay configuration (single case): real invariants
InvConforming   == verdict = "run" => Conforming(Cases[cid].toks)
InvSameTree     == verdict = "run" => SameTree(Cases[cid].tree, Cases[cid].toks)
InvReaderAgrees == verdict = "run" => ReaderAgrees(Cases[cid], Parse(Cases[cid].toks))
===============================================================================
