CONSTANTS MaxN = 4
 Tier = "quick"
INIT InitGen
NEXT NextGen
