CONSTANTS RepointRoles <- AllRoles
 MaxEdits = 2
 MaxEditsFile = 1
 InsertFront = FALSE
 NewNames <- NamesQuick
 OpKinds <- AllOpKinds
 ProgIds <- AllProgs
 SimMode = FALSE
INIT Init
NEXT Next
INVARIANT InvAll
INVARIANT DumpHist
