CONSTANTS RepointRoles <- AllRoles
 MaxEdits = 2
 MaxEditsFile = 1
 Wide = FALSE
 NewNames <- NamesQuick
 OpKinds <- AllOpKinds
 ProgIds <- AllProgs
 SimMode = FALSE
 LoopVarByName = FALSE
INIT Init
NEXT Next
INVARIANT InvAll
INVARIANT DumpHist
