CONSTANT Tier = "quick"
INIT Init
NEXT Next
INVARIANT ArgsWellFormed
INVARIANT GeneratedValid
