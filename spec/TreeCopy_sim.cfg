CONSTANTS RepointRoles <- AllRoles
 MaxEdits = 4
 MaxEditsFile = 4
 Wide = TRUE
 NewNames <- NamesThorough
 OpKinds <- AllOpKinds
 ProgIds <- AllProgs
 SimMode = TRUE
 LoopVarByName = FALSE
INIT Init
NEXT Next
INVARIANT InvAll
INVARIANT DumpSim
