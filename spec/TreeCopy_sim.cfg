CONSTANTS RepointRoles <- AllRoles
 MaxEdits = 4
 MaxEditsFile = 4
 InsertFront = TRUE
 NewNames <- NamesThorough
 OpKinds <- AllOpKinds
 ProgIds <- AllProgs
 SimMode = TRUE
INIT Init
NEXT Next
INVARIANT InvAll
INVARIANT DumpSim
