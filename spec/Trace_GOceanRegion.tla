------------------------- MODULE Trace_GOceanRegion -------------------------
(* C25, binding B: the loop nests PSyclone generated for an invoke (before    *)
(* and after each transformation history) are *executed* under FortranSem on  *)
(* every grid size and field environment; the resulting kernel-call log is    *)
(* judged against GOceanRegion.                                               *)
(*                                                                            *)
(* File: [maxn, cases]; case = [id, kernels (off, pt, sp, label), fields      *)
(* (name, pt), goffs, progs]; prog = [body, subs (kernel masks), locals,      *)
(* members, clb, hist, step, isbase]; case.steps[n] = the ITERATION-SPACES     *)
(* lines of the n-th configuration file loaded in the process; a prog with    *)
(* step = n was generated after n loads and is judged against the table       *)
(* GOceanRegion!LoadSteps(InitTable, steps, n) (last definition wins);        *)
(* isbase marks the untransformed invoke of its step.                         *)
(* Field members (f%internal%xstart ...) are scalar variables of the store,   *)
(* given their values by GOceanRegion!EnvBounds.                              *)
EXTENDS FortranSem, Json, IOUtils

R == INSTANCE GOceanRegion WITH MaxN <- 4, Tier <- "quick", sel <- 0

File  == JsonDeserialize(IOEnv.PV_CASES)
Cases == File.cases
TGrids == {gg \in R!Grids : gg.nx <= File.maxn /\ gg.ny <= File.maxn}

VARIABLES cid, g, env, go, k, base
vars == <<cid, g, env, go, k, base>>

\* ---------------------------------------------------------------- store
IntCell(v) == [ty |-> "i", lo |-> <<>>, ex |-> <<>>, d |-> <<v>>]
FieldCells(f) ==
  LET bi == R!EnvBounds(env, go, f.pt, "go_internal_pts", g)
      bw == R!EnvBounds(env, go, f.pt, "go_all_pts", g)
      n  == f.name
  IN (n \o "%internal%xstart" :> IntCell(VI(bi.xs))) @@ (n \o "%internal%xstop" :> IntCell(VI(bi.xe))) @@
     (n \o "%internal%ystart" :> IntCell(VI(bi.ys))) @@ (n \o "%internal%ystop" :> IntCell(VI(bi.ye))) @@
     (n \o "%whole%xstart" :> IntCell(VI(bw.xs))) @@ (n \o "%whole%xstop" :> IntCell(VI(bw.xe))) @@
     (n \o "%whole%ystart" :> IntCell(VI(bw.ys))) @@ (n \o "%whole%ystop" :> IntCell(VI(bw.ye))) @@
     (n \o "%grid%subdomain%internal%xstop" :> IntCell(VI(R!XStop(g)))) @@
     (n \o "%grid%subdomain%internal%ystop" :> IntCell(VI(R!YStop(g)))) @@
     (n \o "%data%size1" :> IntCell(VI(R!XStop(g) + 1))) @@
     (n \o "%data%size2" :> IntCell(VI(R!YStop(g) + 1)))
RECURSIVE AllFieldCells(_, _)
AllFieldCells(fs, i) == IF i > Len(fs) THEN <<>> ELSE FieldCells(fs[i]) @@ AllFieldCells(fs, i + 1)
StoreOf(c, p) ==
  LET fc == AllFieldCells(c.fields, 1)
      loc == SeqSet(p.locals) \ DOMAIN fc
  IN [nm \in DOMAIN fc \cup loc |-> IF nm \in DOMAIN fc THEN fc[nm] ELSE IntCell(POISON)]

Run(c, p) ==
  LET M == ExecSeq(NewMachine(StoreOf(c, p), p.subs, FALSE), p.body, 1)
  IN IF M.sig = "return" THEN [M EXCEPT !.sig = ""] ELSE M
LogOf(M) == [x \in DOMAIN M.out |->
               [n |-> M.out[x][2], p |-> <<M.out[x][3][1].v, M.out[x][3][2].v>>]]
WellFormedOut(M) == \A x \in DOMAIN M.out :
   /\ M.out[x][1] = "kern" /\ Len(M.out[x][3]) = 2
   /\ M.out[x][3][1].t = "i" /\ M.out[x][3][2].t = "i"

\* ------------------------------------------------------------ quantifiers
UsesMembers(c) == \E i \in DOMAIN c.kernels :
                     c.kernels[i].sp.name \in R!BuiltinSpaces /\ c.kernels[i].pt # "go_every"
EnvsOf(c)  == IF UsesMembers(c) THEN R!EnvNames ELSE {"ref"}
GoffsOf(c) == IF UsesMembers(c) THEN SeqSet(c.goffs) ELSE {c.goffs[1]}

Init == /\ cid \in 1..Len(Cases)
        /\ g \in TGrids
        /\ env \in EnvsOf(Cases[cid])
        /\ go \in GoffsOf(Cases[cid])
        /\ k = 1
        /\ base = [step |-> 0, log |-> <<>>]

\* -------------------------------------------------------------- clauses
\* the constant-loop-bounds table has no entry that follows the grid's offset
\* for a go_offset_any kernel: recorded as a divergence, not judged (see c25.py)
Undecided(kk, p) == p.clb /\ kk.off = "go_offset_any" /\ R!IsBuiltin(kk.sp) /\ kk.pt # "go_every"
\* the kernel with the bounds the table holds after p.step configuration files
TableOf(c, p) == R!LoadSteps(R!InitTable, c.steps, p.step)
EK(c, p, i)   == LET kk == c.kernels[i] IN
                 [kk EXCEPT !.sp = R!Lookup(TableOf(c, p), <<kk.off, kk.pt, kk.sp.name>>)]
\* a re-defined built-in name only changes the constant-bounds form: the
\* sequences of that form are not compared with the default loops
SeqExempt(kk, p) == Undecided(kk, p) \/ (p.clb /\ R!IsRedefined(kk.sp))
Judged(c, p)     == {i \in DOMAIN c.kernels : ~SeqExempt(EK(c, p, i), p)}
Labels(c, S)     == {c.kernels[i].label : i \in S}
Restrict(log, names) == SelectSeq(log, LAMBDA e : e.n \in names)

\* first failing clause of prog p with log L: <<clause, kernel label, witness>>
KernelClause(c, p, L, i) ==
  LET kk == EK(c, p, i)
      V  == R!VisitedBy(L, kk.label)
      Rg == R!KernelRegionF(kk, p.clb, env, go, g)
      numeric == R!IsBuiltin(kk.sp) /\ (env = "ref" \/ kk.pt = "go_every")
      diff(a, b) == [missing |-> a \ b, extra |-> b \ a]
  IN IF kk.sp = R!Undefined THEN <<"SpaceConfigured", kk.label, <<>>>>
     ELSE IF ~R!EachPointOnce(L, kk.label) THEN <<"EachPointOnce", kk.label, [calls |-> R!CallCount(L, kk.label)]>>
     ELSE IF ~Undecided(kk, p) /\ V # Rg THEN <<"VisitedEqualsRegion", kk.label, diff(Rg, V)>>
     ELSE IF numeric /\ ~R!WithinDepth1Halo(V, g)
          THEN <<"WithinDepth1Halo", kk.label, [extra |-> V \ R!Halo1(g)]>>
     ELSE IF numeric /\ ~R!ContainsInternal(V, kk, go, g)
          THEN <<"ContainsInternal", kk.label, [missing |-> R!MustContain(kk, go, g) \ V]>>
     ELSE IF numeric /\ ~R!NotBeyondDomain(V, kk, go, g)
          THEN <<"WithinModelDomain", kk.label, [extra |-> V \ R!MayContain(kk, go, g)]>>
     ELSE <<"ok", kk.label, <<>>>>
RECURSIVE FirstKernelFail(_, _, _, _)
FirstKernelFail(c, p, L, i) ==
  IF i > Len(c.kernels) THEN <<"ok", "", <<>>>>
  ELSE LET r == KernelClause(c, p, L, i) IN
       IF r[1] # "ok" THEN r ELSE FirstKernelFail(c, p, L, i + 1)

Judge(c, p, M) ==
  IF M.sig # "" THEN <<"BoundsDefined", "", [sig |-> M.sig]>>
  ELSE IF ~WellFormedOut(M) THEN <<"BoundsDefined", "", [sig |-> "malformed log"]>>
  ELSE LET L == LogOf(M)
           all == Labels(c, DOMAIN c.kernels) IN
       IF \E x \in DOMAIN L : L[x].n \notin all
       THEN <<"UnknownKernelCall", "", [names |-> {L[x].n : x \in DOMAIN L} \ all]>>
       ELSE LET r == FirstKernelFail(c, p, L, 1) IN
            IF r[1] # "ok" THEN r
            ELSE IF ~p.isbase /\ base.step = p.step /\ ~R!SameSequences(Restrict(base.log, Labels(c, Judged(c, p))),
                                              Restrict(L, Labels(c, Judged(c, p))))
            THEN <<"PerPointSequenceUnchanged", "",
                   [points |-> {pt \in R!LogPoints(base.log) \cup R!LogPoints(L) :
                                  R!PointSeq(Restrict(base.log, Labels(c, Judged(c, p))), pt)
                                  # R!PointSeq(Restrict(L, Labels(c, Judged(c, p))), pt)}]>>
            ELSE <<"ok", "", <<>>>>

\* a measured difference on an undecided kernel (printed for the largest grid only)
Diverges(c, p, M) ==
  /\ M.sig = "" /\ WellFormedOut(M)
  /\ g.nx = File.maxn /\ g.ny = File.maxn
  /\ \E i \in DOMAIN c.kernels :
       /\ Undecided(EK(c, p, i), p)
       /\ R!VisitedBy(LogOf(M), c.kernels[i].label) # R!KernelRegion(EK(c, p, i), env, go, g)

Step ==
  LET c == Cases[cid] IN
  /\ k <= Len(c.progs)
  /\ LET p == c.progs[k]
         skip == p.clb /\ env # "ref"      \* constant bounds only make sense in the reference env
         M == Run(c, p)
         v == IF skip THEN <<"ok", "", <<>>>> ELSE Judge(c, p, M)
     IN /\ v[1] # "ok" =>
             PrintT("VERDICT " \o ToJson([id |-> c.id, v |-> v[1],
                        w |-> [prog |-> k, hist |-> p.hist, kernel |-> v[2], nx |-> g.nx, ny |-> g.ny,
                               env |-> env, go |-> go, d |-> v[3]]]))
        /\ (~skip /\ Diverges(c, p, M)) =>
             PrintT("DIVERGE " \o ToJson([id |-> c.id, hist |-> p.hist, env |-> env, go |-> go]))
        /\ base' = IF p.isbase
                   THEN [step |-> p.step,
                         log |-> IF M.sig = "" /\ WellFormedOut(M) THEN LogOf(M) ELSE <<>>]
                   ELSE base
        /\ k' = k + 1
        /\ UNCHANGED <<cid, g, env, go>>
Spec == Init /\ [][Step]_vars

\* replay configuration: the clauses as invariants of a single case
InvAllOk == LET c == Cases[cid] IN
  k <= Len(c.progs) => (c.progs[k].clb /\ env # "ref") \/ Judge(c, c.progs[k], Run(c, c.progs[k]))[1] = "ok"
=============================================================================
