INIT Init
NEXT Step
INVARIANT NoViolation
