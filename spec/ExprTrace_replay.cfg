INIT Init
NEXT Step
INVARIANT InvConforming
INVARIANT InvSameTree
INVARIANT InvReaderAgrees
