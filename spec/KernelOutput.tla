----------------------------- MODULE KernelOutput -----------------------------
(* C29 - transformed-kernel output never clobbers other kernels.              *)
(*                                                                            *)
(* Up to MaxRuns concurrent PSyclone runs execute CodedKern.rename_and_write  *)
(* (src/psyclone/psyGen.py) against one kernel-output directory.  The model   *)
(* follows the routine call by call: ONE ACTION PER FILE-SYSTEM CALL          *)
(*                                                                            *)
(*   Create : os.open(dir/<base>_<idx>_mod.f90, O_CREAT|O_WRONLY|O_EXCL)      *)
(*              created            -> leave the loop holding the descriptor   *)
(*              EEXIST, 'multiple' -> idx+1, try again                        *)
(*              EEXIST, 'single'   -> leave the loop without descriptor       *)
(*   Write  : os.write(fd, text)      (two half writes if SplitWrite)         *)
(*   Close  : os.close(fd)                                                    *)
(*   OpenR  : open(dir/<name>, "r")                                           *)
(*   Read   : ffile.read() and the comparison with the rendered kernel        *)
(*   CloseR : end of the `with` block                                         *)
(*                                                                            *)
(* _rename_psyir(new_suffix) and the rendering happen between the last Create *)
(* and Write/OpenR; they touch only the run's own objects, commute with every *)
(* action of every other run and are therefore folded into that Create        *)
(* (`used` = the tag that the run's module, routine and PSy layer now carry). *)
(*                                                                            *)
(* File system:  tag -> [by, w, content, inner]                               *)
(*   by      run whose step made the name appear (0 = present before the runs)*)
(*   w       runs whose steps changed the content of the existing file        *)
(*   content "empty" | "partial" | "v1" | "v2" | "other"  (kernel version)    *)
(*   inner   tag carried by module/routine/metadata names inside (-1: none)   *)
EXTENDS Naturals, Integers, Sequences, FiniteSets, TLC, Json

CONSTANTS MaxRuns,       \* run identities 1..MaxRuns
          RunCounts,     \* set of numbers of participating runs
          Schemes,       \* subset of {"multiple", "single"}
          Versions,      \* kernel content identities, e.g. {1, 2}
          PreChoices,    \* 0: empty directory; k: complete <base>_0_mod.f90 of
                         \*    version k left by an earlier (sequential) run
          SplitWrite     \* TRUE: the environment performs the write in two halves

Runs     == 1..MaxRuns
Nm(i)    == ToString(i)
VName(k) == "v" \o ToString(k)
NoSeen   == [c |-> "none", inner |-> -1, by |-> -1, bypc |-> "none"]

\* ------------------------------------------------------------------ clauses
\* All clauses are operators over explicit facts so that Trace_KernelOutput
\* evaluates the very same formulas over facts recorded from the real runs.
Failing(x)   == x \in {"error", "crash"}
FullC(c)     == c \notin {"empty", "partial", "other"}
CreatorVer(f, vr, pr) == IF f.by = 0 THEN pr ELSE vr[f.by]

\* no file is written by two runs / by a run that did not create it
WrittenByOne(F)   == \A n \in DOMAIN F : F[n].w \subseteq {F[n].by}
\* module, routine and metadata names inside a complete file match its name
NamesInside(F)    == \A n \in DOMAIN F : FullC(F[n].content) => Nm(F[n].inner) = n
\* the verdict of a read-back is never based on a file still being written
NoPartialVerdict(S, R) == \A r \in R : S[r].c \notin {"empty", "partial"}

\* --- 'multiple', once every run has finished
MultipleAllWritten(rs, R) == \A r \in R : rs[r] = "ok"
PsyUsesOwn(F, vr, rs, us, R) ==
   \A r \in R : rs[r] = "ok" =>
       /\ us[r] >= 0 /\ Nm(us[r]) \in DOMAIN F
       /\ LET f == F[Nm(us[r])] IN
          f.by = r /\ f.content = VName(vr[r]) /\ f.inner = us[r]
AllComplete(F) == \A n \in DOMAIN F : FullC(F[n].content)

\* --- 'single', once every run has finished
SingleUsesSame(F, vr, rs, us, R) ==
   \A r \in R : rs[r] = "ok" =>
       /\ us[r] >= 0 /\ Nm(us[r]) \in DOMAIN F
       /\ LET f == F[Nm(us[r])] IN
          f.content = VName(vr[r]) /\ f.inner = us[r]
SingleOneFile(F, rs, us, R) ==
   /\ Cardinality(DOMAIN F) <= 1
   /\ \A r1, r2 \in R : (rs[r1] = "ok" /\ rs[r2] = "ok") => us[r1] = us[r2]
\* a run may fail only because the file it had to share holds another version
SingleFailOnlyIfDifferent(F, vr, pr, rs, R) ==
   \A r \in R : Failing(rs[r]) =>
       /\ Nm(0) \in DOMAIN F
       /\ F[Nm(0)].by # r
       /\ CreatorVer(F[Nm(0)], vr, pr) # vr[r]

\* ------------------------------------------------------------- state machine
VARIABLES scheme, pre, ver,   \* the case: naming scheme, earlier file, version per run
          fs,                 \* the shared directory
          pc, idx, fd, used, seen, res,      \* per run
          lastOp              \* history: the file-system call just made
vars == <<scheme, pre, ver, fs, pc, idx, fd, used, seen, res, lastOp>>

Op(r, call, n, rc, cls) == [run |-> r, call |-> call, name |-> n, res |-> rc, cls |-> cls]
Active == {r \in Runs : pc[r] # "off"}

Init ==
  /\ scheme \in Schemes
  /\ pre \in PreChoices
  /\ \E n \in RunCounts :
       /\ pc = [r \in Runs |-> IF r <= n THEN "create" ELSE "off"]
       /\ res = [r \in Runs |-> IF r <= n THEN "run" ELSE "off"]
       \* runs are interchangeable: versions in non-decreasing order, first = 1
       /\ ver \in {v \in [Runs -> Versions] :
                     /\ v[1] = 1
                     /\ \A r \in Runs : r > n => v[r] = 1
                     /\ \A r \in 1..(n - 1) : v[r] <= v[r + 1] /\ v[r + 1] <= v[r] + 1}
  /\ fs = IF pre = 0 THEN <<>>
          ELSE (Nm(0) :> [by |-> 0, w |-> {}, content |-> VName(pre), inner |-> 0])
  /\ idx = [r \in Runs |-> 0]
  /\ fd = [r \in Runs |-> ""]
  /\ used = [r \in Runs |-> -1]
  /\ seen = [r \in Runs |-> NoSeen]
  /\ lastOp = Op(0, "init", "", "", "")

Create(r) ==
  /\ pc[r] = "create"
  /\ LET n == Nm(idx[r]) IN
     IF n \notin DOMAIN fs
     THEN /\ fs' = fs @@ (n :> [by |-> r, w |-> {}, content |-> "empty", inner |-> -1])
          /\ fd' = [fd EXCEPT ![r] = n]
          /\ used' = [used EXCEPT ![r] = idx[r]]        \* _rename_psyir("_<idx>"), render
          /\ pc' = [pc EXCEPT ![r] = "write"]
          /\ idx' = idx
          /\ lastOp' = Op(r, "creat", n, "ok", "")
     ELSE IF scheme = "single"
     THEN /\ used' = [used EXCEPT ![r] = idx[r]]        \* break: reuse the existing file
          /\ pc' = [pc EXCEPT ![r] = "openr"]
          /\ UNCHANGED <<fs, fd, idx>>
          /\ lastOp' = Op(r, "creat", n, "EEXIST", "")
     ELSE /\ idx' = [idx EXCEPT ![r] = @ + 1]           \* continue with the next name
          /\ UNCHANGED <<fs, fd, used, pc>>
          /\ lastOp' = Op(r, "creat", n, "EEXIST", "")
  /\ UNCHANGED <<scheme, pre, ver, seen, res>>

Write(r) ==
  /\ pc[r] \in {"write", "write2"}
  /\ LET half == SplitWrite /\ pc[r] = "write" IN
     /\ fs' = [fs EXCEPT ![fd[r]] =
                 [@ EXCEPT !.content = IF half THEN "partial" ELSE VName(ver[r]),
                           !.inner = IF half THEN -1 ELSE used[r],
                           !.w = @ \cup {r}]]
     /\ pc' = [pc EXCEPT ![r] = IF half THEN "write2" ELSE "close"]
     /\ lastOp' = Op(r, "write", fd[r], "ok", IF half THEN "partial" ELSE VName(ver[r]))
  /\ UNCHANGED <<scheme, pre, ver, idx, fd, used, seen, res>>

Close(r) ==
  /\ pc[r] = "close"
  /\ pc' = [pc EXCEPT ![r] = "done"]
  /\ res' = [res EXCEPT ![r] = "ok"]
  /\ fd' = [fd EXCEPT ![r] = ""]
  /\ lastOp' = Op(r, "close", fd[r], "ok", "")
  /\ UNCHANGED <<scheme, pre, ver, fs, idx, used, seen>>

OpenR(r) ==
  /\ pc[r] = "openr"
  /\ pc' = [pc EXCEPT ![r] = "read"]
  /\ lastOp' = Op(r, "openr", Nm(idx[r]), "ok", "")
  /\ UNCHANGED <<scheme, pre, ver, fs, idx, fd, used, seen, res>>

Read(r) ==
  /\ pc[r] = "read"
  /\ LET f == fs[Nm(idx[r])] IN
     /\ seen' = [seen EXCEPT ![r] = [c |-> f.content, inner |-> f.inner, by |-> f.by,
                                      bypc |-> IF f.by = 0 THEN "done" ELSE pc[f.by]]]
     \* kern_code != new_kern_code  ->  GenerationError
     /\ res' = [res EXCEPT ![r] = IF f.content = VName(ver[r]) /\ f.inner = used[r]
                                  THEN "ok" ELSE "error"]
     /\ lastOp' = Op(r, "read", Nm(idx[r]), "ok", f.content)
  /\ pc' = [pc EXCEPT ![r] = "closer"]
  /\ UNCHANGED <<scheme, pre, ver, fs, idx, fd, used>>

CloseR(r) ==
  /\ pc[r] = "closer"
  /\ pc' = [pc EXCEPT ![r] = "done"]
  /\ lastOp' = Op(r, "closer", Nm(idx[r]), "ok", "")
  /\ UNCHANGED <<scheme, pre, ver, fs, idx, fd, used, seen, res>>

RunStep(r) == Create(r) \/ Write(r) \/ Close(r) \/ OpenR(r) \/ Read(r) \/ CloseR(r)
Next == \E r \in Runs : RunStep(r)
Spec == Init /\ [][Next]_vars

AllDone == \A r \in Runs : pc[r] \in {"done", "off"}

\* ------------------------------------------------------------------ invariants
TypeOK ==
  /\ scheme \in {"multiple", "single"}
  /\ \A r \in Runs : pc[r] \in {"off", "create", "write", "write2", "close",
                                "openr", "read", "closer", "done"}
  /\ \A r \in Runs : res[r] \in {"off", "run", "ok", "error"}
  /\ \A r \in Runs : (fd[r] # "") => (fd[r] \in DOMAIN fs /\ fs[fd[r]].by = r)

InvWrittenByOne     == WrittenByOne(fs)
InvNamesInside      == NamesInside(fs)
InvNoPartialVerdict == NoPartialVerdict(seen, Active)

MultipleFresh ==
  scheme = "multiple" =>
    /\ WrittenByOne(fs)
    /\ NamesInside(fs)
    /\ AllDone => /\ MultipleAllWritten(res, Active)
                  /\ PsyUsesOwn(fs, ver, res, used, Active)
                  /\ AllComplete(fs)

SingleShared ==
  (scheme = "single" /\ AllDone) =>
    /\ SingleUsesSame(fs, ver, res, used, Active)
    /\ SingleOneFile(fs, res, used, Active)
    /\ SingleFailOnlyIfDifferent(fs, ver, pre, res, Active)
    /\ AllComplete(fs)
SingleStep == scheme = "single" => (WrittenByOne(fs) /\ NamesInside(fs))

\* every run terminates (no run waits for another one)
NoStuck == ~AllDone => \E r \in Runs : ENABLED RunStep(r)

\* ------------------------------------------- transition dump (binding A)
\* Printed with TLC's native ToString (ToJson costs ~3 ms per record here): only
\* tuples, sets, strings and integers, which the harness transliterates to JSON.
MaxTag == MaxRuns + 1
FsKey  == [t \in 1..(MaxTag + 1) |->
             IF Nm(t - 1) \in DOMAIN fs
             THEN LET f == fs[Nm(t - 1)] IN <<f.by, f.w, f.content, f.inner>>
             ELSE <<>>]
Abs  == <<scheme, pre, ver, FsKey, pc, idx, used, res, [r \in Runs |-> seen[r].c]>>
View == <<scheme, pre, ver, fs, pc, idx, fd, used, seen, res>>
ViolatedClauses ==
   (IF ~MultipleFresh THEN {"MultipleFresh"} ELSE {}) \cup
   (IF ~SingleShared THEN {"SingleShared"} ELSE {}) \cup
   (IF ~SingleStep THEN {"SingleStep"} ELSE {}) \cup
   (IF ~InvNoPartialVerdict THEN {"NoPartialVerdict"} ELSE {})
OpKey(o) == <<o.run, o.call, o.name, o.res, o.cls>>
DumpTransition ==
   PrintT("EDGE " \o ToString(<<Abs, OpKey(lastOp'), Abs', ViolatedClauses'>>))
===============================================================================
