----------------------------- MODULE KernelOutput -----------------------------
(* C29 - transformed-kernel output never clobbers other kernels.              *)
(*                                                                            *)
(* Up to MaxRuns concurrent PSyclone runs execute CodedKern.rename_and_write  *)
(* (src/psyclone/psyGen.py, as of commit ea5fcc1) against one kernel-output   *)
(* directory.  The model follows the routine call by call: ONE ACTION PER     *)
(* FILE-SYSTEM CALL.                                                          *)
(*                                                                            *)
(* kernel_naming = 'multiple'                                                 *)
(*   Create   : os.open(dir/<base>_<idx>_mod.f90, O_CREAT|O_WRONLY|O_EXCL)    *)
(*                created -> leave the loop holding the descriptor            *)
(*                EEXIST  -> idx+1, try again                                 *)
(*   Write    : os.write(fd, text)      (two half writes if `split`)         *)
(*   Close    : os.close(fd)                                                  *)
(* kernel_naming = 'single'  (the name is always <base>_0_mod.f90)            *)
(*   MkTemp   : tempfile.mkstemp(dir, prefix=<name>., suffix=.tmp)            *)
(*   WriteTmp : os.write(tmp_fd, text)  (two half writes if `split`)         *)
(*   CloseTmp : os.close(tmp_fd)                                              *)
(*   Link     : os.link(tmp, dir/<name>)   ok (published) | EEXIST            *)
(*   UnlinkTmp: os.unlink(tmp)            (the `finally` clause: BEFORE the   *)
(*              read-back)   published -> done;  EEXIST -> read back          *)
(*   OpenR    : open(dir/<name>, "r")                                         *)
(*   Read     : ffile.read() and the comparison with the rendered kernel      *)
(*   CloseR   : end of the `with` block                                       *)
(*                                                                            *)
(* PROCESSES.  A run is one call of rename_and_write.  Every run belongs to a  *)
(* process `proc[r]`; the runs of one process happen one after the other in   *)
(* run order (two kernel objects of one PSy layer that were transformed        *)
(* differently, a second generate() of the same process, ...), runs of         *)
(* different processes interleave arbitrarily.  Begin(r) is the entry of the  *)
(* call (no file-system call, but the point at which an implementation may    *)
(* consult what its PROCESS remembers).  `known[p]` records what a process    *)
(* may legitimately remember - <<name, content>> pairs it wrote or verified - *)
(* and MemorySound shows those facts stay true on disk; the property clauses  *)
(* are about the disk and hold for runs that share a process as well: in the  *)
(* 'single' scheme a run fails iff its kernel differs from the shared file.   *)
(*                                                                            *)
(* _rename_psyir(new_suffix) and the rendering touch only the run's own       *)
(* objects, commute with every action of every other run and are folded into  *)
(* the file-system action next to them (the last Create / MkTemp): `used` =   *)
(* the tag that the run's module, routine and PSy layer carry from then on.   *)
(*                                                                            *)
(* Final kernel files:  tag -> [by, w, content, inner]                        *)
(*   by      run whose step made the name appear (0 = present before the runs)*)
(*   w       runs whose steps changed the content of the existing file        *)
(*   content "empty" | "partial" | "v1" | "v2" | "other"  (kernel version)    *)
(*   inner   tag carried by module/routine/metadata names inside (-1: none)   *)
(* Temporary files:  run -> [content, inner]   ("none": the run has none)     *)
EXTENDS Naturals, Integers, Sequences, FiniteSets, TLC, Json

CONSTANTS MaxRuns,       \* run identities 1..MaxRuns
          RunCounts,     \* set of numbers of participating runs
          Schemes,       \* subset of {"multiple", "single"}
          Versions,      \* kernel content identities, e.g. {1, 2}
          PreChoices,    \* 0: empty directory; k: complete <base>_0_mod.f90 of
                         \*    version k left by an earlier (sequential) run
          SplitChoices   \* subset of BOOLEAN; TRUE: the environment performs every
                         \*    write in two halves (a reader could see half a file)

Runs     == 1..MaxRuns
Nm(i)    == ToString(i)
VName(k) == "v" \o ToString(k)
NoSeen   == [c |-> "none", inner |-> -1, by |-> -1, bypc |-> "none"]
NoTmp    == [content |-> "none", inner |-> -1]

\* ------------------------------------------------------------------ clauses
\* All clauses are operators over explicit facts so that Trace_KernelOutput
\* evaluates the very same formulas over facts recorded from the real runs.
Failing(x)   == x \in {"error", "crash"}
FullC(c)     == c \notin {"empty", "partial", "other"}
CreatorVer(f, vr, pr) == IF f.by = 0 THEN pr ELSE vr[f.by]

\* no file is written by two runs / by a run that did not create it
WrittenByOne(F)   == \A n \in DOMAIN F : F[n].w \subseteq {F[n].by}
\* module, routine and metadata names inside a complete file match its name
NamesInside(F)    == \A n \in DOMAIN F : FullC(F[n].content) => Nm(F[n].inner) = n
\* the verdict of a read-back is never based on a file still being written
NoPartialVerdict(S, R) == \A r \in R : S[r].c \notin {"empty", "partial"}
AllComplete(F) == \A n \in DOMAIN F : FullC(F[n].content)

\* --- 'multiple', once every run has finished
MultipleAllWritten(rs, R) == \A r \in R : rs[r] = "ok"
PsyUsesOwn(F, vr, rs, us, R) ==
   \A r \in R : rs[r] = "ok" =>
       /\ us[r] >= 0 /\ Nm(us[r]) \in DOMAIN F
       /\ LET f == F[Nm(us[r])] IN
          f.by = r /\ f.content = VName(vr[r]) /\ f.inner = us[r]

\* --- 'single', once every run has finished
SingleUsesSame(F, vr, rs, us, R) ==
   \A r \in R : rs[r] = "ok" =>
       /\ us[r] >= 0 /\ Nm(us[r]) \in DOMAIN F
       /\ LET f == F[Nm(us[r])] IN
          f.content = VName(vr[r]) /\ f.inner = us[r]
SingleOneFile(F, rs, us, R) ==
   /\ Cardinality(DOMAIN F) <= 1
   /\ \A r1, r2 \in R : (rs[r1] = "ok" /\ rs[r2] = "ok") => us[r1] = us[r2]
\* a run may fail only because the file it had to share holds another version
SingleFailOnlyIfDifferent(F, vr, pr, rs, R) ==
   \A r \in R : Failing(rs[r]) =>
       /\ Nm(0) \in DOMAIN F
       /\ F[Nm(0)].by # r
       /\ CreatorVer(F[Nm(0)], vr, pr) # vr[r]

\* ------------------------------------------------------------- state machine
VARIABLES scheme, pre, ver, split,   \* the case: naming scheme, earlier file,
                                     \* version per run, split writes
          proc,               \* the case: process of every run
          known,              \* per process: <<name, content>> pairs written/verified
          fs,                 \* the shared directory: final kernel files
          tmp,                \* the shared directory: temporary files (one per run)
          pc, idx, fd, used, seen, res,      \* per run
          lastOp              \* history: the file-system call just made
vars == <<scheme, pre, ver, split, proc, known, fs, tmp, pc, idx, fd, used, seen, res, lastOp>>

Growth(f, n) == /\ f[1] = 1
                /\ \A r \in Runs : r > n => f[r] = 1
                /\ \A r \in 2..n : \E q \in 1..(r - 1) : f[r] <= f[q] + 1
Op(r, call, n, rc, cls) == [run |-> r, call |-> call, name |-> n, res |-> rc, cls |-> cls]
Active == {r \in Runs : pc[r] # "off"}

Init ==
  /\ scheme \in Schemes
  /\ pre \in PreChoices
  /\ split \in SplitChoices
  /\ \E n \in RunCounts :
       /\ pc = [r \in Runs |-> IF r > n THEN "off" ELSE "idle"]
       /\ res = [r \in Runs |-> IF r <= n THEN "run" ELSE "off"]
       \* versions and processes up to renaming: the first run has 1, a later run
       \* has one of the earlier values or the next new one
       /\ ver \in {v \in [Runs -> Versions] : Growth(v, n)}
       /\ proc \in {q \in [Runs -> Runs] : Growth(q, n)}
  /\ known = [p \in Runs |-> {}]
  /\ fs = IF pre = 0 THEN <<>>
          ELSE (Nm(0) :> [by |-> 0, w |-> {}, content |-> VName(pre), inner |-> 0])
  /\ tmp = [r \in Runs |-> NoTmp]
  /\ idx = [r \in Runs |-> 0]
  /\ fd = [r \in Runs |-> ""]
  /\ used = [r \in Runs |-> -1]
  /\ seen = [r \in Runs |-> NoSeen]
  /\ lastOp = Op(0, "init", "", "", "")

\* entry of rename_and_write: after the earlier runs of the same process
Begin(r) ==
  /\ pc[r] = "idle"
  /\ \A q \in Runs : (q < r /\ proc[q] = proc[r] /\ pc[q] # "off") => pc[q] = "done"
  /\ pc' = [pc EXCEPT ![r] = IF scheme = "single" THEN "mktemp" ELSE "create"]
  /\ lastOp' = Op(r, "begin", "", "ok", "")
  /\ UNCHANGED <<scheme, pre, ver, split, proc, known, fs, tmp, idx, fd, used, seen, res>>

Learn(r, n, c) == known' = [known EXCEPT ![proc[r]] = @ \cup {<<n, c>>}]

\* ----------------------------------------------------------------- 'multiple'
Create(r) ==
  /\ pc[r] = "create"
  /\ LET n == Nm(idx[r]) IN
     IF n \notin DOMAIN fs
     THEN /\ fs' = fs @@ (n :> [by |-> r, w |-> {}, content |-> "empty", inner |-> -1])
          /\ fd' = [fd EXCEPT ![r] = n]
          /\ used' = [used EXCEPT ![r] = idx[r]]        \* _rename_psyir("_<idx>"), render
          /\ pc' = [pc EXCEPT ![r] = "write"]
          /\ idx' = idx
          /\ lastOp' = Op(r, "creat", n, "ok", "")
     ELSE /\ idx' = [idx EXCEPT ![r] = @ + 1]           \* continue with the next name
          /\ UNCHANGED <<fs, fd, used, pc>>
          /\ lastOp' = Op(r, "creat", n, "EEXIST", "")
  /\ UNCHANGED <<scheme, pre, ver, split, proc, known, tmp, seen, res>>

Write(r) ==
  /\ pc[r] \in {"write", "write2"}
  /\ LET half == split /\ pc[r] = "write" IN
     /\ fs' = [fs EXCEPT ![fd[r]] =
                 [@ EXCEPT !.content = IF half THEN "partial" ELSE VName(ver[r]),
                           !.inner = IF half THEN -1 ELSE used[r],
                           !.w = @ \cup {r}]]
     /\ pc' = [pc EXCEPT ![r] = IF half THEN "write2" ELSE "close"]
     /\ lastOp' = Op(r, "write", fd[r], "ok", IF half THEN "partial" ELSE VName(ver[r]))
  /\ UNCHANGED <<scheme, pre, ver, split, proc, known, tmp, idx, fd, used, seen, res>>

Close(r) ==
  /\ pc[r] = "close"
  /\ pc' = [pc EXCEPT ![r] = "done"]
  /\ res' = [res EXCEPT ![r] = "ok"]
  /\ fd' = [fd EXCEPT ![r] = ""]
  /\ lastOp' = Op(r, "close", fd[r], "ok", "")
  /\ Learn(r, fd[r], fs[fd[r]].content)
  /\ UNCHANGED <<scheme, pre, ver, split, proc, fs, tmp, idx, used, seen>>

\* ------------------------------------------------------------------- 'single'
MkTemp(r) ==
  /\ pc[r] = "mktemp"
  /\ tmp' = [tmp EXCEPT ![r] = [content |-> "empty", inner |-> -1]]
  /\ used' = [used EXCEPT ![r] = 0]                     \* _rename_psyir("_0"), render
  /\ fd' = [fd EXCEPT ![r] = "tmp"]
  /\ pc' = [pc EXCEPT ![r] = "wtmp"]
  /\ lastOp' = Op(r, "mkstemp", "tmp", "ok", "")
  /\ UNCHANGED <<scheme, pre, ver, split, proc, known, fs, idx, seen, res>>

WriteTmp(r) ==
  /\ pc[r] \in {"wtmp", "wtmp2"}
  /\ LET half == split /\ pc[r] = "wtmp" IN
     /\ tmp' = [tmp EXCEPT ![r] = IF half THEN [content |-> "partial", inner |-> -1]
                                  ELSE [content |-> VName(ver[r]), inner |-> used[r]]]
     /\ pc' = [pc EXCEPT ![r] = IF half THEN "wtmp2" ELSE "ctmp"]
     /\ lastOp' = Op(r, "write", "tmp", "ok", IF half THEN "partial" ELSE VName(ver[r]))
  /\ UNCHANGED <<scheme, pre, ver, split, proc, known, fs, idx, fd, used, seen, res>>

CloseTmp(r) ==
  /\ pc[r] = "ctmp"
  /\ pc' = [pc EXCEPT ![r] = "link"]
  /\ fd' = [fd EXCEPT ![r] = ""]
  /\ lastOp' = Op(r, "close", "tmp", "ok", "")
  /\ UNCHANGED <<scheme, pre, ver, split, proc, known, fs, tmp, idx, used, seen, res>>

\* os.link is atomic: the final name appears with the complete content of the
\* temporary file, or the call fails because the name exists
Link(r) ==
  /\ pc[r] = "link"
  /\ LET n == Nm(idx[r]) IN
     IF n \notin DOMAIN fs
     THEN /\ fs' = fs @@ (n :> [by |-> r, w |-> {}, content |-> tmp[r].content,
                                 inner |-> tmp[r].inner])
          /\ pc' = [pc EXCEPT ![r] = "unlinkp"]
          /\ Learn(r, n, tmp[r].content)
          /\ lastOp' = Op(r, "link", n, "ok", "")
     ELSE /\ pc' = [pc EXCEPT ![r] = "unlinkx"]
          /\ UNCHANGED <<fs, known>>
          /\ lastOp' = Op(r, "link", n, "EEXIST", "")
  /\ UNCHANGED <<scheme, pre, ver, split, proc, tmp, idx, fd, used, seen, res>>

UnlinkTmp(r) ==
  /\ pc[r] \in {"unlinkp", "unlinkx"}
  /\ tmp' = [tmp EXCEPT ![r] = NoTmp]
  /\ pc' = [pc EXCEPT ![r] = IF pc[r] = "unlinkp" THEN "done" ELSE "openr"]
  /\ res' = [res EXCEPT ![r] = IF pc[r] = "unlinkp" THEN "ok" ELSE @]
  /\ lastOp' = Op(r, "unlink", "tmp", "ok", "")
  /\ UNCHANGED <<scheme, pre, ver, split, proc, known, fs, idx, fd, used, seen>>

OpenR(r) ==
  /\ pc[r] = "openr"
  /\ pc' = [pc EXCEPT ![r] = "read"]
  /\ lastOp' = Op(r, "openr", Nm(idx[r]), "ok", "")
  /\ UNCHANGED <<scheme, pre, ver, split, proc, known, fs, tmp, idx, fd, used, seen, res>>

Read(r) ==
  /\ pc[r] = "read"
  /\ LET f == fs[Nm(idx[r])] IN
     /\ seen' = [seen EXCEPT ![r] = [c |-> f.content, inner |-> f.inner, by |-> f.by,
                                      bypc |-> IF f.by = 0 THEN "done" ELSE pc[f.by]]]
     \* kern_code != new_kern_code  ->  GenerationError
     /\ res' = [res EXCEPT ![r] = IF f.content = VName(ver[r]) /\ f.inner = used[r]
                                  THEN "ok" ELSE "error"]
     /\ lastOp' = Op(r, "read", Nm(idx[r]), "ok", f.content)
     /\ IF f.content = VName(ver[r]) /\ f.inner = used[r]
        THEN Learn(r, Nm(idx[r]), f.content) ELSE UNCHANGED known
  /\ pc' = [pc EXCEPT ![r] = "closer"]
  /\ UNCHANGED <<scheme, pre, ver, split, proc, fs, tmp, idx, fd, used>>

CloseR(r) ==
  /\ pc[r] = "closer"
  /\ pc' = [pc EXCEPT ![r] = "done"]
  /\ lastOp' = Op(r, "closer", Nm(idx[r]), "ok", "")
  /\ UNCHANGED <<scheme, pre, ver, split, proc, known, fs, tmp, idx, fd, used, seen, res>>

RunStep(r) == \/ Begin(r)
              \/ Create(r) \/ Write(r) \/ Close(r)
              \/ MkTemp(r) \/ WriteTmp(r) \/ CloseTmp(r) \/ Link(r) \/ UnlinkTmp(r)
              \/ OpenR(r) \/ Read(r) \/ CloseR(r)
Next == \E r \in Runs : RunStep(r)
Spec == Init /\ [][Next]_vars

AllDone == \A r \in Runs : pc[r] \in {"done", "off"}

\* ------------------------------------------------------------------ invariants
TypeOK ==
  /\ scheme \in {"multiple", "single"}
  /\ \A r \in Runs : pc[r] \in {"off", "idle", "create", "write", "write2", "close",
                                "mktemp", "wtmp", "wtmp2", "ctmp", "link",
                                "unlinkp", "unlinkx", "openr", "read", "closer", "done"}
  /\ \A r \in Runs : res[r] \in {"off", "run", "ok", "error"}
  /\ \A r \in Runs : (fd[r] \notin {"", "tmp"}) => (fd[r] \in DOMAIN fs /\ fs[fd[r]].by = r)

InvWrittenByOne     == WrittenByOne(fs)
InvNamesInside      == NamesInside(fs)
InvNoPartialVerdict == NoPartialVerdict(seen, Active)

MultipleFresh ==
  scheme = "multiple" =>
    /\ WrittenByOne(fs)
    /\ NamesInside(fs)
    /\ AllDone => /\ MultipleAllWritten(res, Active)
                  /\ PsyUsesOwn(fs, ver, res, used, Active)
                  /\ AllComplete(fs)

SingleShared ==
  (scheme = "single" /\ AllDone) =>
    /\ SingleUsesSame(fs, ver, res, used, Active)
    /\ SingleOneFile(fs, res, used, Active)
    /\ SingleFailOnlyIfDifferent(fs, ver, pre, res, Active)
    /\ AllComplete(fs)
\* 'single', at every moment: the final file is complete whenever it exists (so
\* no reader can ever see it partially written) and nobody rewrites it
SingleStep == scheme = "single" =>
                 (WrittenByOne(fs) /\ NamesInside(fs) /\ AllComplete(fs))
\* model-level hygiene (not a property clause): no temporary file is left behind
TempsRemoved == AllDone => \A r \in Runs : tmp[r] = NoTmp

\* what a process remembers having written or verified is still on disk: a
\* memory keyed by name AND content could be trusted, one keyed by name alone
\* could not (another version may be presented under the same name)
MemorySound == \A p \in Runs : \A k \in known[p] :
                  k[1] \in DOMAIN fs /\ fs[k[1]].content = k[2]

\* every run terminates (no run waits for another one)
NoStuck == ~AllDone => \E r \in Runs : ENABLED RunStep(r)

\* ------------------------------------------- transition dump (binding A)
\* Printed with TLC's native ToString: only tuples, sets, strings and integers,
\* which the harness transliterates to JSON.
MaxTag == MaxRuns + 1
FsKey  == [t \in 1..(MaxTag + 1) |->
             IF Nm(t - 1) \in DOMAIN fs
             THEN LET f == fs[Nm(t - 1)] IN <<f.by, f.w, f.content, f.inner>>
             ELSE <<>>]
TmpKey == [r \in Runs |-> <<tmp[r].content, tmp[r].inner>>]
Abs  == <<scheme, pre, ver, FsKey, pc, idx, used, res, [r \in Runs |-> seen[r].c], TmpKey, split, proc>>
View == <<scheme, pre, ver, split, proc, known, fs, tmp, pc, idx, fd, used, seen, res>>
ViolatedClauses ==
   (IF ~MultipleFresh THEN {"MultipleFresh"} ELSE {}) \cup
   (IF ~SingleShared THEN {"SingleShared"} ELSE {}) \cup
   (IF ~SingleStep THEN {"SingleStep"} ELSE {}) \cup
   (IF ~InvNoPartialVerdict THEN {"NoPartialVerdict"} ELSE {})
OpKey(o) == <<o.run, o.call, o.name, o.res, o.cls>>
\* Which cases have their transitions printed (all cases are always CHECKED).
\* The quick configuration overrides DumpWanted <- DumpQuick: every case of one or
\* two runs with atomic writes, the two-run split-write cases that start from an
\* empty directory, and the three-run cases with versions <<1, 1, 2>> (every
\* assignment of the three runs to processes).
DumpWanted == TRUE
DumpQuick  == LET n == Cardinality(Active) IN
              \/ n <= 2 /\ (~split \/ (n = 2 /\ pre = 0))
              \/ n = 3 /\ ~split /\ ver = <<1, 1, 2>>
DumpTransition ==
   DumpWanted =>
      PrintT("EDGE " \o ToString(<<Abs, OpKey(lastOp'), Abs', ViolatedClauses'>>))
===============================================================================
