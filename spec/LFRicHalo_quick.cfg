CONSTANTS MaxH = 3
INIT Init
NEXT Next
INVARIANT NoDirtyRead
INVARIANT InvFlagSound
INVARIANT AnnexedStayClean
INVARIANT TypeOK
