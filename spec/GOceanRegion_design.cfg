CONSTANTS MaxN = 4
 Tier = "quick"
INIT InitDesign
NEXT NextDesign
INVARIANT InvWithinDepth1Halo
INVARIANT InvContainsInternal
INVARIANT InvNotBeyondDomain
INVARIANT InvInternalInAll
INVARIANT InvTInternalInAll
INVARIANT InvSynthNested
INVARIANT InvSynthDistinct
INVARIANT InvBoxLog
