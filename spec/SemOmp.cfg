INIT Init
NEXT Next
