\* vacuity check: a Copy that does not re-point loop variables is refuted.
CONSTANTS RepointRoles <- RolesNoLoopVar
 MaxEdits = 1
 MaxEditsFile = 1
 Wide = FALSE
 NewNames <- NamesQuick
 OpKinds <- AllOpKinds
 ProgIds <- AllProgs
 SimMode = FALSE
 LoopVarByName = FALSE
INIT Init
NEXT Next
INVARIANT InvAll
