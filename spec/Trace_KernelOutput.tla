-------------------------- MODULE Trace_KernelOutput --------------------------
(* C29, binding B: traces recorded from REAL concurrent PSyclone runs (threads *)
(* whose file-system calls in psyGen are serialised by the harness' shim) are  *)
(* validated against the actions of KernelOutput, and the property clauses of  *)
(* KernelOutput are evaluated over the recorded facts.                         *)
(*                                                                             *)
(* case  = [id, scheme, pre, ver, proc, split, nruns, fs0, events, fin]        *)
(* event = [run, call, name, res, cls, fs, tmps, stray]  (the directory        *)
(*          projected after the call: fs = final kernel files, list of [name,  *)
(*          by, w, content, inner]; tmps = temporary files, list of [by,       *)
(*          content, inner]; stray = number of other files)                    *)
(* fin   = per run [res: "ok"|"error"|"crash"|"off", used: tag named by the    *)
(*          generated PSy layer]                                               *)
(*                                                                             *)
(* A recorded step that is a step of KernelOutput!RunStep(run) with the same   *)
(* call, result and resulting directory is taken as that action.  Any other    *)
(* step is a DIVERGENCE: the recorded directory is adopted, the run is marked  *)
(* off-model, and only the property clauses judge it (no false alarm for an    *)
(* implementation that keeps the property in another way).                     *)
EXTENDS Naturals, Integers, Sequences, FiniteSets, TLC, Json, IOUtils

Cases == JsonDeserialize(IOEnv.PV_CASES)

VARIABLES scheme, pre, ver, split, proc, known, fs, tmp, pc, idx, fd, used, seen, res, lastOp  \* KernelOutput
VARIABLES cid, pos, off, fails, divs, tv
M == INSTANCE KernelOutput WITH MaxRuns <- 3, RunCounts <- {1, 2, 3},
        Schemes <- {"multiple", "single"}, Versions <- {1, 2}, PreChoices <- {0, 1, 2},
        SplitChoices <- BOOLEAN
mvars == <<scheme, pre, ver, split, proc, known, fs, tmp, pc, idx, fd, used, seen, res, lastOp>>
vars  == <<mvars, cid, pos, off, fails, divs, tv>>

TRange(s) == {s[i] : i \in DOMAIN s}
FsOf(l) == [n \in {l[i].name : i \in DOMAIN l} |->
              LET e == CHOOSE x \in TRange(l) : x.name = n IN
              [by |-> e.by, w |-> TRange(e.w), content |-> e.content, inner |-> e.inner]]
\* at most one temporary file per run is a model state; more is "stray"
TmpOf(l) == [r \in M!Runs |->
               IF \E x \in TRange(l) : x.by = r
               THEN LET e == CHOOSE x \in TRange(l) : x.by = r IN
                    [content |-> e.content, inner |-> e.inner]
               ELSE M!NoTmp]
TmpClean(l) == Cardinality({l[i].by : i \in DOMAIN l}) = Len(l)
OpOf(e) == [run |-> e.run, call |-> e.call, name |-> e.name, res |-> e.res, cls |-> e.cls]
RunsOf(c) == 1..c.nruns

StepFails(F, S, R) ==
   (IF ~M!WrittenByOne(F) THEN {"WrittenByOne"} ELSE {}) \cup
   (IF ~M!NamesInside(F) THEN {"NamesInside"} ELSE {}) \cup
   (IF ~M!NoPartialVerdict(S, R) THEN {"NoPartialVerdict"} ELSE {})

Init ==
  /\ cid \in 1..Len(Cases)
  /\ LET c == Cases[cid] IN
     /\ scheme = c.scheme /\ pre = c.pre /\ split = c.split
     /\ ver = [r \in M!Runs |-> c.ver[r]]
     /\ proc = [r \in M!Runs |-> c.proc[r]]
     /\ fs = FsOf(c.fs0)
     /\ pc = [r \in M!Runs |-> IF r > c.nruns THEN "off" ELSE "idle"]
     /\ res = [r \in M!Runs |-> IF r <= c.nruns THEN "run" ELSE "off"]
     \* the directory the runs start from must be the model's initial one
     /\ divs = IF FsOf(c.fs0) = (IF c.pre = 0 THEN <<>> ELSE
                   (M!Nm(0) :> [by |-> 0, w |-> {}, content |-> M!VName(c.pre), inner |-> 0]))
               THEN 0 ELSE 1
  /\ tmp = [r \in M!Runs |-> M!NoTmp]
  /\ known = [p \in M!Runs |-> {}]
  /\ idx = [r \in M!Runs |-> 0]
  /\ fd = [r \in M!Runs |-> ""]
  /\ used = [r \in M!Runs |-> -1]
  /\ seen = [r \in M!Runs |-> M!NoSeen]
  /\ lastOp = M!Op(0, "init", "", "", "")
  /\ pos = 1 /\ off = [r \in M!Runs |-> FALSE] /\ fails = {} /\ tv = "run"

\* the recorded step IS the model's step of that run
Conform(e) ==
  /\ ~off[e.run]
  /\ e.stray = 0 /\ TmpClean(e.tmps)
  /\ M!RunStep(e.run)
  /\ lastOp' = OpOf(e)
  /\ fs' = FsOf(e.fs)
  /\ tmp' = TmpOf(e.tmps)

Event ==
  /\ tv = "run" /\ pos <= Len(Cases[cid].events)
  /\ LET c == Cases[cid]
         e == c.events[pos] IN
     /\ \/ /\ Conform(e)
           /\ UNCHANGED <<off, divs>>
        \/ /\ ~ENABLED Conform(e)
           /\ fs' = FsOf(e.fs)                       \* continue from the real directory
           /\ tmp' = TmpOf(e.tmps)
           /\ lastOp' = OpOf(e)
           /\ off' = [off EXCEPT ![e.run] = TRUE]
           /\ divs' = divs + (IF off[e.run] THEN 0 ELSE 1)
           /\ seen' = IF e.call = "read" /\ e.name \in DOMAIN fs
                      THEN [seen EXCEPT ![e.run] =
                              [c |-> e.cls, inner |-> fs[e.name].inner, by |-> fs[e.name].by,
                               bypc |-> IF fs[e.name].by \in M!Runs
                                        THEN pc[fs[e.name].by] ELSE "done"]]
                      ELSE seen
           /\ UNCHANGED <<scheme, pre, ver, split, proc, known, pc, idx, fd, used, res>>
     /\ fails' = fails \cup StepFails(fs', seen', RunsOf(c))
     /\ pos' = pos + 1
     /\ UNCHANGED <<cid, tv>>

\* all events consumed: the end-of-run clauses over the RECORDED verdicts, the
\* RECORDED PSy layers and the final RECORDED directory
Final ==
  /\ tv = "run" /\ pos = Len(Cases[cid].events) + 1
  /\ LET c  == Cases[cid]
         R  == RunsOf(c)
         rs == [r \in M!Runs |-> c.fin[r].res]
         us == [r \in M!Runs |-> c.fin[r].used]
         endfails ==
           IF scheme = "multiple"
           THEN (IF ~M!MultipleAllWritten(rs, R) THEN {"MultipleAllWritten"} ELSE {}) \cup
                (IF ~M!PsyUsesOwn(fs, ver, rs, us, R) THEN {"PsyUsesOwn"} ELSE {}) \cup
                (IF ~M!AllComplete(fs) THEN {"AllComplete"} ELSE {})
           ELSE (IF ~M!SingleUsesSame(fs, ver, rs, us, R) THEN {"SingleUsesSame"} ELSE {}) \cup
                (IF ~M!SingleOneFile(fs, rs, us, R) THEN {"SingleOneFile"} ELSE {}) \cup
                (IF ~M!SingleFailOnlyIfDifferent(fs, ver, pre, rs, R)
                 THEN {"SingleFailOnlyIfDifferent"} ELSE {}) \cup
                (IF ~M!AllComplete(fs) THEN {"AllComplete"} ELSE {})
         allfails == fails \cup endfails
         \* does the model agree with the recorded end of every on-model run?
         enddiv == Cardinality({r \in R : ~off[r] /\
                        ~(/\ pc[r] = "done" /\ res[r] = rs[r]
                          /\ (rs[r] = "ok" => used[r] = us[r]))})
     IN
     /\ fails' = allfails
     /\ divs' = divs + enddiv
     /\ tv' = IF allfails = {} THEN "ok" ELSE "fail"
     /\ (allfails # {}) =>
           PrintT("VERDICT " \o ToJson([id |-> c.id, v |-> allfails,
                     w |-> [seen |-> seen, res |-> rs, used |-> us, ver |-> ver,
                            fs |-> fs, off |-> off, divs |-> divs + enddiv]]))
     /\ (divs + enddiv > 0) =>
           PrintT("DIVERGE " \o ToJson([id |-> c.id, divs |-> divs + enddiv, off |-> off,
                                         mres |-> res, mused |-> used, mpc |-> pc]))
  /\ UNCHANGED <<mvars, cid, pos, off>>

Next == Event \/ Final
Spec == Init /\ [][Next]_vars
===============================================================================
