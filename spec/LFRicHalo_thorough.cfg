CONSTANTS MaxH = 4
INIT Init
NEXT Next
INVARIANT NoDirtyRead
INVARIANT InvFlagSound
INVARIANT AnnexedStayClean
INVARIANT TypeOK
