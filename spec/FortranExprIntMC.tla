--------------------------- MODULE FortranExprIntMC ---------------------------
(* Design-level check of the integer semantics of FortranExpr (used by C17):   *)
(* for ALL a, b in -M..M the defining laws of Fortran integer division         *)
(* (F2008 7.1.5.2.2: truncation toward zero), MOD (13.7.110: a - INT(a/b)*b,  *)
(* sign of a), ** and MIN/MAX hold for TDiv, FMod, IPow, IMin, IMax, and       *)
(* EvalInt computes them for the corresponding trees.                          *)
EXTENDS FortranExpr
CONSTANT M
VARIABLES a, b

Init == a \in (0 - M)..M /\ b \in (0 - M)..M
Next == UNCHANGED <<a, b>>

DivLaw == b # 0 =>
  /\ a = b * TDiv(a, b) + FMod(a, b)
  /\ IAbs(FMod(a, b)) < IAbs(b)
  /\ (FMod(a, b) = 0 \/ ISgn(FMod(a, b)) = ISgn(a))          \* sign of the dividend
  /\ IAbs(TDiv(a, b)) * IAbs(b) <= IAbs(a)                   \* toward zero
  /\ TDiv(0 - a, b) = 0 - TDiv(a, b)
PowLaw ==
  /\ (b >= 0 /\ IAbs(a) <= 5 /\ b <= 5 /\ ~(a = 0 /\ b = 0)) =>
        IPow(a, b + 1) = Val(a * IPow(a, b).v)
  /\ (b < 0 /\ IAbs(a) >= 2) => IPow(a, b) = Val(0)
  /\ (b < 0 /\ a = 0) => IPow(a, b) = Undef
  /\ IPow(a, 1) = Val(a)
MinMaxLaw == /\ IMin(a, b) <= a /\ IMin(a, b) <= b /\ IMin(a, b) \in {a, b}
             /\ IMax(a, b) >= a /\ IMax(a, b) >= b /\ IMax(a, b) \in {a, b}
             /\ IMin(a, b) + IMax(a, b) = a + b

V == [x |-> [n \in {"i", "j"} |-> IF n = "i" THEN a ELSE b], fn |-> 1]
Ri == MkRef("i")
Rj == MkRef("j")
Call2(f) == MkDes(<<MkPart(f, 1, <<Ri, Rj>>)>>)
EvalLaw ==
  /\ EvalInt(MkBin("/", Ri, Rj), V) = (IF b = 0 THEN Undef ELSE Val(TDiv(a, b)))
  /\ EvalInt(Call2("mod"), V) = (IF b = 0 THEN Undef ELSE Val(FMod(a, b)))
  /\ EvalInt(Call2("min"), V) = Val(IMin(a, b))
  /\ EvalInt(Call2("max"), V) = Val(IMax(a, b))
  /\ EvalInt(MkBin("-", MkUn("-", Ri), Rj), V) = Val(0 - a - b)
  /\ EvalInt(MkBin("*", MkBin("/", Ri, MkLit("int", "2", "")), MkLit("int", "2", "")), V)
       = Val(a - FMod(a, 2))
  /\ EvalInt(MkDes(<<MkPart("ia", 1, <<MkBin("+", Ri, Rj)>>)>>), V) = Val(a + b)
  /\ EvalInt(MkBin("exdiv", Ri, Rj), V)
       = (IF b = 0 THEN Undef ELSE IF FMod(a, b) # 0 THEN Undef ELSE Val(TDiv(a, b)))
  /\ EvalInt(MkLit("real", "1.0", ""), V) = Unsup
  /\ ~ IsIntTree(MkLit("real", "1.0", ""), {"i", "j"})
  /\ ~ IsIntTree(MkBin("<", Ri, Rj), {"i", "j"}) /\ ~ IsIntTree(Ri, {"j"})
  /\ IsIntTree(Call2("mod"), {"i", "j"}) /\ IsIntTree(MkBin("exdiv", Ri, Rj), {"i", "j"})
===============================================================================
