\* long pseudo-random histories (generator mode, see GenNext)
CONSTANT Universe <- EnvUniverse
INIT GenInit
NEXT GenNext
INVARIANT TypeOK
INVARIANT ParentChildAgree
INVARIANT ValidAtPosition
INVARIANT Acyclic
