CONSTANTS MaxN = 4
 Tier = "thorough"
INIT InitGen
NEXT NextGen
