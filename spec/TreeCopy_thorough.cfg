CONSTANTS RepointRoles <- AllRoles
 MaxEdits = 2
 MaxEditsFile = 2
 Wide = TRUE
 NewNames <- NamesThorough
 OpKinds <- AllOpKinds
 ProgIds <- AllProgs
 SimMode = FALSE
 LoopVarByName = FALSE
INIT Init
NEXT Next
INVARIANT InvAll
INVARIANT DumpHist
