CONSTANTS RepointRoles <- AllRoles
 MaxEdits = 2
 MaxEditsFile = 2
 InsertFront = TRUE
 NewNames <- NamesThorough
 OpKinds <- AllOpKinds
 ProgIds <- AllProgs
 SimMode = FALSE
INIT Init
NEXT Next
INVARIANT InvAll
INVARIANT DumpHist
