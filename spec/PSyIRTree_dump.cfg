\* binding A: model-check the universe given by $PV_UNIVERSE and dump every
\* labelled transition (run with -workers 1: strict BFS order)
CONSTANT Universe <- EnvUniverse
INIT Init
NEXT Next
VIEW Abs
INVARIANT TypeOK
INVARIANT ParentChildAgree
INVARIANT ValidAtPosition
INVARIANT Acyclic
INVARIANT ParentDetermined
PROPERTY RefusalAtomic
ACTION_CONSTRAINT DumpTransition
