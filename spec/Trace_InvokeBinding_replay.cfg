INIT Init
NEXT Step
INVARIANT InvAgree
