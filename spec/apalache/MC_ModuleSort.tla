--------------------------- MODULE MC_ModuleSort ---------------------------
(* Apalache: the invariants of ModuleSort!Pick are INDUCTIVE for every       *)
(* dependency map over NMods modules (deps is symbolic), with acyclicity of  *)
(* the known-dependency graph witnessed by a rank function.                  *)
(*   apalache-mc check --init=Init    --inv=IndInv --length=0                *)
(*   apalache-mc check --init=IndInit --inv=Goal   --length=1                *)
EXTENDS Integers, Sequences, FiniteSets, Apalache

NMods == 4
Mods == 0..(NMods - 1)

VARIABLES
  \* @type: Int -> Set(Int);
  deps,
  \* @type: Seq(Int);
  sorted,
  \* @type: Int -> Int;
  rank

Known(m) == deps[m] \intersect Mods
SortedSet == {sorted[i] : i \in DOMAIN sorted}
Ready(m) == Known(m) \subseteq SortedSet
CanPick(m) == /\ m \in Mods \ SortedSet
              /\ \/ Ready(m)
                 \/ ~ \E x \in Mods \ SortedSet : Ready(x)

RankOK == /\ \A m \in Mods : rank[m] \in 0..(NMods - 1)
          /\ \A m \in Mods : \A d \in Known(m) : rank[d] < rank[m]

TypeOK == /\ DOMAIN deps = Mods
          /\ DOMAIN rank = Mods
          /\ \A m \in Mods : deps[m] \subseteq 0..NMods
          /\ Len(sorted) <= NMods
          /\ \A i \in DOMAIN sorted : sorted[i] \in Mods

NoDup == \A i, j \in DOMAIN sorted : i # j => sorted[i] # sorted[j]
PrefixDeps == \A i \in DOMAIN sorted :
                 \A d \in Known(sorted[i]) : \E j \in DOMAIN sorted : j < i /\ sorted[j] = d

IndInv == TypeOK /\ RankOK /\ NoDup /\ PrefixDeps

IndInit == /\ deps = Gen(NMods + 1)
           /\ rank = Gen(NMods)
           /\ sorted = Gen(NMods)
           /\ IndInv

Init == /\ deps \in [Mods -> SUBSET (0..NMods)]
        /\ rank \in [Mods -> 0..(NMods - 1)]
        /\ RankOK
        /\ sorted = <<>>

Next == \E m \in Mods : /\ CanPick(m)
                        /\ sorted' = Append(sorted, m)
                        /\ UNCHANGED <<deps, rank>>

Done == Len(sorted) = NMods
Permutation == Done => SortedSet = Mods
NoStuck == ~Done => \E m \in Mods : CanPick(m)
Goal == IndInv /\ Permutation /\ NoStuck
=============================================================================
