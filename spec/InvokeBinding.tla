---------------------------- MODULE InvokeBinding ----------------------------
(* C24 - algorithm call  <->  PSy routine  <->  kernel argument data flow.   *)
(*                                                                            *)
(* Part 1: texts, canonical data objects and the agreement clauses.           *)
(* Part 2: Gen - the bounded family of invoke shapes (TLC enumerates it and   *)
(*         prints one JSON line per shape; the harness renders each to a real *)
(*         algorithm file).                                                   *)
(* Part 3: a reference generator (state machine) that builds the two          *)
(*         de-duplicated lists from an invoke with configurable keys; it      *)
(*         satisfies the clauses iff both keys are the canonical text.        *)
(*                                                                            *)
(* A text is a sequence of character codes (0..255).                          *)
EXTENDS Naturals, Sequences, FiniteSets, TLC, Json

\* ------------------------------------------------------------------ Part 1
IsBlank(c) == c = 32 \/ c = 9
LowerC(c)  == IF c >= 65 /\ c <= 90 THEN c + 32 ELSE c
\* the data object a text denotes: case- and blank-insensitive, index and
\* component preserving:  Canon("st % FV( 1 )") = "st%fv(1)"
Canon(t) == LET nb == SelectSeq(t, LAMBDA c : ~ IsBlank(c))
            IN  [i \in 1..Len(nb) |-> LowerC(nb[i])]

IsDigit(c) == c >= 48 /\ c <= 57
\* a literal (1.0, 2.0_r_def, -1, .5): denotes a value, not a data object
\* x_direction / y_direction: named constants of the LFRic infrastructure (the
\* stencil directions); like literals they are not passed through the routine
cXDir == <<120, 95, 100, 105, 114, 101, 99, 116, 105, 111, 110>>
cYDir == <<121, 95, 100, 105, 114, 101, 99, 116, 105, 111, 110>>
IsLiteralText(t) == LET c == Canon(t) IN
    /\ Len(c) > 0
    /\ \/ IsDigit(c[1])
       \/ /\ c[1] \in {43, 45, 46}          \* + - .
          /\ Len(c) > 1
       \/ c \in {cXDir, cYDir}

\* kernel argument provenance: [t |-> "d", n |-> dummy name]  (data taken from
\* that PSy dummy) or [t |-> "l", v |-> literal text]
IsDummyArg(ka) == ka.t = "d"

\* first position of the dummy called n (0 = not a dummy of the routine)
PosOf(n, dums) ==
    LET S == {i \in DOMAIN dums : Canon(dums[i]) = Canon(n)}
    IN  IF S = {} THEN 0 ELSE CHOOSE i \in S : \A j \in S : i <= j

SameLength(acts, dums)   == Len(acts) = Len(dums)
NoDuplicateDummies(dums) == \A i, j \in DOMAIN dums :
                               i # j => Canon(dums[i]) # Canon(dums[j])

\* one kernel argument: the clause it breaks, "ok" if none
BindVerdict(acts, dums, ka, orig) ==
    IF IsDummyArg(ka)
    THEN LET p == PosOf(ka.n, dums) IN
         IF p = 0 THEN "KernelArgNotADummy"
         ELSE IF p > Len(acts) THEN "NoActualForDummy"
         ELSE IF Canon(acts[p]) # Canon(orig) THEN "DataFlow"
         ELSE "ok"
    ELSE IF ~ IsLiteralText(orig) THEN "LiteralForVariable"
         ELSE IF Canon(ka.v) # Canon(orig) THEN "LiteralAgree"
         ELSE "ok"

\* the whole property for one invoke.  kargs[k][j], orig[k][j]: k-th kernel
\* call, j-th argument
KernelArgsAgree(acts, dums, kargs, orig) ==
    \A k \in DOMAIN kargs : \A j \in DOMAIN kargs[k] :
        BindVerdict(acts, dums, kargs[k][j], orig[k][j]) = "ok"
Agree(acts, dums, kargs, orig) ==
    /\ SameLength(acts, dums)
    /\ NoDuplicateDummies(dums)
    /\ KernelArgsAgree(acts, dums, kargs, orig)

\* every actual is (canonically) something written in the invoke
ActualsFromInvoke(acts, orig) ==
    \A i \in DOMAIN acts : \E k \in DOMAIN orig : \E j \in DOMAIN orig[k] :
        Canon(acts[i]) = Canon(orig[k][j])

\* routine names: the algorithm calls a routine the PSy module defines, once
NameDefined(call, subs) ==
    Cardinality({i \in DOMAIN subs : Canon(subs[i]) = Canon(call)}) = 1

\* kinds of invoke arguments (okinds[k][j], from the kernel signature) and the
\* Fortran type class a dummy must be declared with for argument association
KindClass(kind) == CASE kind = "field" -> "field"
                     [] kind = "real"  -> "real"
                     [] kind \in {"int", "extent", "dir"} -> "integer"
                     [] kind = "qr"    -> "qr"       \* quadrature_xyoz_type
                     [] kind = "qrf"   -> "qrf"      \* quadrature_face_type
                     [] kind = "qre"   -> "qre"      \* quadrature_edge_type
                     [] OTHER -> "other"
KindsOfText(t, orig, okinds) ==
    {okinds[k][j] : <<k, j>> \in {<<k, j>> \in (DOMAIN orig) \X (1..20) :
                                    j \in DOMAIN orig[k] /\ Canon(orig[k][j]) = Canon(t)}}
\* position i of the call: the declared type class of the i-th dummy is the
\* class of the object written as the i-th actual (undecided if that text is
\* not an invoke argument: ActualsFromInvoke reports it)
TypeOKAt(i, acts, dtypes, orig, okinds) ==
    LET ks == KindsOfText(acts[i], orig, okinds) IN
    ks = {} \/ \E kd \in ks : KindClass(kd) = dtypes[i]
TypeMismatches(acts, dtypes, orig, okinds) ==
    {i \in (DOMAIN acts) \cap (DOMAIN dtypes) : ~ TypeOKAt(i, acts, dtypes, orig, okinds)}

\* the model's prediction (not required by the property; a difference is a
\* divergence): data objects in order of first appearance, the stencil
\* extents, stencil directions and quadrature objects after everything else
RECURSIVE FirstOccs(_, _)
FirstOccs(ts, seen) ==
    IF ts = <<>> THEN <<>>
    ELSE LET c == Canon(ts[1]) IN
         IF IsLiteralText(ts[1]) \/ c \in seen THEN FirstOccs(Tail(ts), seen)
         ELSE <<c>> \o FirstOccs(Tail(ts), seen \cup {c})
RECURSIVE Flatten(_)
Flatten(ss) == IF ss = <<>> THEN <<>> ELSE ss[1] \o Flatten(Tail(ss))
GroupOf(kind) == CASE kind = "extent" -> 2 [] kind = "dir" -> 3
                   [] kind \in {"qr", "qrf", "qre"} -> 4
                   [] OTHER -> 1
RECURSIVE PickGroup(_, _, _)
PickGroup(ts, ks, g) ==
    IF ts = <<>> THEN <<>>
    ELSE (IF GroupOf(ks[1]) = g THEN <<ts[1]>> ELSE <<>>)
         \o PickGroup(Tail(ts), Tail(ks), g)
Grouped(ts, ks) == PickGroup(ts, ks, 1) \o PickGroup(ts, ks, 2)
                   \o PickGroup(ts, ks, 3) \o PickGroup(ts, ks, 4)
PredictedActuals(orig, okinds) ==
    FirstOccs(Grouped(Flatten(orig), Flatten(okinds)), {})

\* ------------------------------------------------------------------ Part 2
\* names of the universe (character codes)
nF1 == <<102, 49>>            \* f1
nF2 == <<102, 50>>            \* f2
nM1 == <<109, 49>>            \* m1
nM2 == <<109, 50>>            \* m2
nM3 == <<109, 51>>            \* m3
nFv == <<102, 118>>           \* fv   (array of 2 fields)
nSt == <<115, 116>>           \* st   (derived type: f1, fv(2), x1, xv(2))
nP  == <<112>>                \* p    (derived type: q, x)
nQ  == <<113>>                \* q
nX  == <<120>>                \* x
nPq == <<112, 95, 113>>       \* p_q  (a field: underscore-similar to p%q)
nPx == <<112, 95, 120>>       \* p_x  (a scalar: underscore-similar to p%x)
nX1 == <<120, 49>>            \* x1
nXv == <<120, 118>>           \* xv   (array of 2 real scalars)
Lit1 == <<49, 46, 48>>                               \* 1.0
Lit2 == <<50, 46, 48, 95, 114, 95, 100, 101, 102>>   \* 2.0_r_def

Up(t) == [i \in DOMAIN t |-> IF t[i] >= 97 /\ t[i] <= 122 THEN t[i] - 32 ELSE t[i]]
Sp(b) == IF b THEN <<32>> ELSE <<>>
Elem(t, d, sp)  == t \o <<40>> \o Sp(sp) \o <<48 + d>> \o Sp(sp) \o <<41>>   \* t(d)
Comp(a, b, sp)  == a \o Sp(sp) \o <<37>> \o Sp(sp) \o b                      \* a%b

FieldU == <<
    nF1, Up(nF1), nF2,
    Elem(nFv, 1, FALSE), Elem(nFv, 1, TRUE), Elem(Up(nFv), 2, FALSE),
    Comp(nSt, nF1, FALSE), Comp(nSt, Up(nF1), TRUE),
    Comp(nSt, Elem(nFv, 1, TRUE), TRUE), Comp(Up(nSt), Elem(Up(nFv), 1, FALSE), FALSE),
    Comp(nSt, Elem(nFv, 2, FALSE), FALSE),
    nPq, Comp(nP, nQ, FALSE) >>
ScalarU == <<
    nX1, Up(nX1), Comp(nSt, nX1, FALSE), Comp(nSt, Up(nX1), TRUE),
    Elem(nXv, 1, FALSE), Elem(Up(nXv), 1, TRUE), Elem(nXv, 2, FALSE),
    nPx, Comp(nP, nX, FALSE),
    Lit1, Lit2 >>
NameU == <<
    <<>>,                                                    \* unnamed
    <<97, 95, 110, 97, 109, 101>>,                           \* a_name
    <<77, 105, 120, 101, 100, 95, 67, 97, 115, 101>>,        \* Mixed_Case
    <<105, 110, 118, 111, 107, 101, 95, 112, 114, 101>>,     \* invoke_pre
    <<105, 110, 118, 111, 107, 101, 122>>,                   \* invokez
    <<>> >>                                                  \* unnamed (again)

NF == Len(FieldU)
NS == Len(ScalarU)
NN == Len(NameU)
At(seq, i) == seq[(i % Len(seq)) + 1]                        \* 0-based, cyclic

\* kernel signatures: the kind of every invoke argument
Sig(k) ==
    CASE k = "tk5" -> <<"real", "field", "field", "field", "field">>
      [] k \in {"tk2", "setval_x", "gcopy"} -> <<"field", "field">>
      [] k = "setval_c" -> <<"field", "real">>
      [] k \in {"inc_a_times_x", "gssh"} -> <<"real", "field">>
      [] k = "x_plus_y" -> <<"field", "field", "field">>
      [] k = "tks" -> <<"field", "field", "extent", "field", "field">>
      [] k = "tkx" -> <<"field", "field", "extent", "dir", "field", "field">>
      [] k = "tkq" -> <<"field", "field", "field", "real", "field", "int", "qr">>
KCall(k, args) == [k |-> k, args |-> args, kinds |-> Sig(k)]
Inv(name, calls) == [name |-> name, calls |-> calls]

\* --- pair family: every ordered pair (u, v) of field texts in 4 templates
PairShape(i) ==
    LET u == At(FieldU, i)
        v == At(FieldU, i \div NF)
        t == (i \div (NF * NF)) % 4
        a == At(ScalarU, i)
        b == At(ScalarU, (i \div 3) + 5)
        calls ==
          CASE t = 0 -> << KCall("tk5", <<a, u, nM1, v, nM2>>) >>
            [] t = 1 -> << KCall("setval_c", <<u, b>>),
                           KCall("tk5", <<a, nM1, v, nM2, u>>) >>
            [] t = 2 -> << KCall("setval_x", <<u, nM1>>),
                           KCall("setval_x", <<nM2, v>>),
                           KCall("inc_a_times_x", <<a, u>>) >>
            [] OTHER -> << KCall("tk2", <<u, nM1>>),
                           KCall("x_plus_y", <<nM2, v, u>>),
                           KCall("setval_c", <<v, b>>) >>
    IN [fam |-> "pair", api |-> "lfric", idx |-> i,
        invokes |-> << Inv(At(NameU, i \div 7), calls) >>]
NPair == NF * NF * 4

\* --- scalar family: every ordered pair (a, b) of scalar texts in 2 templates
ScalarShape(i) ==
    LET a == At(ScalarU, i)
        b == At(ScalarU, i \div NS)
        t == (i \div (NS * NS)) % 2
        u == At(FieldU, i)
        calls ==
          IF t = 0
          THEN << KCall("inc_a_times_x", <<a, nM1>>),
                  KCall("setval_c", <<nM2, b>>),
                  KCall("tk5", <<a, u, nM1, nM2, nM3>>) >>
          ELSE << KCall("tk5", <<a, nM1, nM2, u, nM3>>),
                  KCall("setval_c", <<Up(nM1), b>>),
                  KCall("inc_a_times_x", <<b, u>>) >>
    IN [fam |-> "scalar", api |-> "lfric", idx |-> i,
        invokes |-> << Inv(At(NameU, i \div 5), calls) >>]
NScalar == NS * NS * 2

\* --- two-invoke family: every pair of names x 3 x 3 invoke forms
Form(f, u, v, a) ==
    CASE f = 0 -> << KCall("tk2", <<u, v>>) >>                 \* one user kernel
      [] f = 1 -> << KCall("setval_c", <<u, a>>) >>            \* one built-in
      [] OTHER -> << KCall("setval_x", <<v, u>>), KCall("tk2", <<nM1, v>>) >>
DoubleShape(i) ==
    LET n1 == At(NameU, i)
        n2 == At(NameU, i \div NN)
        f1 == (i \div (NN * NN)) % 3
        f2 == (i \div (NN * NN * 3)) % 3
        u  == At(FieldU, i)
        v  == At(FieldU, (i \div 2) + 6)
        a  == At(ScalarU, i)
    IN [fam |-> "double", api |-> "lfric", idx |-> i,
        invokes |-> << Inv(n1, Form(f1, u, nM2, a)), Inv(n2, Form(f2, v, u, a)) >>]
NDouble == NN * NN * 9

\* --- extra family: stencil extents / directions and quadrature objects mixed
\* with plain kernels and built-ins in one invoke, in varying order
\* (tks = testkern_stencil_type(f, f[cross stencil], extent, f, f),
\*  tkx = testkern_stencil_xory1d_type(f, f[xory1d], extent, direction, f, f),
\*  tkq = testkern_qr_type(f, f, f, real, f, integer, qr))
nN1 == <<110, 49>>            \* n1   integer
nN2 == <<110, 50>>            \* n2
nNv == <<110, 118>>           \* nv   integer array (2)
nD1 == <<100, 49>>            \* d1   integer (a direction)
nI1 == <<105, 49>>            \* i1   integer
nQr == <<113, 114>>           \* qr   quadrature_xyoz_type
nQr2 == <<113, 114, 50>>      \* qr2
ExtU == << nN1, Up(nN1), nN2, Comp(nSt, nN1, FALSE), Comp(nSt, Up(nN1), TRUE),
           Elem(nNv, 1, FALSE), Elem(nNv, 2, TRUE), <<50>> >>           \* .., literal 2
DirU == << nD1, Up(nD1), Comp(nSt, nD1, FALSE), cXDir, cYDir >>
QrU  == << nQr, Up(nQr), nQr2, Comp(nSt, nQr, FALSE) >>
IntU == << nI1, Up(nI1), Comp(nSt, nI1, FALSE), <<51>> >>               \* .., literal 3
ExtraShape(i) ==
    LET e1 == At(ExtU, i)
        e2 == At(ExtU, (i \div 8) + 3)
        d  == At(DirU, i \div 3)
        q1 == At(QrU, i \div 2)
        q2 == At(QrU, (i \div 5) + 1)
        a  == At(ScalarU, i)
        n  == At(IntU, i \div 7)
        u  == At(FieldU, i \div 11)
        sv == (i \div 8) % 3
        qv == (i \div 24) % 3
        pv == (i \div 72) % 3
        ov == (i \div 216) % 3
        S  == CASE sv = 0 -> << KCall("tks", <<nM1, u, e1, nM2, nM3>>) >>
                [] sv = 1 -> << KCall("tkx", <<nM1, u, e1, d, nM2, nM3>>) >>
                [] OTHER  -> << KCall("tks", <<nM1, u, e1, nM2, nM3>>),
                                KCall("tkx", <<nM2, nF2, e2, d, nM1, nM3>>) >>
        Q  == CASE qv = 0 -> << KCall("tkq", <<nM1, nM2, nF2, a, nM3, n, q1>>) >>
                [] qv = 1 -> << KCall("tkq", <<nM1, nM2, nF2, a, nM3, n, q1>>),
                                KCall("tkq", <<nM2, nM1, nF2, a, nM3, n, q2>>) >>
                [] OTHER  -> << KCall("tkq", <<nM1, nM2, nF2, a, nM3, n, q1>>),
                                KCall("tks", <<nM3, nF2, e2, nM1, nM2>>) >>
        P  == CASE pv = 0 -> << KCall("tk2", <<nM1, u>>) >>
                [] pv = 1 -> << KCall("setval_c", <<u, a>>) >>
                [] OTHER  -> << >>
        calls == CASE ov = 0 -> S \o Q \o P
                   [] ov = 1 -> Q \o S \o P
                   [] OTHER  -> P \o Q \o S
    IN [fam |-> "extra", api |-> "lfric", idx |-> i,
        invokes |-> << Inv(At(NameU, i \div 4), calls) >>]
NExtra == 8 * 3 * 3 * 3 * 3

\* --- quadrature-order family: kernels with two and three quadrature shapes
\* listed in every order in their metadata (gh_shape), invoked with distinct
\* quadrature objects; kernel "q_ef" = 4 fields + gh_shape = (/edge, face/).
\* The kernels are variants of testkern_2qr_mod written by the harness.
nQf == <<113, 102>>           \* qf   quadrature_face_type
nQe == <<113, 101>>           \* qe   quadrature_edge_type
QOrders == << <<"e","f">>, <<"f","e">>, <<"x","e">>, <<"e","x">>, <<"x","f">>, <<"f","x">>,
              <<"x","f","e">>, <<"x","e","f">>, <<"f","x","e">>, <<"f","e","x">>,
              <<"e","x","f">>, <<"e","f","x">> >>
RECURSIVE JoinStr(_)
JoinStr(ss) == IF ss = <<>> THEN "" ELSE ss[1] \o JoinStr(Tail(ss))
QKind(l) == CASE l = "x" -> "qr" [] l = "f" -> "qrf" [] OTHER -> "qre"
QObj(l, up) == LET t == CASE l = "x" -> nQr [] l = "f" -> nQf [] OTHER -> nQe
               IN IF up THEN Up(t) ELSE t
QCall(ord, up) ==
    [k |-> "q_" \o JoinStr(ord),
     args |-> <<nM1, nM2, nF2, nM3>> \o [i \in DOMAIN ord |-> QObj(ord[i], up /\ i = 1)],
     kinds |-> <<"field", "field", "field", "field">> \o [i \in DOMAIN ord |-> QKind(ord[i])]]
QOrderShape(i) ==
    LET ord == At(QOrders, i)
        v   == (i \div 12) % 3
        calls == CASE v = 0 -> << QCall(ord, FALSE) >>
                   [] v = 1 -> << KCall("tks", <<nM1, nF2, nN1, nM2, nM3>>), QCall(ord, TRUE) >>
                   [] OTHER -> << QCall(ord, FALSE),
                                  KCall("tkq", <<nM1, nM2, nF2, nX1, nM3, nI1, nQr2>>),
                                  KCall("setval_c", <<nF1, nX1>>) >>
    IN [fam |-> "qorder", api |-> "lfric", idx |-> i,
        invokes |-> << Inv(At(NameU, i \div 5), calls) >>]
NQOrder == 36

\* --- GOcean families (kernels: gcopy(f, f), gssh(s, f))
LitGo == <<50, 46, 48, 95, 103, 111, 95, 119, 112>>          \* 2.0_go_wp
GoScalarU == [i \in DOMAIN ScalarU |-> IF ScalarU[i] = Lit2 THEN LitGo ELSE ScalarU[i]]
GoPairShape(i) ==
    LET u == At(FieldU, i)
        v == At(FieldU, i \div NF)
        t == (i \div (NF * NF)) % 2
        a == At(GoScalarU, i)
        calls ==
          IF t = 0
          THEN << KCall("gcopy", <<u, nM1>>), KCall("gssh", <<a, nM2>>),
                  KCall("gcopy", <<v, u>>) >>
          ELSE << KCall("gssh", <<a, u>>), KCall("gcopy", <<nM1, v>>),
                  KCall("gcopy", <<nM2, u>>) >>
    IN [fam |-> "gopair", api |-> "gocean", idx |-> i,
        invokes |-> << Inv(At(NameU, i \div 7), calls) >>]
NGoPair == NF * NF * 2
GoScalarShape(i) ==
    LET a == At(GoScalarU, i)
        b == At(GoScalarU, i \div NS)
        u == At(FieldU, i)
    IN [fam |-> "goscalar", api |-> "gocean", idx |-> i,
        invokes |-> << Inv(At(NameU, i \div 5),
                           << KCall("gssh", <<a, nM1>>), KCall("gssh", <<b, nM2>>),
                              KCall("gcopy", <<u, nM1>>) >>),
                       Inv(At(NameU, i \div 3), << KCall("gssh", <<b, nM1>>) >>) >>]
NGoScalar == NS * NS

CONSTANTS Api,                    \* "lfric" | "gocean" | "all"
          Stride, Offset          \* thinning of the family: every Stride-th shape
NLfric  == NPair + NScalar + NDouble + NExtra + NQOrder
NGocean == NGoPair + NGoScalar
LfricShape(n) ==
    IF n < NPair THEN PairShape(n)
    ELSE IF n < NPair + NScalar THEN ScalarShape(n - NPair)
    ELSE IF n < NPair + NScalar + NDouble THEN DoubleShape(n - NPair - NScalar)
    ELSE IF n < NPair + NScalar + NDouble + NExtra
         THEN ExtraShape(n - NPair - NScalar - NDouble)
    ELSE QOrderShape(n - NPair - NScalar - NDouble - NExtra)
GoceanShape(n) == IF n < NGoPair THEN GoPairShape(n) ELSE GoScalarShape(n - NGoPair)
NShapes == CASE Api = "lfric" -> NLfric [] Api = "gocean" -> NGocean
             [] OTHER -> NLfric + NGocean
ShapeAt(n) ==                      \* n in 0..NShapes-1
    CASE Api = "lfric" -> LfricShape(n)
      [] Api = "gocean" -> GoceanShape(n)
      [] OTHER -> IF n < NLfric THEN LfricShape(n) ELSE GoceanShape(n - NLfric)
\* the extra family (expensive kernels) is thinned twice as much when thinning
IsExtra(n) == Api # "gocean" /\ n >= NPair + NScalar + NDouble
              /\ n < NPair + NScalar + NDouble + NExtra
\* the (small) quadrature-order family is never thinned
IsQOrder(n) == Api # "gocean" /\ n >= NPair + NScalar + NDouble + NExtra /\ n < NLfric
StrideOf(n) == IF IsQOrder(n) THEN 1
               ELSE IF IsExtra(n) /\ Stride > 1 THEN 2 * Stride ELSE Stride
ShapeIds == {n \in 0..(NShapes - 1) : n % StrideOf(n) = Offset % StrideOf(n)}

\* ------------------------------------------------------------------ Part 3
\* A generator of the two lists, parameterised by the de-duplication keys.
CONSTANTS AlgKey, PsyKey           \* "canon" | "raw" | "lower"
KeyOf(kind, t) == CASE kind = "canon" -> Canon(t)
                    [] kind = "lower" -> [i \in DOMAIN t |-> LowerC(t[i])]
                    [] OTHER -> t

VARIABLES sid, inv, pos, acts, akeys, dums, dkeys, kargs,
          ninv, flat          \* number of invokes of the shape; its current argument texts
vars == <<sid, inv, pos, acts, akeys, dums, dkeys, kargs, ninv, flat>>

Calls(s, i)   == ShapeAt(s).invokes[i].calls
OrigOf(s, i)  == [k \in DOMAIN Calls(s, i) |-> Calls(s, i)[k].args]
KindsOf(s, i) == [k \in DOMAIN Calls(s, i) |-> Calls(s, i)[k].kinds]
\* the generator handles the data arguments first, then the stencil extents,
\* directions and quadrature objects
FlatArgs(s, i) == Grouped(Flatten(OrigOf(s, i)), Flatten(KindsOf(s, i)))
\* a dummy is named by its number:  "d" \o digits  -> codes <<100, 48 + n>>
DName(n) == <<100, 48 + (n \div 10), 48 + (n % 10)>>
IndexIn(keys, x) == IF \E i \in DOMAIN keys : keys[i] = x
                    THEN CHOOSE i \in DOMAIN keys : keys[i] = x ELSE 0

Init == /\ sid \in ShapeIds
        /\ PrintT("SHAPE " \o ToJson([id |-> sid] @@ ShapeAt(sid)))
        /\ inv = 1 /\ pos = 1
        /\ ninv = Len(ShapeAt(sid).invokes)
        /\ flat = FlatArgs(sid, 1)
        /\ acts = <<>> /\ akeys = <<>> /\ dums = <<>> /\ dkeys = <<>>
        /\ kargs = <<>>

\* process the next argument text of the current invoke
Process ==
    /\ inv <= ninv
    /\ pos <= Len(flat)
    /\ LET t == flat[pos] IN
       IF IsLiteralText(t)
       THEN /\ kargs' = Append(kargs, [t |-> "l", v |-> t])
            /\ UNCHANGED <<acts, akeys, dums, dkeys>>
       ELSE LET ak == KeyOf(AlgKey, t)
                dk == KeyOf(PsyKey, t)
                newa == IndexIn(akeys, ak) = 0
                newd == IndexIn(dkeys, dk) = 0
            IN /\ acts'  = IF newa THEN Append(acts, t) ELSE acts
               /\ akeys' = IF newa THEN Append(akeys, ak) ELSE akeys
               /\ dums'  = IF newd THEN Append(dums, DName(Len(dums) + 1)) ELSE dums
               /\ dkeys' = IF newd THEN Append(dkeys, dk) ELSE dkeys
               /\ kargs' = Append(kargs, [t |-> "d",
                               n |-> IF newd THEN DName(Len(dums) + 1)
                                     ELSE dums[IndexIn(dkeys, dk)]])
    /\ pos' = pos + 1
    /\ UNCHANGED <<sid, inv, ninv, flat>>

NextInvoke ==
    /\ inv <= ninv
    /\ pos > Len(flat)
    /\ inv' = inv + 1 /\ pos' = 1
    /\ flat' = IF inv < ninv THEN FlatArgs(sid, inv + 1) ELSE <<>>
    /\ acts' = <<>> /\ akeys' = <<>> /\ dums' = <<>> /\ dkeys' = <<>> /\ kargs' = <<>>
    /\ UNCHANGED <<sid, ninv>>

Next == Process \/ NextInvoke
Spec == Init /\ [][Next]_vars

\* prefix forms of the clauses: hold after every processed argument
InvNoDuplicateDummies == NoDuplicateDummies(dums)
InvPrefixAgree ==
    inv <= ninv =>
      \A p \in DOMAIN kargs : BindVerdict(acts, dums, kargs[p], flat[p]) = "ok"
InvSameLength ==
    (inv <= ninv /\ pos > Len(flat)) => SameLength(acts, dums)
InvPredicted ==
    (inv <= ninv /\ pos > Len(flat))
        => [i \in DOMAIN acts |-> Canon(acts[i])]
           = PredictedActuals(OrigOf(sid, inv), KindsOf(sid, inv))
==============================================================================
