INIT Init
NEXT Next
INVARIANT InvReplayMaxLen
