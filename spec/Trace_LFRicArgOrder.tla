------------------------- MODULE Trace_LFRicArgOrder -------------------------
(* C21 - decides, for every generated metadata case, whether the argument     *)
(* list of the kernel call in the generated PSy layer, the dummy argument     *)
(* list of the generated kernel stub and the documented list Args(md) of      *)
(* LFRicArgOrder.tla agree position by position.                              *)
(*                                                                            *)
(* File: sequence of cases [id, md, hs, stub, hc, call, hp, pcall]; hs/hc/hp  *)
(* = the stub / the call / its PSyIR form exists (PSyclone may refuse a       *)
(* metadata); stub, call = sequences of items [w, a, fs, x, ty, k, r, in]     *)
(* itemised from the generated Fortran; pcall = the same items taken from     *)
(* the PSyIR expressions KernCallArgList passes (intent "na").                *)
(* Every case ends in phase "done"; one VERDICT line per failing position:    *)
(*   [id, v (clause), w |-> [pos, f (field), exp, got, ew, gw]]               *)
EXTENDS Naturals, Sequences, FiniteSets, TLC, Json, IOUtils

Cases == JsonDeserialize(IOEnv.PV_CASES)

VARIABLES md, cid, phase
vars == <<md, cid, phase>>
D == INSTANCE LFRicArgOrder WITH Tier <- "smoke"

AllFields == <<"w", "a", "fs", "x", "ty", "k", "r", "in">>

\* the guide's "any" (not stated) matches everything; an actual argument of a
\* call has an intent only if it is itself an intent(in) dummy of the PSy layer
DocFieldOK(f, e, g) == \/ e[f] = "any"
                       \/ (f = "in" /\ g[f] = "na")
                       \/ e[f] = g[f]
\* call (g) against stub (e): same role, intrinsic type, kind and rank; an
\* intent(in) actual may only be passed to an intent(in) dummy
StubFieldOK(f, e, g) == IF f = "in" THEN (g[f] = "in" => e[f] = "in")
                        ELSE e[f] = g[f]

FirstBad(ok(_, _, _), e, g) ==
  LET bad == {i \in DOMAIN AllFields : ~ok(AllFields[i], e, g)} IN
  IF bad = {} THEN "" ELSE AllFields[CHOOSE i \in bad : \A j \in bad : i <= j]

Wit(p, f, e, g) == [pos |-> p, f |-> f, exp |-> e[f], got |-> g[f],
                    ew |-> e.w \o ":" \o e.a \o ":" \o e.fs \o ":" \o e.x,
                    gw |-> g.w \o ":" \o g.a \o ":" \o g.fs \o ":" \o g.x]
CountWit(ne, ng) == [pos |-> 0, f |-> "count", exp |-> ToString(ne),
                     got |-> ToString(ng), ew |-> "", gw |-> ""]
MinOf(a, b) == IF a < b THEN a ELSE b

\* the mismatching positions of `got` against `exp`: all of them when the
\* lengths agree, otherwise the count and the first differing position
Mismatches(ok(_, _, _), exp, got) ==
  LET n   == MinOf(Len(exp), Len(got))
      bad == {p \in 1..n : FirstBad(ok, exp[p], got[p]) # ""}
      wit(p) == Wit(p, FirstBad(ok, exp[p], got[p]), exp[p], got[p])
  IN IF Len(exp) = Len(got)
     THEN {wit(p) : p \in bad}
     ELSE {CountWit(Len(exp), Len(got))}
          \cup (IF bad = {} THEN {}
                ELSE {wit(CHOOSE p \in bad : \A q \in bad : p <= q)})

\* the guide does not order the three reference-element counts among
\* themselves: take the order that explains the observed list best
NBad(c, o, got) == Cardinality(Mismatches(DocFieldOK, D!ArgsWith(c.md, o), got))
DocFor(c, got) ==
  IF c.md.refel = <<>> THEN D!Args(c.md)
  ELSE D!ArgsWith(c.md, CHOOSE o \in D!CountOrders :
                          \A o2 \in D!CountOrders : NBad(c, o, got) <= NBad(c, o2, got))

Verdicts(c) ==
  (IF c.hs /\ c.hc /\ Len(c.stub) # Len(c.call)
   THEN {[v |-> "SameCount", w |-> CountWit(Len(c.stub), Len(c.call))]} ELSE {})
  \cup (IF c.hs /\ c.hc
        THEN {[v |-> "CallMatchesStub", w |-> m] :
                m \in {x \in Mismatches(StubFieldOK, c.stub, c.call) : x.f # "count"}}
        ELSE {})
  \cup (IF c.hs THEN {[v |-> "StubFollowsDoc", w |-> m] :
                        m \in Mismatches(DocFieldOK, DocFor(c, c.stub), c.stub)}
        ELSE {})
  \cup (IF c.hc THEN {[v |-> "CallFollowsDoc", w |-> m] :
                        m \in Mismatches(DocFieldOK, DocFor(c, c.call), c.call)}
        ELSE {})
  \* the PSyIR form of the call (expressions and symbol types of
  \* KernCallArgList): against the stub, and against the written call
  \cup (IF c.hs /\ c.hp
        THEN {[v |-> "PsyirCallMatchesStub", w |-> m] :
                m \in Mismatches(StubFieldOK, c.stub, c.pcall)}
        ELSE {})
  \cup (IF c.hc /\ c.hp
        THEN {[v |-> "PsyirCallMatchesText", w |-> m] :
                m \in Mismatches(StubFieldOK, c.call, c.pcall)}
        ELSE {})

Init == /\ cid \in 1..Len(Cases)
        /\ md = Cases[cid].md
        /\ phase = "run"
Step == /\ phase = "run"
        /\ \A v \in Verdicts(Cases[cid]) :
             PrintT("VERDICT " \o ToJson([id |-> Cases[cid].id, v |-> v.v, w |-> v.w]))
        /\ phase' = "done"
        /\ UNCHANGED <<md, cid>>
Spec == Init /\ [][Step]_vars

\* replay configuration: one case, clauses as invariants
NoViolation == phase = "run" => Verdicts(Cases[cid]) = {}
===============================================================================
