--------------------------- MODULE Trace_DeclOrder ---------------------------
(* C04, trace validation.  Each case is one program unit PSyclone wrote        *)
(* (after reading, after a history of accepted transformations, or a generated *)
(* PSy layer), turned into the event trace of DeclOrder.tla by the third-party *)
(* fparser2 parser.  The events of every scoping unit are consumed one by one  *)
(* (Use / Declare), then the scope is closed (references, dummy arguments,     *)
(* function result, identity pairs).  Every failing clause is printed with the *)
(* name concerned; every case runs to its terminal state.                      *)
(* Case: [id, scopes: Seq([name, kind, parent, events, refs, dummies, result,  *)
(*        typed, pairs])].                                                     *)
EXTENDS Naturals, Sequences, FiniteSets, TLC, Json, IOUtils

Cases == JsonDeserialize(IOEnv.PV_CASES)

VARIABLES deps, emitted, refs            \* the design machine's (unused here)
VARIABLES cid, si, pos
D == INSTANCE DeclOrder WITH Names <- {}, Order <- "any"

vars == <<deps, emitted, refs, cid, si, pos>>

Init == /\ cid \in 1..Len(Cases)
        /\ si = 1 /\ pos = 1
        /\ deps = <<>> /\ emitted = <<>> /\ refs = {}

Verdict(c, clause, scope, nm, extra) ==
    PrintT("VERDICT " \o ToJson([id |-> c.id, v |-> clause, scope |-> scope, n |-> nm,
                                 w |-> extra]))
Possibly(c, scope, n) ==
    PrintT("POSSIBLY " \o ToJson([id |-> c.id, scope |-> scope, n |-> n]))

\* every element of the set S gets its own line
Each(S, P(_)) == \A x \in S : P(x)

\* Use(m, only): nothing to check (a module PSyclone cannot see)
ConsumeUse(c, sc, ev) == TRUE

\* Declare(n, k, deps)
ConsumeDecl(c, u, sc, ev) ==
  /\ IF D!OnceAt(sc, pos) THEN TRUE
     ELSE Verdict(c, "DeclaredOnce", sc.name, ev.n, [k |-> ev.k])
  /\ Each(D!LateDeps(sc, pos),
          LAMBDA d : Verdict(c, "DeclaredBeforeDependent", sc.name, d,
                             [dependent |-> ev.n, k |-> ev.k, depkind |-> D!KindOf(sc, d),
                              isdummy |-> d \in D!DSeqRange(sc.dummies),
                              depisdummy |-> ev.n \in D!DSeqRange(sc.dummies)]))
  /\ Each(D!Unresolved(u, si, D!DSeqRange(ev.deps) \ {ev.n}),
          LAMBDA d : Verdict(c, "EveryReferenceResolves", sc.name, d,
                             [in |-> "declaration", of |-> ev.n]))

\* the end of a scoping unit
CloseScope(c, u, sc) ==
  LET wanted == D!DSeqRange(sc.refs) \cup D!DSeqRange(sc.dummies)
                \cup (IF sc.kind = "function" /\ ~sc.typed THEN {sc.result} ELSE {})
      local  == D!DeclNames(sc)
  IN
  /\ Each(D!Unresolved(u, si, D!DSeqRange(sc.refs)),
          LAMBDA n : Verdict(c, "EveryReferenceResolves", sc.name, n, [in |-> "body"]))
  \* a dummy argument / an untyped function's result needs a local declaration
  /\ Each({d \in D!DSeqRange(sc.dummies) : d \notin local /\ ~D!PossiblyImported(u, si)},
          LAMBDA n : Verdict(c, "EveryReferenceResolves", sc.name, n, [in |-> "dummy"]))
  /\ IF sc.kind = "function" /\ ~sc.typed /\ sc.result \notin local
     THEN Verdict(c, "EveryReferenceResolves", sc.name, sc.result, [in |-> "result"])
     ELSE TRUE
  /\ Each(D!Captured(sc.pairs),
          LAMBDA p : Verdict(c, "NoCapture", sc.name, p[2], [symbol |-> p[1]]))
  /\ IF D!PossiblyImported(u, si)
        /\ \E n \in D!DSeqRange(sc.refs) : ~D!Resolves(u, si, n)
     THEN Possibly(c, sc.name, Cardinality({n \in D!DSeqRange(sc.refs) : ~D!Resolves(u, si, n)}))
     ELSE TRUE

Step == LET c == Cases[cid]
            u == c.scopes IN
  /\ si <= Len(u)
  /\ LET sc == u[si] IN
     IF pos <= Len(sc.events)
     THEN /\ LET ev == sc.events[pos] IN
             IF ev.e = "use" THEN ConsumeUse(c, sc, ev) ELSE ConsumeDecl(c, u, sc, ev)
          /\ pos' = pos + 1 /\ si' = si
     ELSE /\ CloseScope(c, u, sc)
          /\ si' = si + 1 /\ pos' = 1
  /\ UNCHANGED <<cid, deps, emitted, refs>>
Spec == Init /\ [][Step]_vars
===============================================================================
