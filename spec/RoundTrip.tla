------------------------------ MODULE RoundTrip ------------------------------
(* C03 - re-writing is stable after one round trip.                           *)
(* A program is abstracted to its *skeleton*: the ordered items               *)
(* <<scope, kind, key, occurrence>> of its text.  Occurrence numbers make the *)
(* items of one skeleton pairwise different, so multisets are sets.           *)
(* The first part defines the clauses on two consecutive skeletons (prev,cur); *)
(* they are reused by Trace_RoundTrip.tla on skeletons recorded from the real  *)
(* reader/writer.  The second part is a tiny design-level machine: a writer    *)
(* that is a stable partition of the items by class is a fixed point after one *)
(* pass; two broken writers (one moves private variables, one doubles a code   *)
(* block's comment) are caught by the same clauses.                            *)
EXTENDS Naturals, Sequences, FiniteSets, TLC

RTRange(s) == {s[i] : i \in DOMAIN s}

\* items of prev that cur no longer has / items cur has that prev had not
RTLost(prev, cur) == RTRange(prev) \ RTRange(cur)
RTNew(prev, cur)  == RTRange(cur) \ RTRange(prev)

\* position of the first item of s that satisfies Test (0 if none)
RTFirst(s, Test(_)) ==
    IF \E i \in DOMAIN s : Test(s[i])
    THEN CHOOSE i \in DOMAIN s : Test(s[i]) /\ \A j \in 1..(i-1) : ~Test(s[j])
    ELSE 0

\* the items both skeletons have, in the order of s
RTCommon(s, other) == LET R == RTRange(other) IN SelectSeq(s, LAMBDA x : x \in R)

\* first index at which two sequences differ (0 = equal)
RTFirstDiff(a, b) ==
    LET n == IF Len(a) < Len(b) THEN Len(a) ELSE Len(b) IN
    IF \E i \in 1..n : a[i] # b[i]
    THEN CHOOSE i \in 1..n : a[i] # b[i] /\ \A j \in 1..(i-1) : a[j] = b[j]
    ELSE IF Len(a) # Len(b) THEN n + 1 ELSE 0

\* the clauses.  Keeps(x): the reader is specified to keep item x (in this
\* version of PSyclone it ignores comments, hence directives).
NoLoss(prev, cur, Keeps(_))  == \A x \in RTLost(prev, cur) : ~Keeps(x)
NoDup(prev, cur, Keeps(_))   == \A x \in RTNew(prev, cur) : ~Keeps(x)
SameOrder(prev, cur, Ordered(_)) ==
    LET a == SelectSeq(RTCommon(prev, cur), Ordered)
        b == SelectSeq(RTCommon(cur, prev), Ordered) IN a = b

\* a comment block written twice: inside a run of consecutive comment items
\* the first line of the run (its head) comes again.  SameText(x, y): same
\* scope and text, whatever the occurrence number.
RunDupAt(s, IsComment(_), SameText(_, _)) ==
    {i \in DOMAIN s :
        /\ IsComment(s[i])
        /\ (i = 1 \/ ~IsComment(s[i-1]))
        /\ \E j \in (i+1)..Len(s) :
              /\ SameText(s[i], s[j])
              /\ \A m \in i..j : IsComment(s[m])}
NoRunDup(s, IsComment(_), SameText(_, _)) == RunDupAt(s, IsComment, SameText) = {}

\* --------------------------------------------------------------- design level
CONSTANTS Items,        \* universe of items: records [k |-> kind, key |-> n]
          MaxLen,       \* longest source skeleton
          Writer        \* "stable" | "moves_private" | "doubles_comment"
VARIABLES prev, cur, pass
vars == <<prev, cur, pass>>

Kinds == {"use", "decl", "pdecl", "access", "stmt", "comment", "directive", "codeblock",
          "routine", "type", "interface"}
\* the writer's section order inside one scope (gen_decls: uses, interfaces,
\* constants, types, other declarations, access statements, then the body)
Rank(k) == CASE k = "use" -> 1 [] k = "interface" -> 2 [] k = "pdecl" -> 3
             [] k = "type" -> 4 [] k = "decl" -> 5 [] k = "access" -> 6
             [] OTHER -> 7
ReaderDrops == {"comment", "directive"}
KeptD(x) == x.k \notin ReaderDrops

Reader(s) == SelectSeq(s, KeptD)
RECURSIVE Partition(_, _)
Partition(s, r) == IF r > 7 THEN <<>>
                   ELSE SelectSeq(s, LAMBDA x : Rank(x.k) = r) \o Partition(s, r + 1)
\* a generated comment in front of every code block (the reader's "reason")
Note == [k |-> "comment", key |-> 0]
RECURSIVE Annotate(_)
Annotate(s) == IF s = <<>> THEN <<>>
               ELSE (IF Head(s).k = "codeblock"
                     THEN (IF Writer = "doubles_comment" THEN <<Note, Note>> ELSE <<Note>>)
                     ELSE <<>>) \o <<Head(s)>> \o Annotate(Tail(s))
\* broken variant: a private variable ("decl" with an odd key) that directly
\* follows a constant is moved behind the next item
RECURSIVE Jiggle(_)
Jiggle(s) == IF Len(s) < 2 THEN s
             ELSE IF Head(s).k = "decl" /\ s[2].k = "decl" /\ Head(s).key % 2 = 1
                     /\ s[2].key % 2 = 0
                  THEN <<s[2], Head(s)>> \o Tail(Tail(s))
                  ELSE <<Head(s)>> \o Jiggle(Tail(s))
Write(s) == LET p == Partition(s, 1) IN
            Annotate(IF Writer = "moves_private" THEN Jiggle(p) ELSE p)

\* occurrence numbering so that the clauses can treat skeletons as sets
Number(s) == [i \in DOMAIN s |->
                [it |-> s[i], n |-> Cardinality({j \in 1..i : s[j] = s[i]})]]

NoRepeat(s) == \A i, j \in DOMAIN s : i # j => s[i] # s[j]
Sources == UNION {{s \in [1..n -> Items] : NoRepeat(s)} : n \in 0..MaxLen}

Init == /\ prev \in Sources
        /\ cur = Write(Reader(prev))          \* w1
        /\ pass = 1
RoundTrip == /\ pass < 3
             /\ prev' = cur
             /\ cur' = Write(Reader(cur))     \* w2, w3
             /\ pass' = pass + 1
Next == RoundTrip
Spec == Init /\ [][Next]_vars

KeptN(x) == x.it.k \notin ReaderDrops
AnyN(x)  == TRUE
IsCommentN(x) == x.it.k = "comment"
SameTextN(x, y) == x.it = y.it
\* relative to the previous pass (from w1 on): nothing lost, nothing doubled,
\* same order, same text
InvNoLoss    == pass > 1 => NoLoss(Number(prev), Number(cur), AnyN)
InvNoDup     == pass > 1 => NoDup(Number(prev), Number(cur), AnyN)
InvSameOrder == pass > 1 => SameOrder(Number(prev), Number(cur), AnyN)
InvTextStable == pass > 1 => cur = prev
\* relative to the source: what the reader keeps is neither lost nor doubled
InvSrcNoLoss == pass = 1 => NoLoss(Number(prev), Number(cur), KeptN)
InvSrcNoDup  == pass = 1 => NoDup(Number(prev), Number(cur), KeptN)
InvNoRunDup  == NoRunDup(Number(cur), IsCommentN, SameTextN)

\* universes for the configurations (cfg files cannot write records)
ItemsSmall == {[k |-> "use", key |-> 1], [k |-> "pdecl", key |-> 2], [k |-> "decl", key |-> 1],
               [k |-> "decl", key |-> 2], [k |-> "decl", key |-> 4], [k |-> "codeblock", key |-> 1],
               [k |-> "stmt", key |-> 1], [k |-> "comment", key |-> 1],
               [k |-> "directive", key |-> 1], [k |-> "access", key |-> 1]}
ItemsLarge == ItemsSmall \cup {[k |-> "type", key |-> 1], [k |-> "interface", key |-> 1],
               [k |-> "codeblock", key |-> 2], [k |-> "stmt", key |-> 2],
               [k |-> "routine", key |-> 1], [k |-> "decl", key |-> 3]}
===============================================================================
