CONSTANTS MaxRuns = 3
 RunCounts = {1, 2, 3}
 Schemes = {"multiple"}
 Versions = {1, 2}
 PreChoices = {0, 1, 2}
 SplitWrite = TRUE
INIT Init
NEXT Next
VIEW View
INVARIANT TypeOK
INVARIANT NoStuck
INVARIANT MultipleFresh
INVARIANT InvNoPartialVerdict
