CONSTANTS N = 4
 WithUnknown = FALSE
 WithSelf = TRUE
INIT Init
NEXT Next
INVARIANT NoStuck
INVARIANT InvPermutation
INVARIANT InvNoDup
INVARIANT InvDepsFirst
INVARIANT InvPrefixDeps
