INIT Init
NEXT Step
