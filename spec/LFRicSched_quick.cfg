\* design level, quick: every one- and two-kernel invoke of the catalogue,
\* histories of up to 3 accepted transformations
CONSTANTS MaxLen = 3
 MaxLen2 = 2
 MaxKern = 2
 AccOpts = {"ind"}
 Source = "family"
INIT Init
NEXT Next
VIEW ViewLen
INVARIANT InvSharedIncColoured
INVARIANT InvColoursSequential
INVARIANT InvKernelsKept
