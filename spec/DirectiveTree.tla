------------------------------ MODULE DirectiveTree ------------------------------
(* C10 - directive trees produced by accepted transformations are valid.       *)
(*                                                                             *)
(* A routine is a tree of uniform nodes [k, id, c, cl, body]:                  *)
(*   k    "routine" | "loop" | "stmt" | an OpenMP kind "omp_*" | an OpenACC    *)
(*        kind "acc_*"                                                         *)
(*   id   loop / statement identity ("L1", "a"), "" for directives             *)
(*   c    collapse count of a loop directive (0 = no clause)                   *)
(*   cl   sorted sequence of the clauses that matter for nesting               *)
(*   body child nodes (loop body, directive body, routine body)                *)
(* The actions are PSyclone's OpenMP/OpenACC transformations applied to a      *)
(* loop, a range of siblings or the routine; Apply gives the PREDICTED effect  *)
(* (used to generate histories and to count divergences, never to alarm).      *)
(* Viol(tree) is the set of violated nesting rules; Valid == Viol = {}.        *)
(* Provenance of each rule: [P] named by property C10, [OMP] OpenMP 5.0        *)
(* (2.20 nesting of regions, 2.7, 2.9), [ACC] OpenACC 3.0 (2.5, 2.6, 2.9,     *)
(* 2.15), [D] placement PSyclone documents/enforces (DESIGN F.7).              *)
EXTENDS Naturals, Sequences, FiniteSets, TLC, Json

Nd(k, id, c, cl, body) == [k |-> k, id |-> id, c |-> c, cl |-> cl, body |-> body]
LoopN(id, body) == Nd("loop", id, 0, <<>>, body)
StmtN(id)       == Nd("stmt", id, 0, <<>>, <<>>)
Routine(body)   == Nd("routine", "", 0, <<>>, body)
DirN(k, c, cl, body) == Nd(k, "", c, cl, body)

\* ------------------------------------------------------------------ skeletons
Skel(s) ==
  CASE s = "A" -> Routine(<<LoopN("L1", <<StmtN("a")>>),
                            LoopN("L2", <<LoopN("L3", <<StmtN("b")>>)>>)>>)
    [] s = "B" -> Routine(<<LoopN("L1", <<LoopN("L2", <<StmtN("b")>>), StmtN("c")>>)>>)
    [] s = "C" -> Routine(<<LoopN("L1", <<StmtN("c"), LoopN("L2", <<StmtN("b")>>)>>)>>)
    [] s = "D" -> Routine(<<LoopN("L1", <<LoopN("L2", <<LoopN("L3", <<StmtN("d")>>)>>)>>)>>)
    [] s = "E" -> Routine(<<StmtN("e"), LoopN("L1", <<StmtN("a")>>), StmtN("c")>>)
    [] s = "F" -> Routine(<<LoopN("L1", <<Nd("loop", "L2", 0, <<"nonrect">>,
                                              <<StmtN("b")>>)>>)>>)
    [] s = "G" -> Routine(<<LoopN("L1", <<LoopN("L2", <<StmtN("b")>>)>>)>>)

\* ---------------------------------------------------------------- kind tables
OmpPar   == {"omp_parallel", "omp_parallel_do", "omp_teams_distribute_parallel_do"}
OmpLoopDirs == {"omp_do", "omp_parallel_do", "omp_teams_distribute_parallel_do",
                "omp_loop", "omp_taskloop"}
OmpKinds == OmpPar \cup OmpLoopDirs \cup
            {"omp_target", "omp_single", "omp_master", "omp_taskwait"}
AccCompute == {"acc_parallel", "acc_kernels"}
AccRegion  == AccCompute \cup {"acc_data", "acc_loop"}
AccKinds   == AccRegion \cup {"acc_enter_data", "acc_routine"}
PlainKinds == {"routine", "loop", "stmt"}
HasCl(n, x) == \E i \in DOMAIN n.cl : n.cl[i] = x

\* ---------------------------------------------------------------- tree access
RECURSIVE Sub(_, _)
Sub(t, p) == IF p = <<>> THEN t ELSE Sub(t.body[Head(p)], Tail(p))

RECURSIVE Paths(_)
Paths(t) == {<<>>} \cup UNION {{<<i>> \o q : q \in Paths(t.body[i])} : i \in DOMAIN t.body}

\* replace children lo..hi of the node at path p by the sequence new
RECURSIVE Splice(_, _, _, _, _)
Splice(t, p, lo, hi, new) ==
  IF p = <<>>
  THEN [t EXCEPT !.body = SubSeq(t.body, 1, lo - 1) \o new
                           \o SubSeq(t.body, hi + 1, Len(t.body))]
  ELSE [t EXCEPT !.body[Head(p)] = Splice(t.body[Head(p)], Tail(p), lo, hi, new)]

RECURSIVE KindsBelow(_)
KindsBelow(n) == {n.k} \cup UNION {KindsBelow(n.body[i]) : i \in DOMAIN n.body}

\* ------------------------------------------------------ transformations (ops)
\* op == [t |-> transformation, o |-> option, c |-> collapse, p |-> path of the
\*        parent body, lo, hi |-> sibling range (lo = hi for a loop; 0 for the
\*        routine-level transformations)]
LoopTransKind(t, o) ==
  CASE t = "OMPLoopTrans" /\ o = "do"         -> "omp_do"
    [] t = "OMPLoopTrans" /\ o = "paralleldo" -> "omp_parallel_do"
    [] t = "OMPLoopTrans" /\ o = "teamsdistributeparalleldo"
                                              -> "omp_teams_distribute_parallel_do"
    [] t = "OMPLoopTrans" /\ o = "loop"       -> "omp_loop"
    [] t = "OMPParallelLoopTrans"             -> "omp_parallel_do"
    [] t = "OMPTaskloopTrans"                 -> "omp_taskloop"
    [] t = "ACCLoopTrans"                     -> "acc_loop"
LoopTransCl(t, o) ==
  CASE t = "ACCLoopTrans" /\ o = "independent" -> <<"independent">>
    [] t = "ACCLoopTrans" /\ o = "seq"         -> <<"seq">>
    [] t = "ACCLoopTrans" /\ o = "gang"        -> <<"gang", "independent">>
    [] t = "ACCLoopTrans" /\ o = "vector"      -> <<"independent", "vector">>
    [] t = "OMPTaskloopTrans" /\ o = "nogroup" -> <<"nogroup">>
    [] OTHER                                   -> <<>>
\* what is written: OMPParallelLoopTrans drops collapse, `acc loop seq` prints none
LoopTransC(t, o, c) ==
  IF t = "OMPParallelLoopTrans" \/ (t = "ACCLoopTrans" /\ o = "seq") THEN 0 ELSE c
RegionTransKind(t) ==
  CASE t = "OMPParallelTrans" -> "omp_parallel"
    [] t = "OMPSingleTrans"   -> "omp_single"
    [] t = "OMPMasterTrans"   -> "omp_master"
    [] t = "OMPTargetTrans"   -> "omp_target"
    [] t = "ACCParallelTrans" -> "acc_parallel"
    [] t = "ACCKernelsTrans"  -> "acc_kernels"
    [] t = "ACCDataTrans"     -> "acc_data"
LoopTrans   == {"OMPLoopTrans", "OMPParallelLoopTrans", "OMPTaskloopTrans", "ACCLoopTrans"}
RegionTrans == {"OMPParallelTrans", "OMPSingleTrans", "OMPMasterTrans", "OMPTargetTrans",
                "ACCParallelTrans", "ACCKernelsTrans", "ACCDataTrans"}

\* predicted effect of an accepted op
Apply(tree, op) ==
  CASE op.t \in LoopTrans ->
         Splice(tree, op.p, op.lo, op.hi,
                <<DirN(LoopTransKind(op.t, op.o), LoopTransC(op.t, op.o, op.c),
                       LoopTransCl(op.t, op.o),
                       <<Sub(tree, op.p).body[op.lo]>>)>>)
    [] op.t \in RegionTrans ->
         Splice(tree, op.p, op.lo, op.hi,
                <<DirN(RegionTransKind(op.t), 0,
                       IF op.t = "OMPSingleTrans" /\ op.o = "nowait"
                       THEN <<"nowait">> ELSE <<>>,
                       SubSeq(Sub(tree, op.p).body, op.lo, op.hi))>>)
    [] op.t = "ACCEnterDataTrans" ->
         \* just before the first top-level statement holding a compute construct
         LET S == {i \in DOMAIN tree.body : KindsBelow(tree.body[i]) \cap AccCompute # {}}
             pos == IF S = {} THEN 1 ELSE CHOOSE i \in S : \A j \in S : i <= j
         IN Splice(tree, <<>>, pos, pos - 1, <<DirN("acc_enter_data", 0, <<>>, <<>>)>>)
    [] op.t = "ACCRoutineTrans" ->
         IF \E i \in DOMAIN tree.body : tree.body[i].k = "acc_routine" THEN tree
         ELSE Splice(tree, <<>>, 1, 0, <<DirN("acc_routine", 0, <<>>, <<>>)>>)
    [] op.t = "OMPTaskwaitTrans" -> tree   \* independent loops: nothing to wait for

\* ------------------------------------------------------------------ alphabets
Variant(t, o, c) == [t |-> t, o |-> o, c |-> c]
\* collapse(3) is only offered where three loops exist
Collapses(s) == IF s = "D" THEN {0, 2, 3} ELSE {0, 2}
LoopVariantsFull(s) ==
  {Variant("OMPLoopTrans", o, c) :
     o \in {"do", "paralleldo", "teamsdistributeparalleldo", "loop"}, c \in Collapses(s)}
  \cup {Variant("OMPParallelLoopTrans", "", 0), Variant("OMPParallelLoopTrans", "", 2),
        Variant("OMPTaskloopTrans", "", 0), Variant("OMPTaskloopTrans", "nogroup", 0),
        Variant("OMPTaskloopTrans", "", 2)}
  \cup {Variant("ACCLoopTrans", o, 0) : o \in {"independent", "seq", "gang", "vector", "plain"}}
  \cup {Variant("ACCLoopTrans", "independent", c) : c \in Collapses(s) \ {0}}
  \cup {Variant("ACCLoopTrans", "seq", 2)}
RegionVariantsFull ==
  {Variant(t, "", 0) : t \in RegionTrans} \cup {Variant("OMPSingleTrans", "nowait", 0)}
RoutineVariantsFull == {Variant("ACCEnterDataTrans", "", 0), Variant("ACCRoutineTrans", "", 0)}
NodeVariantsFull == {Variant("OMPTaskwaitTrans", "", 0)}

\* "core": one variant per nesting-relevant directive kind (deep histories);
\* "core+" adds the combined parallel-do and the kernels region
LoopVariantsCore ==
  {Variant("OMPLoopTrans", "do", 0), Variant("OMPLoopTrans", "loop", 0),
   Variant("OMPTaskloopTrans", "", 0), Variant("ACCLoopTrans", "independent", 0)}
RegionVariantsCore ==
  {Variant(t, "", 0) : t \in {"OMPParallelTrans", "OMPSingleTrans", "OMPTargetTrans",
                              "ACCParallelTrans", "ACCDataTrans"}}
LoopVariantsCorePlus == LoopVariantsCore \cup {Variant("OMPLoopTrans", "paralleldo", 0)}
RegionVariantsCorePlus == RegionVariantsCore \cup {Variant("ACCKernelsTrans", "", 0),
                                                    Variant("OMPMasterTrans", "", 0)}

\* "acc": every ACCLoopTrans variant + the OpenACC regions (gang/vector nesting)
LoopVariantsAcc(s) == {v \in LoopVariantsFull(s) : v.t = "ACCLoopTrans"}
RegionVariantsAcc == {Variant(t, "", 0) : t \in {"ACCParallelTrans", "ACCKernelsTrans",
                                                 "ACCDataTrans"}}

CONSTANTS Alphabet,     \* "full" | "core" | "core+" | "acc"
          MaxLen,       \* longest history generated
          Skels         \* set of skeleton names
LoopVariants(s) == IF Alphabet = "full" THEN LoopVariantsFull(s)
                   ELSE IF Alphabet = "core+" THEN LoopVariantsCorePlus
                   ELSE IF Alphabet = "acc" THEN LoopVariantsAcc(s) ELSE LoopVariantsCore
RegionVariants  == IF Alphabet = "full" THEN RegionVariantsFull
                   ELSE IF Alphabet = "core+" THEN RegionVariantsCorePlus
                   ELSE IF Alphabet = "acc" THEN RegionVariantsAcc ELSE RegionVariantsCore
RoutineVariants == IF Alphabet \in {"full", "acc"} THEN RoutineVariantsFull ELSE {}
NodeVariants    == IF Alphabet = "full" THEN NodeVariantsFull ELSE {}

Target(v, p, lo, hi) == [t |-> v.t, o |-> v.o, c |-> v.c, p |-> p, lo |-> lo, hi |-> hi]
\* every op the model offers in a tree: loop transformations on every loop,
\* region transformations on every sibling range, routine-level ones on the routine
Ops(s, tree) ==
  UNION {LET n == Sub(tree, p) IN
         {Target(v, p, i, i) : v \in LoopVariants(s),
                               i \in {j \in DOMAIN n.body : n.body[j].k = "loop"}}
         \cup {Target(v, p, i, i) : v \in NodeVariants,
                               i \in {j \in DOMAIN n.body : n.body[j].k = "omp_parallel"}}
         \cup {Target(v, p, lo, hi) : v \in RegionVariants,
                                      lo \in DOMAIN n.body, hi \in DOMAIN n.body} :
         p \in Paths(tree)}
  \cup {Target(v, <<>>, 0, 0) : v \in RoutineVariants}
WellFormedOp(op) == op.t \notin RegionTrans \/ op.lo <= op.hi

\* an op (e.g. one recorded in a trace) makes sense in a tree
RECURSIVE HasPath(_, _)
HasPath(t, p) == p = <<>> \/ (/\ Head(p) \in DOMAIN t.body
                              /\ HasPath(t.body[Head(p)], Tail(p)))
Applicable(t, op) ==
  /\ HasPath(t, op.p)
  /\ LET n == Sub(t, op.p) IN
     CASE op.t \in LoopTrans   -> op.lo \in DOMAIN n.body /\ n.body[op.lo].k = "loop"
       [] op.t \in RegionTrans -> /\ op.lo \in DOMAIN n.body /\ op.hi \in DOMAIN n.body
                                  /\ op.lo <= op.hi
       [] op.t = "OMPTaskwaitTrans" -> op.lo \in DOMAIN n.body
       [] OTHER -> op.t \in {"ACCEnterDataTrans", "ACCRoutineTrans"}

\* ------------------------------------------------------------------ the rules
AncKinds(anc) == {anc[i].k : i \in DOMAIN anc}
LastIdx(anc, K) == LET S == {i \in DOMAIN anc : anc[i].k \in K}
                   IN IF S = {} THEN 0 ELSE CHOOSE i \in S : \A j \in S : j <= i
\* OpenMP constructs in which a node is CLOSELY nested (no parallel region in
\* between); the worksharing half of a combined parallel-do counts as omp_do
CloseKinds(anc) ==
  LET lp == LastIdx(anc, OmpPar) IN
  ({anc[i].k : i \in (lp + 1)..Len(anc)} \cap OmpKinds)
  \cup (IF lp > 0 /\ anc[lp].k # "omp_parallel" THEN {"omp_do"} ELSE {})
NearestOmp(anc) == LET i == LastIdx(anc, OmpKinds) IN IF i = 0 THEN "" ELSE anc[i].k

RECURSIVE Perfect(_, _)      \* l heads a perfect nest of n loops
Perfect(l, n) == /\ l.k = "loop"
                 /\ (n <= 1 \/ (Len(l.body) = 1 /\ Perfect(l.body[1], n - 1)))
RECURSIVE InnerNonRect(_, _) \* one of the n-1 inner loops has bounds using an outer index
InnerNonRect(l, n) == n > 1 /\ Len(l.body) = 1 /\ l.body[1].k = "loop"
                      /\ (HasCl(l.body[1], "nonrect") \/ InnerNonRect(l.body[1], n - 1))
OwnsOneLoop(n) == Len(n.body) = 1 /\ n.body[1].k = "loop"

\* teams constructs below n that are not separated from it by another target
RECURSIVE TeamsBelow(_)
TeamsBelow(n) == UNION {IF n.body[i].k = "omp_teams_distribute_parallel_do" THEN {1}
                        ELSE IF n.body[i].k = "omp_target" THEN {}
                        ELSE TeamsBelow(n.body[i]) : i \in DOMAIN n.body}

Pick(S) == CHOOSE x \in S : TRUE
V(rule, n, a) == {[r |-> rule, k |-> n.k, a |-> a]}

\* rules violated AT node n given its ancestors (root first), its index among
\* its siblings and the routine
Local(n, anc, idx, root) ==
  LET k  == n.k
      ks == AncKinds(anc)
      cn == CloseKinds(anc)
      accLoopAnc == {i \in DOMAIN anc : anc[i].k = "acc_loop"}
      hasAccRoutine == \E i \in DOMAIN root.body : root.body[i].k = "acc_routine"
  IN
  \* ---- OpenMP
     (IF k = "omp_do" /\ "omp_parallel" \notin ks                                  \* [P]
      THEN V("OmpDoOutsideParallel", n, "") ELSE {})
  \cup (IF k \in OmpPar /\ ks \cap OmpPar # {}                                     \* [P]
      THEN V("OmpNestedParallel", n, Pick(ks \cap OmpPar)) ELSE {})
  \cup (LET bad == cn \cap {"omp_do", "omp_single", "omp_master", "omp_taskloop", "omp_loop"}
      IN IF k \in {"omp_do", "omp_single"} /\ bad # {}                             \* [OMP 2.20]
         THEN V("OmpWorksharingCloselyNested", n, Pick(bad)) ELSE {})
  \cup (LET bad == cn \cap {"omp_do", "omp_single", "omp_taskloop", "omp_loop"}
      IN IF k = "omp_master" /\ bad # {}                                           \* [OMP 2.20]
         THEN V("OmpMasterCloselyNested", n, Pick(bad)) ELSE {})
  \* Fortran syntax of OpenMP 5.0: nowait belongs on `end single` (5.2 lifts this)
  \cup (IF k = "omp_single" /\ HasCl(n, "nowait")                                  \* [OMP 2.8.2]
      THEN V("OmpSingleNowaitOnBegin", n, "") ELSE {})
  \cup (IF k \in {"omp_single", "omp_master"} /\ "omp_parallel" \notin ks          \* [D]
      THEN V("OmpSerialOutsideParallel", n, "") ELSE {})
  \cup (IF k = "omp_taskloop" /\ ks \cap {"omp_single", "omp_master"} = {}         \* [D]
      THEN V("OmpTaskloopOutsideSerial", n, "") ELSE {})
  \cup (IF k = "omp_loop" /\ ks \cap (OmpPar \cup {"omp_target"}) = {}             \* [OMP 2.9.5, D]
      THEN V("OmpLoopUnbound", n, "") ELSE {})
  \cup (IF k \in (OmpKinds \ ({"omp_loop"} \cup OmpPar)) /\ "omp_loop" \in cn      \* [OMP 2.20]
      THEN V("OmpInsideLoopConstruct", n, "omp_loop") ELSE {})
  \cup (IF k = "omp_teams_distribute_parallel_do"                                  \* [OMP 2.7]
         /\ NearestOmp(anc) \notin {"", "omp_target"}
      THEN V("OmpTeamsNotInTarget", n, NearestOmp(anc)) ELSE {})
  \cup (IF k = "omp_target" /\ TeamsBelow(n) # {}                                  \* [OMP 2.7]
         /\ ~(Len(n.body) = 1 /\ n.body[1].k = "omp_teams_distribute_parallel_do")
      THEN V("OmpTargetNotOnlyTeams", n, "") ELSE {})
  \cup (IF k \in OmpLoopDirs /\ ~OwnsOneLoop(n)                                    \* [OMP 2.9]
      THEN V("OmpLoopDirectiveWithoutLoop", n, "") ELSE {})
  \cup (IF k \in OmpLoopDirs /\ n.c >= 2 /\ OwnsOneLoop(n) /\ ~Perfect(n.body[1], n.c)  \* [P]
      THEN V("OmpCollapseNotPerfect", n, "") ELSE {})
  \* ---- one API inside the other
  \cup (IF k \in OmpKinds /\ ks \cap AccRegion # {}
      THEN V("OmpInsideAcc", n, Pick(ks \cap AccRegion)) ELSE {})
  \cup (IF k \in AccKinds /\ ks \cap OmpKinds # {}
      THEN V("AccInsideOmp", n, Pick(ks \cap OmpKinds)) ELSE {})
  \cup (IF k \in OmpKinds /\ hasAccRoutine /\ ks \cap AccRegion = {}              \* [ACC 2.15]
      THEN V("OmpInsideAccRoutine", n, "acc_routine") ELSE {})
  \* ---- OpenACC
  \cup (IF k = "acc_loop" /\ ks \cap AccCompute = {}                               \* [P]
         /\ ~hasAccRoutine
      THEN V("AccLoopOutsideCompute", n, "") ELSE {})
  \* `acc routine` is written without a level-of-parallelism clause (= seq):
  \* an orphaned gang/vector loop is not allowed in it                      [ACC 2.15.1]
  \cup (IF k = "acc_loop" /\ ks \cap AccCompute = {} /\ hasAccRoutine
         /\ (HasCl(n, "gang") \/ HasCl(n, "vector"))
      THEN V("AccLoopParallelismInSeqRoutine", n, "acc_routine") ELSE {})
  \cup (IF k \in AccCompute /\ ks \cap AccCompute # {}                             \* [ACC 2.5]
      THEN V("AccNestedCompute", n, Pick(ks \cap AccCompute)) ELSE {})
  \cup (IF k \in {"acc_data", "acc_enter_data"} /\ ks \cap (AccCompute \cup {"acc_loop"}) # {}
      THEN V("AccDataInsideCompute", n, Pick(ks \cap (AccCompute \cup {"acc_loop"})))  \* [ACC 2.6]
      ELSE {})
  \cup (IF k = "acc_loop" /\ ~OwnsOneLoop(n)                                       \* [ACC 2.9]
      THEN V("AccLoopDirectiveWithoutLoop", n, "") ELSE {})
  \cup (IF k = "acc_loop" /\ n.c >= 2 /\ OwnsOneLoop(n) /\ ~Perfect(n.body[1], n.c)  \* [P]
      THEN V("AccCollapseNotPerfect", n, "") ELSE {})
  \cup (IF k = "acc_loop" /\ n.c >= 2 /\ OwnsOneLoop(n) /\ Perfect(n.body[1], n.c)
         /\ InnerNonRect(n.body[1], n.c)                                          \* [ACC 2.9.1]
      THEN V("AccCollapseNonRectangular", n, "") ELSE {})
  \cup (IF k = "acc_loop" /\ HasCl(n, "gang")                                      \* [ACC 2.9.2]
         /\ \E i \in accLoopAnc : HasCl(anc[i], "gang") \/ HasCl(anc[i], "vector")
      THEN V("AccGangInsideGangOrVector", n, "acc_loop") ELSE {})
  \cup (IF k = "acc_loop" /\ HasCl(n, "vector")                                    \* [ACC 2.9.4]
         /\ \E i \in accLoopAnc : HasCl(anc[i], "vector")
      THEN V("AccVectorInsideVector", n, "acc_loop") ELSE {})
  \cup (IF k = "acc_routine"                                                      \* [ACC 2.15]
         /\ ~(Len(anc) = 1 /\ \A j \in 1..(idx - 1) : root.body[j].k = "acc_routine")
      THEN V("AccRoutineNotInSpecificationPart", n, "") ELSE {})
  \* ---- structure
  \cup (IF k = "unbalanced" THEN V("UnbalancedDirective", n, n.id) ELSE {})
  \cup (IF k \notin (OmpKinds \cup AccKinds \cup PlainKinds \cup {"unbalanced"})
      THEN V("UnknownKind", n, "") ELSE {})

RECURSIVE ViolAt(_, _, _, _)
ViolAt(n, anc, idx, root) ==
  Local(n, anc, idx, root)
  \cup UNION {ViolAt(n.body[i], Append(anc, n), i, root) : i \in DOMAIN n.body}
Viol(tree) == ViolAt(tree, <<>>, 1, tree)
Valid(tree) == Viol(tree) = {}

\* ------------------------------------------- the history generator (binding A)
VARIABLES skel, tree, hist
vars == <<skel, tree, hist>>

Init == /\ skel \in Skels
        /\ tree = Skel(skel)
        /\ hist = <<>>

\* a transformation is accepted (predicted tree) ...
Transform(op) == /\ tree' = Apply(tree, op)
                 /\ hist' = Append(hist, op)
                 /\ UNCHANGED skel
\* ... or refused: nothing changes (always allowed by the property)
Refuse(op) == UNCHANGED vars

Next == /\ Len(hist) < MaxLen
        /\ \E op \in Ops(skel, tree) :
             /\ WellFormedOp(op)
             /\ Transform(op)
             /\ PrintT("HIST " \o ToJson([s |-> skel, h |-> hist']))
Spec == Init /\ [][Next]_vars

\* design-level sanity of the model itself
TypeOK == /\ tree.k = "routine"
          /\ Len(hist) <= MaxLen
\* the skeletons themselves are valid programs
SkelValid == hist = <<>> => Valid(tree)
\* every op the generator offers is applicable to the model tree
OpsApplicable == Len(hist) < MaxLen =>
                 \A op \in Ops(skel, tree) : WellFormedOp(op) => Applicable(tree, op)
===============================================================================
