------------------------------- MODULE TransTxn -------------------------------
(* C26 - "a rejected transformation leaves the code unchanged".               *)
(*                                                                            *)
(* The transaction discipline of Transformation.apply.  The state of a root   *)
(* tree is its fingerprint fp = [text, syms, tree]:                           *)
(*   text : the code a writer produces for the tree (the observable),         *)
(*   syms : the view of every symbol table of every scope,                    *)
(*   tree : node classes, attributes, child structure and node identities.    *)
(* A script is a history of attempts; attempts nest (a transformation may use *)
(* another one).  Begin(t) remembers fp0; the attempt ends in                 *)
(*   Commit  - accepted, fp arbitrary;                                        *)
(*   Refuse  - TransformationError: REQUIRES fp = fp0 (all three clauses);    *)
(*   Crash   - any other exception type: unconstrained (counted, not judged). *)
(* The script continues after a refusal, so attempts interleave on one tree.  *)
EXTENDS Naturals, Sequences, FiniteSets, TLC

\* ---------------------------------------------------------------- clauses
\* (operators over fingerprints, shared with Trace_TransTxn)
TextUnchanged(f0, f1)         == f1.text = f0.text
SymbolsUnchanged(f0, f1)      == f1.syms = f0.syms
TreeIdentityUnchanged(f0, f1) == f1.tree = f0.tree
RefusalAtomic(f0, f1) == /\ TextUnchanged(f0, f1)
                         /\ SymbolsUnchanged(f0, f1)
                         /\ TreeIdentityUnchanged(f0, f1)
\* the clause a verdict names (text first: it is the observable consequence)
BrokenClause(f0, f1) == IF ~TextUnchanged(f0, f1) THEN "TextUnchanged"
                        ELSE IF ~SymbolsUnchanged(f0, f1) THEN "SymbolsUnchanged"
                        ELSE IF ~TreeIdentityUnchanged(f0, f1)
                             THEN "TreeIdentityUnchanged" ELSE "ok"
\* "the code written afterwards": what a writer shows of a state
Written(f) == f.text

\* stack of open attempts
Open(t, f, ph) == [trans |-> t, fp0 |-> f, phase |-> ph]
Top(stk)  == stk[Len(stk)]
Pop(stk)  == SubSeq(stk, 1, Len(stk) - 1)
CanRefuse(stk, f) == Len(stk) > 0 /\ RefusalAtomic(Top(stk).fp0, f)

\* ------------------------------------------------- design-level state machine
CONSTANTS Trans,         \* transformation names
          Texts, Syms, Trees,   \* small abstract domains of the fp components
          MaxAttempts,   \* attempts begun in one history
          MaxDepth,      \* nesting of attempts
          Disciplined    \* TRUE: validate-then-mutate (or roll back);
                         \* FALSE: an attempt may refuse wherever it stands
VARIABLES fp,            \* current fingerprint of the tree
          stack,         \* open attempts, innermost last
          begun,         \* number of attempts begun
          last,          \* outcome record of the attempt that ended last
          shadow         \* fp of a twin tree on which refused top-level
                         \* attempts were never made
vars == <<fp, stack, begun, last, shadow>>

FP == [text : Texts, syms : Syms, tree : Trees]
\* the domains are symmetric: one initial fingerprint stands for all
Fp0 == CHOOSE f \in FP : TRUE

Init == /\ fp = Fp0
        /\ stack = <<>>
        /\ begun = 0
        /\ last = [outcome |-> "none", trans |-> "none", fp0 |-> fp, fp1 |-> fp,
                   depth |-> 0]
        /\ shadow = fp

\* the script edits the tree itself between attempts (both trees alike)
Env(v) == /\ stack = <<>> /\ v # fp /\ begun < MaxAttempts
          /\ fp' = v /\ shadow' = v
          /\ UNCHANGED <<stack, begun, last>>

Begin(t) == /\ begun < MaxAttempts /\ Len(stack) < MaxDepth
            /\ Len(stack) > 0 => Top(stack).phase = "mutating" \/ ~Disciplined
            /\ stack' = Append(stack, Open(t, fp, "validating"))
            /\ begun' = begun + 1
            /\ UNCHANGED <<fp, last, shadow>>

\* validate() passed: from now on the attempt may modify the tree
StartMutating == /\ Len(stack) > 0 /\ Top(stack).phase = "validating"
                 /\ stack' = [stack EXCEPT ![Len(stack)].phase = "mutating"]
                 /\ UNCHANGED <<fp, begun, last, shadow>>

\* a modification made by the innermost open attempt
Edit(v) == /\ Len(stack) > 0 /\ v # fp
           /\ Top(stack).phase = "mutating" \/ ~Disciplined
           /\ fp' = v
           /\ UNCHANGED <<stack, begun, last, shadow>>

End(outcome) == /\ last' = [outcome |-> outcome, trans |-> Top(stack).trans,
                            fp0 |-> Top(stack).fp0, fp1 |-> fp,
                            depth |-> Len(stack)]
                /\ stack' = Pop(stack)
                /\ UNCHANGED <<fp, begun>>

Commit == /\ Len(stack) > 0 /\ Top(stack).phase = "mutating"
          /\ End("ok")
          /\ shadow' = IF Len(stack) = 1 THEN fp ELSE shadow

\* TransformationError.  Disciplined: only with the tree as it was at Begin
\* (refused by validate, or rolled back).  Undisciplined: anywhere.
Refuse == /\ Len(stack) > 0
          /\ Disciplined => CanRefuse(stack, fp)
          /\ End("refused")
          /\ UNCHANGED shadow

\* any other exception type: no promise
Crash == /\ Len(stack) > 0
         /\ End("crash")
         /\ shadow' = IF Len(stack) = 1 THEN fp ELSE shadow

Next == \/ \E t \in Trans : Begin(t)
        \/ \E v \in FP : Env(v) \/ Edit(v)
        \/ StartMutating \/ Commit \/ Refuse \/ Crash
Spec == Init /\ [][Next]_vars

\* ------------------------------------------------------------------ properties
TypeOK == /\ fp \in FP /\ shadow \in FP
          /\ begun \in 0..MaxAttempts
          /\ Len(stack) <= MaxDepth
          /\ \A i \in DOMAIN stack : stack[i].fp0 \in FP

Refused == last.outcome = "refused"
InvTextUnchanged         == Refused => TextUnchanged(last.fp0, last.fp1)
InvSymbolsUnchanged      == Refused => SymbolsUnchanged(last.fp0, last.fp1)
InvTreeIdentityUnchanged == Refused => TreeIdentityUnchanged(last.fp0, last.fp1)
InvRefusalAtomic         == Refused => RefusalAtomic(last.fp0, last.fp1)
\* as an action property: a Refuse step leaves the tree as it was at its Begin
ActRefusalAtomic == [][(Len(stack') < Len(stack) /\ last'.outcome = "refused")
                        => (fp' = fp /\ RefusalAtomic(Top(stack).fp0, fp'))]_vars
\* the observable consequence: code written after a refused top-level attempt
\* = code written before it
\* (fp = last.fp1: the script has not edited the tree since)
InvCodeWrittenSame == (Refused /\ last.depth = 1 /\ stack = <<>> /\ fp = last.fp1)
                        => Written(fp) = Written(last.fp0)
\* a script can continue: whenever no attempt is open the tree is what it would
\* be had the refused top-level attempts never been made
InvRefusalsErasable == stack = <<>> => fp = shadow
===============================================================================
