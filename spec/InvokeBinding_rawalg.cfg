INIT Init
NEXT Next
CONSTANTS Api = "lfric"
 Stride = 7
 Offset = 0
 AlgKey = "raw"
 PsyKey = "canon"
INVARIANT InvNoDuplicateDummies
INVARIANT InvPrefixAgree
INVARIANT InvSameLength
INVARIANT InvPredicted
