INIT Init
NEXT Next
CONSTANTS Stride = 2
 Offset = 0
 AlgKey = "raw"
 PsyKey = "canon"
INVARIANT InvNoDuplicateDummies
INVARIANT InvPrefixAgree
INVARIANT InvSameLength
INVARIANT InvPredicted
