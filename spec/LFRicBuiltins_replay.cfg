INIT Init
NEXT Step
INVARIANT DocumentedValueInRange
INVARIANT UntouchedOutsideRange
INVARIANT ReductionOverOwned
INVARIANT NoNewUndefined
