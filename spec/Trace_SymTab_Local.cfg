INIT Init
NEXT Step
