INIT Init
NEXT Step
