CONSTANTS Names = {"k", "n", "a"}
 Order = "any"
INIT Init
NEXT Next
INVARIANT InvDeclaredBefore
