\* KernelOutput_check.cfg + every transition of the reachable graph printed once
CONSTANTS MaxRuns = 3
 RunCounts = {1, 2, 3}
 Schemes = {"multiple", "single"}
 Versions = {1, 2}
 PreChoices = {0, 1, 2}
 SplitChoices = {FALSE, TRUE}
 DumpWanted <- DumpQuick
INIT Init
NEXT Next
VIEW View
INVARIANT TypeOK
INVARIANT NoStuck
INVARIANT MultipleFresh
INVARIANT SingleStep
INVARIANT SingleShared
INVARIANT InvNoPartialVerdict
INVARIANT TempsRemoved
INVARIANT MemorySound
ACTION_CONSTRAINT DumpTransition
