CONSTANTS MaxRuns = 3
 RunCounts = {1, 2, 3}
 Schemes = {"multiple", "single"}
 Versions = {1, 2}
 PreChoices = {0, 1, 2}
 SplitWrite = FALSE
INIT Init
NEXT Next
VIEW View
ACTION_CONSTRAINT DumpTransition
