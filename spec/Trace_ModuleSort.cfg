INIT Init
NEXT Step
