INIT Init
NEXT Step
