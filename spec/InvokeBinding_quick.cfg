INIT Init
NEXT Next
CONSTANTS Api = "all"
 Stride = 3
 Offset = 0
 AlgKey = "canon"
 PsyKey = "canon"
INVARIANT InvNoDuplicateDummies
INVARIANT InvPrefixAgree
INVARIANT InvSameLength
INVARIANT InvPredicted
