CONSTANTS N = 3
 WithUnknown = TRUE
 WithSelf = TRUE
INIT Init
NEXT Next
INVARIANT NoStuck
INVARIANT InvPermutation
INVARIANT InvNoDup
INVARIANT InvDepsFirst
INVARIANT InvPrefixDeps
