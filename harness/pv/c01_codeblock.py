'''C01 - meaning of the statements PSyclone keeps verbatim as CodeBlocks.

Exporter hook for CodeBlock nodes: a block holding WHERE statements /
constructs is given its Fortran meaning (pv-ast "where", executed by
FortranSem.tla) by parsing the *text* PSyclone will re-emit with the
independent expression parser of c01_gen; everything else goes to the shared
exporter (EXIT / CYCLE) or makes the case unsupported.
'''
from pv.export import Unsupported
from pv import c01_gen as G


def _close(text, start):
    '''index of the parenthesis closing the one at text[start]'''
    depth = 0
    for i in range(start, len(text)):
        if text[i] == "(":
            depth += 1
        elif text[i] == ")":
            depth -= 1
            if depth == 0:
                return i
    raise Unsupported("unbalanced parentheses in code block")


def _assign(line):
    try:
        lhs, rhs = G._split_assign(line)
        return {"k": "assign", "lhs": G.E(lhs), "rhs": G.E(rhs)}
    except SyntaxError as err:
        raise Unsupported("code block statement: " + str(err)[:60])


def _expr(text):
    try:
        return G.strip(G.E(text))
    except SyntaxError as err:
        raise Unsupported("code block expression: " + str(err)[:60])


def where_from_text(text):
    '''pv-ast of the text of one WHERE statement or (un-nested) construct'''
    lines = [l.strip() for l in text.strip().splitlines() if l.strip()]
    head = lines[0]
    if not head.upper().startswith("WHERE"):
        raise Unsupported("code block: " + head[:40])
    op = head.index("(")
    cl = _close(head, op)
    node = {"k": "where", "mask": _expr(head[op + 1:cl]), "body": [], "elsewhere": []}
    rest = head[cl + 1:].strip()
    if rest:
        if len(lines) != 1:
            raise Unsupported("code block: WHERE statement followed by text")
        node["body"].append(G.strip(_assign(rest)))
        return node
    if lines[-1].upper().replace(" ", "") != "ENDWHERE":
        raise Unsupported("code block: unterminated WHERE")
    cur = node["body"]
    for line in lines[1:-1]:
        up = line.upper().replace(" ", "")
        if up.startswith("ELSEWHERE"):
            mask = G.NONE
            if "(" in line:
                op = line.index("(")
                cl = _close(line, op)
                if line[cl + 1:].strip():
                    raise Unsupported("code block: text after ELSEWHERE mask")
                mask = _expr(line[op + 1:cl])
            ew = {"mask": mask, "body": []}
            node["elsewhere"].append(ew)
            cur = ew["body"]
        elif up.startswith("WHERE") or up.startswith("ENDWHERE"):
            raise Unsupported("code block: nested WHERE")
        else:
            cur.append(G.strip(_assign(line)))
    return node


def codeblock(exporter, node):
    from fparser.two import Fortran2003 as F
    asts = node.get_ast_nodes
    if all(isinstance(a, (F.Where_Construct, F.Where_Stmt)) for a in asts):
        return [where_from_text(str(a)) for a in asts]
    if len(asts) == 1 and isinstance(asts[0], (F.Exit_Stmt, F.Cycle_Stmt)) \
            and asts[0].items[1] is not None:
        # EXIT / CYCLE with a construct name: the PSyIR loops have lost their
        # names, so the target is only known when there is a single enclosing loop
        from psyclone.psyir.nodes import Loop, WhileLoop
        depth, cur = 0, node.parent
        while cur is not None:
            if isinstance(cur, (Loop, WhileLoop)):
                depth += 1
            cur = cur.parent
        if depth == 1:
            return {"k": "exit" if isinstance(asts[0], F.Exit_Stmt) else "cycle"}
        raise Unsupported("code block: EXIT/CYCLE naming one of several enclosing loops")
    return exporter.codeblock(node)
