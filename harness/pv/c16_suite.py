'''C16, binding B (code -> spec): the repository's own tests run under the
symbol-table recorder (c16_pytest_recorder / c16_recorder); every distinct
recorded top-level call is validated by TLC with Trace_SymTab_Local.tla
(SymTab!Verdict on the recorded local state).'''
import json
import os
import subprocess
import sys

from pv import core

QUICK_DIRS = ["psyir/symbols", "psyir/transformations/inline_trans_test.py",
              "psyir/transformations/hoist_local_arrays_trans_test.py",
              "domain/common/transformations/kernel_module_inline_trans_test.py",
              "psyir/frontend/fparser2_test.py", "psyir/nodes/routine_test.py",
              "psyir/nodes/container_test.py", "psyir/nodes/scoping_node_test.py"]
THOROUGH_DIRS = ["psyir", "domain", "nemo", "psyGen_test.py", "dynamo0p3_test.py",
                 "dynamo0p3_basis_test.py",
                 "dynamo0p3_cma_test.py", "dynamo0p3_lma_test.py",
                 "dynamo0p3_multigrid_test.py", "dynamo0p3_quadrature_test.py",
                 "gocean1p0_test.py"]
BATCH = 60000


def dirs_of(tier):
    if os.environ.get("PV_C16_TESTS"):          # development / demonstrations
        return os.environ["PV_C16_TESTS"].split(",")
    return QUICK_DIRS if tier == "quick" else THOROUGH_DIRS


def _tests_root(tmp):
    '''Directory holding src/psyclone/tests next to the psyclone under test.
    A scratch copy made without tests gets an overlay of symlinks.'''
    src = os.path.join(core.REPO, "src")
    if os.path.isdir(os.path.join(src, "psyclone", "tests")):
        return src
    ov = os.path.join(tmp, "overlay", "src", "psyclone")
    os.makedirs(ov)
    for name in os.listdir(os.path.join(src, "psyclone")):
        os.symlink(os.path.join(src, "psyclone", name), os.path.join(ov, name))
    os.symlink("/repo/src/psyclone/tests", os.path.join(ov, "tests"))
    return os.path.dirname(ov)


def start(tmp, tier, procs):
    '''Launch the test subset under the recorder (returns a handle).'''
    src = _tests_root(tmp)
    tdir = os.path.join(tmp, "suite-traces")
    cwd = os.path.join(tmp, "suite-cwd")
    os.makedirs(tdir)
    os.makedirs(cwd)
    env = dict(os.environ)
    env.update({core.GUARD: "1", "C16_TRACE_DIR": tdir,
                "PYTHONDONTWRITEBYTECODE": "1",
                "PSYCLONE_CONFIG": os.path.join(core.REPO, "config", "psyclone.cfg"),
                "PYTHONPATH": ":".join([src, os.path.join(core.VERIF, "harness"),
                                        os.path.join(core.VERIF, "harness", "pv")])})
    dirs = dirs_of(tier)
    paths = [os.path.join(src, "psyclone", "tests", d) for d in dirs]
    paths = [p for p in paths if os.path.exists(p)]
    if not paths:
        raise core.MachineryError("C16 binding B: no test path exists: " + str(dirs))
    cmd = [sys.executable, "-m", "pytest", "-p", "c16_pytest_recorder",
           "-p", "no:cacheprovider", "-q", "-n", str(procs), "--timeout=1800",
           "-o", "addopts="] + paths
    log = open(os.path.join(tmp, "suite.log"), "w")
    proc = subprocess.Popen(cmd, cwd=cwd, env=env, stdout=log,
                            stderr=subprocess.STDOUT)
    return {"proc": proc, "tdir": tdir, "log": log, "tmp": tmp, "dirs": dirs}


def collect(handle, timeout):
    proc = handle["proc"]
    try:
        proc.wait(timeout=timeout)
    except subprocess.TimeoutExpired:
        proc.kill()
        raise core.MachineryError("C16 binding B: the test subset did not finish "
                                  f"in {timeout}s")
    handle["log"].close()
    with open(os.path.join(handle["tmp"], "suite.log")) as f:
        tail = f.read()[-3000:]
    summary = [line for line in tail.splitlines() if " passed" in line
               or " failed" in line or " error" in line]
    dumps = []
    for name in sorted(os.listdir(handle["tdir"])):
        with open(os.path.join(handle["tdir"], name)) as f:
            dumps.append(json.load(f))
    if not dumps:
        raise core.MachineryError("C16 binding B: the recorder plugin wrote no "
                                  "trace:\n" + tail[-1500:])
    return dumps, (summary[-1].strip("= ") if summary else "?"), proc.returncode


def merge(dumps):
    '''Union of the workers' de-duplicated events (equal by value).'''
    shapes = {}
    stats = {"events": 0, "raised": 0, "by_op": {}, "recorder_skipped": {}}
    for d in dumps:
        if not d.get("installed"):
            raise core.MachineryError("C16 binding B: recorder was not installed")
        stats["events"] += d["events"]
        stats["raised"] += d["raised"]
        for k, v in d["by_op"].items():
            stats["by_op"][k] = stats["by_op"].get(k, 0) + v
        for k, v in d["skipped"].items():
            stats["recorder_skipped"][k] = stats["recorder_skipped"].get(k, 0) + v
        for s in d["shapes"]:
            ent = shapes.get(s["event"])
            if ent is None:
                ent = shapes[s["event"]] = {"event": s["event"], "count": 0,
                                            "tests": [], "actual": s["actual"]}
            elif s["test"] < min(ent["tests"] or ["~"]):
                ent["actual"] = s["actual"]
            ent["count"] += s["count"]
            if s["test"] not in ent["tests"]:
                ent["tests"] = sorted(ent["tests"] + [s["test"]])[:8]
    ordered = [shapes[k] for k in sorted(shapes)]       # deterministic ids
    return ordered, stats


def validate(tmp, shapes, workers):
    '''TLC decides every distinct event.  Returns (verdicts {idx: clause},
    states, transitions).'''
    verdicts = {}
    states = generated = 0
    for lo in range(0, len(shapes), BATCH):
        names, atoms = {}, {}

        def idx(table, key):
            if key not in table:
                table[key] = len(table) + 1
            return table[key]

        def enc(v):
            if isinstance(v, dict):
                if "$n" in v:
                    return idx(names, v["$n"])
                if "$a" in v:
                    return idx(atoms, v["$a"])
                return {k: enc(x) for k, x in v.items()}
            if isinstance(v, list):
                return [enc(x) for x in v]
            return v
        events = [enc(json.loads(s["event"])) for s in shapes[lo:lo + BATCH]]
        path = os.path.join(tmp, f"suite-cases-{lo}.json")
        with open(path, "w") as f:
            json.dump({"names": [[ord(c) for c in n] for n in names],
                       "atoms": list(atoms), "events": events}, f,
                      separators=(",", ":"))
        res = core.run_tlc("Trace_SymTab_Local.tla", "Trace_SymTab_Local.cfg",
                           env={"PV_CASES": path}, timeout=3000, workers=workers)
        if res.distinct != 2 * len(events):
            raise core.MachineryError(
                f"C16 binding B: trace validation did not consume every event: "
                f"{res.distinct} states, expected {2 * len(events)}")
        states += res.distinct
        generated += res.generated
        for v in res.printed("VERDICT"):
            verdicts[lo + v["id"] - 1] = v["v"]
        os.unlink(path)
    return verdicts, states, generated


def case_of(shape):
    '''The counterexample handed to Outcome.violation.'''
    return {"binding": "B (recorded from the repository's tests)",
            "event": json.loads(shape["event"]),
            "with_actual_names": json.loads(shape["actual"]),
            "occurrences": shape["count"], "tests": shape["tests"],
            "how_to_rerun": "PV_C16_BINDINGS=B bin/verif check C16 --tier quick "
                            "(or run the listed test with -p c16_pytest_recorder)"}
