'''C22 - distributed-memory LFRic code never reads a dirty halo.

1. design level: LFRicHalo.tla is model-checked - loops visited under the
   documented exchange/flag protocol never read dirty data (inductive over
   every sound state).
2. binding (code -> spec): real PSy layers are generated for the repository's
   LFRic test algorithm files (both COMPUTE_ANNEXED_DOFS settings) under
   transformation histories accepted by the real transformations; the
   generated Fortran is itemised (c22_item) and projected on every field
   component (c22_gen); TLC runs every distinct step sequence on the halo
   model from every initial truth/flag state and every run-time valuation
   (Trace_LFRicHalo.tla) and reports the violated clause with a witness.
'''
import json
import os
import shutil

from pv import core
from pv import c22_gen

TIERS = {
    # maxlen: history length; nsample: histories kept per invoke and setting
    # for each length >= 2; H range of the run-time maximum halo depth
    "quick": {"maxlen": 2, "nsample": 2, "hmin": 1, "hmax": 3, "lean": True},
    "thorough": {"maxlen": 3, "nsample": 12, "hmin": 1, "hmax": 4,
                 "lean": False},
}


# ------------------------------------------------- counting (not the oracle)
def _ev(e, h, v):
    t = e["t"]
    if t == "lit":
        return e["v"]
    if t == "H":
        return h
    if t == "var":
        return v[e["i"] - 1]
    if t == "add":
        return _ev(e["a"], h, v) + _ev(e["b"], h, v)
    if t == "sub":
        return _ev(e["a"], h, v) - _ev(e["b"], h, v)
    if t == "mul":
        return _ev(e["a"], h, v) * _ev(e["b"], h, v)
    if t == "max":
        return max(_ev(x, h, v) for x in e["xs"])
    raise core.MachineryError("expression " + t)


def _admissible(case, h, v):
    '''Mirror of Trace_LFRicHalo!Admissible, used only to predict the number
    of states TLC must visit (so an unconsumed case cannot pass silently).'''
    for s in case["steps"]:
        k = s["k"]
        if k in ("hex", "hexs", "hexf"):
            if not 0 <= _ev(s["e"], h, v) <= h:
                return False
            if s["g"]["t"] != "none" and not 0 <= _ev(s["g"], h, v) <= h:
                return False
        elif k == "clean":
            if not 0 <= _ev(s["e"], h, v) <= h:
                return False
        elif k == "loop":
            d = _ev(s["d"], h, v)
            if not 0 <= d <= h:
                return False
            for a in s["acc"]:
                ext = _ev(a["s"], h, v)
                if not 0 <= ext <= h:
                    return False
                if a["a"] in ("read", "readwrite", "readinc"):
                    if s["kind"] == "cell":
                        reach = a["m"] * (d + ext)
                    elif s["kind"] == "dof":
                        reach = d if s["ub"] == "dofhalo" else 0
                    else:
                        reach = 0
                elif s["kind"] == "cell":
                    reach = a["m"] * d
                else:
                    reach = d if s["ub"] == "dofhalo" else 0
                if not 0 <= reach <= h:
                    return False
    return True


def _n_init(cont, annexed, h):
    sound = (h + 1) * (h + 2) // 2          # flag <= halo
    if cont and not annexed:
        return sound + (h + 1)              # annexed dirty: flag = 0
    return sound


def _valuations(nv, h):
    if nv == 0:
        return [()]
    res = [()]
    for _ in range(nv):
        res = [r + (x,) for r in res for x in range(0, h + 1)]
    return res


def expected_states(case, hmin, hmax):
    '''(states of a fully consumed case, admissible runs, inadmissible)'''
    n = len(case["steps"])
    conts = {"c": [True], "d": [False], "u": [True, False]}[case["cont"]]
    total = runs = inadm = 0
    for h in range(hmin, hmax + 1):
        for v in _valuations(case["nv"], h):
            ok = _admissible(case, h, v)
            for ct in conts:
                if ok:
                    k = _n_init(ct, case["ann"], h)
                    runs += k
                    total += k * (n + 2)
                else:
                    inadm += 1
                    total += 1
    return total, runs, inadm


# ------------------------------------------------------------ known findings
def match_gh_write_annexed(case, clause, detail, finding):
    '''COMPUTE_ANNEXED_DOFS off; a kernel all of whose updates are GH_WRITE
    runs over owned cells only and reads (no stencil) a continuous field whose
    annexed dofs - and nothing else it needs - are stale.'''
    if clause != "NoDirtyRead" or case["ann"]:
        return False
    if not detail or not detail.get("witnesses"):
        return False
    for wit in detail["witnesses"]:
        step = case["steps"][wit["pos"] - 1]
        if not (step["k"] == "loop" and step["kind"] == "cell"
                and step["ub"] == "edge" and step.get("allw")):
            return False
        if wit["why"] != "annexed" or not wit["w"]["cont"]:
            return False
        if wit["st"]["ann"] or wit["st"]["pend"] != "none":
            return False
        reads = [a for a in step["acc"] if a["a"] != "write"]
        if not reads or any(a["a"] != "read" or a["st"] for a in reads):
            return False
    return True


def match_inc_to_max_depth(case, clause, detail, finding):
    '''A continuous field is incremented (gh_inc) by a loop over cells to the
    *maximum* halo depth, so levels 1..H-1 must be clean; its previous writer
    in the invoke cleaned it to a literal depth only and no exchange stands
    between them (required() reads "maximum depth - 1" as literal depth 0).'''
    if clause != "NoDirtyRead" or not detail or not detail.get("witnesses"):
        return False
    for wit in detail["witnesses"]:
        pos = wit["pos"] - 1
        step = case["steps"][pos]
        if not (step["k"] == "loop" and step["kind"] == "cell"
                and step["ub"] == "halo" and step["d"] == {"t": "H"}):
            return False
        if wit["why"] != "halo" or [a["a"] for a in step["acc"]] != ["inc"]:
            return False
        hmax = wit["w"]["val"]["H"]
        if not wit["st"]["halo"] < hmax - 1 or wit["st"]["pend"] != "none":
            return False
        # previous writer: a loop to a literal depth >= 1, no exchange between
        prev = None
        for s in reversed(case["steps"][:pos]):
            if s["k"] in ("hex", "hexs", "hexf"):
                return False
            if s["k"] == "loop" and any(a["a"] != "read" for a in s["acc"]):
                prev = s
                break
        if prev is None or prev["d"]["t"] != "lit" or prev["d"]["v"] < 1:
            return False
    return True


def match_zero_depth_exchange(case, clause, detail, finding):
    '''COMPUTE_ANNEXED_DOFS off; a loop over cells needs nothing but clean
    annexed dofs of a continuous field, and the halo exchange generated just
    before it for that purpose has a depth that evaluates to 0 at run time (a
    variable stencil extent of 0 on owned cells, or max_halo_depth_mesh-1 on a
    mesh of depth 1): is_dirty(depth=0) / halo_exchange(depth=0) are outside
    the field API's range and refresh nothing.'''
    if clause != "NoDirtyRead" or case["ann"]:
        return False
    if not detail or not detail.get("witnesses"):
        return False
    for wit in detail["witnesses"]:
        pos = wit["pos"] - 1
        step = case["steps"][pos]
        if step["k"] != "loop" or step["kind"] != "cell" or pos == 0:
            return False
        if wit["why"] != "annexed" or not wit["w"]["cont"]:
            return False
        if wit["st"]["ann"] or wit["st"]["pend"] != "none":
            return False
        prev = case["steps"][pos - 1]
        if prev["k"] not in ("hex", "hexf"):     # synchronous or asynchronous
            return False
        val = wit["w"]["val"]
        if _ev(prev["e"], val["H"], val["v"]) != 0:
            return False
        if prev["g"]["t"] != "none" and _ev(prev["g"], val["H"], val["v"]) != 0:
            return False
    return True


MATCHERS = {"c22_gh_write_reads_stale_annexed": match_gh_write_annexed,
            "c22_zero_depth_exchange": match_zero_depth_exchange,
            "c22_inc_to_max_depth_after_literal_writer": match_inc_to_max_depth}

_TLC_KEYS = {"loop": ("k", "kind", "ub", "d", "acc"), "hex": ("k", "g", "e"),
             "hexs": ("k", "g", "e"), "hexf": ("k", "g", "e"),
             "dirty": ("k",), "clean": ("k", "e")}


def _for_tlc(cid, case):
    steps = []
    for s in case["steps"]:
        t = {k: s[k] for k in _TLC_KEYS[s["k"]]}
        if s["k"] == "loop":
            t["acc"] = [{"a": a["a"], "s": a["s"], "m": a["m"]} for a in s["acc"]]
        steps.append(t)
    return {"id": cid, "cont": case["cont"], "ann": case["ann"],
            "nv": case["nv"], "steps": steps}


def validate(cases, hmin, hmax, tmp, cov, workers=None, tag="cases"):
    '''cases: list of projected cases (dicts).  Runs TLC over all of them;
    returns {index: [verdict records]} for the failing ones.'''
    path = os.path.join(tmp, tag + ".json")
    with open(path, "w") as f:
        json.dump({"hmin": hmin, "hmax": hmax,
                   "cases": [_for_tlc(i + 1, c) for i, c in enumerate(cases)]},
                  f, separators=(",", ":"))
    res = core.run_tlc("Trace_LFRicHalo.tla", "Trace_LFRicHalo.cfg",
                       env={"PV_CASES": path}, workers=workers, timeout=3000)
    os.unlink(path)
    bad = {}
    for b in res.printed("VERDICT"):
        bad.setdefault(b["id"] - 1, []).append(b)
    expect = runs = inadm = vac = 0
    for i, c in enumerate(cases):
        tot, r, ia = expected_states(c, hmin, hmax)
        expect += tot + 1                   # + the state in which Init picks it
        runs += r
        inadm += ia
        vac += (r == 0)
        n = len(c["steps"])
        for b in bad.get(i, []):
            expect -= (n + 2) - (b["pos"] + 1)
    if res.distinct != expect:
        raise core.MachineryError(
            f"C22 trace validation did not consume every case: TLC visited "
            f"{res.distinct} states, expected {expect}")
    cov["states"] += res.distinct
    cov["transitions"] += res.generated
    cov["evaluations"] += runs
    cov["inadmissible_valuations"] += inadm
    cov["vacuous_cases"] += vac
    cov["tlc_wall_s"] = round(cov.get("tlc_wall_s", 0) + res.wall, 1)
    return bad


def generate(tier, cov, procs=None, files=None):
    '''-> (distinct projected cases, origins per case)'''
    par = TIERS[tier]
    if files is None and os.environ.get("PV_C22_FILES"):
        # restricted corpus (binding demonstrations on a loaded machine)
        files = [f for f in os.environ["PV_C22_FILES"].split(",") if f]
    files = files or c22_gen.list_files()
    # one job per file (both COMPUTE_ANNEXED_DOFS settings); big files first
    tdir = c22_gen.test_dir()

    def size(f):
        return (len(c22_gen.generated_text(f)) if c22_gen.is_generated(f)
                else os.path.getsize(os.path.join(tdir, f)))
    files = sorted(files, key=lambda f: (-size(f), f))
    jobs = [(f, par["maxlen"], par["nsample"], core.seed(), (False, True),
             par["lean"]) for f in files]
    # import PSyclone before forking so that the workers inherit it
    import psyclone.parse.algorithm      # noqa
    import psyclone.psyGen               # noqa
    import psyclone.transformations      # noqa
    import psyclone.dynamo0p3            # noqa
    results = core.pool_map(c22_gen.work, jobs, procs=procs, chunksize=1)
    index = {}
    cases = []
    origins = []
    results.sort(key=lambda r: r["file"])          # jobs were ordered by size
    seen = set()
    for r in results:
        first = r["file"] not in seen
        seen.add(r["file"])
        cov["algorithm_files"] += first
        if r["parse_error"]:
            cov["files_rejected_by_psyclone"] += first
            continue
        cov["invokes"] += r["invokes"] if first else 0
        cov["layers_generated"] += r["layers"]
        cov["histories_refused"] += r["refused"]
        cov["refused_at_code_generation"] += r["generr"]
        cov["unsupported"] += len(r["unsupported"])
        for o, why in r["unsupported"]:
            key = why.split(":")[0][:60]
            cov["unsupported_reasons"][key] = \
                cov["unsupported_reasons"].get(key, 0) + 1
            if len(cov["unsupported_samples"]) < 5:
                cov["unsupported_samples"].append({"origin": o, "why": why})
        for o, why in r.get("generr_samples", []):
            if len(cov["codegen_refusal_samples"]) < 4 and \
                    why not in [x["why"] for x in cov["codegen_refusal_samples"]]:
                cov["codegen_refusal_samples"].append({"origin": o, "why": why})
        for origin, text in r["cases"]:
            cov["traces_validated_against_impl"] += 1
            if text not in index:
                index[text] = len(cases)
                cases.append(json.loads(text))
                origins.append([])
            origins[index[text]].append(origin)
    return cases, origins


def run(tier):
    core.setup_psyclone_env()
    par = TIERS[tier]
    out = core.Outcome("C22", tier, "model_checking", matchers=MATCHERS)
    cov = {"states": 0, "transitions": 0, "traces_validated_against_impl": 0,
           "samples": [], "evaluations": 0, "distinct_nontrivial": 0,
           "exhaustive": False, "divergences": 0, "unsupported": 0,
           "unsupported_reasons": {}, "unsupported_samples": [],
           "codegen_refusal_samples": [],
           "algorithm_files": 0, "files_rejected_by_psyclone": 0, "invokes": 0,
           "layers_generated": 0, "histories_refused": 0,
           "refused_at_code_generation": 0, "inadmissible_valuations": 0,
           "vacuous_cases": 0, "failing_step_sequences": 0,
           "failing_field_traces": 0}
    # 1. design level
    res = core.run_tlc("LFRicHalo.tla", f"LFRicHalo_{tier}.cfg", check=False,
                       coverage=(tier != "quick"))
    if res.invariant_violated or res.error:
        raise core.MachineryError("LFRicHalo.tla does not satisfy its own "
                                  "invariants: "
                                  + str(res.invariant_violated or res.error))
    cov["model_states"] = res.distinct
    cov["model_transitions"] = res.generated
    cov["states"] += res.distinct
    cov["transitions"] += res.generated
    # 2. real PSy layers
    cases, origins = generate(tier, cov)
    cov["distinct_nontrivial"] = len(cases)
    if cov["layers_generated"] == 0:
        raise core.MachineryError("no PSy layer could be generated")
    if cov["unsupported"] > 0.2 * cov["layers_generated"]:
        raise core.MachineryError(
            f"{cov['unsupported']} of {cov['layers_generated']} generated "
            f"layers could not be itemised: {cov['unsupported_reasons']}")
    tmp = core.mktemp("pv-c22-")
    try:
        bad = validate(cases, par["hmin"], par["hmax"], tmp, cov)
    finally:
        shutil.rmtree(tmp, ignore_errors=True)
    for idx in sorted(bad):
        recs = sorted(bad[idx], key=lambda b: json.dumps(b, sort_keys=True))
        clauses = sorted({b["v"] for b in recs})
        cov["failing_step_sequences"] += 1
        cov["failing_field_traces"] += len(origins[idx])
        origs = sorted(origins[idx], key=lambda o: (len(o["history"]),
                                                    json.dumps(o, sort_keys=True)))
        case = dict(cases[idx], origin=origs[0], n_origins=len(origs))
        for clause in clauses:
            wits = [b for b in recs if b["v"] == clause]
            out.violation(case, clause,
                          {"witnesses": [{k: b[k] for k in ("pos", "why", "w", "st")}
                                         for b in wits],
                           "other_origins": origs[1:6]})
    for i in (0, len(cases) // 3, 2 * len(cases) // 3):
        if i < len(cases):
            cov["samples"].append({"origin": origins[i][0],
                                   "n_origins": len(origins[i]),
                                   "case": cases[i]})
    cov["rule"] = ("one evaluation = one (field component step sequence, "
                   "continuity, run-time valuation, initial truth/flag state) "
                   "run by TLC; distinct_nontrivial = distinct step sequences "
                   "after projecting every generated invoke on every field "
                   "component; traces_validated_against_impl = projected "
                   "(layer, component) pairs before de-duplication")
    return out.finish(cov, assumptions=[
        "variable stencil extents range over 0..H (0: the stencil is the cell "
        "itself); is_dirty(depth=0) answers false and halo_exchange(depth=0) "
        "exchanges nothing (both are outside the field API's range 1..H)",
        "a run-time valuation in which a depth of the generated code does not "
        "exist on the mesh (depth > H) is not a run of the program",
        "owned dofs always hold correct data; fields evolve independently "
        "(one component tracked per run)",
        "a field's continuity is that of its concrete/any_discontinuous_space "
        "uses in the invoke; both when only any_space_n/any_w2/wchi",
        "with COMPUTE_ANNEXED_DOFS annexed dofs are clean on entry",
        "test algorithm files using one field on a continuous and a "
        "discontinuous space are not physical: unsupported",
        "kernel metadata (access, space, stencil, mesh) is read from the "
        "schedule; everything else from the generated Fortran text"])


# ------------------------------------------------ binding demonstration (B)
def corruption_demo(files=("4.8_multikernel_invokes.f90",
                           "15.7.3_setval_X_before_user_kern.f90",
                           "14.4_halo_vector.f90")):
    '''Trace-corruption test: take the step sequences itemised from correct
    PSy layers (accepted by TLC) and corrupt one recorded field; TLC must
    reject.  Returns {corruption: (rejected sequences, corrupted sequences)}.'''
    import collections
    import copy
    core.setup_psyclone_env()
    cov = collections.defaultdict(int)
    cov.update({"unsupported_reasons": {}, "unsupported_samples": [],
                "codegen_refusal_samples": []})
    saved = dict(TIERS["quick"])
    TIERS["quick"].update(maxlen=1, nsample=0)
    try:
        cases, _ = generate("quick", cov, files=list(files))
    finally:
        TIERS["quick"].update(saved)
    tmp = core.mktemp("pv-c22-")
    res = {}
    try:
        bad = validate(cases, 1, 3, tmp, cov, tag="orig")
        good = [c for i, c in enumerate(cases) if i not in bad]

        def drop_hex(c):
            idx = [i for i, s in enumerate(c["steps"]) if s["k"] == "hex"]
            if not idx:
                return None
            c = copy.deepcopy(c)
            del c["steps"][idx[0]]
            return c

        def clean_deeper(c):
            idx = [i for i, s in enumerate(c["steps"]) if s["k"] == "dirty"]
            if not idx:
                return None
            c = copy.deepcopy(c)
            c["steps"].insert(idx[-1] + 1, {"k": "clean",
                                            "e": {"t": "lit", "v": 1}})
            return c

        def loop_deeper(c):
            idx = [i for i, s in enumerate(c["steps"]) if s["k"] == "loop"
                   and s["kind"] == "cell" and s["d"]["t"] == "lit"
                   and any(a["a"] == "read" for a in s["acc"])]
            if not idx:
                return None
            c = copy.deepcopy(c)
            c["steps"][idx[0]]["d"] = {"t": "lit",
                                       "v": c["steps"][idx[0]]["d"]["v"] + 1}
            c["steps"][idx[0]]["ub"] = "halo"
            return c

        for name, fn in (("halo_exchange dropped", drop_hex),
                         ("set_clean(1) added after set_dirty", clean_deeper),
                         ("reading loop one level deeper", loop_deeper)):
            mut = [m for m in (fn(c) for c in good) if m is not None]
            # a corrupted sequence may coincide with another correct one
            texts = {json.dumps(c, sort_keys=True) for c in good}
            mut = [m for m in mut if json.dumps(m, sort_keys=True) not in texts]
            b = validate(mut, 1, 3, tmp, cov, tag="mut")
            res[name] = (len(b), len(mut))
    finally:
        shutil.rmtree(tmp, ignore_errors=True)
    return res


if __name__ == "__main__":
    import sys
    if sys.argv[1:] == ["corrupt"]:
        for k, (rej, tot) in corruption_demo().items():
            print(f"corruption '{k}': {rej} of {tot} corrupted step "
                  f"sequences rejected by TLC")
