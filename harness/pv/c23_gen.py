'''C23 helper - drives the real PSyclone: builds LFRic invoke schedules for the
corpus of algorithm files, applies the operations of LFRicSched.tla's alphabet
with the real transformations, generates the PSy layer and projects the
generated Fortran (c23_item) on the abstract schedule tree of the spec.'''
import os

from pv import core
from pv import c22_gen
from pv import c22_item
from pv.c23_item import Unsupported, itemise

ACCESS = {"read": "gh_read", "write": "gh_write", "readwrite": "gh_readwrite",
          "inc": "gh_inc", "readinc": "gh_readinc"}
OVER = {"cell_column": "cells", "dof": "dofs", "domain": "domain"}

# ---------------------------------------------------------------------- corpus
# algorithm files of the repository (tests/test_files/dynamo0p3) chosen so that
# every access x function-space class that the metadata rules allow occurs
ONE_KERNEL = [
    "1_single_invoke.f90",                              # gh_inc, w1
    "11_any_space.f90",                                 # gh_inc, any_space
    "22.1.1_intergrid_cont_restrict.f90",               # gh_write, w2
    "14.1.1_halo_cont_write.f90",                       # gh_write, any_space
    "1.5.2_single_invoke_write_fld_op.f90",             # gh_write, w3
    "1_single_invoke_w3.f90",                           # gh_readwrite, w3
    "20.1.2_cma_apply_disc.f90",                        # gh_write, any_disc.
    "1_single_invoke_any_discontinuous_space.f90",      # gh_readwrite, any_d.
    "1.5.1_single_invoke_write_multi_fs.f90",           # gh_inc + gh_write
    "1.5.3_single_invoke_write_any_anyd_space.f90",     # inc any + write anyd
    "15.1.1_X_plus_Y_builtin.f90",                      # built-in, gh_write
    "15.1.2_inc_X_plus_Y_builtin.f90",                  # built-in, readwrite
    "25.0_domain.f90",                                  # kernel on the domain
    "10.1_operator_nofield.f90",                        # operator only
    "c23_single_readinc.f90",                           # gh_readinc, w0
    "c23_readinc_anyspace.f90",                         # gh_readinc, any_space
    "c23_prolong_w3.f90",              # inter-grid: gh_inc w1, iterates over w3
    "c23_op_w3_inc.f90",               # writes a w3 operator and gh_inc w1
    "c23_prolong_w3_readinc.f90",      # inter-grid: gh_readinc w1, over w3
]
TWO_KERNELS = [
    "14.15_halo_readinc.f90",                           # inc w0 ; readinc w0
    "14.1.2_stencil_w2_write.f90",                      # write w2 ; inc any
    "15.14.4_builtin_and_normal_kernel_invoke.f90",     # inc ; built-in
    "14.16_disc_stencil_then_read.f90",                 # write d ; readwrite d
    "25.1_2kern_domain.f90",                            # inc ; domain
]
MORE_ONE = [
    "12_kernel_specific.f90", "14.1_halo_writers.f90",
    "1.5.5_single_invoke_write_multi_fs_int_field.f90",
    "1.5.4_single_invoke_write_anyspace_w2trace.f90",
    "11.4_any_discontinuous_space.f90", "10.7_operator_read.f90",
    "15.27.1_int_setval_c_builtin.f90", "19.1_single_stencil.f90",
]
MORE_TWO = [
    "4.5.1_multikernel_invokes.f90", "6.5_2eval_op_to_invoke.f90",
    "15.7.3_setval_X_before_user_kern.f90", "4.13_multikernel_invokes_w3_anyd.f90",
    "4_multikernel_invokes.f90", "6.7_2eval_same_var_invoke.f90",
]

SYNTHETIC = {
    # the repository has one gh_readinc kernel, on w0 and only in a two-kernel
    # invoke; these two files complete the access x space table
    "c23_single_readinc.f90": '''program c23_single_readinc
  use field_mod,               only: field_type
  use testkern_w0_readinc_mod, only: testkern_w0_readinc_type
  implicit none
  type(field_type) :: f1, f2
  call invoke( testkern_w0_readinc_type(f1, f2) )
end program c23_single_readinc
''',
    "c23_readinc_anyspace.f90": '''program c23_readinc_anyspace
  use field_mod,                   only: field_type
  use c23kern_readinc_anyspace_mod, only: c23kern_readinc_anyspace_type
  implicit none
  type(field_type) :: f1, f2
  call invoke( c23kern_readinc_anyspace_type(f1, f2) )
end program c23_readinc_anyspace
''',
    "c23kern_readinc_anyspace_mod.f90": '''module c23kern_readinc_anyspace_mod
  use argument_mod
  use fs_continuity_mod
  use kernel_mod
  use constants_mod
  implicit none
  type, extends(kernel_type) :: c23kern_readinc_anyspace_type
     type(arg_type), dimension(2) :: meta_args =                     &
          (/ arg_type(gh_field, gh_real, gh_readinc, any_space_1),   &
             arg_type(gh_field, gh_real, gh_read,    w0)             &
           /)
     integer :: operates_on = cell_column
   contains
     procedure, nopass :: code => c23kern_readinc_anyspace_code
  end type c23kern_readinc_anyspace_type
contains
  subroutine c23kern_readinc_anyspace_code(nlayers, fld1, fld2,         &
                                           ndf_aspc1, undf_aspc1, map_aspc1, &
                                           ndf_w0, undf_w0, map_w0)
    implicit none
    integer(kind=i_def), intent(in) :: nlayers
    integer(kind=i_def), intent(in) :: ndf_aspc1, undf_aspc1
    integer(kind=i_def), intent(in) :: ndf_w0, undf_w0
    integer(kind=i_def), intent(in), dimension(ndf_aspc1) :: map_aspc1
    integer(kind=i_def), intent(in), dimension(ndf_w0) :: map_w0
    real(kind=r_def), intent(inout), dimension(undf_aspc1) :: fld1
    real(kind=r_def), intent(in), dimension(undf_w0) :: fld2
  end subroutine c23kern_readinc_anyspace_code
end module c23kern_readinc_anyspace_mod
''',
    # kernels whose ITERATION-SPACE argument is on a discontinuous space
    # although they increment a field on a continuous space (the loop's
    # field_space is not the space of the incremented argument): an inter-grid
    # prolongation with the coarse field on w3, and a kernel that writes a
    # w3-w3 LMA operator.  None exists in the repository's test files.
    "c23_prolong_w3.f90": '''program c23_prolong_w3
  use field_mod,                only: field_type
  use c23kern_prolong_w3_mod,   only: c23kern_prolong_w3_type
  implicit none
  type(field_type) :: field1, field2
  call invoke( c23kern_prolong_w3_type(field1, field2) )
end program c23_prolong_w3
''',
    "c23kern_prolong_w3_mod.f90": '''module c23kern_prolong_w3_mod
  use constants_mod
  use kernel_mod
  use argument_mod
  use fs_continuity_mod
  implicit none
  type, extends(kernel_type) :: c23kern_prolong_w3_type
     type(arg_type), dimension(2) :: meta_args = (/                    &
          arg_type(GH_FIELD, GH_REAL, GH_INC,  W1, mesh_arg=GH_FINE),  &
          arg_type(GH_FIELD, GH_REAL, GH_READ, W3, mesh_arg=GH_COARSE) &
          /)
     integer :: operates_on = CELL_COLUMN
   contains
     procedure, nopass :: code => c23kern_prolong_w3_code
  end type c23kern_prolong_w3_type
contains
  subroutine c23kern_prolong_w3_code(nlayers, cell_map, ncell_f_per_c_x,  &
                                     ncell_f_per_c_y, ncell_f, fine,      &
                                     coarse, ndf_w1, undf_w1, dofmap_w1,  &
                                     undf_w3, dofmap_w3)
    implicit none
    integer(kind=i_def), intent(in) :: nlayers
    integer(kind=i_def), intent(in) :: ncell_f_per_c_x, ncell_f_per_c_y
    integer(kind=i_def), dimension(ncell_f_per_c_x, ncell_f_per_c_y), &
                         intent(in) :: cell_map
    integer(kind=i_def), intent(in) :: ncell_f
    integer(kind=i_def), intent(in) :: ndf_w1, undf_w1, undf_w3
    integer(kind=i_def), dimension(ndf_w1, ncell_f), intent(in) :: dofmap_w1
    integer(kind=i_def), dimension(1), intent(in) :: dofmap_w3
    real(kind=r_def), dimension(undf_w1), intent(inout) :: fine
    real(kind=r_def), dimension(undf_w3), intent(in) :: coarse
  end subroutine c23kern_prolong_w3_code
end module c23kern_prolong_w3_mod
''',
    "c23_op_w3_inc.f90": '''program c23_op_w3_inc
  use field_mod,              only: field_type
  use operator_mod,           only: operator_type
  use c23kern_op_w3_inc_mod,  only: c23kern_op_w3_inc_type
  implicit none
  type(field_type)    :: f1
  type(operator_type) :: op
  call invoke( c23kern_op_w3_inc_type(op, f1) )
end program c23_op_w3_inc
''',
    "c23kern_op_w3_inc_mod.f90": '''module c23kern_op_w3_inc_mod
  use constants_mod
  use kernel_mod
  use argument_mod
  use fs_continuity_mod
  implicit none
  type, extends(kernel_type) :: c23kern_op_w3_inc_type
     type(arg_type), dimension(2) :: meta_args = (/              &
          arg_type(GH_OPERATOR, GH_REAL, GH_WRITE, W3, W3),      &
          arg_type(GH_FIELD,    GH_REAL, GH_INC,   W1)           &
          /)
     integer :: operates_on = CELL_COLUMN
   contains
     procedure, nopass :: code => c23kern_op_w3_inc_code
  end type c23kern_op_w3_inc_type
contains
  subroutine c23kern_op_w3_inc_code(cell, nlayers, ncell_3d, op, fld,  &
                                    ndf_w3, ndf_w1, undf_w1, map_w1)
    implicit none
    integer(kind=i_def), intent(in) :: cell, nlayers, ncell_3d
    integer(kind=i_def), intent(in) :: ndf_w3, ndf_w1, undf_w1
    integer(kind=i_def), intent(in), dimension(ndf_w1) :: map_w1
    real(kind=r_def), intent(inout), dimension(ndf_w3,ndf_w3,ncell_3d) :: op
    real(kind=r_def), intent(inout), dimension(undf_w1) :: fld
  end subroutine c23kern_op_w3_inc_code
end module c23kern_op_w3_inc_mod
''',
}


SYNTHETIC["c23_prolong_w3_readinc.f90"] = SYNTHETIC["c23_prolong_w3.f90"] \
    .replace("c23_prolong_w3", "c23_prolong_w3_readinc") \
    .replace("c23kern_prolong_w3", "c23kern_prolong_w3_readinc")
SYNTHETIC["c23kern_prolong_w3_readinc_mod.f90"] = \
    SYNTHETIC["c23kern_prolong_w3_mod.f90"] \
    .replace("c23kern_prolong_w3", "c23kern_prolong_w3_readinc") \
    .replace("GH_INC, ", "GH_READINC,")


def corpus(tier):
    files = ONE_KERNEL + TWO_KERNELS
    if tier != "quick":
        files = files + MORE_ONE + MORE_TWO
    return files


# parsed algorithm files, filled by load() in the parent before forking
INFO = {}


def load(files, tmp):
    '''Parse the algorithm files once (parent process).  Returns the list of
    files PSyclone rejected.'''
    from psyclone.parse.algorithm import parse
    tdir = c22_gen.test_dir()
    for name, text in SYNTHETIC.items():
        with open(os.path.join(tmp, name), "w") as f:
            f.write(text)
    bad = []
    for f in files:
        if f in INFO:
            continue
        try:
            if f in SYNTHETIC:
                _, info = parse(os.path.join(tmp, f), api="dynamo0.3",
                                kernel_paths=[tmp, tdir])
            else:
                _, info = parse(os.path.join(tdir, f), api="dynamo0.3")
            INFO[f] = info
        except Exception as err:    # noqa
            bad.append((f, type(err).__name__ + ": " + str(err)[:200]))
    return bad


def build(member):
    '''member = (file, dm, invoke index) -> (psy, invoke)'''
    from psyclone.psyGen import PSyFactory
    from psyclone.configuration import Config
    fname, dm, iidx = member
    Config.get().api_conf("lfric")._compute_annexed_dofs = False
    psy = PSyFactory("dynamo0.3", distributed_memory=dm).create(INFO[fname])
    return psy, psy.invokes.invoke_list[iidx]


# ------------------------------------------------------------ kernel metadata
def fs_class(name):
    name = name.lower()
    if name.startswith("any_discontinuous_space_"):
        return "any_discontinuous"
    return {"c": "continuous", "d": "discontinuous",
            "u": "any_space"}[c22_gen.space_class(name)]


def kernel_summaries(schedule):
    '''-> (names [(name, builtin)], summaries for the spec, details)'''
    try:
        meta = c22_gen.kernel_metadata(schedule)
    except c22_item.Unsupported as err:
        raise Unsupported(str(err))
    names, kerns, detail = [], [], []
    for k in meta:
        if k["over"] not in OVER:
            raise Unsupported("kernel operates on " + str(k["over"]))
        names.append((k["name"], k["builtin"]))
        try:
            pairs = sorted({(ACCESS[a["a"]], fs_class(a["fs"]))
                            for a in k["args"]})
        except c22_item.Unsupported as err:
            raise Unsupported(str(err))
        kerns.append({"over": OVER[k["over"]],
                      "args": [{"acc": a, "fs": f} for a, f in pairs]})
        detail.append({"name": k["name"],
                       "args": [[a["a"], a["fs"]] for a in k["args"]]})
    # the space of each kernel's iteration-space argument (= the loop's space)
    from psyclone.domain.lfric import LFRicLoop
    for node, det in zip(kernels_of(schedule), detail):
        loop = node.ancestor(LFRicLoop)
        det["loop_space"] = loop.field_space.orig_name if loop else ""
    return names, kerns, detail


# ------------------------------------------------------------------- targets
def kernels_of(schedule):
    from psyclone.domain.lfric import LFRicKern
    from psyclone.domain.lfric.lfric_builtins import LFRicBuiltIn
    return schedule.walk((LFRicKern, LFRicBuiltIn))


def resolve(schedule, tg):
    '''The node (loop ops) or list of sibling nodes (region ops) an abstract
    target denotes in the real schedule; None if there is none.'''
    from psyclone.domain.lfric import LFRicLoop
    kerns = kernels_of(schedule)
    if not 1 <= tg["k"] <= len(kerns) or not 1 <= tg["k2"] <= len(kerns):
        return None
    kern = kerns[tg["k"] - 1]
    which = tg["w"]
    if which == "top":
        def top(node):
            while node.parent is not schedule:
                node = node.parent
            return node
        first, last = top(kern), top(kerns[tg["k2"] - 1])
        if first.position > last.position:
            return None
        return schedule.children[first.position:last.position + 1]
    main = kern.ancestor(LFRicLoop)
    if main is None:
        return None
    if which == "main":
        return main
    col = main.ancestor(LFRicLoop)
    if col is None or col.loop_type != "colours":
        return None
    if which == "colours":
        return col
    if which == "inner":
        node = kern
        while node.parent is not col.loop_body:
            node = node.parent
        return [node]
    raise core.MachineryError("target " + str(tg))


def apply_op(schedule, op):
    '''Apply one operation with the real transformation.  Returns "notarget"
    or "ok"; a refusal raises TransformationError.'''
    from psyclone.transformations import (
        Dynamo0p3ColourTrans, DynamoOMPParallelLoopTrans,
        Dynamo0p3OMPLoopTrans, OMPParallelTrans, ACCLoopTrans,
        ACCParallelTrans, Dynamo0p3RedundantComputationTrans,
        OMPParallelLoopTrans)
    from psyclone.psyir.transformations import ACCKernelsTrans, OMPLoopTrans
    tgt = resolve(schedule, op["tg"])
    if tgt is None:
        return "notarget"
    name = op["name"]
    if name == "Colour":
        Dynamo0p3ColourTrans().apply(tgt)
    elif name == "OMPParallelLoop":
        DynamoOMPParallelLoopTrans().apply(tgt)
    elif name == "OMPLoop":
        Dynamo0p3OMPLoopTrans().apply(tgt)
    elif name == "GenOMPParallelLoop":      # generic: own dependence analysis
        OMPParallelLoopTrans().apply(tgt)
    elif name == "GenOMPLoop":
        OMPLoopTrans().apply(tgt)
    elif name == "ACCLoop":
        ACCLoopTrans().apply(tgt, {"independent": op["opt"] != "auto"})
    elif name == "RedundantComp":
        Dynamo0p3RedundantComputationTrans().apply(tgt)
    elif name == "OMPParallel":
        OMPParallelTrans().apply(tgt)
    elif name == "ACCParallel":
        ACCParallelTrans().apply(tgt)
    elif name == "ACCKernels":
        ACCKernelsTrans().apply(tgt)
    else:
        raise core.MachineryError("operation " + name)
    return "ok"


# ---------------------------------------------------------------- generation
def generate(psy, invoke):
    '''The generated subroutine of the invoke, or raises (code generation
    refused).  An `acc parallel` region only generates with an `acc enter
    data` directive in the schedule: the driver adds it (ACCEnterDataTrans)
    as the last step of the history when needed.'''
    from psyclone.psyir.nodes import (ACCParallelDirective,
                                      ACCEnterDataDirective)
    from psyclone.transformations import ACCEnterDataTrans
    sched = invoke.schedule
    if sched.walk(ACCParallelDirective) and \
            not sched.walk(ACCEnterDataDirective):
        ACCEnterDataTrans().apply(sched)
    psy.invokes.invoke_list = [invoke]
    text = str(psy.gen)
    subs = c22_gen.split_subroutines(text)
    if invoke.name.lower() not in subs:
        raise Unsupported("subroutine not found")
    return subs[invoke.name.lower()]


def product(psy, invoke):
    '''-> ("ok", tree, text) | ("generr", message, None) |
          ("unsupported", message, text)'''
    try:
        text = generate(psy, invoke)
    except Unsupported as err:
        return "unsupported", str(err), None
    except Exception as err:    # noqa  (refused at code generation)
        return "generr", type(err).__name__ + ": " + str(err)[-200:], None
    try:
        names, _, _ = kernel_summaries(invoke.schedule)
        return "ok", itemise(text, names), text
    except Unsupported as err:
        return "unsupported", str(err), text


def replay(member, path):
    '''Fresh schedule of the member with the operations of path applied
    (refused or target-less ones skipped; after an operation that fails with
    anything but a TransformationError the schedule is rebuilt without it).
    -> (psy, invoke, outcomes)'''
    from psyclone.psyir.transformations import TransformationError
    skip = set()
    while True:
        psy, invoke = build(member)
        outcomes = []
        for i, op in enumerate(path):
            if i in skip:
                outcomes.append("crashed")
                continue
            try:
                outcomes.append(apply_op(invoke.schedule, op))
            except TransformationError:
                outcomes.append("refused")
            except Exception:    # noqa
                skip.add(i)
                break
        else:
            return psy, invoke, outcomes


# -------------------------------------------------------------------- workers
def work_init(member):
    '''The untransformed invoke: kernel summaries and projected code.'''
    core.setup_psyclone_env()
    res = {"member": list(member), "status": "ok"}
    try:
        psy, invoke = build(member)
        res["invoke"] = invoke.name
        names, kerns, detail = kernel_summaries(invoke.schedule)
        res.update(kerns=kerns, detail=detail)
        status, tree, _ = product(psy, invoke)
        if status != "ok":
            res.update(status=status, why=tree)
        else:
            res["sched"] = tree
    except Unsupported as err:
        res.update(status="unsupported", why=str(err))
    return res


def _view(sched):
    try:
        return sched.view(colour=False)
    except Exception:    # noqa  (halo-exchange nodes of a schedule that cannot
        return None      # be generated refuse to describe themselves)


def work_state(job):
    '''job = (member, state id, path, [(transition id, op)]).  Replays the path
    and tries every operation on the state reached; an operation the real
    transformation refuses without touching the schedule leaves the object
    usable for the next one.'''
    from psyclone.psyir.transformations import TransformationError
    core.setup_psyclone_env()
    member, sid, path, ops = job
    member = tuple(member)
    out = {"member": list(member), "sid": sid, "path": None, "trans": []}
    obj = None
    for tid, op in ops:
        if obj is None:
            obj = replay(member, path)
            if out["path"] is None:
                out["path"] = obj[2]
        psy, invoke, _ = obj
        sched = invoke.schedule
        before = _view(sched)
        try:
            res = apply_op(sched, op)
        except TransformationError as err:
            if before is not None and _view(sched) == before:
                out["trans"].append({"tid": tid, "res": "refused",
                                     "why": str(err)[-160:]})
            else:
                out["trans"].append({"tid": tid, "res": "refused-changed",
                                     "why": str(err)[-160:]})
                obj = None
            continue
        except Exception as err:    # noqa  (not a clean refusal)
            out["trans"].append({"tid": tid, "res": "crashed",
                                 "why": type(err).__name__ + ": "
                                 + str(err)[-160:]})
            obj = None
            continue
        if res == "notarget":
            out["trans"].append({"tid": tid, "res": "notarget"})
            continue
        status, tree, text = product(psy, invoke)
        rec = {"tid": tid, "res": status}
        if status == "ok":
            rec["post"] = tree
        else:
            rec["why"] = tree
        out["trans"].append(rec)
        obj = None
    if out["path"] is None:
        out["path"] = []
    return out


def code_of(member, history):
    '''Generated code after a history (for witnesses and reproducers).'''
    psy, invoke, outcomes = replay(tuple(member), history)
    status, tree, text = product(psy, invoke)
    return status, tree, text, outcomes
