'''C10 helpers: the skeleton routines, replay of a TLC-generated transformation
history on real PSyIR, and the two projections of the result into the abstract
tree shape of spec/DirectiveTree.tla:

  * project_psyir(routine): from the PSyIR nodes (used to resolve model paths
    and as a cross-check of the itemiser),
  * itemise(text): from the text FortranWriter produced (this is what TLC's
    Valid judges - the property is about the generated code).

Abstract node (uniform record, JSON): {"k","id","c","cl","body"}
  k  : "routine" | "loop" | "stmt" | "omp_*" | "acc_*"
  id : loop id ("L1".. from the loop variable i1..), statement id (lhs array)
  c  : collapse count (0 = no clause)
  cl : sorted list of nesting-relevant clauses ("nowait","seq","gang",
       "vector","independent","nogroup"; "nonrect" on a loop whose bounds use
       an enclosing loop variable)
Nothing here decides the property.'''
import re

# ------------------------------------------------------------------ skeletons
_DECL = '''subroutine s(a, b, c, d, e, n)
  integer, intent(in) :: n
  real, dimension(n), intent(inout) :: a
  real, dimension(n,n), intent(inout) :: b
  real, dimension(n), intent(inout) :: c
  real, dimension(n,n,n), intent(inout) :: d
  real, dimension(n), intent(inout) :: e
  integer :: i1, i2, i3
'''
_END = "end subroutine s\n"


def _src(body):
    return _DECL + body + _END


def L(i, body, cl=()):
    return {"k": "loop", "id": f"L{i}", "c": 0, "cl": list(cl), "body": body}


def S(name):
    return {"k": "stmt", "id": name, "c": 0, "cl": [], "body": []}


def R(body):
    return {"k": "routine", "id": "", "c": 0, "cl": [], "body": body}


# name -> (Fortran executable part, abstract tree).  The abstract trees are
# ALSO written down in DirectiveTree.tla (Skel); run() cross-checks the two.
SKELETONS = {
    # one flat loop and one perfect 2-nest
    "A": ("do i1 = 1, n\n a(i1) = 1.0\nend do\n"
          "do i2 = 1, n\n do i3 = 1, n\n  b(i3,i2) = 2.0\n end do\nend do\n",
          R([L(1, [S("a")]), L(2, [L(3, [S("b")])])])),
    # imperfect nest, inner loop FIRST in the outer body (loop_body[0] is a Loop)
    "B": ("do i1 = 1, n\n do i2 = 1, n\n  b(i2,i1) = 2.0\n end do\n"
          " c(i1) = 0.0\nend do\n",
          R([L(1, [L(2, [S("b")]), S("c")])])),
    # imperfect nest, statement first
    "C": ("do i1 = 1, n\n c(i1) = 0.0\n do i2 = 1, n\n  b(i2,i1) = 2.0\n end do\n"
          "end do\n",
          R([L(1, [S("c"), L(2, [S("b")])])])),
    # perfect 3-nest
    "D": ("do i1 = 1, n\n do i2 = 1, n\n  do i3 = 1, n\n   d(i3,i2,i1) = 1.0\n"
          "  end do\n end do\nend do\n",
          R([L(1, [L(2, [L(3, [S("d")])])])])),
    # statements around a loop
    "E": ("e(1) = 0.0\ndo i1 = 1, n\n a(i1) = 1.0\nend do\nc(1) = 0.0\n",
          R([S("e"), L(1, [S("a")]), S("c")])),
    # triangular (non-rectangular) 2-nest
    "F": ("do i1 = 1, n\n do i2 = 1, i1\n  b(i2,i1) = 2.0\n end do\nend do\n",
          R([L(1, [L(2, [S("b")], cl=["nonrect"])])])),
    # perfect 2-nest on its own (deep histories)
    "G": ("do i1 = 1, n\n do i2 = 1, n\n  b(i2,i1) = 2.0\n end do\nend do\n",
          R([L(1, [L(2, [S("b")])])])),
}


def source(skel):
    return _src(SKELETONS[skel][0])


_PARSED = {}


def build(skel):
    '''Fresh PSyIR of a skeleton (parsed once per process, then copied; the
    pristine tree contains no directives).  -> (root, routine)'''
    from psyclone.psyir.frontend.fortran import FortranReader
    from psyclone.psyir.nodes import Routine
    if skel not in _PARSED:
        _PARSED[skel] = FortranReader().psyir_from_source(source(skel))
    root = _PARSED[skel].copy()
    return root, root.walk(Routine)[0]


# ----------------------------------------------------------- PSyIR projection
class Unsupported(Exception):
    '''The real tree contains something the abstract shape cannot express.'''


def _kids(node):
    from psyclone.psyir.nodes import (Routine, Loop, RegionDirective,
                                      StandaloneDirective, Assignment)
    if isinstance(node, Routine):
        return list(node.children)
    if isinstance(node, Loop):
        return list(node.loop_body.children)
    if isinstance(node, RegionDirective):
        return list(node.dir_body.children)
    if isinstance(node, (StandaloneDirective, Assignment)):
        return []
    raise Unsupported(type(node).__name__)


_PSYIR_KIND = [
    # order matters: subclasses first
    ("OMPTeamsDistributeParallelDoDirective", "omp_teams_distribute_parallel_do"),
    ("OMPParallelDoDirective", "omp_parallel_do"),
    ("OMPParallelDirective", "omp_parallel"),
    ("OMPDoDirective", "omp_do"),
    ("OMPLoopDirective", "omp_loop"),
    ("OMPTargetDirective", "omp_target"),
    ("OMPSingleDirective", "omp_single"),
    ("OMPMasterDirective", "omp_master"),
    ("OMPTaskloopDirective", "omp_taskloop"),
    ("OMPTaskwaitDirective", "omp_taskwait"),
    ("ACCParallelDirective", "acc_parallel"),
    ("ACCKernelsDirective", "acc_kernels"),
    ("ACCDataDirective", "acc_data"),
    ("ACCLoopDirective", "acc_loop"),
    ("ACCEnterDataDirective", "acc_enter_data"),
    ("ACCRoutineDirective", "acc_routine"),
]


def _psyir_kind(node):
    names = [c.__name__ for c in type(node).__mro__]
    for cname, kind in _PSYIR_KIND:
        if cname in names:
            return kind
    raise Unsupported(type(node).__name__)


def project_psyir(node, outer_vars=()):
    '''Abstract tree of the PSyIR below `node` (a Routine).'''
    from psyclone.psyir.nodes import (Routine, Loop, Directive, Assignment,
                                      Reference)
    if isinstance(node, Routine):
        return R([project_psyir(c) for c in _kids(node)])
    if isinstance(node, Loop):
        var = node.variable.name.lower()
        used = {r.name.lower() for b in (node.start_expr, node.stop_expr,
                                         node.step_expr)
                for r in b.walk(Reference)}
        cl = ["nonrect"] if used & set(outer_vars) else []
        return {"k": "loop", "id": "L" + var[1:], "c": 0, "cl": cl,
                "body": [project_psyir(c, tuple(outer_vars) + (var,))
                         for c in _kids(node)]}
    if isinstance(node, Assignment):
        return S(node.lhs.name.lower())
    if isinstance(node, Directive):
        kind = _psyir_kind(node)
        c = getattr(node, "_collapse", None) or 0
        cl = []
        if kind == "acc_loop":
            # mirror what begin_string prints
            if node._sequential:
                cl.append("seq")
                c = 0
            else:
                cl += [x for x, on in (("gang", node._gang),
                                       ("independent", node._independent),
                                       ("vector", node._vector)) if on]
        if kind == "omp_single" and node._nowait:
            cl.append("nowait")
        if kind == "omp_taskloop" and node._nogroup:
            cl.append("nogroup")
        return {"k": kind, "id": "", "c": c, "cl": sorted(cl),
                "body": [project_psyir(x, outer_vars) for x in _kids(node)]}
    raise Unsupported(type(node).__name__)


def resolve(routine, path):
    '''Real node at an abstract path (1-based child indices through bodies).'''
    node = routine
    for i in path:
        kids = _kids(node)
        if i < 1 or i > len(kids):
            raise KeyError(f"path {path} does not exist in the real tree")
        node = kids[i - 1]
    return node


# -------------------------------------------------------------- text itemiser
_OMP_BLOCK = ["teams distribute parallel do", "parallel do", "parallel", "do",
              "loop", "target", "single", "master", "taskloop"]
_OMP_ALONE = ["taskwait"]
_ACC_BLOCK = ["parallel", "kernels", "data"]
_ACC_ALONE = ["enter data", "routine"]
_FLAGS = ("nowait", "seq", "gang", "vector", "independent", "nogroup")
_DECL_RE = re.compile(r"^(integer|real|logical|character|double precision|type|"
                      r"use|implicit|subroutine|end subroutine|contains)\b")
_DO_RE = re.compile(r"^do\s+(\w+)\s*=\s*(.*)$")
_ASSIGN_RE = re.compile(r"^(\w+)\s*(\([^=]*\))?\s*=[^=]")


def _match_name(rest, names):
    for nm in names:
        if rest == nm or rest.startswith(nm + " ") or rest.startswith(nm + "("):
            return nm, rest[len(nm):].strip()
    return None, rest


def _clauses(kind, rest):
    c = 0
    m = re.search(r"\bcollapse\s*\(\s*(\d+)\s*\)", rest)
    if m:
        c = int(m.group(1))
    # strip parenthesised arguments so that names of variables in private(..)
    # lists are not mistaken for clauses
    flat = re.sub(r"\([^()]*\)", "", rest)
    words = set(re.split(r"[\s,]+", flat))
    return c, sorted(w for w in _FLAGS if w in words)


def itemise(text):
    '''Abstract tree of the executable part of a written routine.
    Raises Unsupported for anything the abstract shape cannot express.  An
    unbalanced begin/end structure is returned as a node of kind "unbalanced"
    (which Valid rejects).'''
    root = R([])
    stack = [root]          # open nodes
    one_shot = []           # open 'acc loop' nodes: close after one construct
    loop_vars = []

    def close_one_shots():
        while one_shot and stack[-1] is one_shot[-1] and stack[-1]["body"]:
            one_shot.pop()
            stack.pop()

    def add(node, opens):
        stack[-1]["body"].append(node)
        if opens:
            stack.append(node)
        else:
            close_one_shots()

    def end(kind):
        close_ok = stack[-1]["k"] == kind and len(stack) > 1
        if not close_ok:
            stack[-1]["body"].append({"k": "unbalanced", "id": kind, "c": 0,
                                      "cl": [], "body": []})
            return
        stack.pop()
        close_one_shots()

    for raw in text.splitlines():
        line = raw.strip().lower()
        if not line:
            continue
        if line.startswith("!$omp ") or line.startswith("!$acc "):
            api, rest = line[2:5], line[6:].strip()
            is_end = False
            if rest.startswith("end "):
                is_end, rest = True, rest[4:].strip()
            block = _OMP_BLOCK if api == "omp" else _ACC_BLOCK
            alone = _OMP_ALONE if api == "omp" else _ACC_ALONE
            nm, tail = _match_name(rest, block)
            if api == "acc" and nm is None:
                nm2, tail2 = _match_name(rest, ["loop"])
                if nm2 and not is_end:
                    c, cl = _clauses("acc_loop", tail2)
                    node = {"k": "acc_loop", "id": "", "c": c, "cl": cl, "body": []}
                    add(node, True)
                    one_shot.append(node)
                    continue
            if nm is not None:
                kind = api + "_" + nm.replace(" ", "_")
                if is_end:
                    end(kind)
                else:
                    c, cl = _clauses(kind, tail)
                    add({"k": kind, "id": "", "c": c, "cl": cl, "body": []}, True)
                continue
            nm, tail = _match_name(rest, alone)
            if nm is not None and not is_end:
                kind = api + "_" + nm.replace(" ", "_")
                add({"k": kind, "id": "", "c": 0, "cl": [], "body": []}, False)
                continue
            raise Unsupported("directive: " + line)
        if line.startswith("!"):
            continue
        if _DECL_RE.match(line):
            if len(stack) > 1 and not line.startswith("end subroutine"):
                raise Unsupported("declaration inside a construct: " + line)
            continue
        m = _DO_RE.match(line)
        if m:
            var = m.group(1)
            names = set(re.findall(r"[a-z_]\w*", m.group(2)))
            cl = ["nonrect"] if names & set(loop_vars) else []
            loop_vars.append(var)
            add({"k": "loop", "id": "L" + var[1:], "c": 0, "cl": cl, "body": []},
                True)
            continue
        if line in ("enddo", "end do"):
            if loop_vars:
                loop_vars.pop()
            end("loop")
            continue
        m = _ASSIGN_RE.match(line)
        if m:
            add(S(m.group(1)), False)
            continue
        raise Unsupported("statement: " + line)
    if len(stack) != 1:
        stack[-1]["body"].append({"k": "unbalanced", "id": "eof", "c": 0,
                                  "cl": [], "body": []})
    return root


# --------------------------------------------------------------------- replay
def make_trans(op):
    '''Real transformation object + options for a model op.'''
    from psyclone import transformations as T
    from psyclone.psyir import transformations as PT
    t, o, c = op["t"], op["o"], op["c"]
    opts = {}
    if c:
        opts["collapse"] = c
    if t == "OMPLoopTrans":
        return PT.OMPLoopTrans(omp_directive=o), opts
    if t == "OMPParallelLoopTrans":
        return T.OMPParallelLoopTrans(), opts
    if t == "OMPTaskloopTrans":
        if o == "nogroup":
            opts["nogroup"] = True
        return T.OMPTaskloopTrans(), opts
    if t == "ACCLoopTrans":
        if o == "seq":
            opts["sequential"] = True
        elif o == "gang":
            opts["gang"] = True
        elif o == "vector":
            opts["vector"] = True
        elif o == "plain":
            opts["independent"] = False
        elif o != "independent":
            raise ValueError(o)
        return T.ACCLoopTrans(), opts
    if t == "OMPSingleTrans":
        if o == "nowait":
            opts["nowait"] = True
        return T.OMPSingleTrans(), opts
    if t in ("OMPParallelTrans", "OMPMasterTrans", "ACCParallelTrans",
             "ACCDataTrans", "ACCEnterDataTrans", "ACCRoutineTrans"):
        return getattr(T, t)(), opts
    if t in ("OMPTargetTrans", "ACCKernelsTrans", "OMPTaskwaitTrans"):
        return getattr(PT, t)(), opts
    raise ValueError("unknown transformation " + t)


LOOP_TRANS = ("OMPLoopTrans", "OMPParallelLoopTrans", "OMPTaskloopTrans",
              "ACCLoopTrans")
REGION_TRANS = ("OMPParallelTrans", "OMPSingleTrans", "OMPMasterTrans",
                "OMPTargetTrans", "ACCParallelTrans", "ACCKernelsTrans",
                "ACCDataTrans")
ROUTINE_TRANS = ("ACCEnterDataTrans", "ACCRoutineTrans")
NODE_TRANS = ("OMPTaskwaitTrans",)


def apply_op(routine, op):
    '''Apply one model op to the real tree -> (outcome, message) with outcome
    "accepted" | "refused" (TransformationError) | "error" (anything else).'''
    from psyclone.psyir.transformations import TransformationError
    trans, opts = make_trans(op)
    t = op["t"]
    parent = resolve(routine, op["p"])
    if t in ROUTINE_TRANS:
        target = routine
    else:
        kids = _kids(parent)
        if op["lo"] < 1 or op["hi"] > len(kids):
            raise KeyError(f"range {op['lo']}..{op['hi']} not in real tree")
        nodes = kids[op["lo"] - 1:op["hi"]]
        target = nodes[0] if (t in LOOP_TRANS or t in NODE_TRANS or
                              len(nodes) == 1) else nodes
    try:
        trans.apply(target, opts if opts else None)
    except TransformationError as err:
        return "refused", str(err.value)[:200]
    except Exception as err:    # noqa  (recorded, not judged here)
        return "error", f"{type(err).__name__}: {err}"[:200]
    return "accepted", ""


def write(root):
    '''Fresh FortranWriter (global-constraint checks on) ->
    ("written", text) | ("refused", msg) for GenerationError/VisitorError |
    ("error", msg).'''
    from psyclone.errors import GenerationError
    from psyclone.psyir.backend.fortran import FortranWriter
    from psyclone.psyir.backend.visitor import VisitorError
    try:
        return "written", FortranWriter()(root)
    except (GenerationError, VisitorError) as err:
        return "refused", f"{type(err).__name__}: {err.value}"[:200]
    except Exception as err:    # noqa
        return "error", f"{type(err).__name__}: {err}"[:200]


def replay(skel, ops, keep_text=False):
    '''Replay a history on a fresh real tree.
    A history whose non-final step is refused with the tree unchanged is
    "pruned": it is the same behaviour as the shorter history without that
    step, which is a case of its own (histories are prefix- and subsequence-
    closed).  -> dict(skel, ops, steps=[outcome..], gen="written"|"refused"|
    "error"|"pruned"|"unchanged"|"unresolved"|"unsupported", tree=abstract tree itemised
    from the written text | None, ptree=abstract tree from the PSyIR, msg)'''
    root, routine = build(skel)
    steps = []
    res = {"skel": skel, "ops": ops, "steps": steps, "tree": None,
           "ptree": None, "msg": ""}
    try:
        for idx, op in enumerate(ops):
            before = project_psyir(routine)
            try:
                outcome, msg = apply_op(routine, op)
            except KeyError as err:
                res.update(gen="unresolved", msg=str(err))
                return res
            steps.append(outcome)
            res["msg"] = msg
            if outcome != "accepted":
                if project_psyir(routine) != before:
                    res["refusal_changed_tree"] = True
                elif idx < len(ops) - 1:
                    res["gen"] = "pruned"
                    return res
                else:
                    # nothing changed: the tree is the one of the shorter
                    # history (its own case); a refusal is always allowed
                    res["gen"] = "unchanged"
                    res["ptree"] = before
                    return res
        res["ptree"] = project_psyir(routine)
        gen, text = write(root)
        res["gen"] = gen
        if gen == "written":
            res["tree"] = itemise(text)
            if keep_text:
                res["text"] = text
        else:
            res["msg"] = text
    except Unsupported as err:
        res.update(gen="unsupported", msg=str(err), tree=None)
    return res
