'''C18 - the generated family of free-form texts for the line-length limiter.

A case is (family, text, limit).  Every family is a template with an
*interesting token* X (a name list, an operator, a character literal, the `!`
of a trailing comment, a directive clause ...) and a filler of break-able
Fortran in front of it whose length is chosen so that the first character of X
lands at column limit+d (first output line) or 2*limit+d (second output line)
for every d of a window that covers X: the limiter's break points therefore
fall at every position relative to X.  Deterministic in (tier, seed).'''

NAMES = ["alpha", "nlayers", "ndf_w1", "undf", "map_w2", "field_a_proxy",
         "cell", "df", "k", "ncolour", "basis_w3_qr", "diff_basis", "rdt",
         "theta_in_wth", "u_n", "mesh_id", "istp"]


def ident(n, salt=0):
    '''an identifier of exactly n >= 1 characters'''
    base = NAMES[salt % len(NAMES)]
    s = (base + "_" + "xyzwvu"[salt % 6] * 80)[:n]
    if s.endswith("_") and n > 1:
        s = s[:-1] + "q"
    return s


def filler(n, sep, salt=0):
    '''exactly n characters: identifiers of 3..11 characters joined by sep and
    ending with sep; n may be 0.  Too short for one identifier + sep: blanks
    are not an option (they would be break points of their own), so the
    caller gets None.'''
    if n == 0:
        return ""
    if n < len(sep) + 1:
        return None
    parts = []
    left = n
    i = salt
    while left > 0:
        size = min(3 + (i * 5 + salt) % 9 + len(sep), left)
        if 0 < left - size <= len(sep):
            size = left                     # the last one takes what is left
        parts.append(ident(size - len(sep), i) + sep)
        left -= size
        i += 1
    return "".join(parts)


# ---------------------------------------------------------------- families
# Each entry: name, head (before the filler), separator of the filler, X,
# tail (after X).  The line is head + filler + X + tail.
LITS = ["'two words'", "\"it's ! no & comment\"", "'don''t, stop'", "'a''''b c'",
        "'& lead'", "'trail &'", "\"say \"\"hi\"\" now\"", "'!$omp x'", "''",
        "' '", "'a, b, c'", "\"(x) = + y\""]

FAMILIES = []


def fam(name, head, sep, x, tail):
    FAMILIES.append((name, head, sep, x, tail))


# declarations (type "statement" in the limiter)
fam("decl-names", "    integer, intent(in) :: ", ", ", "nqp_h, nqp_v", ", ndf_aspc1, undf_w3")
fam("decl-init", "  real(kind=r_def), dimension(3) :: ", ", ", "xv(3)=(/1.0,2.0,3.0/)", ", yv, zv")
fam("decl-upper", "      REAL(KIND=r_def), INTENT(INOUT) :: ", ", ", "big_array(ndf,nlayers)", ", other(undf)")
fam("use-only", "  use argument_mod, only: ", ", ", "gh_field, gh_real", ", cell_column, gh_read")
fam("type-decl", "    type(field_type), intent(in) :: ", ", ", "chi(3)", ", panel_id, f1, f2")
# calls (type "statement")
fam("call-args", "      call invoke_0_kern(", ", ", "f1_proxy%data, map_w1(:,cell)", ", ndf_w1, undf_w1)")
fam("call-nospace", "      CALL kernel_code(nlayers,", ",", "a(i,j),b%c%d(k)", ",ndf,undf,map)")
fam("call-expr", "    call sub(", ", ", "x**2+y**2>=z*(u//v)", ", n==m, p=>q)")
fam("subroutine", "  subroutine testkern_code(", ", ", "nlayers, ascalar", ", fld1, fld2, ndf, undf, map)")
# assignments and other statements (type "unknown")
fam("assign-arith", "    result_value = ", " + ", "alpha*beta(i, j) - (gamma**2)/delta", " + 1.0e-3_r_def*eps")
fam("assign-ops", "  flag = ", " .and. ", "idx_a==idx_b .or. p>=q .or. r/=s", " .and. t<=u")
fam("assign-nospace", "      arr(df)=", "+", "b(map(df)+k)*c(1,df,qp)**2", "-d//e")
fam("if-then", "    if (", " .or. ", "l_one .and. (n > 1)", ") then")
fam("allocate", "  allocate(", ", ", "pressure(some_type%n1, some_type%n2)", ", stat=ierr)")
fam("pointer-assign", "    ptr_obj => ", "%", "vector_space%get_whole_dofmap()", " ; n = 1")
fam("two-stmts", "    a = 1 ; ", " ; ", "bb = cc + dd", " ; e = f")
# directives
fam("omp-do", "      !$omp parallel do default(shared), private(", ",", "cell,df", "), schedule(static)")
fam("omp-spaced", "!$omp parallel default(shared), private(", ", ", "i, j", ") reduction(+:asum) num_threads(4)")
fam("omp-upper", "  !$OMP PARALLEL DO PRIVATE(", ", ", "ji, jj", ") SCHEDULE(dynamic, 4) COLLAPSE(2)")
fam("omp-opsplit", "!$omp parallel do if(", "+", "iterations_a==iterations_b", ") default(shared)")
fam("omp-blanks", "!$omp target teams distribute ", " ", "map(tofrom: x) map(to: y)", " thread_limit(128)")
fam("acc-loop", "    !$acc parallel loop collapse(2) copyin(", ",", "fld_a,fld_b", ") present(tmask)")
fam("acc-data", "!$acc enter data copyin(", ", ", "a%data, b%data", ") async(1) wait(2)")
fam("acc-upper", "      !$ACC KERNELS DEFAULT(PRESENT) COPYOUT(", ", ", "res(1:n)", ") IF(n>=100)")
# comments
fam("cmt-words", "    ! ", " ", "the quick brown fox", " jumps over the lazy dog again and again")
fam("cmt-punct", "! ", " ", "see.section,4.2.1.of.the.guide", " for details. Done, really.")
fam("cmt-noblank-start", "!", ".", "no.blank.after.bang", " then words follow here")
fam("cmt-cont-marker", "!& ", " ", "already a continued", " comment of the previous line")
fam("cmt-cond-comp", "    !$ ", " + ", "num() ! + 1", " + tail_a + tail_b + tail_c")
fam("cmt-banner", "!$$$ ", " ", "-- 's' & t --", " $$$ the end of the banner")
fam("cmt-code-like", "      ! ", " ", "call foo('x', &", " ! not code")
# statements and directives with a trailing comment
fam("trail-assign", "    total = ", " + ", "last ! sum of all the", " parts that were computed")
fam("trail-call", "  call update(", ", ", "fld) ! halo depth", " is one here, see above")
fam("trail-short", "    n = ", " * ", "m ! x", "")
fam("trail-quote", "    s = ", " // ", "'don''t' ! it's a comment", " with a ' quote")
fam("trail-amp", "    call sub(a, ", ", ", "b) ! uses & and", " 'quotes' \" freely")
fam("trail-omp", "!$omp parallel do private(", ",", "jk) ! loop over the", " vertical levels only")
fam("trail-acc", "  !$acc loop vector ", " ", "independent ! safe because", " of colouring in the kernel")
# character literals at every offset
for i, lit in enumerate(LITS):
    fam(f"lit-call-{i}", "    call log_event(", ", ", lit, ", LOG_LEVEL_INFO)")
    fam(f"lit-write-{i}", "  write(unit_no, *) ", ", ", lit, ", trim(name), 'end'")
fam("lit-concat", "    msg = ", " // ", "'part one, ' // \"part 'two' \"", " // 'three'")
fam("lit-format", "    write(*, ", ", ", "'(A, I4, \" of \", I4)'", ") 'step', i, n")


def _line(f, xcol, salt):
    name, head, sep, x, tail = f
    n = xcol - 1 - len(head)
    if n < 0:
        return None
    fill = filler(n, sep, salt)
    if fill is None:
        return None
    return head + fill + x + tail


def window(x, tier):
    '''offsets d: X starts at column limit + d'''
    lo = -len(x) - 2
    hi = 3
    return range(lo, hi + 1)


def limits(tier, seed):
    if tier != "quick":
        return list(range(40, 133))
    picked = {40, 132}
    k = 0
    while len(picked) < 8:
        picked.add(40 + (seed * 7 + 13 * k + 5) % 93)
        k += 1
    return sorted(picked)


def fixed_texts(limit):
    '''multi-line texts and special shapes that are not of the head+filler+X form'''
    L = limit
    res = []

    def add(name, lines):
        res.append((name, lines))
    # existing continuation lines, one of them too long
    add("cont-call", ["      call invoke_it(alpha, beta, &",
                      "        " + filler(L - 4, ", ", 3) + "gamma, delta, &",
                      "        omega)"])
    add("cont-amp-lead", ["    x = first_term + &",
                          "      &" + filler(L - 2, " + ", 5) + "second + third"])
    add("cont-char", ["    msg = 'a literal that is &",
                      "      &continued " + filler(L - 10, " ", 1) + "until here', tail"])
    add("cont-omp", ["!$omp parallel do default(shared), &",
                     "!$omp& private(" + filler(L - 8, ",", 2) + "zlast) schedule(static)",
                     "do i = 1, n"])
    add("cont-cmt-between", ["  y = aa + &",
                             "  ! " + filler(L, " ", 4) + "a comment between continuation lines",
                             "      bb"])
    add("long-then-short", ["    call first(" + filler(L, ", ", 6) + "zz)",
                            "    x = 1",
                            "    ! " + filler(L + 5, " ", 7) + "end"])
    add("amp-before-comment", ["    value = " + filler(L - 20, " + ", 2) + "last & ! continued statement",
                               "      + more"])
    # indentation fall-back
    add("indent-fits", [" " * (L - 10) + "call very_long_subroutine_name%with%components"])
    add("indent-breaks", [" " * (L - 4) + "call sub(aaa, bbb, ccc, ddd)"])
    add("indent-exact", [" " * 7 + "x=" + "'" + "q" * (L - 4) + "'"])
    # unbreakable tokens
    add("unbreakable-lit", ["    name = '" + "z" * (L + 3) + "'"])
    add("unbreakable-lit-call", ["    call log_event('" + "z" * (L - 5) + "', LOG_LEVEL_ERROR)"])
    add("unbreakable-chain", ["      call obj" + "%component_name" * (L // 15 + 1) + "(arg)"])
    add("unbreakable-expr", ["    x=" + "*".join(ident(5, i) for i in range(L // 6 + 2))])
    add("unbreakable-omp", ["!$omp parallel" + "_" * L + " do"])
    add("outside-name", ["a" * (L + 5)])
    add("outside-omp", ["!$OMPPARALLELDO" + "X" * L])
    add("outside-cmt-rule", ["  !" + "-" * (L + 3)])
    add("cmt-one-long-word", ["! see " + "h" * (L + 2) + " for details"])
    # comment-class lines by their second character: `!$` sentinels that are no
    # OpenMP/OpenACC directive (conditional compilation, serialbox, banners)
    # are comments; directives in both cases and with leading blanks
    for i, start in enumerate(["!$ ", "    !$ ", "  !$ser ", "!$$$ ", "!! ", "    !!$ ",
                               "!'", "  !\"", "!$omx ", "!$thread_x = ", "!$$omp ",
                               "!&", "!$& ", "!#", "!-- "]):
        tag = f"bang-{i}"
        add(tag + "-words", [start + filler(L - 6, " ", i) + "it's the \"end\" & tail = a + b"])
        add(tag + "-code", [start + "scratch(n) = " + filler(L - 10, " + ", i + 2) + "zz_last"])
        add(tag + "-far", [start + ident(9, i) + " " + "w" * (L + 2) + " two more words"])
        add(tag + "-noblank", [start.rstrip() + "x" * (L + 3)])
    for i, start in enumerate(["!$Omp ", "   !$acc ", "!$ACC ", "      !$OMP ", "!$oMP ", " !$aCc "]):
        tag = f"sent-{i}"
        add(tag + "-clauses", [start + "parallel loop private(" + filler(L - 12, ", ", i)
                               + "zlast) collapse(2)"])
        add(tag + "-blanks", [start + "target data " + filler(L, " ", i + 1) + "map(to: a)"])
        add(tag + "-far", [start + "parallel " + "w" * (L + 2) + " default(shared)"])
    add("blank-long", [" " * (L + 4)])
    add("many-blanks", ["    x = a +" + " " * (L - 8) + "b + c"])
    return res


# ---- over-indented lines: the limiter finds no break in front of the limit,
# strips the indentation and retries.  (kind, head, separator, closing)
OVERIND = [("ind-decl", "integer :: ", ", ", ""),
           ("ind-call", "call k_code(", ", ", ")"),
           ("ind-call-nospace", "CALL k_code(nl,", ",", ")"),
           ("ind-use", "use a_mod, only: ", ", ", ""),
           ("ind-assign", "res_v = ", " + ", ""),
           ("ind-assign-blank", "if (l_a) ", " ", ""),
           ("ind-omp", "!$omp parallel do private(", ", ", ") schedule(static)"),
           ("ind-omp-nospace", "!$omp do private(", ",", ") collapse(2)"),
           ("ind-omp-blank", "!$omp target teams ", " ", " thread_limit(128)"),
           ("ind-acc", "!$acc loop private(", ", ", ") independent"),
           ("ind-acc-nospace", "!$ACC DATA COPYIN(", ",", ") ASYNC(1)")]


def overindented(L, tier, seed, li):
    '''indentation L-3 .. L+6; in the stripped text a separator (= break
    characters of the limiter) starts at every 0-based column of L-4 .. L+1,
    the break character before it lies at least 9 columns further left'''
    res = []
    for ki, (name, head, sep, close) in enumerate(OVERIND):
        if tier == "quick" or li % 3:
            first = L - 3 + (li + ki + seed) % 3
            indents = [first, first + 3, first + 6]
        else:
            indents = list(range(L - 3, L + 7))
        for col in range(L - 4, L + 2):
            avail = col - len(head)
            if avail < 3:
                continue
            len_a = min(avail, 9 + (ki + col) % 6)
            n = avail - len_a
            if 0 < n < len(sep) + 1:
                len_a, n = len_a + n, 0
            text = (head + filler(n, sep, ki + seed) + ident(len_a, ki + 3) + sep
                    + ident(7, ki + 5) + sep + filler(L // 2, sep, ki + 1)
                    + "zz_end" + close)
            for ind in indents:
                res.append((name, [" " * ind + text]))
    return res


def generate(tier, seed):
    '''-> list of (family, lines, limit, d) ; deterministic.  The quick tier
    thins the family x limit grid (not the offset windows): per limit every
    literal in one of its two statement contexts, the second-line windows for
    a sixth of the families, rotating with the limit.'''
    quick = tier == "quick"
    cases = []
    seen = set()
    for li, L in enumerate(limits(tier, seed)):
        for fi, f in enumerate(FAMILIES):
            x = f[3]
            if quick and f[0].startswith("lit-call-") and (fi + li + seed) % 2:
                continue
            if quick and f[0].startswith("lit-write-") and (fi + li + seed) % 2:
                continue
            for chunk in (1, 2):
                # first output line ends near column L; the second one holds
                # about L-2 further characters of the input
                if chunk == 2 and quick and (fi + li + seed) % 6:
                    continue
                if chunk == 2 and not quick and (fi + li + seed) % 2:
                    continue
                base = L if chunk == 1 else 2 * L - 2
                win = window(x, tier)
                for d in win:
                    # quick: inside X every third offset (rotating with the
                    # limit), every offset around both ends of X
                    if quick and win.start + 4 <= d <= -5 and (d + li) % 3:
                        continue
                    line = _line(f, base + d, fi + seed)
                    if line is None or len(line) <= L:
                        continue
                    key = (line, L)
                    if key in seen:
                        continue
                    seen.add(key)
                    cases.append((f[0], [line], L, d if chunk == 1 else 1000 + d))
        for name, lines in overindented(L, tier, seed, li) + fixed_texts(L):
            key = ("\n".join(lines), L)
            if key in seen:
                continue
            seen.add(key)
            cases.append((name, lines, L, 0))
    return cases
