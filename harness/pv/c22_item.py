'''C22 helper - itemiser of a generated LFRic distributed-memory PSy layer.

Input: the Fortran text PSyclone generated for one invoke subroutine (the
product users run) and the kernel metadata of that invoke's schedule (the list
of kernels in schedule order with the access / function space / stencil of
every field argument).  Output: a list of *items*

  {"k":"hex",  "f":proxy, "g":expr|None, "e":expr}      halo_exchange
  {"k":"hexs"|"hexf", ...}                               .._start / .._finish
  {"k":"dirty","f":proxy}     {"k":"clean","f":proxy,"e":expr}
  {"k":"loop","kind":"cell"|"dof"|"domain","ub":"edge"|"halo"|"owned"|
        "annexed"|"dofhalo","d":expr,"col":bool,"omp":bool,"kerns":[index]}

expr is a small JSON AST over integers, run-time variables (stencil extents)
and the mesh's maximum halo depth ("H").  Anything the itemiser does not
understand raises Unsupported: the case is counted, never judged.
'''
import re


class Unsupported(Exception):
    pass


# ------------------------------------------------------------ depth expressions
_TOK = re.compile(r"\s*(?:(\d+)|([A-Za-z_][A-Za-z0-9_%]*)|(.))")


def parse_expr(text):
    toks = []
    pos = 0
    text = text.strip()
    while pos < len(text):
        m = _TOK.match(text, pos)
        if not m:
            raise Unsupported("depth expression: " + text)
        pos = m.end()
        if m.group(1):
            toks.append(("n", int(m.group(1))))
        elif m.group(2):
            toks.append(("id", m.group(2).lower()))
        else:
            toks.append(("p", m.group(3)))
    toks.append(("end", None))
    idx = [0]

    def peek():
        return toks[idx[0]]

    def take():
        idx[0] += 1
        return toks[idx[0] - 1]

    def atom():
        kind, val = take()
        if kind == "n":
            return {"t": "lit", "v": val}
        if kind == "id":
            if val == "max" and peek() == ("p", "("):
                take()
                xs = [addsub()]
                while peek() == ("p", ","):
                    take()
                    xs.append(addsub())
                if take() != ("p", ")"):
                    raise Unsupported("depth expression: " + text)
                return {"t": "max", "xs": xs}
            if val == "max_halo_depth_mesh":
                return {"t": "H"}
            if val.startswith("max_halo_depth_"):
                raise Unsupported("maximum depth of a second mesh: " + val)
            if "%" in val:
                raise Unsupported("depth expression: " + text)
            return {"t": "var", "n": val}
        if (kind, val) == ("p", "("):
            res = addsub()
            if take() != ("p", ")"):
                raise Unsupported("depth expression: " + text)
            return res
        raise Unsupported("depth expression: " + text)

    def mul():
        left = atom()
        while peek() == ("p", "*"):
            take()
            left = {"t": "mul", "a": left, "b": atom()}
        return left

    def addsub():
        left = mul()
        while peek() in (("p", "+"), ("p", "-")):
            op = take()[1]
            left = {"t": "add" if op == "+" else "sub", "a": left, "b": mul()}
        return left

    res = addsub()
    if peek()[0] != "end":
        raise Unsupported("depth expression: " + text)
    return res


def lit(n):
    return {"t": "lit", "v": n}


# ------------------------------------------------------------------ statements
_PROXY = r"([a-z_][a-z0-9_]*_proxy(?:\(\d+\))?)"
RE_IFDIRTY = re.compile(r"^if \(" + _PROXY + r"%is_dirty\(depth=(.*)\)\) then$")
RE_HEX = re.compile(r"^call " + _PROXY +
                    r"%(halo_exchange|halo_exchange_start|halo_exchange_finish)"
                    r"\(depth=(.*)\)$")
RE_DIRTY = re.compile(r"^call " + _PROXY + r"%set_dirty\(\)$")
RE_CLEAN = re.compile(r"^call " + _PROXY + r"%set_clean\((.*)\)$")
RE_BOUND = re.compile(r"^(loop\d+_(?:start|stop)) = (.*)$")
RE_DO = re.compile(r"^do (\w+) = (.+)$")


RE_CALLK = re.compile(r"^call ([a-z_][a-z0-9_]*)\((.*)\)$")
RE_BUILTIN = re.compile(r"^! built-in: (\w+)")
RE_IGNORE = [re.compile(p) for p in (
    r"^\w+ = 0(\.0)?(_\w+)?$",                 # reduction variable initialised
    r"^global_sum%value = \w+$",
    r"^\w+ = global_sum%get_sum\(\)$",
    r"^deallocate ?\(.*\)$",
)]
HALO_WORDS = ("halo_exchange", "set_dirty", "set_clean", "is_dirty")
MARKER = "! call kernels and communication routines"


def _split_do(line):
    '''"do v = lo, hi[, step]" -> (v, lo, hi, step) splitting at top-level
    commas only.'''
    m = RE_DO.match(line)
    parts, depth, cur = [], 0, ""
    for ch in m.group(2):
        if ch == "(":
            depth += 1
        elif ch == ")":
            depth -= 1
        if ch == "," and depth == 0:
            parts.append(cur.strip())
            cur = ""
        else:
            cur += ch
    parts.append(cur.strip())
    if len(parts) not in (2, 3):
        raise Unsupported("loop header: " + line)
    return m.group(1), parts[0], parts[1], parts[2] if len(parts) == 3 else "1"


def _upper(text):
    '''Upper bound text of a loop -> (kind, ub, depth expr).'''
    t = text.replace(" ", "")
    m = re.match(r"^mesh(_\w+)?%get_last_edge_cell\(\)$", t)
    if m:
        return "cell", "edge", lit(0)
    m = re.match(r"^mesh(_\w+)?%get_last_halo_cell\((\d*)\)$", t)
    if m:
        if m.group(2):
            return "cell", "halo", lit(int(m.group(2)))
        if m.group(1):
            raise Unsupported("maximum depth of a second mesh")
        return "cell", "halo", {"t": "H"}
    m = re.match(r"^[a-z0-9_]+_proxy(\(\d+\))?%vspace%get_last_dof_"
                 r"(owned|annexed)\(\)$", t)
    if m:
        return "dof", m.group(2), lit(0)
    m = re.match(r"^[a-z0-9_]+_proxy(\(\d+\))?%vspace%get_last_dof_halo"
                 r"\((\d*)\)$", t)
    if m:
        return "dof", "dofhalo", (lit(int(m.group(2))) if m.group(2)
                                  else {"t": "H"})
    m = re.match(r"^last_edge_cell_all_colours(_\w+)?\(colour\)$", t)
    if m:
        return "cell", "edge", lit(0)
    m = re.match(r"^last_halo_cell_all_colours(_\w+)?\(colour,(\w+)\)$", t)
    if m:
        if m.group(2).isdigit():
            return "cell", "halo", lit(int(m.group(2)))
        if m.group(2) == "max_halo_depth_mesh":
            return "cell", "halo", {"t": "H"}
        raise Unsupported("colour loop bound: " + text)
    m = re.match(r"^ncolour(_\w+)?$", t)
    if m:
        return "colours", None, None
    raise Unsupported("loop bound: " + text)


def itemise(text, kernels):
    '''text: the subroutine; kernels: [{"name","builtin","domain",...}] in
    schedule order.  Returns the list of items.'''
    lines = []
    for raw in text.splitlines():
        s = raw.strip()
        if not s or s == "!":
            continue
        lines.append(re.sub(r"\s+", " ", s).lower())
    try:
        start = lines.index(MARKER)
    except ValueError:
        raise Unsupported("no 'Call kernels and communication routines' part")
    bounds = {}
    for s in lines[:start]:
        if any(w in s for w in HALO_WORDS):
            raise Unsupported("halo call in the set-up part: " + s)
        m = RE_BOUND.match(s)
        if m:
            bounds[m.group(1)] = m.group(2)
    body = lines[start + 1:]
    if not body or not body[-1].startswith("end subroutine"):
        raise Unsupported("subroutine end not found")
    body = body[:-1]
    items = []
    kidx = [0]
    pos = [0]

    def bound_text(t):
        t = t.strip()
        if re.match(r"^loop\d+_(start|stop)$", t):
            if t not in bounds:
                raise Unsupported("loop bound variable not set: " + t)
            return bounds[t]
        return t

    def next_kernel(name, builtin):
        if kidx[0] >= len(kernels):
            raise Unsupported("more kernel calls in the text than in the "
                              "schedule: " + name)
        k = kernels[kidx[0]]
        if k["name"].lower() != name or bool(k["builtin"]) != builtin:
            raise Unsupported(f"kernel call '{name}' does not match schedule "
                              f"kernel '{k['name']}'")
        kidx[0] += 1
        return kidx[0] - 1

    def parse_loop(omp):
        '''pos at a DO line.  Returns a loop item.'''
        var, lo, hi, step = _split_do(body[pos[0]])
        if bound_text(lo) != "1" or (step or "1").strip() != "1":
            raise Unsupported("loop does not start at 1 with step 1: "
                              + body[pos[0]])
        kind, ub, d = _upper(bound_text(hi))
        pos[0] += 1
        if kind == "colours":
            if var != "colour":
                raise Unsupported("colours loop variable " + var)
            inner_omp = False
            while body[pos[0]].startswith("!$omp"):
                inner_omp = True
                pos[0] += 1
            if RE_IFDIRTY.match(body[pos[0]]) or RE_HEX.match(body[pos[0]]):
                # (colouring followed by redundant computation puts the new
                # exchange inside the loop over colours: executed per colour)
                raise Unsupported("halo exchange inside the loop over colours")
            if not RE_DO.match(body[pos[0]]):
                raise Unsupported("colours loop body: " + body[pos[0]])
            item = parse_loop(omp or inner_omp)
            if item["kind"] != "cell":
                raise Unsupported("colour loop is not over cells")
            item["col"] = True
            while body[pos[0]].startswith("!$omp"):
                pos[0] += 1
            if body[pos[0]] != "end do":
                raise Unsupported("colours loop end: " + body[pos[0]])
            pos[0] += 1
            return item
        if (kind == "cell") != (var == "cell") or (kind == "dof") != (var == "df"):
            raise Unsupported(f"loop variable {var} with bound {hi}")
        kerns = []
        while body[pos[0]] != "end do":
            s = body[pos[0]]
            mb = RE_BUILTIN.match(s)
            if mb:
                if kind != "dof":
                    raise Unsupported("built-in in a loop over cells")
                kerns.append(next_kernel(mb.group(1), True))
                pos[0] += 1
                # the statement(s) of the built-in: assignments to / intrinsic
                # calls on the current dof
                while (body[pos[0]] != "end do"
                       and not body[pos[0]].startswith("!")):
                    if (any(w in body[pos[0]] for w in HALO_WORDS)
                            or re.match(r"^(do|if|end) ", body[pos[0]])
                            or "(df)" not in body[pos[0]]):
                        raise Unsupported("statement in a built-in: "
                                          + body[pos[0]])
                    pos[0] += 1
                continue
            mk = RE_CALLK.match(s)
            if mk and "%" not in mk.group(1):
                if kind != "cell":
                    raise Unsupported("kernel call in a loop over dofs")
                kerns.append(next_kernel(mk.group(1), False))
                pos[0] += 1
                continue
            if s.startswith("!"):
                pos[0] += 1
                continue
            raise Unsupported("statement in a loop: " + s)
        pos[0] += 1
        if not kerns:
            raise Unsupported("loop without a kernel")
        return {"k": "loop", "kind": kind, "ub": ub, "d": d, "col": False,
                "omp": omp, "kerns": kerns}

    omp_depth = 0
    while pos[0] < len(body):
        s = body[pos[0]]
        if s.startswith("!$omp"):
            if re.match(r"^!\$omp (parallel|parallel do|do)\b", s):
                omp_depth += 1
            elif re.match(r"^!\$omp end (parallel|parallel do|do)\b", s):
                omp_depth -= 1
            else:
                raise Unsupported("directive: " + s)
            pos[0] += 1
            continue
        if s.startswith("!"):
            pos[0] += 1
            continue
        m = RE_IFDIRTY.match(s)
        if m:
            if omp_depth:
                raise Unsupported("halo exchange inside an OpenMP region")
            if pos[0] + 2 >= len(body) or body[pos[0] + 2] != "end if":
                raise Unsupported("guarded halo exchange shape: " + s)
            mh = RE_HEX.match(body[pos[0] + 1])
            if not mh or mh.group(1) != m.group(1):
                raise Unsupported("guarded halo exchange shape: "
                                  + body[pos[0] + 1])
            items.append({"k": {"halo_exchange": "hex",
                                "halo_exchange_start": "hexs",
                                "halo_exchange_finish": "hexf"}[mh.group(2)],
                          "f": m.group(1), "g": parse_expr(m.group(2)),
                          "e": parse_expr(mh.group(3))})
            pos[0] += 3
            continue
        m = RE_HEX.match(s)
        if m:
            if omp_depth:
                raise Unsupported("halo exchange inside an OpenMP region")
            items.append({"k": {"halo_exchange": "hex",
                                "halo_exchange_start": "hexs",
                                "halo_exchange_finish": "hexf"}[m.group(2)],
                          "f": m.group(1), "g": None,
                          "e": parse_expr(m.group(3))})
            pos[0] += 1
            continue
        m = RE_DIRTY.match(s)
        if m:
            items.append({"k": "dirty", "f": m.group(1)})
            pos[0] += 1
            continue
        m = RE_CLEAN.match(s)
        if m:
            items.append({"k": "clean", "f": m.group(1),
                          "e": parse_expr(m.group(2))})
            pos[0] += 1
            continue
        if RE_DO.match(s):
            items.append(parse_loop(omp_depth > 0))
            continue
        m = RE_CALLK.match(s)
        if m and "%" not in m.group(1):
            # a kernel call outside any loop: a kernel operating on the domain
            ki = next_kernel(m.group(1), False)
            if not kernels[ki]["domain"]:
                raise Unsupported("kernel call outside a loop: " + s)
            items.append({"k": "loop", "kind": "domain", "ub": "edge",
                          "d": lit(0), "col": False, "omp": omp_depth > 0,
                          "kerns": [ki]})
            pos[0] += 1
            continue
        if any(r.match(s) for r in RE_IGNORE) and \
                not any(w in s for w in HALO_WORDS):
            pos[0] += 1
            continue
        raise Unsupported("statement: " + s)
    if kidx[0] != len(kernels):
        raise Unsupported(f"{len(kernels) - kidx[0]} kernels of the schedule "
                          f"have no call in the text")
    if omp_depth:
        raise Unsupported("unbalanced OpenMP directives")
    return items
