'''C10 known-finding matchers: narrow structural predicates over one
counterexample (c10.describe): the violated rule of DirectiveTree!Viol, the
directive kind at which it is violated, the offending ancestor kind, and the
transformations of the history that must be responsible.  Anything else -
another rule, the same rule at another directive kind, or a history without the
responsible transformations - is NOT matched and makes the check exit 1.'''

OMP_TRANS = ("OMPLoopTrans", "OMPParallelLoopTrans", "OMPTaskloopTrans",
             "OMPParallelTrans", "OMPSingleTrans", "OMPMasterTrans",
             "OMPTargetTrans")
ACC_REGION_TRANS = ("ACCParallelTrans", "ACCKernelsTrans", "ACCDataTrans")
ACC_TRANS = ACC_REGION_TRANS + ("ACCLoopTrans",)
ACC_REGION_KINDS = ("acc_parallel", "acc_kernels", "acc_data", "acc_loop")
OMP_KINDS = ("omp_parallel", "omp_parallel_do", "omp_teams_distribute_parallel_do",
             "omp_do", "omp_loop", "omp_target", "omp_single", "omp_master",
             "omp_taskloop", "omp_taskwait")


def _accepted(case):
    '''names (with options) of the transformations the implementation accepted'''
    return [t for t, s in zip(case["trans"], case["steps"]) if s == "accepted"]


def _has(case, *prefixes):
    return any(t.split(":")[0] in prefixes or t.startswith(prefixes)
               for t in _accepted(case))


def _rule(case, clause, rule, kinds=None, ancs=None):
    return (clause == rule and case["rule"] == rule
            and (kinds is None or case["kind"] in kinds)
            and (ancs is None or case["anc"] in ancs))


def omp_inside_acc(case, clause, detail, f):
    # an OpenMP construct below an OpenACC region: one transformation of each
    # API was accepted
    return (_rule(case, clause, "OmpInsideAcc", OMP_KINDS, ACC_REGION_KINDS)
            and _has(case, *OMP_TRANS) and _has(case, *ACC_TRANS))


def acc_inside_omp(case, clause, detail, f):
    return (_rule(case, clause, "AccInsideOmp",
                  ACC_REGION_KINDS + ("acc_enter_data", "acc_routine"), OMP_KINDS)
            and _has(case, *OMP_TRANS)
            and _has(case, *ACC_TRANS, "ACCEnterDataTrans", "ACCRoutineTrans"))


def omp_inside_acc_routine(case, clause, detail, f):
    return (_rule(case, clause, "OmpInsideAccRoutine", OMP_KINDS, ("acc_routine",))
            and _has(case, "ACCRoutineTrans") and _has(case, *OMP_TRANS))


def collapse_imperfect_omp_loop(case, clause, detail, f):
    # only the `omp loop` directive (OMPLoopDirective checks isinstance(Loop)
    # of loop_body[0] only); omp do / parallel do must stay refused
    return (_rule(case, clause, "OmpCollapseNotPerfect", ("omp_loop",))
            and any(t.startswith("OMPLoopTrans:loop:collapse=")
                    for t in _accepted(case)))


def collapse_imperfect_acc_loop(case, clause, detail, f):
    return (_rule(case, clause, "AccCollapseNotPerfect", ("acc_loop",))
            and any(t.startswith("ACCLoopTrans:") and ":collapse=" in t
                    for t in _accepted(case)))


def collapse_nonrect_acc_loop(case, clause, detail, f):
    return (_rule(case, clause, "AccCollapseNonRectangular", ("acc_loop",))
            and case["skel"] == "F"
            and any(t.startswith("ACCLoopTrans:") and ":collapse=" in t
                    for t in _accepted(case)))


def acc_nested_compute(case, clause, detail, f):
    return (_rule(case, clause, "AccNestedCompute", ("acc_parallel", "acc_kernels"),
                  ("acc_parallel", "acc_kernels"))
            and sum(1 for t in _accepted(case)
                    if t.split(":")[0] in ("ACCParallelTrans", "ACCKernelsTrans")) >= 2)


def acc_data_inside_compute(case, clause, detail, f):
    if not _rule(case, clause, "AccDataInsideCompute",
                 ("acc_data", "acc_enter_data"),
                 ("acc_parallel", "acc_kernels", "acc_loop")):
        return False
    if case["kind"] == "acc_data":
        return _has(case, "ACCDataTrans") and _has(case, "ACCParallelTrans",
                                                   "ACCKernelsTrans", "ACCLoopTrans")
    # enter data: only ACCKernelsTrans accepts a range holding the directive
    return _has(case, "ACCEnterDataTrans") and _has(case, "ACCKernelsTrans")


def acc_loop_separated(case, clause, detail, f):
    # a later transformation put a directive between `acc loop` and its loop
    acc = _accepted(case)
    first = next((i for i, t in enumerate(acc) if t.startswith("ACCLoopTrans")), None)
    return (_rule(case, clause, "AccLoopDirectiveWithoutLoop", ("acc_loop",))
            and first is not None and len(acc) > first + 1)


def acc_routine_enclosed(case, clause, detail, f):
    # ACCRoutineTrans, then a region transformation over a top-level range: the
    # routine directive ends up inside the region.  Consequence in the same
    # written tree: an orphaned `acc loop` is no longer covered by a routine
    # directive in the specification part (AccLoopOutsideCompute can only be
    # violated with an accepted ACCRoutineTrans if the directive was displaced).
    acc = [(t, o) for t, o, s in zip(case["trans"], case["ops"], case["steps"])
           if s == "accepted"]
    first = next((i for i, (t, _) in enumerate(acc) if t == "ACCRoutineTrans"), None)
    region = ("OMPParallelTrans", "OMPSingleTrans", "OMPMasterTrans",
              "OMPTargetTrans") + ACC_REGION_TRANS
    enclosed = first is not None and any(
        t.split(":")[0] in region and o[3] == [] for t, o in acc[first + 1:])
    return enclosed and (
        _rule(case, clause, "AccRoutineNotInSpecificationPart", ("acc_routine",))
        or _rule(case, clause, "AccLoopOutsideCompute", ("acc_loop",)))


def acc_enter_data_before_routine(case, clause, detail, f):
    # ACCEnterDataTrans inserts `acc enter data` at position 0 of the routine
    # (or before the first compute construct), i.e. BEFORE an existing
    # `acc routine` directive, which is then no longer in the specification part
    acc = _accepted(case)
    first = next((i for i, t in enumerate(acc) if t == "ACCRoutineTrans"), None)
    return (first is not None and "ACCEnterDataTrans" in acc[first + 1:]
            and (_rule(case, clause, "AccRoutineNotInSpecificationPart",
                       ("acc_routine",))
                 or _rule(case, clause, "AccLoopOutsideCompute", ("acc_loop",))))


def omp_worksharing_closely_nested(case, clause, detail, f):
    # `omp do`/`omp single` directly inside do/single/master/taskloop/loop
    # within ONE parallel region (each directive only looks for a parallel
    # ancestor)
    return (_rule(case, clause, "OmpWorksharingCloselyNested",
                  ("omp_do", "omp_single"),
                  ("omp_do", "omp_single", "omp_master", "omp_taskloop", "omp_loop"))
            and _has(case, "OMPParallelTrans"))


def omp_master_closely_nested(case, clause, detail, f):
    return (_rule(case, clause, "OmpMasterCloselyNested", ("omp_master",),
                  ("omp_do", "omp_taskloop", "omp_loop"))
            and _has(case, "OMPParallelTrans") and _has(case, "OMPMasterTrans"))


def omp_inside_loop_construct(case, clause, detail, f):
    return (_rule(case, clause, "OmpInsideLoopConstruct",
                  ("omp_do", "omp_single", "omp_master", "omp_taskloop",
                   "omp_target", "omp_taskwait"), ("omp_loop",))
            and any(t.startswith("OMPLoopTrans:loop") for t in _accepted(case)))


def omp_target_not_only_teams(case, clause, detail, f):
    return (_rule(case, clause, "OmpTargetNotOnlyTeams", ("omp_target",))
            and _has(case, "OMPTargetTrans")
            and any(t.startswith("OMPLoopTrans:teamsdistributeparalleldo")
                    for t in _accepted(case)))


def acc_gang_vector_nesting(case, clause, detail, f):
    return ((_rule(case, clause, "AccGangInsideGangOrVector", ("acc_loop",))
             or _rule(case, clause, "AccVectorInsideVector", ("acc_loop",)))
            and sum(1 for t in _accepted(case)
                    if t in ("ACCLoopTrans:gang", "ACCLoopTrans:vector")) >= 2)


def acc_loop_parallelism_in_seq_routine(case, clause, detail, f):
    return (_rule(case, clause, "AccLoopParallelismInSeqRoutine", ("acc_loop",))
            and _has(case, "ACCRoutineTrans")
            and any(t in ("ACCLoopTrans:gang", "ACCLoopTrans:vector")
                    for t in _accepted(case)))


def omp_single_nowait_on_begin(case, clause, detail, f):
    return (_rule(case, clause, "OmpSingleNowaitOnBegin", ("omp_single",))
            and "OMPSingleTrans:nowait" in _accepted(case))


MATCHERS = {
    "c10_omp_inside_acc": omp_inside_acc,
    "c10_acc_inside_omp": acc_inside_omp,
    "c10_omp_inside_acc_routine": omp_inside_acc_routine,
    "c10_collapse_imperfect_omp_loop": collapse_imperfect_omp_loop,
    "c10_collapse_imperfect_acc_loop": collapse_imperfect_acc_loop,
    "c10_collapse_nonrect_acc_loop": collapse_nonrect_acc_loop,
    "c10_acc_nested_compute": acc_nested_compute,
    "c10_acc_data_inside_compute": acc_data_inside_compute,
    "c10_acc_loop_separated": acc_loop_separated,
    "c10_acc_routine_enclosed": acc_routine_enclosed,
    "c10_acc_enter_data_before_routine": acc_enter_data_before_routine,
    "c10_omp_worksharing_closely_nested": omp_worksharing_closely_nested,
    "c10_omp_master_closely_nested": omp_master_closely_nested,
    "c10_omp_inside_loop_construct": omp_inside_loop_construct,
    "c10_omp_target_not_only_teams": omp_target_not_only_teams,
    "c10_acc_gang_vector_nesting": acc_gang_vector_nesting,
    "c10_acc_loop_parallelism_in_seq_routine": acc_loop_parallelism_in_seq_routine,
    "c10_omp_single_nowait_on_begin": omp_single_nowait_on_begin,
}
