'''C10 known-finding matchers (narrow structural predicates over a counterexample).'''
MATCHERS = {}
