'''C14, binding B (code -> spec): recorder of the public tree-editing calls made
on real PSyclone nodes while the repository's own tests run.

`install()` monkeypatches the ChildrenList mutators (__setitem__, insert,
append, extend, __iadd__, __delitem__, remove, pop, reverse, clear, sort) and
the Node methods (children setter, detach, replace_with, pop_all_children,
addchild).  Only TOP-LEVEL calls are events (a depth counter: the calls a
mutator makes internally are not recorded).  For every event the LOCAL state is
projected before and after the call:

  node 1          the edited node P (owner of the child list)
  its children    before and after, in order
  the items       nodes passed to the call (detach/replace_with: the node itself)
  item parents    the nodes the items hang under; of their child lists only
                  the entries that are nodes of this local universe are kept
                  (so position validity is not judged for them)
  outer parents   any other node a parent link of the above points to

per node: the format kind KP (whose `_children_valid_format` / `_validate_child`
it uses: a kind of PSyIRTree.tla's table, "Leaf", or "?" = not judged), the
category kind KC (what it is as a child: representative of its
Statement/DataNode/Schedule/Reference/Range/clause memberships, "?" = unknown),
the parent link (0 while `has_constructor_parent` is pending: a documented
transient state) and, for the nodes with a child list, those of their real
ancestors that are in the local universe.

Nothing here judges an event: equal events are only de-duplicated (by value,
after renumbering the nodes in order of appearance) and counted; TLC
(Trace_PSyIRTree_Local.tla) decides each distinct one.
'''
import os

GUARD = "SVALAT_PSYCLONE_VERIF"
MAX_ANCESTORS = 4000

LIST_METHODS = ["__setitem__", "insert", "append", "extend", "__iadd__",
                "__delitem__", "remove", "pop", "reverse", "clear", "sort"]
OP_NAME = {"__setitem__": "setitem", "__iadd__": "iadd", "__delitem__": "delitem"}


class Recorder:
    def __init__(self):
        self.depth = 0
        self.on = False
        self.context = ""
        self.shapes = {}        # key -> [count, first context]
        self.by_op = {}
        self.events = 0
        self.raised = 0
        self.skipped = {}       # reason -> count
        self.kinds = {}         # class -> (KP, KC)
        self.classes = {}       # (KP, KC) -> sorted class names (for the report)
        self.installed = 0
        self._n = None
        self._foreign = {}

    # ------------------------------------------------------------ kinds
    def _setup(self):
        from psyclone.psyir import nodes as N
        from psyclone.psyir.nodes.array_mixin import ArrayMixin
        self._n = N
        self.Node = N.Node
        # classes that DEFINE the validation of a kind of PSyIRTree.tla's table
        self.table = {
            N.Schedule: "Schedule", N.Loop: "Loop", N.WhileLoop: "WhileLoop",
            N.IfBlock: "IfBlock", N.Assignment: "Assignment",
            N.BinaryOperation: "BinaryOperation",
            N.UnaryOperation: "UnaryOperation", N.Call: "Call", N.Range: "Range",
            ArrayMixin: "ArrayReference", N.OMPParallelDirective: "OMPParallel",
        }
        self.formats = {k: (N.ArrayReference if k is ArrayMixin else k)
                        ._children_valid_format for k in self.table}
        self.clauses = [(N.OMPDefaultClause, "OMPDefaultClause"),
                        (N.OMPPrivateClause, "OMPPrivateClause"),
                        (N.OMPFirstprivateClause, "OMPFirstprivateClause"),
                        (N.OMPReductionClause, "OMPReductionClause")]

    def kind_of(self, cls):
        res = self.kinds.get(cls)
        if res is not None:
            return res
        N = self._n
        # format kind: the class in the MRO that defines _validate_child
        kp = "?"
        for base in cls.__mro__:
            if "_validate_child" in base.__dict__:
                if base is self.Node:
                    if cls._children_valid_format in ("<LeafNode>", None):
                        kp = "Leaf"
                elif base in self.table and \
                        cls._children_valid_format == self.formats[base]:
                    kp = self.table[base]
                break
        # category kind: representative of the class memberships ValidAt tests
        flags = (issubclass(cls, N.Statement), issubclass(cls, N.DataNode),
                 issubclass(cls, N.Schedule), issubclass(cls, N.Reference),
                 issubclass(cls, N.Range))
        clause = [name for c, name in self.clauses if issubclass(cls, c)]
        kc = "?"
        if len(clause) == 1 and not any(flags):
            kc = clause[0]
        elif not clause:
            kc = {(False, False, True, False, False): "Schedule",
                  (False, True, False, True, False): "Reference",
                  (True, True, False, False, False): "CodeBlock",
                  (True, False, False, False, False): "Return",
                  (False, True, False, False, False): "Literal",
                  (False, False, False, False, True): "Range",
                  (False, False, False, False, False): "Node"}.get(flags, "?")
        res = self.kinds[cls] = (kp, kc)
        self.classes.setdefault(res, set()).add(cls.__name__)
        return res

    def foreign(self, cls):
        '''a node class that is not part of the code under test (classes the
        tests define, e.g. with an _update_node that raises on purpose)'''
        res = self._foreign.get(cls)
        if res is None:
            mod = cls.__module__ or ""
            res = self._foreign[cls] = not mod.startswith("psyclone.") or \
                mod.startswith("psyclone.tests")
        return res

    # --------------------------------------------------------- projection
    @staticmethod
    def _link(node):
        '''the parent link, None while it is a pending constructor parent'''
        par = node._parent
        if par is None or node._has_constructor_parent:
            return None
        return par

    def _ancestors(self, node):
        res = []
        seen = set()
        cur = node._parent
        while cur is not None and id(cur) not in seen and len(res) < MAX_ANCESTORS:
            seen.add(id(cur))
            res.append(cur)
            cur = cur._parent
        return res

    def snap(self, owner, items):
        '''raw local state: objects, resolved to ids when the event is closed'''
        own = list(list.__iter__(owner._children))
        lists = {id(owner): (owner, own)}
        links = {}
        for node in [owner] + own + items:
            links[id(node)] = (node, self._link(node))
        for item in items:
            par = self._link(item)
            if par is not None and id(par) not in lists:
                lists[id(par)] = (par, list(list.__iter__(par._children)))
                links.setdefault(id(par), (par, self._link(par)))
        above = {k: self._ancestors(v[0]) for k, v in lists.items()}
        return lists, links, above

    def close(self, name, index, owner, items, pre, post, exc):
        Node = self.Node
        order = []
        ids = {}

        def num(node):
            k = ids.get(id(node))
            if k is None:
                order.append(node)
                k = ids[id(node)] = len(order)
            return k
        num(owner)
        for state in (pre, post):
            for node in state[0][id(owner)][1]:
                if not isinstance(node, Node):
                    self._skip("non_node_in_child_list")
                    return
                num(node)
        for item in items:
            num(item)
        for state in (pre, post):
            for key in state[0]:
                num(state[0][key][0])
        for state in (pre, post):           # outer parents
            for node, par in list(state[1].values()):
                if par is not None:
                    num(par)
        # update signals travel up: the ancestors' classes matter too
        for node in order + [a for lst in pre[2].values() for a in lst]:
            if self.foreign(type(node)):
                self._skip("node_class_defined_by_the_tests")
                return
        n = len(order)
        full = sorted({ids[k] for state in (pre, post) for k in state[0]})
        kinds = [self.kind_of(type(node)) for node in order]
        kp = [k[0] for k in kinds]
        kc = [k[1] for k in kinds]
        for k in full:                      # filtered lists are not position-judged
            if k != 1:
                kp[k - 1] = "?"

        def project(state):
            lists, links, above = state
            ch = [()] * n
            ab = [()] * n
            pa = [0] * n
            for key, (node, lst) in lists.items():
                k = ids[key]
                if k == 1:
                    ch[0] = tuple(ids[id(c)] for c in lst)
                else:
                    ch[k - 1] = tuple(ids[id(c)] for c in lst
                                      if id(c) in ids and id(c) in links)
                ab[k - 1] = tuple(sorted({ids[id(a)] for a in above[key]
                                          if id(a) in ids}))
            for key, (node, par) in links.items():
                pa[ids[key]-1] = ids[id(par)] if par is not None else 0
            return (tuple(ch), tuple(pa), tuple(ab))
        ppre = project(pre)
        ppost = project(post)
        # nodes whose link was not looked at in one of the states keep the other's
        # (outer parents: their own parent is cut to 0 in both)
        key = (name, index, exc or "", tuple(kp), tuple(kc), tuple(full),
               ppre, ppost, tuple(ids[id(i)] for i in items))
        ent = self.shapes.get(key)
        if ent is None:
            self.shapes[key] = [1, self.context,
                                tuple(type(x).__name__ for x in order)]
        else:
            ent[0] += 1
        self.events += 1
        self.by_op[name] = self.by_op.get(name, 0) + 1
        if exc:
            self.raised += 1

    def _skip(self, why):
        self.skipped[why] = self.skipped.get(why, 0) + 1

    # ------------------------------------------------------------ events
    def event(self, name, index, owner, items, call):
        '''run `call()` as a top-level event on the child list of `owner`'''
        items = [x for x in items if isinstance(x, self.Node)]
        # the same item may be named twice
        uniq = []
        for x in items:
            if not any(x is y for y in uniq):
                uniq.append(x)
        try:
            pre = self.snap(owner, uniq)
        except Exception:       # noqa  a tree the projection cannot read
            self._skip("unreadable_pre_state")
            return call()
        self.depth = 1
        try:
            try:
                res = call()
            finally:
                self.depth = 0
        except Exception as err:
            self._finish(name, index, owner, uniq, pre, type(err).__name__)
            raise
        self._finish(name, index, owner, uniq, pre, None)
        return res

    def _finish(self, name, index, owner, items, pre, exc):
        try:
            post = self.snap(owner, items)
            # lists looked at before must be looked at after, and vice versa
            for key, (node, _) in list(pre[0].items()):
                if key not in post[0]:
                    post[0][key] = (node, list(list.__iter__(node._children)))
                    post[1].setdefault(key, (node, self._link(node)))
                    post[2][key] = self._ancestors(node)
            for key, (node, _) in list(post[0].items()):
                if key not in pre[0]:
                    # a parent that appeared only afterwards: its earlier list
                    # was not observed - do not judge this event
                    self._skip("parent_appeared_after_call")
                    return
            for key, val in pre[1].items():
                post[1].setdefault(key, (val[0], self._link(val[0])))
            for key, val in post[1].items():
                if key not in pre[1]:
                    self._skip("node_appeared_after_call")
                    return
            self.close(name, index, owner, items, pre, post, exc)
        except Exception:       # noqa
            self._skip("unreadable_post_state")

    # ------------------------------------------------------------ install
    def install(self):
        if self.installed:
            return self.installed
        self._setup()
        from psyclone.psyir.nodes import node as node_mod
        clist = node_mod.ChildrenList
        Node = node_mod.Node
        rec = self

        def wrap_list(meth):
            orig = getattr(clist, meth)
            name = OP_NAME.get(meth, meth)

            def wrapper(self, *args, **kwargs):
                if rec.depth or not rec.on:
                    return orig(self, *args, **kwargs)
                owner = getattr(self, "_node_reference", None)
                if owner is None or owner.__dict__.get("_children") is not self:
                    rec._skip("list_not_attached_to_its_node")
                    return orig(self, *args, **kwargs)
                items, index = [], None
                if meth in ("append", "remove") and args:
                    items = [args[0]]
                elif meth in ("insert", "__setitem__") and len(args) > 1:
                    index = args[0] if isinstance(args[0], int) else "slice"
                    items = list(args[1]) if isinstance(args[1], (list, tuple)) \
                        else [args[1]]
                elif meth in ("extend", "__iadd__") and args and \
                        isinstance(args[0], (list, tuple)):
                    items = list(args[0])
                elif meth in ("pop", "__delitem__"):
                    index = args[0] if args and isinstance(args[0], int) else \
                        ("slice" if args else -1)
                return rec.event(name, index, owner, items,
                                 lambda: orig(self, *args, **kwargs))
            wrapper.__name__ = meth
            wrapper.__doc__ = orig.__doc__
            setattr(clist, meth, wrapper)

        for meth in LIST_METHODS:
            wrap_list(meth)

        def wrap_node(meth, name, owner_of, items_of):
            orig = Node.__dict__[meth]

            def wrapper(self, *args, **kwargs):
                if rec.depth or not rec.on:
                    return orig(self, *args, **kwargs)
                owner = owner_of(self)
                if owner is None:
                    rec._skip(name + "_without_parent")
                    return orig(self, *args, **kwargs)
                index = None
                if meth == "addchild":
                    index = kwargs.get("index", args[1] if len(args) > 1 else None)
                    if not isinstance(index, int):
                        index = None
                return rec.event(name, index, owner, items_of(self, args, kwargs),
                                 lambda: orig(self, *args, **kwargs))
            wrapper.__name__ = meth
            wrapper.__doc__ = orig.__doc__
            setattr(Node, meth, wrapper)

        wrap_node("detach", "detach", lambda s: s._parent, lambda s, a, k: [s])
        wrap_node("replace_with", "replace_with", lambda s: s._parent,
                  lambda s, a, k: [s] + ([a[0]] if a else
                                         [k.get("node")] if "node" in k else []))
        wrap_node("pop_all_children", "pop_all", lambda s: s, lambda s, a, k: [])
        wrap_node("addchild", "addchild", lambda s: s,
                  lambda s, a, k: [a[0]] if a else [k.get("child")])

        prop = Node.__dict__["children"]
        fset = prop.fset

        def setter(self, my_children):
            if rec.depth or not rec.on:
                return fset(self, my_children)
            items = list(my_children) if isinstance(my_children, (list, tuple)) \
                else []
            return rec.event("setchildren", None, self, items,
                             lambda: fset(self, my_children))
        Node.children = property(prop.fget, setter, prop.fdel, prop.__doc__)
        self.installed = len(LIST_METHODS) + 5
        self.on = True
        return self.installed

    def dump(self):
        shapes = []
        for key, (count, ctx, classes) in self.shapes.items():
            name, index, exc, kp, kc, full, pre, post, items = key
            shapes.append({"op": name, "index": index, "exc": exc, "kp": kp,
                           "kc": kc, "full": full, "pre": pre, "post": post,
                           "items": items, "count": count, "test": ctx,
                           "classes": classes})
        return {"shapes": shapes, "events": self.events, "raised": self.raised,
                "by_op": self.by_op, "skipped": self.skipped,
                "kinds": {"%s/%s" % k: sorted(v) for k, v in self.classes.items()},
                "installed": self.installed}


RECORDER = Recorder()


def active():
    return os.environ.get(GUARD) == "1"
