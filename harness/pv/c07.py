'''C07 - inlining a call preserves the caller's behaviour.

Generated caller/callee pairs (one module) cover by-reference binding of
scalars, whole arrays, sections and array elements whose index variables the
callee modifies, expression actuals, callee locals that clash with caller
names, module variables, non-unit lower bounds and sequences of inlined calls.
InlineTrans is applied to each call (histories: all calls in order); accepted
results are compared with the original by TLC under FortranSem.tla, whose call
semantics binds dummies to the caller's storage, on every input.
'''
import itertools

from pv import core, sem

MOD_HEAD = '''module mm
  type :: pt
    real :: x
    real, dimension(0:4) :: v
    integer :: k
  end type pt
  integer :: gcount
  real, dimension(0:9) :: garr
contains
subroutine s(a, b, c, ia, n, m, t, u, kout, p, cols)
  type(pt), intent(inout) :: p
  type(pt), dimension(3), intent(inout) :: cols
  integer, intent(inout) :: n
  integer, intent(inout) :: m
  integer, intent(inout) :: kout
  real, intent(inout) :: t
  real, intent(inout) :: u
  real, dimension(0:9), intent(inout) :: a
  real, dimension(0:9), intent(inout) :: b
  real, dimension(0:5,0:5), intent(inout) :: c
  integer, dimension(1:4), intent(inout) :: ia
  integer :: i
  integer :: j
  integer :: k
  real :: x
  real :: eps
'''
DOM = [("n", [1, 2, 3]), ("m", [1, 2]), ("kout", [2]), ("t", [[1, 2]]), ("u", [[3, 1]]),
       ("gcount", [5]), ("constants_mod::eps", [[1, 4]]), ("p%x", [[1, 2]]), ("p%k", [2])]
LIVE = ["a", "b", "c", "ia", "n", "m", "t", "u", "kout", "gcount", "garr",
        "p%x", "p%v", "p%k", "cols%x", "cols%v", "cols%k"]
FILLS = [1, 2]

# name -> (dummy list, declarations + body)
CALLEES = {
    "elem_idx": ("x, k", ["real, intent(inout) :: x", "integer, intent(inout) :: k",
                          "k = k + 1", "x = 5.0"]),
    "idx_elem": ("k, x", ["integer, intent(inout) :: k", "real, intent(inout) :: x",
                          "x = x + 1.0", "k = k + 1", "x = x * 2.0"]),
    "addn": ("y, p", ["real, intent(inout) :: y", "integer, intent(in) :: p", "y = y + real(p)"]),
    "whole1": ("v", ["real, dimension(10), intent(inout) :: v", "v(1) = 2.0", "v(10) = v(2)"]),
    "whole0": ("v", ["real, dimension(0:9), intent(inout) :: v", "v(1) = 2.0", "v(9) = v(0)"]),
    "assumed": ("v", ["real, dimension(:), intent(inout) :: v", "integer :: i",
                      "do i = 1, size(v)", "  v(i) = v(i) + real(i)", "end do"]),
    "sect4": ("v", ["real, dimension(4), intent(inout) :: v", "v(1) = v(4)", "v(2) = 7.0"]),
    "lb2": ("v", ["real, dimension(2:5), intent(inout) :: v", "v(2) = 1.0", "v(5) = v(3)"]),
    "expr_in": ("y, r", ["real, intent(in) :: y", "real, intent(inout) :: r", "r = y + 1.0"]),
    "clash": ("y", ["real, intent(inout) :: y", "integer :: i", "real :: x", "x = y", "i = 3",
                    "y = x + real(i)"]),
    "clash2": ("y, p", ["real, intent(inout) :: y", "integer, intent(in) :: p", "integer :: n",
                        "integer :: kout", "n = p + 1", "kout = n * 2", "y = real(kout)"]),
    "usemod": ("y", ["real, intent(inout) :: y", "gcount = gcount + 1", "garr(gcount) = y",
                     "y = garr(0)"]),
    "mat": ("w, p", ["real, dimension(0:5,0:5), intent(inout) :: w", "integer, intent(in) :: p",
                     "w(p, 1) = w(1, p) + 1.0"]),
    "two_el": ("x, y", ["real, intent(inout) :: x", "real, intent(inout) :: y", "x = y + 1.0",
                        "y = x + 1.0"]),
    "loopel": ("x, k", ["real, intent(inout) :: x", "integer, intent(in) :: k", "integer :: j",
                        "do j = 1, k", "  x = x + real(j)", "end do"]),
    "iarr": ("q, x", ["integer, dimension(1:4), intent(inout) :: q", "real, intent(inout) :: x",
                      "q(1) = q(2)", "x = 9.0"]),
    "earlyret": ("y, p", ["real, intent(inout) :: y", "integer, intent(in) :: p",
                          "if (p > 1) then", "  y = 0.0", "  return", "end if", "y = 1.0", "return"]),
    "lastret": ("y, p", ["real, intent(inout) :: y", "integer, intent(in) :: p",
                         "y = real(p)", "return"]),
    "midret": ("y, p", ["real, intent(inout) :: y", "integer, intent(in) :: p",
                        "y = 2.0", "if (p > 2) return", "y = y + 1.0"]),
    "useimp": ("y", ["use constants_mod, only: eps", "real, intent(inout) :: y", "y = y + eps"]),
    # sections and whole-array statements inside the callee, declared lower bounds
    "rng4": ("v", ["real, dimension(4), intent(inout) :: v", "v(2:3) = 0.5", "v(:) = v(:) * 2.0"]),
    "rnglb": ("v", ["real, dimension(2:5), intent(inout) :: v", "v(3:4) = v(2:3) + 1.0",
                    "v(:) = v(:) + 1.0"]),
    "rngas": ("v, p", ["real, dimension(:), intent(inout) :: v", "integer, intent(in) :: p",
                       "v(1:p) = 3.0", "v(p:) = v(p:) + 1.0"]),
    "rng2d": ("w", ["real, dimension(0:5,0:5), intent(inout) :: w", "w(1:2, 0) = w(0, 1:2)",
                    "w(:, 3) = 1.0"]),
    # structure arguments
    "spt": ("s1", ["type(pt), intent(inout) :: s1", "s1%x = s1%x + 1.0", "s1%v(1) = s1%x",
                   "s1%k = s1%k + 1"]),
    "sptk": ("s1, k", ["type(pt), intent(inout) :: s1", "integer, intent(inout) :: k",
                       "k = k + 1", "s1%v(k) = 2.0"]),
    "sarr": ("sa, p", ["type(pt), dimension(3), intent(inout) :: sa", "integer, intent(in) :: p",
                       "sa(p)%x = sa(1)%x + 1.0", "sa(p)%v(p) = 4.0"]),
    "v5": ("v", ["real, dimension(0:4), intent(inout) :: v", "v(0) = v(4)", "v(1:2) = 6.0"]),
    "v5one": ("v", ["real, dimension(5), intent(inout) :: v", "v(1) = v(5)", "v(2:3) = 6.0"]),
    # functions
    "fsq": ("y", ["real, intent(in) :: y", "real :: fsq", "fsq = y * y + 1.0"], "function"),
    "fres": ("y, p", ["real, intent(in) :: y", "integer, intent(in) :: p", "real :: r",
                      "integer :: i", "r = y", "do i = 1, p", "  r = r + real(i)", "end do"],
             "function:r"),
    "fx": ("y", ["real, intent(in) :: y", "real :: fx", "real :: x", "x = y + 1.0",
                 "fx = x * 2.0"], "function"),
    "condret": ("y, p", ["real, intent(inout) :: y", "integer, intent(in) :: p",
                         "if (p > 1) then", "  y = 0.0", "else", "  y = 1.0", "end if"]),
}

# caller bodies: (callees used, statements)
CALLERS = [
    (["elem_idx"], ["call elem_idx(a(n), n)"]),
    (["elem_idx"], ["i = n", "call elem_idx(a(i), i)", "kout = i"]),
    (["elem_idx"], ["call elem_idx(a(n + m), m)"]),
    (["idx_elem"], ["call idx_elem(n, a(n))"]),
    (["idx_elem"], ["call idx_elem(ia(1), a(ia(1)))"]),
    (["idx_elem"], ["call idx_elem(m, c(m, n))"]),
    (["addn"], ["call addn(t, n)"]),
    (["addn"], ["call addn(a(m), n + 1)"]),
    (["addn"], ["call addn(t, n)", "call addn(u, m)"]),
    (["addn"], ["do i = 1, n", "  call addn(a(i), i)", "end do"]),
    (["whole1"], ["call whole1(a)"]),
    (["whole0"], ["call whole0(a)"]),
    (["whole0"], ["call whole0(garr)"]),
    (["assumed"], ["call assumed(a)"]),
    (["assumed"], ["call assumed(a(2:5))"]),
    (["sect4"], ["call sect4(a(2:5))"]),
    (["sect4"], ["call sect4(a(n:n+3))"]),
    (["sect4"], ["call sect4(c(1:4, m))"]),
    (["lb2"], ["call lb2(a(3:6))"]),
    (["sect4"], ["call sect4(a(1:7:2))"]),
    (["sect4"], ["call sect4(a(8:2:-2))"]),
    (["assumed"], ["call assumed(a(0:8:2))"]),
    (["sect4"], ["call sect4(c(m, 1:4))"]),
    (["lb2"], ["call lb2(b(0:3))"]),
    (["expr_in"], ["call expr_in(t * 2.0, u)"]),
    (["expr_in"], ["call expr_in(u + 1.0, u)"]),
    (["expr_in"], ["call expr_in(a(n), a(m))"]),
    (["expr_in"], ["call expr_in(t, t)"]),
    (["clash"], ["x = 1.5", "i = 7", "call clash(t)", "kout = i", "u = x"]),
    (["clash"], ["do i = 1, n", "  call clash(a(i))", "end do"]),
    (["clash2"], ["call clash2(t, m)"]),
    (["clash2"], ["call clash2(t, n)", "call clash2(u, kout)"]),
    (["usemod"], ["call usemod(t)"]),
    (["usemod"], ["call usemod(garr(1))"]),
    (["mat"], ["call mat(c, n)"]),
    (["two_el"], ["call two_el(a(n), a(m))"]),
    (["two_el"], ["call two_el(t, u)"]),
    (["loopel"], ["call loopel(a(n), n)"]),
    (["loopel"], ["j = 2", "call loopel(t, j)", "kout = j"]),
    (["iarr"], ["call iarr(ia, a(ia(1)))"]),
    (["condret"], ["call condret(t, n)"]),
    (["addn", "clash"], ["call addn(t, n)", "call clash(t)", "call addn(u, m)"]),
    # the callee imports `eps`; the caller has a local eps that it also prints (verbatim
    # WRITE kept as a code block, spelt in another case)
    (["useimp"], ["eps = 0.125", "call useimp(t)", "write(*,*) t, EPS", "u = u + eps"]),
    (["useimp"], ["eps = 0.125", "call useimp(t)", "write(*,*) t, eps", "u = u + eps"]),
    (["useimp"], ["eps = 0.125", "call useimp(t)", "u = u + eps"]),
    (["useimp"], ["call useimp(t)", "call useimp(u)", "write(*,*) T, U"]),
    (["rng4"], ["call rng4(a(2:5))"]),
    (["rng4"], ["call rng4(c(1:4, m))"]),
    (["rng4"], ["call rng4(a(n:n+3))"]),
    (["rnglb"], ["call rnglb(a(3:6))"]),
    (["rnglb"], ["call rnglb(b(0:3))"]),
    (["rngas"], ["call rngas(a, m)"]),
    (["rngas"], ["call rngas(a(2:6), n)"]),
    (["rng2d"], ["call rng2d(c)"]),
    (["spt"], ["call spt(p)"]),
    (["spt"], ["call spt(cols(n))"]),
    (["spt"], ["call spt(cols(p%k))", "call spt(p)"]),
    (["sptk"], ["call sptk(p, n)"]),
    (["sptk"], ["call sptk(cols(m), m)"]),
    (["sarr"], ["call sarr(cols, m)"]),
    (["v5"], ["call v5(p%v)"]),
    (["v5"], ["call v5(cols(n)%v)"]),
    (["v5one"], ["call v5one(p%v)"]),
    (["addn"], ["call addn(p%x, n)", "call addn(cols(m)%v(n), m)"]),
    (["elem_idx"], ["call elem_idx(p%v(n), n)"]),
    (["elem_idx"], ["call elem_idx(cols(m)%x, m)"]),
    (["fsq"], ["t = fsq(u) + 1.0"]),
    (["fsq"], ["a(n) = fsq(a(m)) * fsq(t)"]),
    (["fres"], ["u = fres(t, n)"]),
    (["fres"], ["i = 2", "t = fres(u, i) + real(i)"]),
    (["fx"], ["x = 1.5", "t = fx(u) + x"]),
    (["earlyret"], ["call earlyret(t, n)", "u = u + t", "a(n) = u"]),
    (["earlyret"], ["do i = 1, n", "  call earlyret(a(i), i)", "  b(i) = a(i) + 1.0", "end do"]),
    (["lastret"], ["call lastret(t, n)", "u = t * 2.0"]),
    (["midret"], ["call midret(t, n)", "u = t + 1.0", "kout = kout + 1"]),
]


# thorough tier: every callee with scalar dummies x every compatible combination of actuals
CALLEE_SIG = {"elem_idx": "ri", "idx_elem": "ir", "addn": "rI", "expr_in": "Rr", "clash": "r",
              "clash2": "rI", "usemod": "r", "two_el": "rr", "loopel": "rI", "condret": "rI",
              "earlyret": "rI", "lastret": "rI", "midret": "rI"}
POOLS = {"r": ["t", "u", "a(n)", "a(m)", "c(n,m)", "a(ia(1))", "garr(1)", "b(kout)"],
         "i": ["n", "m", "kout", "ia(1)"],
         "I": ["n", "m + 1", "kout", "ia(2)", "2"],
         "R": ["t", "u * 2.0", "a(n)", "1.5"]}


def cross_callers():
    res = []
    for nm, sig in CALLEE_SIG.items():
        for combo in itertools.product(*[POOLS[c] for c in sig]):
            res.append(([nm], [f"call {nm}({', '.join(combo)})", "kout = kout + 1"]))
    return res


def items(tier):
    out = []
    callers = CALLERS + (cross_callers() if tier != "quick" else [])
    for k, (used, body) in enumerate(callers):
        src = MOD_HEAD + "".join("  " + l + "\n" for l in ["x = 0.25", "k = 1"] + body) + \
            "end subroutine s\n"
        for nm in used:
            args, lines = CALLEES[nm][:2]
            kind = CALLEES[nm][2] if len(CALLEES[nm]) > 2 else "subroutine"
            if kind.startswith("function"):
                res = f" result({kind.split(':')[1]})" if ":" in kind else ""
                src += f"function {nm}({args}){res}\n" + "".join("  " + l + "\n" for l in lines) + \
                    f"end function {nm}\n"
                continue
            src += f"subroutine {nm}({args})\n" + "".join("  " + l + "\n" for l in lines) + \
                f"end subroutine {nm}\n"
        src += "end module mm\n"
        out.append((f"c{k}|{'; '.join(body)}", src))
    return out


def apps(pid):
    from psyclone.psyir.nodes import Call, IntrinsicCall
    from psyclone.psyir.transformations import InlineTrans, TransformationError

    def calls(r):
        return [c for c in r.walk(Call) if not isinstance(c, IntrinsicCall)]

    out = []
    ncall = pid.count("call ") + sum(pid.count(f + "(") for f in ("fsq", "fres", "fx"))
    for k in range(ncall):
        def one(r, k=k):
            cs = calls(r)
            if k >= len(cs):
                raise TransformationError("no such call")
            InlineTrans().apply(cs[k])
        out.append((f"InlineTrans@{k}", one))
    if ncall > 1:
        def all_(r):
            n = 0
            for _ in range(ncall):
                cs = calls(r)
                if not cs:
                    break
                InlineTrans().apply(cs[0])
                n += 1
        out.append(("InlineTrans@all", all_))
    return out


def _set_data(r):
    pass


# ------------------------------------------------------------ known findings
def _names_in(e):
    out = set()
    if isinstance(e, dict):
        if e.get("k") in ("ref", "aref"):
            out.add(e["name"])
        for v in e.values():
            out |= _names_in(v)
    elif isinstance(e, list):
        for x in e:
            out |= _names_in(x)
    return out


def _calls(body):
    for st in body:
        if st["k"] == "call":
            yield st
        for key in ("body", "then", "else"):
            if key in st:
                yield from _calls(st[key])


def _writes_formal(sub, fname):
    def walk(body):
        for st in body:
            if st["k"] == "assign" and st["lhs"].get("name") == fname:
                return True
            if st["k"] == "loop" and st["var"] == fname:
                return True
            if any(walk(st[key]) for key in ("body", "then", "else") if key in st):
                return True
        return False
    return walk(sub["body"])


def m_index_modified(rec, clause, detail, finding):
    '''an array-element actual a(i) is substituted textually, so when the callee
    changes a variable used in the subscript (passed to it as another argument)
    the inlined code addresses a different element than the call did'''
    if clause not in ("SameObservable", "NoNewUndefined"):
        return False
    case = rec["case"]
    for call in _calls(case["progs"][0]["body"]):
        sub = case["subs"].get(call["name"])
        if not sub:
            continue
        for k, arg in enumerate(call["args"]):
            if arg.get("k") != "aref":
                continue
            idxvars = _names_in(arg["idx"])
            for k2, other in enumerate(call["args"]):
                if k2 != k and other.get("k") in ("ref", "aref") and other["name"] in idxvars \
                        and _writes_formal(sub, sub["formals"][k2]["name"]):
                    return True
    return False


def m_member_array_lower_bound(rec, clause, detail, finding):
    '''a whole array that is a structure member (p%v, cols(n)%v) is passed to a dummy
    declared with a different lower bound: the callee's subscripts are copied unshifted'''
    if clause not in ("SameObservable", "NoNewUndefined"):
        return False
    case = rec["case"]
    dims = {d["name"]: d["dims"] for d in case["decls"]}
    for call in _calls(case["progs"][0]["body"]):
        sub = case["subs"].get(call["name"])
        if not sub:
            continue
        for k, arg in enumerate(call["args"]):
            if "%" not in arg.get("name", "") or arg.get("k") not in ("ref", "aref"):
                continue
            formal = sub["formals"][k]
            if not formal.get("rank"):
                continue
            if arg["k"] == "aref" and any(i.get("k") == "range" for i in arg["idx"]):
                continue                      # explicit sections are shifted correctly
            actual_lo = [d[0] for d in dims.get(arg["name"], [])][-formal["rank"]:]
            if actual_lo != list(formal["lo"]):
                return True
    return False


MATCHERS = {"element-actual-index-modified": m_index_modified,
            "member-array-lower-bound-not-shifted": m_member_array_lower_bound}


def run(tier):
    core.setup_psyclone_env()
    out = core.Outcome("C07", tier, "model_checking", matchers=MATCHERS)
    dom, fills = DOM, FILLS
    if tier != "quick":
        dom = [("n", [0, 1, 2, 3, 4]), ("m", [1, 2, 3]), ("kout", [2, 4]), ("t", [[1, 2], [-3, 2]]),
               ("u", [[3, 1], [0, 1]]), ("gcount", [5, 1]), ("constants_mod::eps", [[1, 4], [-1, 2]]), ("p%x", [[1, 2]]), ("p%k", [2])]
        fills = [1, 2, 3, 4]
    fam = sem.TransFamily("C07", dom=dom, fills=fills, live=LIVE, apps=apps)

    def make():
        ex = sem.Exporter(functions=True)
        ex.import_types = {"eps": "r"}
        return ex
    fam.make_exporter = make
    results = sem.build_family(fam, items(tier))
    for r in results:
        if r["status"] == "accepted":
            for d in r["case"]["decls"]:
                if d["name"] == "ia":
                    d["data"] = [[2, 1, 4, 3], [1, 1, 2, 2]]
    for r in results:
        if r["status"] == "accepted":
            r["case"]["cmpout"] = True        # WRITE statements are observable events
    cov = sem.judge_family(out, results, MATCHERS)
    cov["rule"] = ("one case = (caller/callee pair, call or call sequence inlined); non-trivial = "
                   "InlineTrans accepted and the original is defined on at least one input")
    return out.finish(cov, assumptions=[
        "FortranSem call semantics: dummies are bound to the caller's storage at the call (an element "
        "actual names the element selected at the call), expression actuals are copied into temporaries",
        "observables: dummy arguments of the caller and the module variables",
        "exact rational arithmetic; exporter trusted, fails closed"])
