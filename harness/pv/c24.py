'''C24 - generated algorithm and PSy layers agree on invoke arguments.

InvokeBinding.tla defines the data objects (canonical argument texts), the
agreement clauses and the bounded family of invoke shapes; TLC enumerates the
family (and model-checks the reference generator of the two de-duplicated
lists).  Every shape is rendered to a real algorithm file and given to the
real psyclone.generator.generate (LFRic: the `Alg` class path and the
PSyIR-based algorithm layer; GOcean: the default PSyIR-based path); the
generated algorithm call and PSy routine are itemised (c24_gen) and TLC
decides the clauses per invoke (Trace_InvokeBinding.tla).'''
import json
import os
import re
import shutil

from pv import core
from pv import c24_gen as gen


# ------------------------------------------------------------ known findings
def _canon(t):
    return "".join(t.split()).lower()


_RE_LITERAL = re.compile(r"^[+-]?(\d+\.?\d*|\.\d+)([ed][+-]?\d+)?(_\w+)?$", re.I)


def _dup_causes(case):
    '''The actual arguments that repeat an earlier one (same data object), each
    with the known causes that explain it; None if some repeat is unexplained
    or the lists would still disagree without the repeats.'''
    acts = case["actuals"]
    causes = []
    seen = []
    for a in acts:
        first = [b for b in seen if _canon(a) == _canon(b)]
        if not first:
            seen.append(a)
            continue
        b = first[0]
        why = set()
        if "%" in a and a.replace(" ", "") != b.replace(" ", ""):
            why.add("case")         # spellings differ in letter case only
        if " % " in a:
            # fparser's spelling of a structure access kept as a CodeBlock: it
            # comes from a kernel call that also has a literal argument
            for call in case["source_invoke"]:
                if any(_RE_LITERAL.match(x.replace(" ", ""))
                       for x in call[1:]) and \
                        any(_canon(x) == _canon(a) for x in call[1:]):
                    why.add("codeblock")
        if not why:
            return None
        causes.append(why)
    if not causes or len(seen) != len(case["dummies"]):
        return None
    return causes


def _dup_match(case, clause, cause):
    if case.get("path") != "psyir":
        return False
    # the repeat makes the lists differ in length and shifts every position
    # behind it (wrong object, possibly of another type)
    if clause not in ("SameLength", "DataFlow", "TypeAgree"):
        return False
    causes = _dup_causes(case)
    return bool(causes) and any(cause in why for why in causes)


def m_member_case(case, clause, detail, finding):
    '''PSyIR-based algorithm layer only: the generated call passes one data
    object twice because two spellings of a structure access differ in the
    letter case of a component (or of the indexed member) - the list lengths
    then differ and the positions behind the repeat are shifted.'''
    return _dup_match(case, clause, "case")


def m_codeblock(case, clause, detail, finding):
    '''LFRic PSyIR-based algorithm layer only: a structure access in a kernel
    call that also has a literal argument is kept as a CodeBlock and passed
    again although an earlier call already passed that object.'''
    return case.get("api") == "lfric" and _dup_match(case, clause, "codeblock")


def m_alg_stencil_varname(case, clause, detail, finding):
    '''LFRic `Alg` class path: a stencil extent or direction written as a
    structure component or array element (st%n1, nv(2)) is passed by the
    generated algorithm call under the name of the PSy-layer dummy (st_n1, nv):
    the actual is not an argument of the invoke and is not the written
    object.'''
    if case.get("path") != "alg" or case.get("api") != "lfric":
        return False
    if clause not in ("ActualsFromInvoke", "DataFlow"):
        return False
    acts, dums = case["actuals"], case["dummies"]
    if len(acts) != len(dums):
        return False
    texts = [(t, k) for call, kinds in zip(case["source_invoke"],
                                           case.get("source_kinds", []))
             for t, k in zip(call[1:], kinds)]
    known = {_canon(t) for t, _ in texts}
    # stencil extents / directions spelled with a component or an index
    derived = {_canon(t) for t, k in texts
               if k in ("extent", "dir") and ("%" in t or "(" in t)}
    foreign = [i for i, a in enumerate(acts) if _canon(a) not in known]
    if not foreign or len(foreign) > len(derived):
        return False
    # every foreign actual is spelled exactly like the dummy at its position,
    # and the written objects it stands for are not passed at all
    if any(acts[i].lower() != dums[i].lower() for i in foreign):
        return False
    if any(_canon(a) in derived for a in acts):
        return False
    if clause == "DataFlow":
        k, j = detail["k"] - 1, detail["j"] - 1
        kind = case["source_kinds"][k][j]
        text = case["source_invoke"][k][j + 1]
        return (kind in ("extent", "dir") and _canon(text) in derived
                and detail["pos"] - 1 in foreign)
    return True


def m_name_prefix(case, clause, detail, finding):
    '''PSyIR-based algorithm layer only: invoke label starting with "invoke"
    but not with "invoke_": the algorithm calls <label>, the PSy layer defines
    invoke_<label>.'''
    if case.get("path") != "psyir" or clause != "NameDefined":
        return False
    label = case.get("label", "").lower()
    if not label.startswith("invoke") or label.startswith("invoke_"):
        return False
    return (case["call"].lower() == label
            and "invoke_" + label in [s.lower() for s in case["subs"]])


def m_named_single_builtin(case, clause, detail, finding):
    '''LFRic PSyIR-based algorithm layer only: a *named* invoke that consists of
    one built-in: the algorithm calls invoke_<position>, the PSy layer defines
    invoke_<label>.'''
    if case.get("path") != "psyir" or case.get("api") != "lfric" \
            or clause != "NameDefined" or not case.get("label"):
        return False
    src = case["source_invoke"]
    if len(src) != 1 or src[0][0] not in gen.LFRIC_BUILTINS:
        return False
    label = case["label"].lower()
    want = label if label.startswith("invoke_") else "invoke_" + label
    return (case["call"].lower() == "invoke_%d" % case["invoke"]
            and want in [s.lower() for s in case["subs"]])


MATCHERS = {"c24_psyir_member_case": m_member_case,
            "c24_psyir_codeblock": m_codeblock,
            "c24_alg_stencil_varname": m_alg_stencil_varname,
            "c24_psyir_name_prefix": m_name_prefix,
            "c24_psyir_named_single_builtin": m_named_single_builtin}


# ------------------------------------------------------------------ helpers
def _procs():
    '''core.NCPU, or fewer while developing (PV_C24_PROCS).'''
    return int(os.environ.get("PV_C24_PROCS") or core.NCPU)


def _cfg(name, tmp):
    '''The static configuration, or a copy with Offset (VERIF_SEED) / Stride
    (development aid PV_C24_STRIDE) substituted.'''
    stride = os.environ.get("PV_C24_STRIDE")
    if core.seed() == 0 and not stride:
        return name
    with open(os.path.join(core.SPEC, name)) as f:
        text = f.read()
    if stride:
        text = re.sub(r"Stride = \d+", "Stride = %d" % int(stride), text)
    text = re.sub(r"Offset = \d+", "Offset = %d" % core.seed(), text)
    path = os.path.join(tmp, name)
    with open(path, "w") as f:
        f.write(text)
    return path


def _shapes(cfg, spec_cov, workers):
    '''TLC enumerates the family and checks the reference generator.'''
    res = core.run_tlc("InvokeBinding.tla", cfg, check=False, workers=workers)
    if res.invariant_violated or res.error:
        raise core.MachineryError("InvokeBinding.tla reference generator "
                                  "breaks its own clauses: "
                                  + str(res.invariant_violated or res.error))
    spec_cov["states"] += res.distinct
    spec_cov["transitions"] += res.generated
    spec_cov["model_states"] = spec_cov.get("model_states", 0) + res.distinct
    by_id = {}
    for s in res.printed("SHAPE"):
        by_id[s["id"]] = s
    if not by_id:
        raise core.MachineryError("TLC printed no shapes")
    return [by_id[i] for i in sorted(by_id)]


def _selftest_keys(workers, quick):
    '''The reference generator with mismatched keys must break the clauses:
    the specification is sensitive to exactly what the check is for.'''
    cfgs = ["InvokeBinding_rawalg.cfg"]
    if not quick:
        cfgs.append("InvokeBinding_lowerpsy.cfg")
    for cfg in cfgs:
        res = core.run_tlc("InvokeBinding.tla", cfg, check=False,
                           workers=workers)
        if not res.invariant_violated:
            raise core.MachineryError(
                f"InvokeBinding.tla with {cfg} (different de-duplication "
                "keys) satisfies every clause: the specification is vacuous")


def _describe(shape, path, api, iidx, case):
    inv = shape["invokes"][iidx]
    return {"api": api, "path": path, "shape": shape["id"],
            "family": shape["fam"], "invoke": iidx, "label": inv["name"],
            "source_invoke": [[c["k"]] + c["args"] for c in inv["calls"]],
            "source_kinds": [c["kinds"] for c in inv["calls"]],
            "call": gen.dec(case["call"]),
            "actuals": [gen.dec(a) for a in case["acts"]],
            "subs": [gen.dec(s) for s in case["subs"]],
            "dummies": [gen.dec(d) for d in case["dums"]],
            "kernel_args": [[("dummy " + gen.dec(a["n"])) if a["t"] == "d"
                             else ("literal " + gen.dec(a["v"])) for a in k]
                            for k in case["kargs"]]}


def validate(cases, cov, tmp, workers=None):
    '''cases: list of dicts with "id" -> TLC.  Returns (verdicts, diverges).'''
    workers = workers or _procs()
    path = os.path.join(tmp, "cases-%d.json" % len(cases))
    with open(path, "w") as f:
        json.dump(cases, f, separators=(",", ":"))
    res = core.run_tlc("Trace_InvokeBinding.tla", "Trace_InvokeBinding.cfg",
                       env={"PV_CASES": path}, timeout=3000, workers=workers)
    os.unlink(path)
    cov["states"] += res.distinct
    cov["transitions"] += res.generated
    # every case: initial state, state after the head clauses, one state per
    # kernel argument
    expect = sum(2 + sum(len(k) for k in c["kargs"]) for c in cases)
    if res.distinct != expect:
        raise core.MachineryError(
            f"C24 trace validation did not consume every case: "
            f"{res.distinct} states, expected {expect}")
    return res.printed("VERDICT"), res.printed("DIVERGE")


def _run_shapes(out, cov, tmp, shapes, dm, stats):
    '''Generate every shape with the real generator, itemise, let TLC judge.'''
    decoded = [(gen.decode_shape(s), s["api"]) for s in shapes]
    gen.prepare_kernels(tmp)
    jobs = [(d, api, dm, tmp) for d, api in decoded]
    results = core.pool_map(gen.work, jobs, procs=_procs(), chunksize=2)
    cases = []
    meta = {}
    for (d, api), r in zip(decoded, results):
        stats["files"] += 1
        for pname, val in r["paths"].items():
            stats["generations"] += 1
            key = f"{api}/{pname}"
            if val[0] == "refused":
                stats["refused"] += 1
                stats["refused_kinds"][val[1][:110]] = \
                    stats["refused_kinds"].get(val[1][:110], 0) + 1
                continue
            for iidx, (kind, c) in enumerate(val[1]):
                stats["invokes"] += 1
                stats["by_path"][key] = stats["by_path"].get(key, 0) + 1
                if kind == "unsupported":
                    stats["unsupported"] += 1
                    if len(stats["unsupported_samples"]) < 8:
                        stats["unsupported_samples"].append(
                            {"shape": d["id"], "path": key, "invoke": iidx,
                             "why": c})
                    continue
                cid = len(cases) + 1
                cases.append(dict(c, id=cid))
                meta[cid] = (d, api, pname, iidx)
    if not cases:
        raise core.MachineryError("no generated invoke could be itemised")
    verdicts, diverges = validate(cases, cov, tmp)
    stats["divergences"] += len(diverges)
    cov["traces_validated_against_impl"] += len(cases)
    stats["positions"] += sum(len(k) for c in cases for k in c["kargs"])
    for c in cases:
        stats["distinct"].add(core.chash([c["call"], c["acts"], c["dums"],
                                          c["kargs"], c["orig"]]))
    by_id = {c["id"]: c for c in cases}
    for v in verdicts:
        d, api, pname, iidx = meta[v["id"]]
        desc = _describe(d, pname, api, iidx, by_id[v["id"]])
        desc["distributed_memory"] = dm
        out.violation(desc, v["v"], v["w"])
    for want in ("lfric", "gocean"):
        if len(cov["samples"]) < 4:
            mine = [c for c in cases if meta[c["id"]][1] == want]
            if mine:
                c = mine[len(mine) // 3]
                d, api, pname, iidx = meta[c["id"]]
                cov["samples"].append(_describe(d, pname, api, iidx, c))
    return cases, meta


def _run_examples(out, cov, tmp, dm, stats):
    '''Thorough tier: the repository's own algorithm examples through every
    algorithm-layer path; TLC judges the clauses about the two lists and the
    routine names (kernel-argument provenance is not traced for arbitrary
    kernels).'''
    jobs = [(f, api, dm) for api in ("lfric", "gocean")
            for f in gen.example_files(api)]
    results = core.pool_map(gen.work_example, jobs, procs=_procs(), chunksize=2)
    cases, meta = [], {}
    for r in results:
        stats["files"] += 1
        for pname, val in r["paths"].items():
            stats["generations"] += 1
            key = f"examples-{r['api']}/{pname}"
            if val[0] == "refused":
                stats["refused"] += 1
                continue
            for iidx, (kind, c) in enumerate(val[1]):
                stats["by_path"][key] = stats["by_path"].get(key, 0) + 1
                if kind == "unsupported":
                    stats["unsupported_examples"] = \
                        stats.get("unsupported_examples", 0) + 1
                    continue
                cid = len(cases) + 1
                cases.append(dict(c, id=cid))
                meta[cid] = (r["file"], r["api"], pname, iidx)
    if not cases:
        raise core.MachineryError("no repository example could be itemised")
    verdicts, diverges = validate(cases, cov, tmp)
    cov["traces_validated_against_impl"] += len(cases)
    cov["example_invokes"] = cov.get("example_invokes", 0) + len(cases)
    cov["example_argument_positions"] = cov.get("example_argument_positions", 0) \
        + sum(len(c["acts"]) for c in cases)
    for c in cases:
        stats["distinct"].add(core.chash([c["call"], c["acts"], c["dums"]]))
    by_id = {c["id"]: c for c in cases}
    for v in verdicts:
        fname, api, pname, iidx = meta[v["id"]]
        c = by_id[v["id"]]
        out.violation({"api": api, "path": pname, "file": fname,
                       "invoke": iidx, "label": "", "source_invoke": [],
                       "call": gen.dec(c["call"]),
                       "actuals": [gen.dec(a) for a in c["acts"]],
                       "subs": [gen.dec(x) for x in c["subs"]],
                       "dummies": [gen.dec(d) for d in c["dums"]],
                       "distributed_memory": dm}, v["v"], v["w"])


def run(tier):
    core.setup_psyclone_env()
    out = core.Outcome("C24", tier, "model_checking", matchers=MATCHERS)
    cov = {"states": 0, "transitions": 0, "traces_validated_against_impl": 0,
           "samples": []}
    stats = {"files": 0, "generations": 0, "refused": 0, "refused_kinds": {},
             "invokes": 0, "unsupported": 0, "unsupported_samples": [],
             "divergences": 0, "positions": 0, "distinct": set(),
             "by_path": {}}
    quick = tier == "quick"
    tmp = core.mktemp("pv-c24-")
    try:
        _selftest_keys(_procs(), quick)
        cfg = "InvokeBinding_quick.cfg" if quick else "InvokeBinding_thorough.cfg"
        shapes = _shapes(_cfg(cfg, tmp), cov, _procs())
        fams = os.environ.get("PV_C24_FAMILY")   # development aid: a,b,..
        if fams:
            shapes = [s for s in shapes if s["fam"] in fams.split(",")]
        cov["shapes_lfric"] = sum(1 for s in shapes if s["api"] == "lfric")
        cov["shapes_gocean"] = sum(1 for s in shapes if s["api"] == "gocean")
        _run_shapes(out, cov, tmp, shapes, False, stats)
        if not quick:
            _run_shapes(out, cov, tmp, shapes, True, stats)
            _run_examples(out, cov, tmp, False, stats)
    finally:
        shutil.rmtree(tmp, ignore_errors=True)
    judged = cov["traces_validated_against_impl"]
    if stats["unsupported"] > 0.2 * max(1, stats["invokes"]):
        raise core.MachineryError(
            f"{stats['unsupported']} of {stats['invokes']} generated invokes "
            f"could not be itemised: {stats['unsupported_samples'][:3]}")
    cov["evaluations"] = judged
    cov["distinct_nontrivial"] = len(stats["distinct"])
    cov["argument_positions"] = stats["positions"]
    cov["files_generated"] = stats["files"]
    cov["generations"] = stats["generations"]
    cov["refused"] = stats["refused"]
    cov["refused_kinds"] = dict(sorted(stats["refused_kinds"].items(),
                                       key=lambda kv: -kv[1])[:6])
    cov["unsupported"] = stats["unsupported"]
    cov["unsupported_samples"] = stats["unsupported_samples"]
    cov["divergences"] = stats["divergences"]
    cov["invokes_by_path"] = stats["by_path"]
    cov["exhaustive"] = not quick
    cov["rule"] = ("one evaluation = one generated invoke (algorithm call + PSy "
                   "routine) along one algorithm-layer path, judged clause by "
                   "clause by TLC; distinct = distinct (call, actuals, dummies, "
                   "kernel-argument provenance, source texts) tuples")
    return out.finish(cov, assumptions=[
        "family bounds: InvokeBinding.tla Part 2 (13 field texts, 11 scalar "
        "texts, 8 stencil-extent, 5 direction, 4 quadrature, 4 integer texts, "
        "5 labels; LFRic pair/scalar/double/extra and GOcean gopair/goscalar "
        "families, quick = every 3rd shape (every 6th of the extra family), plus "
        "the qorder family (12 metadata orders of 2-3 quadrature shapes x 3 "
        "contexts, never thinned); "
        "offset VERIF_SEED)",
        "TypeAgree compares the declared type class of each PSy dummy with the "
        "kind (kernel signature in the spec) of the object written as the "
        "actual at the same position; LFRic only",
        "kernel-argument provenance is read from the generated PSy text: "
        "X_data => X_proxy%data, X_proxy = D%get_proxy() gives dummy D; scalars "
        "and literals directly; built-ins by their documented assignment form",
        "k-th kernel call of the PSy routine corresponds to the k-th call of "
        "the invoke (no transformation is applied); kernel names are checked",
        "distributed_memory=False in the quick tier (both settings in thorough)",
        "LFRic PSyIR-based algorithm layer reached by setting "
        "psyclone.generator.LFRIC_TESTING=True (the flag the repository's own "
        "tests use)"])
