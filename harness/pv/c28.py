'''C28 - PSyData regions are entered and left in matched pairs.

Generated routines with nested loops / IFs and EXIT, CYCLE, RETURN at every
position; every consecutive-statement range (top level and inside loop / IF
bodies) x {ProfileTrans, ExtractTrans, NanTestTrans, ReadOnlyVerifyTrans} x
{unnamed, named} (plus histories of two placements).  Accepted placements are
lowered by PSyclone and exported (the PreStart/PostEnd calls become `event`
statements); TLC executes the program under FortranSem.tla on every input -
branch conditions and trip counts are inputs, so every path is run - and checks
that the event log is well nested and closed at the end (SemRegion.tla).
'''
import itertools
import os

from pv import core, sem
from pv.export import Unsupported

HEAD = '''subroutine s(a, n, m, c1, c2, t)
  integer, intent(in) :: n
  integer, intent(in) :: m
  logical, intent(in) :: c1
  logical, intent(in) :: c2
  real, intent(inout) :: t
  real, dimension(0:9), intent(inout) :: a
  integer :: i
  integer :: j
'''
TAIL = "end subroutine s\n"
DOM = [("n", [0, 1, 2]), ("m", [1, 2]), ("c1", [True, False]), ("c2", [True, False]),
       ("t", [[1, 2]])]
FILLS = [1]

JUMPS = ["exit", "cycle", "return", "t = t + 1.0"]


def items(tier):
    out = []
    # a loop whose body has a jump under a condition at each of three positions
    for jump, pos in itertools.product(JUMPS, range(3)):
        body = ["a(i) = 1.0", "a(i+1) = 2.0"]
        body.insert(min(pos, 2), f"if (c1) {jump}")
        out.append((f"loop|{jump}|{pos}",
                    HEAD + "  t = 0.0\n  do i = 1, n\n" + "".join("    " + b + "\n" for b in body) +
                    "  end do\n  a(0) = t\n" + TAIL))
    # nested loops, jump in the inner loop
    for jump in JUMPS[:3]:
        out.append((f"nest|{jump}",
                    HEAD + "  do j = 1, m\n    a(j) = 0.0\n    do i = 1, n\n      a(i) = 1.0\n"
                    f"      if (c1) {jump}\n      a(i+1) = 2.0\n    end do\n    if (c2) {jump}\n"
                    "    a(j+2) = 3.0\n  end do\n  a(0) = 4.0\n" + TAIL))
    # top-level returns and ifs
    for jump in ("return", "t = 2.0"):
        out.append((f"top|{jump}",
                    HEAD + f"  a(1) = 1.0\n  if (c1) then\n    a(2) = 2.0\n    {jump}\n  end if\n"
                    f"  a(3) = 3.0\n  if (c2) {jump}\n  a(4) = 4.0\n" + TAIL))
    # unconditional jumps as the last statement of a loop body / while loops
    for jump in JUMPS[:3]:
        out.append((f"last|{jump}",
                    HEAD + f"  do i = 1, n\n    a(i) = 1.0\n    {jump}\n  end do\n  a(0) = 1.0\n" + TAIL))
    return out


def _schedules(r):
    from psyclone.psyir.nodes import Schedule
    return [s for s in r.walk(Schedule)]


TRANS = ["ProfileTrans", "ExtractTrans", "NanTestTrans", "ReadOnlyVerifyTrans"]


def _placements(src):
    '''all (schedule index, lo, hi) ranges of the routine'''
    psy = sem.parse(src)
    r = sem.routine_named(psy, "s")
    res = []
    for si, sch in enumerate(_schedules(r)):
        n = len(sch.children)
        for lo in range(n):
            for hi in range(lo + 1, n + 1):
                res.append((si, lo, hi))
    return res


def _regions(body, acc):
    for st in body:
        if st["k"] == "event" and st["what"] == "start":
            acc.append(st)
        for key in ("body", "then", "else"):
            if key in st:
                _regions(st[key], acc)
    return acc


def _build(item):
    from psyclone.psyir import transformations as T
    from psyclone.psyir.transformations import TransformationError
    pid, src = item
    out = []
    places = _placements(src)
    plans = []
    for tname in TRANS:
        for pl in places:
            plans.append(((tname, pl, False),))
        for pl in places[::STEP[1]]:
            plans.append(((tname, pl, True),))
    # histories of two placements (profile only: nested or sequential regions)
    for p1, p2 in itertools.islice(itertools.combinations(places, 2), 0, None, STEP[0]):
        plans.append((("ProfileTrans", p1, False), ("ProfileTrans", p2, False)))
        plans.append((("ProfileTrans", p1, True), ("ProfileTrans", p2, True)))
    for plan in plans:
        cid = pid + "#" + "+".join(f"{t}@{p[0]}:{p[1]}-{p[2]}{'n' if nm else ''}"
                                   for t, p, nm in plan)
        psy = sem.parse(src)
        r = sem.routine_named(psy, "s")
        status = "accepted"
        user = []
        for t, (si, lo, hi), named in plan:
            scheds = _schedules(r)
            # schedules created by earlier placements shift the numbering: address by
            # the original statement nodes instead
            try:
                sch = [s for s in scheds if not type(s.parent).__name__.endswith("Node")
                       and type(s.parent).__name__ not in ("ProfileNode", "ExtractNode",
                                                           "NanTestNode", "ReadOnlyVerifyNode")]
                sch = sch[si]
                nodes = sch.children[lo:hi]
                if not nodes:
                    status = "refused"
                    break
                opts = {"region_name": ("mymod", "myreg")} if named else None
                getattr(T, t)().apply(nodes, opts)
                user.append(named)
            except TransformationError:
                status = "refused"
                break
            except IndexError:
                status = "refused"
                break
            except Exception as err:   # noqa
                status = "crash: " + f"{type(err).__name__}: {err}"[:200]
                break
        if status != "accepted":
            out.append({"id": cid, "status": status.split(":")[0], "why": status})
            continue
        try:
            psy.lower_to_language_level()
            text = sem.write(psy)
            ex = sem.Exporter()
            ex.skip_opaque_symbols = True
            prog = ex.routine(r)
        except Unsupported as err:
            out.append({"id": cid, "status": "unsupported", "why": str(err)})
            continue
        except Exception as err:   # noqa
            out.append({"id": cid, "status": "crash", "why": f"lowering: {type(err).__name__}: {err}"[:200]})
            continue
        starts = _regions(prog["body"], [])
        # PSyData variables are derived-type objects the exporter does not declare
        regs = [{"var": s["name"], "module": s["module"], "region": s["region"],
                 "user": bool(user[k]) if k < len(user) else False}
                for k, s in enumerate(sorted(starts, key=lambda s: s["name"]))]
        # user flags are per placement; with equal user names both placements are user-named
        if len(plan) == 2:
            for g in regs:
                g["user"] = plan[0][2]
        names = {d["name"] for d in prog["decls"]}
        case = {"id": cid, "decls": prog["decls"], "dom": [[n, v] for n, v in DOM if n in names],
                "fills": FILLS, "subs": {"#none": {"formals": [], "locals": [], "body": []}},
                "body": prog["body"], "regions": regs}
        out.append({"id": cid, "status": "accepted", "case": case, "src": src, "after": text,
                    "trans": "+".join(t for t, _, _ in plan)})
    return out


def _decl_filter(prog):
    return prog


# ---- second family: PSyKAl invokes (GOcean / LFRic), names and textual nesting only
def psykal_items(tier):
    base = os.path.join(core.REPO, "src", "psyclone", "tests", "test_files")
    out = []
    for api, rel in (("gocean1.0", "gocean1p0/single_invoke_three_kernels.f90"),
                     ("dynamo0.3", "dynamo0p3/4_multikernel_invokes.f90"),
                     ("gocean1.0", "gocean1p0/single_invoke_two_identical_kernels.f90")):
        for tname in ("Extract", "Profile"):
            for mode in ("none", "separate", "shared", "shared-named", "separate-named"):
                out.append((api, os.path.join(base, rel), tname, mode))
    return out


def _build_psykal(item):
    import re
    from psyclone.configuration import Config
    from psyclone.parse.algorithm import parse
    from psyclone.psyGen import PSyFactory
    from psyclone.psyir.transformations import TransformationError
    api, path, tname, mode = item
    cid = f"psykal|{api}|{os.path.basename(path)}|{tname}|{mode}"
    try:
        Config.get().api = api
        _, info = parse(path, api=api)
        psy = PSyFactory(api, distributed_memory=False).create(info)
        sched = psy.invokes.invoke_list[0].schedule
        if tname == "Profile":
            from psyclone.psyir.transformations import ProfileTrans
            trans = ProfileTrans()
        elif api == "gocean1.0":
            from psyclone.domain.gocean.transformations import GOceanExtractTrans
            trans = GOceanExtractTrans()
        else:
            from psyclone.domain.lfric.transformations import LFRicExtractTrans
            trans = LFRicExtractTrans()
        base_opts = {"create_driver": False} if tname == "Extract" else {}
        named = mode.endswith("named")
        if named:
            base_opts["region_name"] = ("usermod", "userreg")
        shared = dict(base_opts)
        for k in (0, 1):
            if mode == "none":
                opts = None if tname == "Profile" else dict(base_opts)
            elif mode.startswith("shared"):
                opts = shared
            else:
                opts = dict(base_opts)
            trans.apply(sched.children[k], opts)
        code = str(psy.gen)
    except TransformationError:
        return [{"id": cid, "status": "refused"}]
    except Exception as err:   # noqa
        return [{"id": cid, "status": "crash", "why": f"{type(err).__name__}: {err}"[:200]}]
    body, regs = [], []
    for line in code.splitlines():
        m = re.search(r"CALL\s+(\w+)\s*%\s*(PreStart|PostEnd)\s*(\((.*)\))?", line, re.I)
        if not m:
            continue
        var = m.group(1).lower()
        if m.group(2).lower() == "prestart":
            names = re.findall(r'"([^"]*)"', m.group(4) or "")
            body.append({"k": "event", "what": "start", "name": var})
            regs.append({"var": var, "module": names[0] if names else "",
                         "region": names[1] if len(names) > 1 else "", "user": named})
        else:
            body.append({"k": "event", "what": "end", "name": var})
    if len(regs) != 2:
        return [{"id": cid, "status": "unsupported", "why": f"{len(regs)} regions found"}]
    case = {"id": cid, "decls": [], "dom": [], "fills": [1],
            "subs": {"#none": {"formals": [], "locals": [], "body": []}},
            "body": body, "regions": regs}
    text = "\n".join(l for l in code.splitlines() if "PreStart" in l or "PostEnd" in l)
    return [{"id": cid, "status": "accepted", "case": case, "src": cid, "after": text,
             "trans": tname + "Trans(psykal)"}]


# ------------------------------------------------------------ known findings
def _region_has_jump(rec, kinds):
    '''some region of the lowered program (statements between a start and its
    end event in the same list) contains one of the jump statements'''
    def walk(body):
        depth = 0
        for st in body:
            if st["k"] == "event":
                depth += 1 if st["what"] == "start" else -1
            elif depth > 0 and contains(st):
                return True
            for key in ("body", "then", "else"):
                if key in st and walk(st[key]):
                    return True
        return False

    def contains(st):
        if st["k"] in kinds:
            return True
        return any(contains(x) for key in ("body", "then", "else") if key in st for x in st[key])
    return walk(rec["case"]["body"])


def m_exit_cycle(rec, clause, detail, finding):
    '''Profile/NanTest/ReadOnlyVerify regions may contain EXIT or CYCLE (code
    blocks are not in excluded_node_types): the jump leaves the region without
    its PostEnd'''
    return clause in ("NoEscape", "WellNested", "StartedWhileOpen") and \
        _region_has_jump(rec, ("exit", "cycle")) and "ExtractTrans" not in rec["trans"]


def m_extract_return(rec, clause, detail, finding):
    '''ExtractTrans replaces the inherited excluded_node_types (Return,) by its
    own tuple without Return: a region with a RETURN inside is accepted'''
    return clause in ("NoEscape", "WellNested") and "ExtractTrans" in rec["trans"] and \
        _region_has_jump(rec, ("return",))


MATCHERS = {"exit-cycle-inside-region": m_exit_cycle,
            "extract-return-inside-region": m_extract_return}


STEP = [5, 3]     # sampling of two-placement histories / named placements (quick)


def run(tier):
    global DOM
    if tier != "quick":        # thorough: every history of two placements, more trip counts
        DOM = [("n", [0, 1, 2, 3]), ("m", [1, 2, 3]), ("c1", [True, False]), ("c2", [True, False]),
               ("t", [[1, 2]])]
        STEP[0], STEP[1] = 1, 1
    core.setup_psyclone_env()
    out = core.Outcome("C28", tier, "model_checking", matchers=MATCHERS)
    results = [r for part in core.pool_map(_build, items(tier), chunksize=1) for r in part]
    results += [r for part in core.pool_map(_build_psykal, psykal_items(tier), chunksize=1)
                for r in part]
    stat = {}
    for r in results:
        stat[r["status"]] = stat.get(r["status"], 0) + 1
    acc = [r for r in results if r["status"] == "accepted"]
    if stat.get("unsupported", 0) > 0.2 * max(1, len(results)):
        raise core.MachineryError(f"too many unsupported: {stat} " +
                                  str(sorted({r['why'] for r in results if r['status'] == 'unsupported'})[:5]))
    res = sem.run_equiv([r["case"] for r in acc], spec="SemRegion.tla", cfg="SemRegion.cfg")
    per = {}
    for r in acc:
        pt = per.setdefault(r["trans"], {"accepted": 0, "failing": 0})
        pt["accepted"] += 1
        fails = res.fails.get(r["id"], [])
        if not fails:
            continue
        pt["failing"] += 1
        for clause in sorted({f[0] for f in fails}):
            w = [f[1] for f in fails if f[0] == clause][0]
            slim = {"id": r["id"], "trans": r["trans"], "source": r["src"], "after": r["after"]}
            rec = dict(slim, case=r["case"])
            detail = {"input": w["val"], "witness": w["x"], "n_failing_inputs": len(fails)}
            out.classify(rec, clause, detail, slim)
    cov = {"states": res.states, "transitions": res.transitions,
           "traces_validated_against_impl": len(acc), "evaluations": len(results),
           "distinct_nontrivial": len(acc),
           "rule": ("one case = (generated routine, placement history of PSyData transformations); "
                    "non-trivial = every placement was accepted and the lowered program was executed "
                    "on all paths (inputs = branch conditions and trip counts)"),
           "status_counts": stat, "per_transformation": per,
           "crashes": sorted({r["why"] for r in results if r["status"] == "crash"})[:8],
           "known_examples": out.known_examples,
           "samples": [{"id": r["id"], "after": r["after"]} for r in acc[:: max(1, len(acc) // 4)][:4]],
           "exhaustive": False}
    return out.finish(cov, assumptions=[
        "GOTO is not in the family (no semantics for labels in FortranSem.tla)",
        "the event log is taken from the lowered code PSyclone writes (PreStart/PostEnd calls)"])
