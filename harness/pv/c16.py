'''C16 - symbol tables keep names unique and lookups scoped.

SymTab.tla is a state machine over four symbol tables (Container > Routine >
loop body, plus a foreign table); TLC explores it (the model's own transitions
are checked against the clauses by PROPERTY StepProp) and dumps every reachable
state together with its complete operation alphabet.  Binding A: every
(state, operation) pair - and, beyond the exhaustive bound, every step of
`-simulate` histories - is executed on REAL psyclone SymbolTable objects built
in that state; the recorded (pre, op, outcome, result, post) tuples go back to
TLC (Trace_SymTab.tla), which evaluates SymTab!Verdict on each of them and
prints one VERDICT line per failing tuple.  Python never judges the property.
'''
import concurrent.futures
import json
import os
import shutil
import threading
import time

from pv import core
from pv import c16_world as W
from pv import c16_suite as S

TIERS = {
    # model cfg, simulate traces, simulate depth
    "quick": {"cfg": "SymTab_quick.cfg", "sim_num": 150, "sim_depth": 20},
    "thorough": {"cfg": "SymTab_thorough.cfg", "sim_num": 1500, "sim_depth": 30},
}
BATCH = 60000


# ------------------------------------------------------------ real execution
def _replay_state(item):
    '''All operations of one model state on freshly built real tables.
    Returns (error|None, pre key, [(op json, out, res json, post key|None)],
    unsupported list).'''
    core.setup_psyclone_env()
    state, ops = item
    want = W.skey(W.canon_state(state))
    recs, unsup, build = [], [], []
    world = None
    first = True
    for op in ops:
        try:
            if world is None:
                steps = [] if first else None
                world = W.World(state, record=steps)
                pre = world.project()
                if first:
                    first = False
                    build = [(W.skey(a), json.dumps(o, sort_keys=True), r,
                              json.dumps(v, sort_keys=True), W.skey(b))
                             for a, o, r, v, b in steps]
                    if W.skey(pre) != want:
                        # the public API did not produce the model's state:
                        # the recorded build steps go to TLC, nothing else
                        return ("unbuildable", want, [], [], build)
            out, res = world.apply(op, pre)
            post = world.project()
        except W.Unsupported as err:
            unsup.append((json.dumps(op, sort_keys=True), str(err)))
            world = None
            continue
        pkey = W.skey(post)
        same = pkey == want
        recs.append((json.dumps(op, sort_keys=True), out,
                     json.dumps(res, sort_keys=True), None if same else pkey))
        if not same:
            world = None      # rebuild: the next operation starts from `state`
    return (None, want, recs, unsup, build)


def _replay_history(hist):
    '''One simulated history on ONE set of real tables (long histories).'''
    core.setup_psyclone_env()
    init = W.canon_state(hist[0]["st"])
    world = W.World(init)
    recs, unsup = [], []
    for op in hist[1:]:
        try:
            pre = world.project()
            out, res = world.apply(op, pre)
            post = world.project()
        except W.Unsupported as err:
            unsup.append((json.dumps(op, sort_keys=True), str(err)))
            if "grammar" in str(err) or "suffix" in str(err):
                break          # the real state left the abstract universe
            continue
        recs.append((W.skey(pre), json.dumps(op, sort_keys=True), out,
                     json.dumps(res, sort_keys=True), W.skey(post)))
    return recs, unsup


# ------------------------------------------------------------ TLC validation
class Pool:
    '''Interned states / ops / results and the tuples that refer to them.'''

    def __init__(self):
        self.tuples = []     # (pre key, op json, out, res json, post key, src)

    def add(self, pre, op, out, res, post, src):
        self.tuples.append((pre, op, out, res, post, src))


def _validate(pool, tmp, cov, workers):
    '''Feed the tuples to Trace_SymTab.tla in batches (run side by side).
    Returns (verdicts: list of (tuple, clause), divergence counters, samples).'''
    starts = list(range(0, len(pool.tuples), BATCH))
    side = max(1, min(3, len(starts)))          # TLC runs side by side
    each = max(2, workers // side)

    def one(lo):
        part = pool.tuples[lo:lo + BATCH]
        states, ops, results, names, atoms = {}, {}, {}, {}, {}

        def idx(table, key):
            if key not in table:
                table[key] = len(table) + 1
            return table[key]

        def compact(key):
            st = json.loads(key)
            return {"t": [[[[x["id"], idx(names, json.dumps(x["key"], sort_keys=True)),
                             idx(names, json.dumps(x["name"], sort_keys=True)),
                             idx(atoms, x["cls"]), idx(atoms, x["ifc"]), x["dep"]]
                            for x in tab["syms"]],
                           [[idx(atoms, g["tag"]), g["id"]] for g in tab["tags"]],
                           tab["args"]] for tab in st["tabs"]],
                    "i": st["inner"], "d": st["dead"], "c": st["calls"]}
        tuples = [[idx(states, t[0]), idx(ops, t[1]), t[2], idx(results, t[3]),
                   idx(states, t[4])] for t in part]
        cstates = [compact(k) for k in states]
        path = os.path.join(tmp, f"cases-{lo}.json")
        with open(path, "w") as f:
            f.write('{"names":[' + ",".join(names) + '],"atoms":'
                    + json.dumps(list(atoms)) + ',"states":'
                    + json.dumps(cstates, separators=(",", ":")) + ',"ops":['
                    + ",".join(ops) + '],"results":[' + ",".join(results)
                    + '],"tuples":' + json.dumps(tuples, separators=(",", ":"))
                    + "}")
        res = core.run_tlc("Trace_SymTab.tla", "Trace_SymTab.cfg",
                           env={"PV_CASES": path}, workers=each, timeout=3000)
        if os.environ.get("PV_C16_KEEP"):
            shutil.copy(path, os.environ["PV_C16_KEEP"])
        os.unlink(path)
        # totality: every tuple has an initial and a terminal state
        if res.distinct != 2 * len(part):
            raise core.MachineryError(
                f"C16 trace validation did not consume every tuple: "
                f"{res.distinct} states, expected {2 * len(part)}")
        return lo, res

    with concurrent.futures.ThreadPoolExecutor(side) as pool_x:
        done = sorted(pool_x.map(one, starts), key=lambda r: r[0])
    bad, divs, div_samples = [], {}, {}
    for lo, res in done:
        part = pool.tuples[lo:lo + BATCH]
        cov["states"] += res.distinct
        cov["transitions"] += res.generated
        for v in sorted(res.printed("VERDICT"), key=lambda v: v["id"]):
            bad.append((part[v["id"] - 1], v["v"]))
        for d in sorted(res.printed("DIV"), key=lambda d: d["id"]):
            tup = part[d["id"] - 1]
            kind = tup[5] + ":" + json.loads(tup[1])["name"] + ":" + d["d"]
            divs[kind] = divs.get(kind, 0) + 1
            if kind not in div_samples:
                div_samples[kind] = tup
    return bad, divs, div_samples


def _case(tup):
    pre, op, out, res, post, src = tup
    return {"source": src, "pre": json.loads(pre), "op": json.loads(op),
            "outcome": "returned" if out else "raised", "result": json.loads(res),
            "post": json.loads(post)}


def _diff(case):
    '''Human-readable difference pre -> post (for reports and matchers).'''
    out = []
    for t, (a, b) in enumerate(zip(case["pre"]["tabs"], case["post"]["tabs"])):
        ka = {json.dumps(x, sort_keys=True) for x in a["syms"]}
        kb = {json.dumps(x, sort_keys=True) for x in b["syms"]}
        for x in sorted(ka - kb):
            out.append({"table": t + 1, "removed": json.loads(x)})
        for x in sorted(kb - ka):
            out.append({"table": t + 1, "added": json.loads(x)})
        if a["tags"] != b["tags"]:
            out.append({"table": t + 1, "tags": [a["tags"], b["tags"]]})
        if a["args"] != b["args"]:
            out.append({"table": t + 1, "args": [a["args"], b["args"]]})
    for fld in ("inner", "dead", "calls"):
        if case["pre"][fld] != case["post"][fld]:
            out.append({fld: [case["pre"][fld], case["post"][fld]]})
    return out


# ------------------------------------------------------------ known findings
def _m_swap_props_partial(case, clause, detail, finding):
    '''swap_symbol_properties(x, y) raised TypeError (classes of x and y differ)
    after copying y's properties into x: the only change is the interface (and
    import source) of x itself, which now equals y's.'''
    op = case["op"]
    if clause != "RefusalAtomic" or op["name"] != "swap_props":
        return False
    if case["outcome"] != "raised" or case["result"].get("type") != "TypeError":
        return False
    diff = detail["diff"]
    # (x need not belong to table s either: the change is wherever x lives)
    if len(diff) != 2 or diff[0]["table"] != diff[1]["table"]:
        return False
    rem = [d["removed"] for d in diff if "removed" in d]
    add = [d["added"] for d in diff if "added" in d]
    if len(rem) != 1 or len(add) != 1:
        return False
    old, new = rem[0], add[0]
    if old["id"] != op["x"] or new["id"] != op["x"]:
        return False
    if any(old[f] != new[f] for f in ("key", "name", "cls")):
        return False
    # (y need not belong to table s: only its *name* is looked up there)
    syms = {x["id"]: x for tab in case["pre"]["tabs"] for x in tab["syms"]}
    other = syms.get(op["y"])
    if other is None or other["cls"] == old["cls"]:
        return False
    return (new["ifc"], new["dep"]) == (other["ifc"], other["dep"])


def _norm(rec):
    return (rec["c"].lower(), tuple(rec["sfx"]))


def _renamable(x):
    return x["cls"] != "ContainerSymbol" and x["ifc"] not in ("imp", "unres", "arg")


def _m_merge_skipped_container(case, clause, detail, finding):
    '''merge(o, symbols_to_skip) raised SymbolError half-way: a SKIPPED
    ContainerSymbol of o (or a skipped symbol imported from a container of o)
    has the name of a symbol of the receiving table that cannot be renamed.
    check_for_clashes ignores skipped symbols, but containers and their imports
    are moved regardless, so the impossible rename is only met after other
    container symbols were added / symbols renamed / imports re-pointed.'''
    op = case["op"]
    if clause != "RefusalAtomic" or op["name"] != "merge" or not op["skip"]:
        return False
    if case["outcome"] != "raised" or case["result"].get("type") != "SymbolError":
        return False
    mine = case["pre"]["tabs"][op["s"] - 1]["syms"]
    theirs = case["pre"]["tabs"][op["o"] - 1]["syms"]
    conts = {x["id"] for x in theirs if x["cls"] == "ContainerSymbol"}
    cause = False
    for y in theirs:
        if y["id"] not in op["skip"]:
            continue
        for x in mine:
            if _norm(x["name"]) != _norm(y["name"]) or _renamable(x):
                continue
            if y["cls"] == "ContainerSymbol" and x["cls"] != "ContainerSymbol":
                cause = True
            if y["ifc"] == "imp" and y["dep"] in conts and x["ifc"] != "imp":
                cause = True
    if not cause:
        return False
    # the partial effects: containers of o added to s, symbols of s renamed,
    # imports of o re-pointed - nothing else
    my_ids = {x["id"] for x in mine}
    for d in detail["diff"]:
        if "tags" in d or "args" in d or "inner" in d or "dead" in d or "calls" in d:
            return False
        if d["table"] == op["s"]:
            x = d.get("added") or d.get("removed")
            if not (x["id"] in conts or x["id"] in my_ids):
                return False
        elif d["table"] == op["o"]:
            x = d.get("added") or d.get("removed")
            if x["ifc"] != "imp":
                return False
        else:
            return False
    return True


MATCHERS = {"c16_swap_props_partial": _m_swap_props_partial,
            "c16_merge_skipped_container": _m_merge_skipped_container}


# ------------------------------------------------------------------- driver
def _model(cfg, workers):
    res = core.run_tlc("SymTab.tla", cfg, workers=workers, check=False,
                       timeout=3000)
    if res.invariant_violated or res.error:
        raise core.MachineryError(
            "SymTab.tla does not satisfy its own clauses: "
            + str(res.invariant_violated or res.error) + "\n" + res.out[-1500:])
    dumped = res.printed("ST")
    if len(dumped) != res.distinct:
        raise core.MachineryError(
            f"state dump incomplete: {len(dumped)} lines, {res.distinct} states")
    return res, dumped


def _simulate(tier, conf, tmp):
    cfg = os.path.join(tmp, "sim.cfg")
    with open(os.path.join(core.SPEC, "SymTab_sim.cfg")) as f:
        text = f.read().replace("MaxDepth = 20", f"MaxDepth = {conf['sim_depth']}")
    with open(cfg, "w") as f:
        f.write(text)
    res = core.run_tlc("SymTab.tla", cfg, workers=1, check=False, timeout=3000,
                       simulate=f"num={conf['sim_num']}",
                       depth=conf["sim_depth"] + 1,
                       tlc_seed=20160 + core.seed())
    if res.invariant_violated or (res.error and not res.printed("SIM")):
        raise core.MachineryError("SymTab.tla simulation failed: "
                                  + str(res.invariant_violated or res.error))
    return res.printed("SIM")


def _sim_thread(tier, conf, tmp, box):
    try:
        box["hists"] = _simulate(tier, conf, tmp)
    except Exception as err:   # noqa  re-raised in the main thread
        box["err"] = err


def run(tier):
    core.setup_psyclone_env()
    conf = dict(TIERS["thorough" if tier == "thorough" else "quick"])
    if os.environ.get("PV_C16_SIM"):           # development / demonstrations
        conf["sim_num"] = int(os.environ["PV_C16_SIM"])
    bindings = os.environ.get("PV_C16_BINDINGS", "AB").upper()
    out = core.Outcome("C16", tier, "model_checking", matchers=MATCHERS)
    workers = int(os.environ.get("PV_WORKERS", core.NCPU))
    cov = {"states": 0, "transitions": 0, "traces_validated_against_impl": 0,
           "samples": [], "exhaustive": True, "divergences": 0, "unsupported": 0,
           "evaluations": 0, "distinct_nontrivial": 0, "bindings": bindings}
    tmp = core.mktemp("pv-c16-")
    assumptions = []
    try:
        handle = None
        if "B" in bindings:
            # the repository's tests run under the recorder while binding A works
            procs = workers if "A" not in bindings else max(2, workers // 2)
            handle = S.start(tmp, tier, procs)
        if "A" in bindings:
            assumptions += _binding_a(tier, conf, out, cov, tmp, workers)
        if handle is not None:
            assumptions += _binding_b(handle, out, cov, tmp, workers)
    finally:
        if handle is not None and handle["proc"].poll() is None:
            handle["proc"].kill()
        shutil.rmtree(tmp, ignore_errors=True)
    cov["rule"] = ("one case = one (projected real pre-state, operation with "
                   "arguments, outcome, result, projected real post-state) tuple; "
                   "non-trivial = the call returned or changed the state; "
                   "binding B: distinct recorded events (after renumbering "
                   "symbols and renaming names within the event)")
    return out.finish(cov, assumptions=assumptions)


def _binding_b(handle, out, cov, tmp, workers):
    '''Binding B (code -> spec): events recorded from the repository's own
    tests, each distinct one judged by TLC (Trace_SymTab_Local.tla).'''
    t0 = time.time()
    dumps, summary, rc = S.collect(handle, 7200)
    t_suite = round(time.time() - t0, 1)
    shapes, stats = S.merge(dumps)
    if not shapes:
        raise core.MachineryError("C16 binding B: no event was recorded")
    t0 = time.time()
    verdicts, states, generated = S.validate(tmp, shapes, workers)
    cov["states"] += states
    cov["transitions"] += generated
    skipped = {}
    for idx in sorted(verdicts):
        clause = verdicts[idx]
        if clause.startswith("skip:"):
            skipped[clause] = skipped.get(clause, 0) + 1
            continue
        out.violation(S.case_of(shapes[idx]), clause, {"binding": "B"})
    nontrivial = sum(1 for s in shapes
                     if '"out":1' in s["event"] or
                     json.loads(s["event"])["pre"] != json.loads(s["event"])["post"])
    cov["binding_b"] = {
        "tests": handle["dirs"], "pytest_summary": summary, "pytest_rc": rc,
        "events_recorded": stats["events"], "events_by_operation": stats["by_op"],
        "refusals_recorded": stats["raised"],
        "distinct_events_validated": len(shapes),
        "distinct_nontrivial": nontrivial,
        "recorder_skipped": stats["recorder_skipped"],
        "not_judged": skipped,
        "verdict_failures": sum(1 for c in verdicts.values()
                                if not c.startswith("skip:")),
        "t_wait_for_suite_s": t_suite, "t_validate_s": round(time.time() - t0, 1)}
    cov["traces_validated_against_impl"] += len(shapes)
    cov["evaluations"] += len(shapes)
    cov["distinct_nontrivial"] += nontrivial
    if len(cov["samples"]) < 4:
        mid = shapes[len(shapes) // 2]
        cov["samples"].append({"binding": "B", "tests": mid["tests"][:2],
                               "event": json.loads(mid["actual"])})
    if stats["events"] and sum(skipped.values()) > 0.2 * len(shapes):
        raise core.MachineryError("C16 binding B: more than 20% of the distinct "
                                  "events start in a malformed state")
    return [
        "binding B: only top-level public calls are events; the state is the "
        "scope chain of the table (and the other table) restricted to the "
        "entries the call involves, identically before and after",
        "binding B: calls limited by scope_limit/visibility, states with a "
        "scope that has no table, and events starting in a state that already "
        "breaks a clause are counted, not judged; at most "
        "C16_PER_TEST_OP (60) events per test and operation"]


def _binding_a(tier, conf, out, cov, tmp, workers):
    '''Binding A (spec -> code), see the module docstring.'''
    # 1. the model: its own transitions satisfy the clauses; dump states
    t0 = time.time()
    sim = {}
    thr = threading.Thread(target=_sim_thread, args=(tier, conf, tmp, sim))
    thr.start()
    mres, dumped = _model(os.environ.get("PV_C16_CFG") or conf["cfg"], workers)
    cov["t_model_s"] = round(time.time() - t0, 1)
    cov["model_states"] = mres.distinct
    cov["model_transitions"] = mres.generated
    cov["states"] += mres.distinct
    cov["transitions"] += mres.generated
    items, seen = [], set()
    for d in sorted(dumped, key=lambda d: d["d"]):
        key = W.skey(W.canon_state(d["st"]))
        if key in seen:
            continue
        seen.add(key)
        items.append((d["st"], sorted(d["ops"],
                                      key=lambda o: json.dumps(o, sort_keys=True))))
    items.sort(key=lambda it: W.skey(W.canon_state(it[0])))
    cov["model_distinct_abstract_states"] = len(items)
    cov["model_depth"] = max(d["d"] for d in dumped)
    # 2. binding A: every (state, op) on the real tables
    pool = Pool()
    unsupported = []
    t0 = time.time()
    results = core.pool_map(_replay_state, items, procs=workers, chunksize=1)
    unbuildable = 0
    for err, pre, recs, unsup, build in results:
        if err:
            unbuildable += 1
        for op, o, res, post in recs:
            pool.add(pre, op, o, res, post or pre, "exhaustive")
        for tup in build:
            pool.add(*tup, "build")
        unsupported += unsup
    cov["unbuildable_states"] = unbuildable
    n_exh = len(pool.tuples)
    if not n_exh:
        raise core.MachineryError("C16: nothing was replayed")
    cov["t_replay_s"] = round(time.time() - t0, 1)
    t0 = time.time()
    cov["pairs_from_model"] = sum(len(it[1]) for it in items)
    # 3. long histories from -simulate, replayed on one set of real tables
    thr.join()
    if "err" in sim:
        raise sim["err"]
    hists = sim["hists"]
    hists.sort(key=lambda h: json.dumps(h, sort_keys=True))
    for recs, unsup in core.pool_map(_replay_history, hists, procs=workers):
        for pre, op, o, res, post in recs:
            pool.add(pre, op, o, res, post, "simulate")
        unsupported += unsup
    cov["t_simulate_s"] = round(time.time() - t0, 1)
    t0 = time.time()
    cov["simulated_histories"] = len(hists)
    cov["simulated_steps"] = len(pool.tuples) - n_exh
    # 4. TLC decides
    if os.environ.get("PV_C16_CORRUPT"):      # binding demo: flip one field
        _corrupt(pool, os.environ["PV_C16_CORRUPT"])
    bad, divs, div_samples = _validate(pool, tmp, cov, workers)
    cov["t_validate_s"] = round(time.time() - t0, 1)
    for tup, clause in bad:
        case = _case(tup)
        out.violation(case, clause, {"diff": _diff(case)})
    if unbuildable and not bad:
        raise core.MachineryError(
            f"C16: {unbuildable} model states could not be built through the "
            f"public API although no build step violated a clause")
    total = len(pool.tuples)
    cov["traces_validated_against_impl"] += total
    cov["evaluations"] += total
    cov["distinct_nontrivial"] += len({t[:5] for t in pool.tuples
                                      if t[2] == 1 or t[0] != t[4]})
    cov["refusals"] = sum(1 for t in pool.tuples if t[2] == 0)
    cov["state_changing"] = sum(1 for t in pool.tuples if t[0] != t[4])
    cov["divergences"] = sum(divs.values())
    cov["divergence_kinds"] = divs
    cov["divergence_samples"] = {k: _case(v) for k, v in div_samples.items()}
    cov["unsupported"] = len(unsupported)
    cov["unsupported_samples"] = unsupported[:3]
    cov["verdict_failures"] = len(bad)
    by_op = {}
    for t in pool.tuples:
        name = json.loads(t[1])["name"]
        by_op[name] = by_op.get(name, 0) + 1
    cov["tuples_by_operation"] = by_op
    if total and len(unsupported) > 0.2 * (total + len(unsupported)):
        raise core.MachineryError("C16: more than 20% unsupported cases")
    for k in (len(pool.tuples) // 7, len(pool.tuples) // 2, n_exh + 5):
        if 0 <= k < len(pool.tuples) and len(cov["samples"]) < 3:
            cov["samples"].append(_case(pool.tuples[k]))
    return [
        "states are built through the public API (add/specify_argument_list/"
        "attach) in increasing symbol-id order; dict insertion order is not "
        "part of the abstract state",
        "the Routine's own RoutineSymbol 'r' is removed before a state is built",
        "no operation is generated on a table consumed by merge, and only the "
        "loop-body table is detached/attached (no scope without a table "
        "between two scopes with tables)",
        "any exception type is a refusal; KeyError from lookup/lookup_with_tag "
        "means 'not found'"]


def _corrupt(pool, how):
    '''Binding demonstration: corrupt one recorded field of one tuple.'''
    for i, t in enumerate(pool.tuples):
        op = json.loads(t[1])
        if how == "lookup" and op["name"] == "lookup" and t[2] == 1:
            res = json.loads(t[3])
            res["id"] = res["id"] + 1
            pool.tuples[i] = t[:3] + (json.dumps(res, sort_keys=True),) + t[4:]
            return
        if how == "refusal" and op["name"] == "add" and t[2] == 1:
            pool.tuples[i] = t[:2] + (0, '{"t": "exc", "type": "KeyError"}') + t[4:]
            return
        if how == "freshname" and op["name"] == "next_name" and t[2] == 1:
            st = json.loads(t[0])
            names = [x["name"] for x in st["tabs"][op["s"] - 1]["syms"]]
            if names:
                res = {"t": "name", "name": names[0]}
                pool.tuples[i] = t[:3] + (json.dumps(res, sort_keys=True),) + t[4:]
                return
    raise core.MachineryError("nothing to corrupt")
