'''C15 - copies of PSyIR subtrees are independent and equal.

TreeCopy.tla models an abstract program (scoping nodes with symbol tables,
symbols whose properties mention other symbols, nodes that use symbols), the
ideal Copy and the edit operations; TLC checks that the ideal Copy satisfies
EqualAfterCopy / NoSharedNode / OwnSymbols / OtherRenderUnchanged on every
bounded history and refutes deliberately broken Copies (vacuity).  The family
of abstract programs is the projection of REAL PSyIR trees read by the real
frontend from the Fortran sources of c15_world.FAMILY.

Binding A: every history TLC enumerates (program, Copy(subtree), edits on
either side) is replayed on a freshly built real tree (node.copy(), real
symbol-table / child-list / datatype API); the observations before and after
the last operation (FortranWriter text of each side, real ==, identities of
node objects, identities of the symbols reached through References,
Loop.variable, Call.routine, datatypes' precision and array bounds, initial
values, import interfaces, and of the symbols in each side's tables) go back
to TLC (Trace_TreeCopy.tla), which evaluates the clauses and prints one
VERDICT line per failing clause.  Python never judges the property.
'''
import concurrent.futures
import hashlib
import json
import os
import shutil
import threading
import time

from pv import core
from pv import c15_world as W

TIERS = {
    "quick": {"cfg": "TreeCopy_quick.cfg", "sim_num": 0, "sim_depth": 0},
    "thorough": {"cfg": "TreeCopy_thorough.cfg", "sim_num": 6000, "sim_depth": 5},
}
BATCH = 9000
CHUNK = 150
DECL_ROLES = ("shape", "kind", "init")


# ------------------------------------------------------------ real execution
def _side_json(side):
    '''Canonical string of one side observation (text replaced by its hash).'''
    text = side["t"]
    rec = {"t": "" if text is None else hashlib.sha1(text.encode()).hexdigest()[:16],
           "D": side["D"], "N": side["N"], "u": side["u"],
           "n": [{"o": o, "cat": c} for o, c in side["n"]], "s": side["s"],
           "st": side["st"]}
    return json.dumps(rec, sort_keys=True, separators=(",", ":"))


def replay(hist, keep_text=False):
    '''One history on a freshly built real tree.  Returns a dict with the
    observations before / after the last operation, or {"unsupported": why}.'''
    world = W.World(hist["p"] - 1)
    ops = hist["h"]
    try:
        for op in ops[:-1]:
            world.apply(op)
        last = ops[-1]
        if last["name"] == "copy":
            target = W.resolve(world.root, last["path"])
            if target is None:
                raise W.Unsupported("no node at " + str(last["path"]))
            world.orig = target
            pre = {"O": world.observe_side("O"), "C": world.observe_side("C")}
            refused, exc = world.apply(last)
            post = {"O": world.observe_side("O"), "C": world.observe_side("C")}
        else:
            other = "C" if last["side"] == "O" else "O"
            pre = {other: world.observe_side(other),
                   last["side"]: world.observe_side(last["side"], text=False)}
            refused, exc = world.apply(last)
            post = {other: world.observe_side(other),
                    last["side"]: world.observe_side(last["side"], text=False)}
    except W.Unsupported as err:
        return {"unsupported": str(err)}
    res = {"pre": pre, "post": post, "ref": refused, "exc": exc,
           "eq": world.eq}
    if keep_text:
        res["texts"] = {"pre": {k: v["t"] for k, v in pre.items()},
                        "post": {k: v["t"] for k, v in post.items()}}
    return res


def _replay_chunk(hists):
    '''Replays a chunk; side observations are interned per chunk.'''
    core.setup_psyclone_env()
    sides, index, cases = [], {}, []

    def intern(side):
        key = _side_json(side)
        if key not in index:
            index[key] = len(sides)
            sides.append(key)
        return index[key]
    for hist in hists:
        res = replay(hist)
        if "unsupported" in res:
            cases.append({"unsupported": res["unsupported"]})
            continue
        cases.append({
            "pre": {"O": intern(res["pre"]["O"]), "C": intern(res["pre"]["C"])},
            "post": {"O": intern(res["post"]["O"]), "C": intern(res["post"]["C"])},
            "ref": res["ref"], "exc": res["exc"], "eq": res["eq"]})
    return sides, cases


# ------------------------------------------------------------ TLC validation
class Pool:
    '''Histories with their (globally interned) observations.'''

    def __init__(self):
        self.sides = []          # canonical json strings
        self.index = {}
        self.cases = []          # (hist, rec) ; rec refers to self.sides

    def side(self, key):
        if key not in self.index:
            self.index[key] = len(self.sides)
            self.sides.append(key)
        return self.index[key]


def _batch_file(pool, part, path):
    '''Writes one PV_CASES file: items / sides re-indexed for this batch.'''
    items, iidx, sides, sidx, texts = [], {}, [], {}, {}

    def item(rec):
        key = json.dumps(rec, sort_keys=True, separators=(",", ":"))
        if key not in iidx:
            iidx[key] = len(items) + 1
            items.append(key)
        return iidx[key]

    def side(gidx):
        if gidx not in sidx:
            rec = json.loads(pool.sides[gidx])
            tid = 0
            if rec["t"]:
                tid = texts.setdefault(rec["t"], len(texts) + 1)
            sides.append({"t": tid, "D": [item(x) for x in rec["D"]],
                          "N": [item(x) for x in rec["N"]],
                          "u": [item(x) for x in rec["u"]],
                          "n": [item(x) for x in rec["n"]], "s": rec["s"],
                          "st": [item(x) for x in rec["st"]]})
            sidx[gidx] = len(sides)
        return sidx[gidx]
    cases = []
    for hist, rec in part:
        cases.append({"p": hist["p"], "h": hist["h"],
                      "pre": {"O": side(rec["pre"]["O"]), "C": side(rec["pre"]["C"]),
                              "eq": True, "ref": False},
                      "post": {"O": side(rec["post"]["O"]), "C": side(rec["post"]["C"]),
                               "eq": bool(rec["eq"]), "ref": bool(rec["ref"])}})
    with open(path, "w") as f:
        f.write('{"items":[' + ",".join(items) + '],"sides":'
                + json.dumps(sides, separators=(",", ":")) + ',"cases":'
                + json.dumps(cases, separators=(",", ":")) + "}")


def _validate(pool, fam_path, tmp, cov, workers):
    starts = list(range(0, len(pool.cases), BATCH))
    side_by = max(1, min(4, len(starts)))
    each = max(2, workers // side_by)

    def one(lo):
        part = pool.cases[lo:lo + BATCH]
        path = os.path.join(tmp, f"cases-{lo}.json")
        _batch_file(pool, part, path)
        if os.environ.get("PV_C15_KEEP"):
            shutil.copy(path, os.environ["PV_C15_KEEP"])
        res = core.run_tlc("Trace_TreeCopy.tla", "Trace_TreeCopy.cfg",
                           env={"PV_CASES": path, "PV_FAMILY": fam_path},
                           workers=each, timeout=3000)
        os.unlink(path)
        if res.distinct != 2 * len(part):       # totality
            raise core.MachineryError(
                f"C15 trace validation did not consume every case: "
                f"{res.distinct} states, expected {2 * len(part)}")
        return lo, res
    with concurrent.futures.ThreadPoolExecutor(side_by) as exe:
        done = sorted(exe.map(one, starts), key=lambda r: r[0])
    bad, divs, div_samples = [], {}, {}
    for lo, res in done:
        part = pool.cases[lo:lo + BATCH]
        cov["states"] += res.distinct
        cov["transitions"] += res.generated
        for v in sorted(res.printed("VERDICT"),
                        key=lambda v: (v["id"], v["v"])):
            bad.append((part[v["id"] - 1], v["v"], v["w"]))
        for d in sorted(res.printed("DIV"), key=lambda d: d["id"]):
            hist, rec = part[d["id"] - 1]
            kind = hist["h"][-1]["name"] + ":" + d["d"]
            divs[kind] = divs.get(kind, 0) + 1
            div_samples.setdefault(kind, {"program": W.NAMES[hist["p"] - 1],
                                          "history": hist["h"],
                                          "refused": rec["ref"],
                                          "exception": rec["exc"]})
    return bad, divs, div_samples


# ------------------------------------------------------------ known findings
def _case(hist, rec):
    return {"program": W.NAMES[hist["p"] - 1], "history": hist["h"],
            "step": len(hist["h"]), "refused": rec["ref"],
            "exception": rec["exc"]}


def _decl_use(item):
    return item["s"] != "" and item["r"] in DECL_ROLES


def _ops(case, name, side=None):
    return [op for op in case["history"]
            if op["name"] == name and (side is None or op.get("side") == side)]


def _only_uses_changed(diff):
    return not (diff["Dgone"] or diff["Dnew"] or diff["Ngone"] or diff["Nnew"])


def _same_sites(gone, new):
    def site(u):
        return json.dumps([u["p"], u["s"], u["r"], u["i"]])
    return sorted(site(u) for u in gone) == sorted(site(u) for u in new)


def _m_decl_not_repointed(case, clause, detail, finding):
    '''The symbols mentioned INSIDE declarations of a copied table (array
    bounds, kind parameter, initial value) still are the original's symbol
    objects.  (OwnSymbols) every offending use sits in a declaration, has role
    shape/kind/init and no symbol object is in two tables; uses of the ORIGINAL
    may reach into the copy only through a bound edited in place
    (setshaperef, see copy-shares-datatype-objects) and then only with role
    shape.  (OtherRenderUnchanged) a rename_symbol changes, in the other tree,
    exactly the names reached through such declaration uses, from the old to
    the new name - a rename on the copy only after such an in-place edit.'''
    wit = detail["witness"]
    inplace = bool(_ops(case, "setshaperef"))
    if clause == "OwnSymbols":
        if wit["sharedsyms"] != 0 or not wit["uses"]:
            return False
        for use in wit["uses"]:
            if not _decl_use(use):
                return False
            if use["side"] == "O" and not (inplace and use["r"] == "shape"):
                return False
        return True
    if clause == "OtherRenderUnchanged":
        op = case["history"][-1]
        if op["name"] != "rename" or case["refused"]:
            return False
        if op["side"] != "O" and not inplace:
            return False
        diff = wit["diff"]
        if not _only_uses_changed(diff) or not diff["Ugone"]:
            return False
        if not _same_sites(diff["Ugone"], diff["Unew"]):
            return False
        if op["side"] != "O" and not all(u["r"] == "shape" for u in diff["Ugone"]):
            return False
        return (all(_decl_use(u) and u["nm"] == op["sym"] for u in diff["Ugone"])
                and all(_decl_use(u) and u["nm"] == op["new"] for u in diff["Unew"]))
    return False


def _m_shared_datatype(case, clause, detail, finding):
    '''DataSymbol.copy() hands the SAME datatype object to the copy: (NoSharedNode)
    the only node objects reachable from both trees are the expression nodes
    inside array bounds; (OtherRenderUnchanged) once a bound is edited in place
    (Reference.symbol setter = operation setshaperef) the other tree's
    declaration of that array follows: exactly one shape use (the first bound)
    changes, to the new bound's name.'''
    wit = detail["witness"]
    if clause == "NoSharedNode":
        return wit["cats"] == ["shape"]
    if clause == "OtherRenderUnchanged":
        op = case["history"][-1]
        if op["name"] != "setshaperef" or case["refused"]:
            return False
        diff = wit["diff"]
        if not _only_uses_changed(diff):
            return False
        if len(diff["Ugone"]) != 1 or not _same_sites(diff["Ugone"], diff["Unew"]):
            return False
        old, new = diff["Ugone"][0], diff["Unew"][0]
        # (the other tree's array has another name after a rename)
        named = old["s"] == op["sym"] or bool(_ops(case, "rename"))
        return (old["r"] == "shape" and old["i"] == 0 and named
                and new["nm"] == op["dep"])
    return False


def _m_shared_interface(case, clause, detail, finding):
    '''Symbol.copy() hands the SAME ArgumentInterface object to the copy:
    setting interface.access on one side changes the intent written for the
    other side's argument of that name, and nothing else.'''
    if clause != "OtherRenderUnchanged":
        return False
    op = case["history"][-1]
    if op["name"] != "setintent" or case["refused"]:
        return False
    diff = detail["witness"]["diff"]
    if diff["Ngone"] or diff["Nnew"] or diff["Ugone"] or diff["Unew"]:
        return False
    if len(diff["Dgone"]) != 1 or len(diff["Dnew"]) != 1:
        return False
    old, new = diff["Dgone"][0], diff["Dnew"][0]
    return (old["s"] == op["sym"] and old["ifc"] == "arg"
            and {k: v for k, v in old.items() if k != "acc"}
            == {k: v for k, v in new.items() if k != "acc"}
            and new["acc"] == op["acc"] and old["acc"] != op["acc"])


def _m_function_not_equal(case, clause, detail, finding):
    '''The copied subtree contains a function (a Routine with a return
    symbol): real == is False although the texts and renders agree.'''
    if clause != "EqualAfterCopy" or case["history"][-1]["name"] != "copy":
        return False
    wit = detail["witness"]
    if wit["eq"] or wit["text"] or any(wit["diff"].values()):
        return False
    return detail.get("copied_ret_uses", 0) > 0


MATCHERS = {"c15_decl_use_not_repointed": _m_decl_not_repointed,
            "c15_function_copy_not_equal": _m_function_not_equal,
            "c15_shared_datatype": _m_shared_datatype,
            "c15_shared_interface": _m_shared_interface}


# ------------------------------------------------------------------- driver
def _export_family(tmp):
    fam = [W.project_program(W.build(i)) for i in range(len(W.FAMILY))]
    path = os.path.join(tmp, "family.json")
    with open(path, "w") as f:
        json.dump(fam, f, separators=(",", ":"))
    return path, fam


def _model(cfg, fam_path, workers):
    res = core.run_tlc("TreeCopy.tla", cfg, env={"PV_FAMILY": fam_path},
                       workers=workers, check=False, timeout=3000)
    if res.invariant_violated or res.error:
        raise core.MachineryError(
            "TreeCopy.tla (ideal Copy) does not satisfy its own clauses: "
            + str(res.invariant_violated or res.error) + "\n" + res.out[-1500:])
    hists = res.printed("HIST")
    if len(hists) != res.distinct - len(W.FAMILY):
        raise core.MachineryError(
            f"history dump incomplete: {len(hists)} lines, {res.distinct} states")
    return res, hists


def _vacuity(fam_path, box):
    '''Deliberately broken Copies must be refuted by TLC.'''
    try:
        want = {"TreeCopy_broken.cfg": "InvOtherRenderUnchanged",
                "TreeCopy_broken_own.cfg": "InvOwnSymbols",
                "TreeCopy_broken_loopvar.cfg": "InvAll",
                "TreeCopy_broken_byname.cfg": "InvOwnSymbols"}
        def one(cfg):
            res = core.run_tlc("TreeCopy.tla", cfg, env={"PV_FAMILY": fam_path},
                               workers=1, check=False, timeout=1200, heap="2g")
            return cfg, res
        with concurrent.futures.ThreadPoolExecutor(len(want)) as exe:
            results = list(exe.map(one, want))
        got = {}
        for cfg, res in results:
            got[cfg] = res.invariant_violated
            if res.invariant_violated != want[cfg]:
                raise core.MachineryError(
                    f"vacuity check failed: {cfg} should violate {want[cfg]}, TLC "
                    f"reported {res.invariant_violated or res.error}")
        box["vacuity"] = got
    except Exception as err:   # noqa  re-raised in the main thread
        box["err"] = err


def _simulate(conf, fam_path, tmp, box):
    try:
        cfg = os.path.join(tmp, "sim.cfg")
        with open(os.path.join(core.SPEC, "TreeCopy_sim.cfg")) as f:
            text = f.read().replace("MaxEdits = 4", f"MaxEdits = {conf['sim_depth'] - 1}")
            text = text.replace("MaxEditsFile = 4",
                                f"MaxEditsFile = {conf['sim_depth'] - 1}")
        with open(cfg, "w") as f:
            f.write(text)
        res = core.run_tlc("TreeCopy.tla", cfg, env={"PV_FAMILY": fam_path},
                           workers=1, check=False, timeout=3000,
                           simulate=f"num={conf['sim_num']}",
                           depth=conf["sim_depth"] + 1,
                           tlc_seed=20150 + core.seed())
        if res.invariant_violated or (res.error and not res.printed("HIST")):
            raise core.MachineryError("TreeCopy.tla simulation failed: "
                                      + str(res.invariant_violated or res.error))
        box["sim"] = res.printed("HIST")
        box["sim_states"] = sum(len(h["h"]) + 1 for h in box["sim"])
    except Exception as err:   # noqa
        box["sim_err"] = err


def _hkey(hist):
    return json.dumps([hist["p"], hist["h"]], sort_keys=True)


def run(tier):
    core.setup_psyclone_env()
    conf = dict(TIERS["thorough" if tier == "thorough" else "quick"])
    if os.environ.get("PV_C15_CFG"):             # development / demonstrations
        conf["cfg"] = os.environ["PV_C15_CFG"]
    if os.environ.get("PV_C15_SIM"):
        conf["sim_num"] = int(os.environ["PV_C15_SIM"])
        conf["sim_depth"] = conf["sim_depth"] or 5
    out = core.Outcome("C15", tier, "model_checking", matchers=MATCHERS)
    workers = int(os.environ.get("PV_WORKERS", core.NCPU))
    cov = {"states": 0, "transitions": 0, "traces_validated_against_impl": 0,
           "samples": [], "exhaustive": True, "divergences": 0, "unsupported": 0}
    tmp = core.mktemp("pv-c15-")
    try:
        fam_path, fam = _export_family(tmp)
        cov["family"] = {W.NAMES[i]: {"nodes": len(p["nodes"]), "symbols": len(p["syms"])}
                         for i, p in enumerate(fam)}
        # 1. the model: ideal Copy satisfies the clauses, broken Copies do not
        box = {}
        threads = [threading.Thread(target=_vacuity, args=(fam_path, box))]
        if conf["sim_num"]:
            threads.append(threading.Thread(target=_simulate,
                                            args=(conf, fam_path, tmp, box)))
        for thr in threads:
            thr.start()
        t0 = time.time()
        mres, hists = _model(conf["cfg"], fam_path, max(2, workers - 3))
        cov["t_model_s"] = round(time.time() - t0, 1)
        cov["model_states"] = mres.distinct
        cov["model_depth"] = mres.depth
        cov["states"] += mres.distinct
        cov["transitions"] += mres.generated
        n_exh = len(hists)
        for thr in threads:
            thr.join()
        for key in ("err", "sim_err"):
            if key in box:
                raise box[key]
        cov["vacuity"] = box["vacuity"]
        # every prefix of a simulated history is a case of its own
        seen = {_hkey(h) for h in hists}
        for full in box.get("sim", []):
            for k in range(1, len(full["h"]) + 1):
                h = {"p": full["p"], "h": full["h"][:k]}
                if _hkey(h) not in seen:
                    seen.add(_hkey(h))
                    hists.append(h)
        cov["simulated_histories"] = len(box.get("sim", []))
        cov["simulated_cases"] = len(hists) - n_exh
        cov["states"] += box.get("sim_states", 0)
        hists.sort(key=_hkey)
        # 2. binding A: every history on real trees
        t0 = time.time()
        chunks = [hists[i:i + CHUNK] for i in range(0, len(hists), CHUNK)]
        results = core.pool_map(_replay_chunk, chunks, procs=workers, chunksize=1)
        pool = Pool()
        unsupported = []
        for chunk, (sides, cases) in zip(chunks, results):
            gidx = [pool.side(k) for k in sides]
            for hist, rec in zip(chunk, cases):
                if "unsupported" in rec:
                    unsupported.append({"program": W.NAMES[hist["p"] - 1],
                                        "history": hist["h"],
                                        "why": rec["unsupported"]})
                    continue
                for when in ("pre", "post"):
                    rec[when] = {k: gidx[v] for k, v in rec[when].items()}
                pool.cases.append((hist, rec))
        cov["t_replay_s"] = round(time.time() - t0, 1)
        if not pool.cases:
            raise core.MachineryError("C15: nothing was replayed")
        if os.environ.get("PV_C15_CORRUPT"):      # binding demo: flip one field
            _corrupt(pool, os.environ["PV_C15_CORRUPT"])
        # 3. TLC decides
        t0 = time.time()
        bad, divs, div_samples = _validate(pool, fam_path, tmp, cov, workers)
        cov["t_validate_s"] = round(time.time() - t0, 1)
    finally:
        shutil.rmtree(tmp, ignore_errors=True)
    if any(v == "TextMissing" for _, v, _ in bad):
        raise core.MachineryError("C15: a text needed by a clause was not recorded")
    unmatched = 0
    by_clause = {}
    for (hist, rec), clause, wit in bad:
        by_clause[clause] = by_clause.get(clause, 0) + 1
        detail = {"witness": wit}
        if clause == "EqualAfterCopy":
            side = json.loads(pool.sides[rec["post"]["O"]])
            detail["copied_ret_uses"] = sum(1 for u in side["u"] if u["r"] == "ret")
        hit = out.violation(_case(hist, rec), clause, detail)
        if hit is None:
            unmatched += 1
            if unmatched <= 8:        # the written code, for the report
                detail["texts"] = replay(hist, keep_text=True).get("texts")
    total = len(pool.cases)
    cov["traces_validated_against_impl"] = total
    cov["evaluations"] = total
    cov["histories_from_model"] = n_exh
    cov["distinct_nontrivial"] = sum(1 for _, r in pool.cases if not r["ref"])
    cov["refusals"] = sum(1 for _, r in pool.cases if r["ref"])
    cov["distinct_side_observations"] = len(pool.sides)
    cov["divergences"] = sum(divs.values())
    cov["divergence_kinds"] = divs
    cov["divergence_samples"] = div_samples
    cov["unsupported"] = len(unsupported)
    cov["unsupported_samples"] = unsupported[:3]
    cov["verdict_failures"] = len(bad)
    cov["verdict_failures_by_clause"] = by_clause
    by_op, by_len = {}, {}
    for hist, _ in pool.cases:
        name = hist["h"][-1]["name"]
        by_op[name] = by_op.get(name, 0) + 1
        by_len[len(hist["h"])] = by_len.get(len(hist["h"]), 0) + 1
    cov["cases_by_last_operation"] = by_op
    cov["cases_by_history_length"] = by_len
    if len(unsupported) > 0.2 * (total + len(unsupported)):
        raise core.MachineryError("C15: more than 20% unsupported cases")
    for k in (total // 7, total // 2, (5 * total) // 6):
        if len(cov["samples"]) < 3:
            hist, rec = pool.cases[k]
            smp = _case(hist, rec)
            smp["texts"] = replay(hist, keep_text=True).get("texts")
            cov["samples"].append(smp)
    cov["rule"] = ("one case = one history (family member, Copy of one subtree, "
                   "edits on either side) replayed on a fresh real tree, judged on "
                   "the observations before/after its last operation; every prefix "
                   "is a case of its own; non-trivial = the last operation was "
                   "accepted by the real API")
    return out.finish(cov, assumptions=[
        "the two trees of the property are the copied subtree (in place, inside "
        "its program) and its detached copy; edits address scopes/nodes inside "
        "them only (symbols of enclosing, not copied, scopes are shared by design)",
        "programs: the three Fortran sources of c15_world.FAMILY read by the real "
        "frontend (fparser2 parse tree cached per process, PSyIR regenerated per "
        "history) plus loop-body-scope symbols added through the public API",
        "written code = FortranWriter()(root of the side), fresh writer per call; "
        "a writer that raises is the text 'ERR:<exception class>'",
        "any exception raised by an edit is a refusal; the other side must stay "
        "unchanged in that case too",
        "in-place edits are limited to Reference.symbol inside an array bound "
        "(setshaperef) and ArgumentInterface.access (setintent)"])


def _corrupt(pool, how):
    '''Binding demonstration: corrupt one recorded field of one case.'''
    for i, (hist, rec) in enumerate(pool.cases):
        last = hist["h"][-1]
        if how == "sharednode" and last["name"] == "copy":
            # pretend the first node object of the copy is the original's
            orig = json.loads(pool.sides[rec["post"]["O"]])
            copy = json.loads(pool.sides[rec["post"]["C"]])
            tree = [x for x in orig["n"] if x["cat"] == "tree"]
            if not tree or not copy["n"]:
                continue
            copy["n"][0] = dict(tree[0])
            rec = dict(rec, post=dict(rec["post"], C=pool.side(
                json.dumps(copy, sort_keys=True, separators=(",", ":")))))
            pool.cases[i] = (hist, rec)
            return
        if how == "text" and last["name"] == "add" and not rec["ref"]:
            # pretend the other side's text changed
            other = "C" if last["side"] == "O" else "O"
            side = json.loads(pool.sides[rec["post"][other]])
            side["t"] = "0" * 16
            rec = dict(rec, post=dict(rec["post"], **{other: pool.side(
                json.dumps(side, sort_keys=True, separators=(",", ":")))}))
            pool.cases[i] = (hist, rec)
            return
        if how == "loopvar" and last["name"] == "copy":
            # pretend a loop variable of the copy still is the original's symbol
            orig = json.loads(pool.sides[rec["post"]["O"]])
            copy = json.loads(pool.sides[rec["post"]["C"]])
            uo = [u for u in orig["u"] if u["r"] == "loopvar" and u["tgt"] in orig["s"]]
            if not uo:
                continue
            for use in copy["u"]:
                if use["r"] == "loopvar" and use["p"] == uo[0]["p"]:
                    use["tgt"] = uo[0]["tgt"]
            rec = dict(rec, post=dict(rec["post"], C=pool.side(
                json.dumps(copy, sort_keys=True, separators=(",", ":")))))
            pool.cases[i] = (hist, rec)
            return
        if how == "eq" and last["name"] == "copy":
            pool.cases[i] = (hist, dict(rec, eq=False))
            return
    raise core.MachineryError("nothing to corrupt")
