'''C03 helper - the generated program family: modules / programs / lone
subroutines assembled from feature switches (use statements with only/rename/
wildcard, default and explicit accessibility, parameters depending on
parameters, module variables, derived types, generic interfaces, several
routines, comments, directives, code blocks).  The sources are written in the
writer's own one-statement-per-line style so that the same itemiser gives the
generator's skeleton.'''
import random

# executable fragments; CAPITALISED statements are ones the reader keeps
# verbatim as code blocks (written in fparser2's rendering)
BODIES = [
    ["do i = 1, nn, 1", "  a(i) = a(i) + 1.0", "enddo"],
    ["! leading comment", "do i = 1, nn, 1", "  a(i) = a(i) * 2.0  ! inline comment", "enddo",
     "! trailing comment"],
    ["!$omp parallel do", "do i = 1, nn, 1", "  a(i) = 0.0", "enddo", "!$omp end parallel do"],
    ["do i = 1, nn, 1", "  if (a(i) > 2.0) then", "    EXIT", "  end if", "enddo"],
    ["WRITE(*, *) a(1)", "a(1) = a(2)", "PRINT *, \"x\""],
    ["! before a code block", "WRITE(*, *) a(1)", "WRITE(*, *) a(2)", "10 FORMAT(I4)"],
    ["if (nn > 2) then", "  a(1) = 1.0", "else", "  a(2) = 2.0", "end if"],
    ["do i = 1, nn, 1", "  if (a(i) < 0.0) then", "    CYCLE", "  end if", "  a(i) = SQRT(a(i))",
     "enddo"],
    ["a(:) = 0.0", "a(1:2) = a(2:3)"],
    ["do while (a(1) < 10.0)", "  a(1) = a(1) + 1.0", "end do"],
    ["SELECT CASE (nn)", "CASE (1)", "  a(1) = 1.0", "CASE DEFAULT", "  a(1) = 2.0", "END SELECT"],
    ["where (a(:) > 1.0)", "  a(:) = 1.0", "end where"],
    ["call s2(nn)", "a(1) = f1(a(2))"],
    ["OPEN(UNIT = 10, FILE = \"f.dat\")", "READ(10, *) a(1)", "CLOSE(UNIT = 10)"],
    ["do i = 1, nn, 1", "  do j = 1, 2, 1", "    a(i) = a(i) + REAL(j)", "  enddo", "enddo",
     "!$acc kernels", "a(1) = 0.0", "!$acc end kernels"],
    ["BLOCK", "  INTEGER :: q", "  q = 3", "  a(1) = REAL(q)", "END BLOCK"],
    ["GO TO 20", "a(1) = 1.0", "20 CONTINUE"],
    ["a(1) = a(1) + k * 1.0", "nn = nn"],
]
# bodies that assign to nn need intent(inout); keep nn inout everywhere
USES_K = {17}
# bodies the reader canonicalises (array sections, WHERE -> loops, SELECT CASE ->
# if blocks): their source skeleton is not comparable with the written one
CANONICALISED = {8, 10, 11}
USES_ROUTINES = {12}


def _routine_s1(rnd, feats, body_ids):
    lines = ["subroutine s1(a, nn)"]
    if feats["ruse"]:
        lines.append("  use r_mod, only : rx, ry=>rz")
    lines += ["  integer, intent(inout) :: nn",
              "  real, dimension(nn), intent(inout) :: a",
              "  integer :: i", "  integer :: j"]
    if feats["rparam"]:
        lines += ["  integer, parameter :: lp = 3", "  integer, parameter :: lq = lp + 1",
                  "  real, dimension(lq) :: work"]
    if feats["rsave"]:
        lines.append("  integer :: counter = 0")
    lines.append("")
    for b in body_ids:
        lines += ["  " + l for l in BODIES[b]]
    lines += ["", "end subroutine s1"]
    return lines


def _routine_s2():
    return ["subroutine s2(b)", "  integer, intent(inout) :: b", "", "  b = b + 1", "",
            "end subroutine s2"]


def _routine_f1(variant):
    if variant == 0:
        return ["function f1(x) result(r)", "  real, intent(in) :: x", "  real :: r", "",
                "  r = x * 2.0", "", "end function f1"]
    return ["function f1(x)", "  real, intent(in) :: x", "  real :: f1", "",
            "  f1 = x * 2.0", "", "end function f1"]


def make(idx, seed):
    '''program number idx -> (id, source, feature dict)'''
    rnd = random.Random(seed * 7919 + idx * 104729 + 17)
    shape = rnd.choice(["module"] * 6 + ["sub", "program", "twosub"])
    feats = {
        "shape": shape,
        "use_only": rnd.random() < 0.5, "use_wild": rnd.random() < 0.25,
        "access": rnd.choice(["private", "public", "public"]),
        "params": rnd.randint(0, 3), "param_late": rnd.random() < 0.4,
        "modvars": rnd.randint(0, 3), "charparam": rnd.random() < 0.3,
        "dtype": rnd.choice([0, 0, 1, 2]), "iface": rnd.random() < 0.3,
        "pubstmt": rnd.choice([0, 1, 2, 3]), "privstmt": rnd.random() < 0.3,
        "ruse": rnd.random() < 0.25, "rparam": rnd.random() < 0.4,
        "rsave": rnd.random() < 0.2, "fvar": rnd.randint(0, 1),
        "import_pub": rnd.random() < 0.3,
        "only_order": rnd.randint(0, 2), "kindvar": rnd.random() < 0.15,
    }
    # drawn last so that the other features of program idx do not depend on it:
    # a SELECT CASE whose selector / case values have types the reader cannot
    # resolve (imported); the reader then adds the psyclone_internal_cmp generic
    # interface and its three implementations to the module
    feats["selcmp"] = shape == "module" and rnd.random() < 0.22
    feats["selcmp_use"] = rnd.choice(["only", "wild"])
    nb = rnd.randint(1, 3)
    body_ids = [rnd.randrange(len(BODIES)) for _ in range(nb)]
    if shape != "module":
        body_ids = [b for b in body_ids if b not in USES_K and b not in USES_ROUTINES] or [0]
    elif feats["params"] == 0:
        body_ids = [b for b in body_ids if b not in USES_K] or [0]
    feats["bodies"] = body_ids
    if shape == "sub":
        src = _routine_s1(rnd, feats, body_ids)
    elif shape == "twosub":
        src = _routine_s1(rnd, feats, body_ids) + _routine_s2()
    elif shape == "program":
        src = ["program prog", "  integer :: nn", "  real, dimension(8) :: a", "  integer :: i",
               "  integer :: j", ""]
        for b in body_ids:
            src += ["  " + l for l in BODIES[b]]
        src += ["", "end program prog"]
    else:
        name = f"m{idx}_mod"
        src = ["module " + name]
        if feats["use_only"]:
            src.append("  use a_mod, only : " + ["fa, fb=>fc", "fb=>fc, fa",
                                                    "fz=>fa, fb=>fc, fa=>fq"][feats["only_order"]])
        if feats["use_wild"]:
            src.append("  use b_mod")
        if feats["selcmp"]:
            src.append("  use o_mod, only : kind_flag, thing" if feats["selcmp_use"] == "only"
                       else "  use o_mod")
        src.append("  implicit none")
        decls = []
        if feats["iface"]:
            decls += ["interface gen", "  module procedure :: s1, s2", "end interface gen"]
        par = ["integer, parameter :: k = 4", "integer, parameter :: n2 = 2 * k",
               "integer, parameter :: n3 = n2 + k"][:feats["params"]]
        mv = []
        if feats["modvars"] >= 1:
            mv.append("integer, private :: hid")
        if feats["modvars"] >= 2:
            mv.append("real, public :: shown = 1.0" if feats["params"] < 2 else
                      "real, dimension(n2), public :: shown")
        if feats["modvars"] >= 3:
            mv.append("logical, private :: flag")
        if feats["charparam"]:
            mv.insert(rnd.randint(0, len(mv)), "character(len = 3), parameter, public :: tag = 'ab'")
        if feats["kindvar"]:
            # a constant whose value inquires about a module variable (constants_mod)
            mv += ["real :: r_val", "integer, parameter, public :: r_native = KIND(r_val)"]
            if not feats["charparam"]:
                mv.append("character(len = 3), parameter, public :: tag = 'ab'")
            mv += ["integer :: i_val", "integer, parameter, public :: i_native = KIND(i_val)"]
        if feats["param_late"]:
            decls += mv + par
        else:
            decls += par + mv
        if feats["dtype"]:
            decls += ["type :: pt", "  integer :: x", "  real, dimension(3) :: y", "end type pt"]
            if feats["dtype"] == 2:
                decls.append("type(pt) :: pv")
        src += ["  " + d for d in decls]
        src.append("  " + feats["access"])
        if feats["access"] == "private" and feats["pubstmt"]:
            names = [["s1", "s2", "f1"], ["f1", "s2", "s1"], ["s2", "f1", "s1"]][feats["pubstmt"] - 1]
            if feats["import_pub"] and feats["use_only"]:
                names = ["fb", "fa"] + names
            src.append("  public :: " + ", ".join(names))
        if feats["access"] == "public" and feats["privstmt"]:
            src.append("  private :: s2")
        src += ["", "  contains"]
        src += ["  " + l for l in _routine_s1(rnd, feats, body_ids)]
        src += ["  " + l for l in _routine_s2()]
        src += ["  " + l for l in _routine_f1(feats["fvar"])]
        if feats["selcmp"]:
            src += ["  " + l for l in [
                "subroutine s3(c)", "  integer, intent(inout) :: c", "",
                "  SELECT CASE (thing%flag)", "  CASE (kind_flag)", "    c = 1",
                "  CASE DEFAULT", "    c = 2", "  END SELECT", "", "end subroutine s3"]]
        src += ["", "end module " + name]
    return f"g{idx}", "\n".join(src) + "\n", feats


def nested_scopes(psyir, variant):
    '''API step of the "nested" family: give loop bodies and if branches their
    own symbols (the same name in sibling scopes, names that clash with the
    routine's after a rename) and use them.  Returns the number of symbols added.'''
    from psyclone.psyir.nodes import Loop, IfBlock, Assignment, Reference, Literal, Routine
    from psyclone.psyir.symbols import DataSymbol, REAL_TYPE, INTEGER_TYPE
    n = 0
    for routine in psyir.walk(Routine):
        scheds = [lp.loop_body for lp in routine.walk(Loop)]
        for ib in routine.walk(IfBlock):
            scheds.append(ib.if_body)
            if ib.else_body is not None:
                scheds.append(ib.else_body)
        for k, sched in enumerate(scheds):
            table = sched.symbol_table
            names = ["tmp", "idx_1"] if variant == 0 else ["tmp", "tmp_1", "i_1"]
            for nm in names:
                if nm in table:          # already visible from an outer scope
                    continue
                dt = REAL_TYPE if nm.startswith("tmp") else INTEGER_TYPE
                sym = DataSymbol(nm, dt)
                try:
                    table.add(sym)
                except KeyError:
                    continue
                val = Literal("1.5", REAL_TYPE) if dt is REAL_TYPE else Literal(str(k + 2), INTEGER_TYPE)
                sched.addchild(Assignment.create(Reference(sym), val), 0)
                n += 1
    return n
