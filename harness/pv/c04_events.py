'''C04 helper - written Fortran text -> fparser2 parse tree (the third-party
parser, not PSyclone's frontend) -> the event trace of spec/DeclOrder.tla:
per scoping unit the ordered Use / Declare events of its specification part
(Declare carries the names its declaration mentions: kind parameters, bounds,
character lengths, initial values, derived-type names) and the names its
executable part references.  Fails closed: a construct whose names cannot be
classified makes the unit unsupported.'''
from fparser.common.readfortran import FortranStringReader
from fparser.two import Fortran2003 as F
from fparser.two.parser import ParserFactory
from fparser.two.utils import Base

_PARSER = None


class Unsupported(Exception):
    pass


def parse(text):
    global _PARSER
    if _PARSER is None:
        _PARSER = ParserFactory().create(std="f2008")
    reader = FortranStringReader(text, ignore_comments=True)
    return _PARSER(reader)


def _children(node):
    if isinstance(node, (tuple, list)):
        return node
    if isinstance(node, Base):
        if hasattr(node, "content"):
            return node.content
        return getattr(node, "items", ())
    return ()


_END_STMTS = tuple(getattr(F, n) for n in dir(F) if n.startswith("End_") and
                   isinstance(getattr(F, n), type))
_LITERALS = (F.Real_Literal_Constant, F.Int_Literal_Constant, F.Char_Literal_Constant,
             F.Logical_Literal_Constant, F.Complex_Literal_Constant)
_UNCLASSIFIED = {
    "Namelist_Stmt", "Common_Stmt", "Equivalence_Stmt", "Data_Stmt", "Entry_Stmt",
    "Stmt_Function_Stmt", "Associate_Construct", "Select_Type_Construct",
    "Forall_Construct", "Forall_Stmt", "Block_Construct", "Enum_Def", "Import_Stmt",
    "Procedure_Declaration_Stmt", "Critical_Construct", "Cray_Pointer_Stmt",
    "Implicit_Stmt_List", "Do_Concurrent_Stmt", "Loop_Control_Concurrent"}


def names(node, out, calls=None):
    '''Append the lower-cased referenced names below node to out.  Skips
    keywords of actual arguments / component specs, derived-type component
    names, binding names, construct names and intrinsic procedure names (which
    fparser2 represents as Intrinsic_Name, not Name).'''
    if node is None or isinstance(node, str):
        return
    if isinstance(node, (tuple, list)):
        for c in node:
            names(c, out, calls)
        return
    if type(node).__name__ in _UNCLASSIFIED:
        raise Unsupported(type(node).__name__)
    if isinstance(node, _END_STMTS):
        return
    if isinstance(node, _LITERALS):
        kind = node.items[1] if len(node.items) > 1 else None
        if isinstance(kind, str) and kind and not kind[0].isdigit() and \
                not isinstance(node, F.Char_Literal_Constant):
            out.append(kind.lower())
        elif isinstance(node, F.Char_Literal_Constant) and isinstance(kind, str) \
                and kind and not kind[0].isdigit():
            out.append(kind.lower())
        return
    if isinstance(node, F.Name):
        out.append(str(node).lower())
        return
    if isinstance(node, F.Function_Reference) and isinstance(node.items[0], F.Name) \
            and str(node.items[0]).lower() == "null" and node.items[1] is None:
        return      # "=> null()": fparser2 does not mark it intrinsic in a declaration
    if isinstance(node, (F.Actual_Arg_Spec, F.Component_Spec)):
        names(node.items[1], out, calls)
        return
    if isinstance(node, F.Data_Ref):
        items = node.items
        names(items[0], out, calls)
        for part in items[1:]:
            if isinstance(part, F.Part_Ref):
                names(part.items[1], out, calls)
            elif not isinstance(part, F.Name):
                names(part, out, calls)
        return
    if isinstance(node, F.Procedure_Designator):
        names(node.items[0], out, calls)
        return
    if isinstance(node, F.Call_Stmt):
        tgt = node.items[0]
        if isinstance(tgt, F.Name):
            if calls is not None:
                calls.append(str(tgt).lower())
            else:
                out.append(str(tgt).lower())
        else:
            names(tgt, out, calls)
        names(node.items[1], out, calls)
        return
    if isinstance(node, F.Specific_Binding):
        # procedure [(iface)] [[, attrs] ::] binding [=> procedure]
        names(node.items[0], out, calls)
        tgt = node.items[4] if node.items[4] is not None else node.items[3]
        names(tgt, out, calls)
        return
    if isinstance(node, (F.Generic_Binding,)):
        names(node.items[2], out, calls)
        return
    if isinstance(node, (F.Final_Binding,)):
        names(node.items[1], out, calls)
        return
    if isinstance(node, (F.Format_Stmt, F.Implicit_Part, F.Contains_Stmt)):
        return
    start_name = getattr(node, "get_start_name", None)
    if start_name is not None:
        try:
            if node.get_start_name():
                raise Unsupported("named construct")
        except AttributeError:
            pass
    for c in _children(node):
        names(c, out, calls)


def _uniq(seq):
    return list(dict.fromkeys(seq))


def _spec_events(spec, events, refs):
    '''events of one Specification_Part'''
    for st in _children(spec):
        if isinstance(st, F.Use_Stmt):
            mod = str(st.items[2]).lower()
            only = st.items[3]
            lst = st.items[4]
            local = []
            for it in _children(lst) if lst is not None else ():
                if isinstance(it, F.Rename):
                    local.append(str(it.items[1]).lower())
                elif isinstance(it, F.Name):
                    local.append(str(it).lower())
                else:
                    raise Unsupported("use item " + type(it).__name__)
            events.append({"e": "use", "m": mod, "all": "ONLY" not in str(only).upper(),
                           "names": local})
        elif isinstance(st, F.Type_Declaration_Stmt):
            common = []
            names(st.items[0], common)
            attrs = st.items[1]
            names(attrs, common)
            is_param = attrs is not None and any(
                str(a).upper() == "PARAMETER" for a in _children(attrs))
            for ent in _children(st.items[2]):
                if not isinstance(ent, F.Entity_Decl):
                    raise Unsupported("entity " + type(ent).__name__)
                nm = str(ent.items[0]).lower()
                deps = list(common)
                names(ent.items[1:], deps)
                events.append({"e": "decl", "n": nm, "k": "param" if is_param else "var",
                               "deps": _uniq(d for d in deps)})
        elif isinstance(st, F.Derived_Type_Def):
            tname = None
            deps = []
            comps = set()
            for part in _children(st):
                if isinstance(part, F.Derived_Type_Stmt):
                    tname = str(part.items[1]).lower()
                    names(part.items[0], deps)      # extends(parent)
                elif isinstance(part, F.Component_Part):
                    for cd in _children(part):
                        if isinstance(cd, F.Data_Component_Def_Stmt):
                            names(cd.items[0], deps)
                            names(cd.items[1], deps)
                            for c in _children(cd.items[2]):
                                comps.add(str(c.items[0]).lower())
                                names(c.items[1:], deps)
                        elif isinstance(cd, F.Proc_Component_Def_Stmt):
                            raise Unsupported("procedure component")
                        else:
                            names(cd, deps)
                elif isinstance(part, F.Type_Bound_Procedure_Part):
                    names(part, refs)
                elif isinstance(part, F.End_Type_Stmt) or type(part).__name__ in (
                        "Private_Components_Stmt", "Sequence_Stmt"):
                    pass
                else:
                    raise Unsupported("type part " + type(part).__name__)
            if tname is None:
                raise Unsupported("derived type without a name")
            events.append({"e": "decl", "n": tname, "k": "type",
                           "deps": _uniq(d for d in deps if d != tname)})
        elif isinstance(st, F.Interface_Block):
            head = st.content[0]
            gname = head.items[0] if isinstance(head, F.Interface_Stmt) else None
            if isinstance(gname, F.Name):
                events.append({"e": "decl", "n": str(gname).lower(), "k": "iface",
                               "deps": []})
            elif gname is not None and str(gname).upper() != "ABSTRACT":
                pass        # operator(+), assignment(=): no name declared
            for part in st.content[1:]:
                if isinstance(part, F.Procedure_Stmt):
                    names(part.items[0], refs)
                elif isinstance(part, (F.Subroutine_Body, F.Function_Body)):
                    stmt = part.content[0]
                    events.append({"e": "decl", "n": str(stmt.items[1]).lower(),
                                   "k": "proc", "deps": []})
                elif isinstance(part, F.End_Interface_Stmt):
                    pass
                else:
                    raise Unsupported("interface part " + type(part).__name__)
        elif isinstance(st, F.Access_Stmt):
            names(st.items[1], refs)
        elif isinstance(st, (F.Implicit_Part, F.Save_Stmt, F.Format_Stmt)):
            if isinstance(st, F.Save_Stmt):
                names(st, refs)
        elif isinstance(st, F.Parameter_Stmt):
            raise Unsupported("parameter statement")
        elif isinstance(st, (F.External_Stmt, F.Intrinsic_Stmt)):
            for n in _children(st.items[1]):
                events.append({"e": "decl", "n": str(n).lower(), "k": "proc", "deps": []})
        elif isinstance(st, (F.Dimension_Stmt, F.Intent_Stmt, F.Optional_Stmt,
                             F.Pointer_Stmt, F.Target_Stmt, F.Allocatable_Stmt)):
            names(st, refs)
        else:
            raise Unsupported("specification statement " + type(st).__name__)


def _scope(node, parent, scopes):
    '''append the scope of a program unit / subprogram and those it contains'''
    stmt = node.content[0]
    kind = type(node).__name__
    if isinstance(node, F.Main_Program) and not isinstance(stmt, F.Program_Stmt):
        name = "<main>"
    elif isinstance(stmt, (F.Module_Stmt, F.Program_Stmt)):
        name = str(stmt.items[1]).lower()
    else:
        name = str(stmt.items[1]).lower()
    sc = {"name": name, "kind": {"Module": "module", "Main_Program": "program",
                                 "Subroutine_Subprogram": "subroutine",
                                 "Function_Subprogram": "function"}[kind],
          "parent": parent, "events": [], "refs": [], "calls": [], "dummies": [],
          "result": "", "typed": False}
    scopes.append(sc)
    me = len(scopes)
    if isinstance(stmt, (F.Subroutine_Stmt, F.Function_Stmt)):
        for d in _children(stmt.items[2]) if stmt.items[2] is not None else ():
            if isinstance(d, F.Name):
                sc["dummies"].append(str(d).lower())
        if isinstance(stmt, F.Function_Stmt):
            res = []
            names(stmt.items[3], res)
            sc["result"] = res[0] if res else name
            pre = []
            names(stmt.items[0], pre)       # "real(kind=wp) function f"
            sc["refs"] += pre
            sc["typed"] = stmt.items[0] is not None and any(
                isinstance(x, (F.Intrinsic_Type_Spec, F.Declaration_Type_Spec))
                for x in _children(stmt.items[0]))
    for part in node.content[1:]:
        if isinstance(part, F.Specification_Part):
            _spec_events(part, sc["events"], sc["refs"])
        elif isinstance(part, F.Execution_Part):
            names(part, sc["refs"], sc["calls"])
        elif isinstance(part, (F.Module_Subprogram_Part, F.Internal_Subprogram_Part)):
            for sub in part.content:
                if isinstance(sub, (F.Subroutine_Subprogram, F.Function_Subprogram)):
                    nm = str(sub.content[0].items[1]).lower()
                    sc["events"].append({"e": "decl", "n": nm, "k": "proc", "deps": []})
            for sub in part.content:
                if isinstance(sub, (F.Subroutine_Subprogram, F.Function_Subprogram)):
                    _scope(sub, me, scopes)
                elif not isinstance(sub, F.Contains_Stmt):
                    raise Unsupported("subprogram part " + type(sub).__name__)
        elif isinstance(part, _END_STMTS) or isinstance(part, F.Contains_Stmt):
            pass
        elif isinstance(part, F.Implicit_Part):
            pass
        else:
            raise Unsupported("unit part " + type(part).__name__)
    sc["refs"] = _uniq(sc["refs"])
    sc["calls"] = _uniq(c for c in sc["calls"])


def units(text):
    '''Fortran text -> list of program units, each a list of scopes in
    pre-order (scope 1 is the unit itself; parent = index of the host, 0 for
    the unit).'''
    tree = parse(text)
    res = []
    for node in tree.content:
        if isinstance(node, (F.Module, F.Main_Program, F.Subroutine_Subprogram,
                             F.Function_Subprogram)):
            scopes = []
            _scope(node, 0, scopes)
            res.append(scopes)
        elif isinstance(node, F.Comment):
            continue
        else:
            raise Unsupported("program unit " + type(node).__name__)
    return res
