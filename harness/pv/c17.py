'''C17 - symbolic comparisons agree with Fortran integer arithmetic.

FortranExpr!EvalInt gives an integer expression tree its Fortran value
(truncating division, MOD with the sign of the dividend, MIN, MAX, **, array
elements as members of a small function family).  The harness enumerates
pairs of integer expressions, asks the REAL SymbolicMaths (equal, never_equal,
solve_equal_for, expand) and TLC (ExprTraceInt.tla) evaluates both sides over
ALL valuations of the variables in -RMax..RMax to decide the clauses
EqualSound / NeverEqualSound / SolutionSound / ExpandSound.  "equal = False"
and "never_equal = False" are never violations.
'''
import gc
import itertools
import json
import os
import shutil
from fractions import Fraction

from pv import core
from pv import c02_lib as L
from pv.c02_lib import bn, un, ref, lit, call

NONE = {"k": "none"}
I, J, N = ref("i"), ref("j"), ref("n")
VARS = ("i", "j", "n")


def num(v):
    return lit("int", str(v))


# ------------------------------------------------------------ input families
def size1(leaves, with_array=True):
    '''All expressions with at most one operator over the leaves.'''
    res = list(leaves)
    for o in ("+", "-", "*", "/", "**"):
        res += [bn(o, a, b) for a in leaves for b in leaves]
    res += [un("-", a) for a in leaves]
    for f in ("mod", "min", "max"):
        res += [call(f, a, b) for a in leaves for b in leaves]
    res += [call("abs", a) for a in leaves]
    if with_array:
        res += [call("ia", a) for a in leaves]
    return res


def patterns(e):
    '''(name, lhs(e), rhs(e)): algebraic rewrites, valid or not under Fortran
    integer semantics - TLC decides.'''
    two, three = num(2), num(3)
    return [
        ("e+0", bn("+", e, num(0)), e),
        ("e*1", bn("*", e, num(1)), e),
        ("e/1", bn("/", e, num(1)), e),
        ("e**1", bn("**", e, num(1)), e),
        ("--e", un("-", un("-", e)), e),
        ("(e+1)-1", bn("-", bn("+", e, num(1)), num(1)), e),
        ("(e+j)-j", bn("-", bn("+", e, J), J), e),
        ("(e*2)/2", bn("/", bn("*", e, two), two), e),
        ("(2*e)/2", bn("/", bn("*", two, e), two), e),
        ("(e/2)*2", bn("*", bn("/", e, two), two), e),
        ("2*(e/2)", bn("*", two, bn("/", e, two)), e),
        ("(e/2)*2+mod", bn("+", bn("*", bn("/", e, two), two), call("mod", e, two)), e),
        ("e-mod(e,2)", bn("-", e, call("mod", e, two)), bn("*", bn("/", e, two), two)),
        ("e/2+e/2", bn("+", bn("/", e, two), bn("/", e, two)), e),
        ("(e+e)/2", bn("/", bn("+", e, e), two), e),
        ("(e*e)/e", bn("/", bn("*", e, e), e), e),
        ("e**2/e", bn("/", bn("**", e, two), e), e),
        ("(e*j)/j", bn("/", bn("*", e, J), J), e),
        ("(e/j)*j", bn("*", bn("/", e, J), J), e),
        ("e**2", bn("**", e, two), bn("*", e, e)),
        ("e**(-1)*e", bn("*", bn("**", e, un("-", num(1))), e), num(1)),
        ("(e**2)**3", bn("**", bn("**", e, two), three), bn("**", e, num(6))),
        ("(e**j)**2", bn("**", bn("**", e, J), two), bn("**", e, bn("*", J, two))),
        ("min(e,e)", call("min", e, e), e),
        ("max(e,e)", call("max", e, e), e),
        ("min(e,e+1)", call("min", e, bn("+", e, num(1))), e),
        ("max(e,e+1)-1", bn("-", call("max", e, bn("+", e, num(1))), num(1)), e),
        ("min+max", bn("+", call("min", e, J), call("max", e, J)), bn("+", e, J)),
        ("abs*abs", bn("*", call("abs", e), call("abs", e)), bn("*", e, e)),
        ("mod(e+2,2)", call("mod", bn("+", e, two), two), call("mod", e, two)),
        ("mod(2*e,2)", call("mod", bn("*", two, e), two), num(0)),
        ("mod(e,1)", call("mod", e, num(1)), num(0)),
        ("mod(-e,3)", call("mod", un("-", e), three), un("-", call("mod", e, three))),
        ("mod(e,3)", call("mod", e, three), bn("-", e, bn("*", three, bn("/", e, three)))),
        ("mod(e,3)+3k", call("mod", bn("+", e, three), three), call("mod", e, three)),
        ("(e+3)/3", bn("/", bn("+", e, three), three), bn("+", bn("/", e, three), num(1))),
        ("-(e/2)", un("-", bn("/", e, two)), bn("/", un("-", e), two)),
        ("(e*4)/2", bn("/", bn("*", e, num(4)), two), bn("*", e, two)),
        ("e/2/2", bn("/", bn("/", e, two), two), bn("/", e, num(4))),
        ("2*e-e", bn("-", bn("*", two, e), e), e),
        ("e+e", bn("+", e, e), bn("*", two, e)),
        ("e-e", bn("-", e, e), num(0)),
        ("e*0", bn("*", e, num(0)), num(0)),
        ("0/e", bn("/", num(0), e), num(0)),
        ("e/e", bn("/", e, e), num(1)),
        ("ia(e+0)", call("ia", bn("+", e, num(0))), call("ia", e)),
        ("ia(e/2*2)", call("ia", bn("*", bn("/", e, two), two)), call("ia", e)),
        ("(e+1)*(e-1)", bn("*", bn("+", e, num(1)), bn("-", e, num(1))),
         bn("-", bn("*", e, e), num(1))),
        ("(e+j)/2", bn("/", bn("+", e, J), two), bn("+", bn("/", e, two), bn("/", J, two))),
        # pairs whose symbolic difference is a non-integer constant (only '/' produces
        # these; under truncating division the two sides coincide for some values)
        ("e/2~(e+1)/2", bn("/", e, two), bn("/", bn("+", e, num(1)), two)),
        ("(2e+1)/2~e", bn("/", bn("+", bn("*", two, e), num(1)), two), e),
        ("e+1/2~e", bn("+", e, bn("/", num(1), two)), e),
        ("e/3~(e+2)/3", bn("/", e, three), bn("/", bn("+", e, two), three)),
        ("(e+1)/2~e/2+1", bn("/", bn("+", e, num(1)), two), bn("+", bn("/", e, two), num(1))),
        ("(e+j)**2", bn("**", bn("+", e, J), two),
         bn("+", bn("+", bn("*", e, e), bn("*", bn("*", two, e), J)), bn("*", J, J))),
    ]


def bases(tier):
    two, three = num(2), num(3)
    res = [I, N, un("-", I), call("ia", I), call("abs", I)]
    for o in ("+", "-", "*", "/", "**"):
        res += [bn(o, I, J), bn(o, I, two), bn(o, N, two), bn(o, two, I), bn(o, I, N)]
    for f in ("mod", "min", "max"):
        res += [call(f, I, two), call(f, I, J), call(f, N, three)]
    if tier != "quick":
        res += [bn("+", bn("*", two, I), num(1)), bn("-", N, bn("*", I, J)),
                call("ia", bn("+", I, num(1))), bn("/", bn("+", I, num(1)), two),
                call("mod", bn("+", I, J), three), bn("*", I, I)]
    return res


def neg(v):
    '''Integer constant v as a tree (negative: unary minus of a literal).'''
    return num(v) if v >= 0 else un("-", num(-v))


def constdiv_queries(tier):
    '''Constant sub-expressions with integer division / MOD of literal-only
    operands - both signs, exact and inexact quotients - alone and inside
    i + c, c + i, i - c, 2 * c, ia(i + c), MAX(i, c), MIN(i, c), compared with the
    same context over the truncated value (Fortran), the floored value and
    their neighbours.  Fortran: (3-10)/2 = -3, the floor is -4.'''
    def sub(a, b):
        return bn("-", num(a), num(b))
    consts = [   # (name, tree, truncated value, floored value)
        ("(3-10)/2", bn("/", sub(3, 10), num(2)), -3, -4),
        ("7/(0-2)", bn("/", num(7), sub(0, 2)), -3, -4),
        ("(0-7)/(0-2)", bn("/", sub(0, 7), sub(0, 2)), 3, 3),
        ("7/2", bn("/", num(7), num(2)), 3, 3),
        ("(2-7)/2", bn("/", sub(2, 7), num(2)), -2, -3),
        ("(1-4)/2", bn("/", sub(1, 4), num(2)), -1, -2),
        ("(3-11)/2", bn("/", sub(3, 11), num(2)), -4, -4),
        ("(10-3)/2", bn("/", sub(10, 3), num(2)), 3, 3),
        ("(-7)/2", bn("/", un("-", num(7)), num(2)), -3, -4),
        ("-(7/2)", un("-", bn("/", num(7), num(2))), -3, -4),
        ("(0-1)/3", bn("/", sub(0, 1), num(3)), 0, -1),
        ("mod(3-10,2)", call("mod", sub(3, 10), num(2)), -1, 1),
        ("mod(7,0-2)", call("mod", num(7), sub(0, 2)), 1, -1),
        ("mod(0-7,0-2)", call("mod", sub(0, 7), sub(0, 2)), -1, -1),
        ("mod(0-7,3)", call("mod", sub(0, 7), num(3)), -1, 2),
        ("mod(7,3)", call("mod", num(7), num(3)), 1, 1),
    ]
    if tier != "quick":
        consts += [
            ("(4-9)/(0-2)", bn("/", sub(4, 9), sub(0, 2)), 2, 2),
            ("(0-9)/4", bn("/", sub(0, 9), num(4)), -2, -3),
            ("9/(0-4)*2", bn("*", bn("/", num(9), sub(0, 4)), num(2)), -4, -6),
            ("mod(0-9,4)", call("mod", sub(0, 9), num(4)), -1, 3),
        ]
    contexts = [
        ("c", lambda c: c),
        ("c+i", lambda c: bn("+", c, I)),
        ("i+c", lambda c: bn("+", I, c)),
        ("i-c", lambda c: bn("-", I, c)),
        ("2*c", lambda c: bn("*", num(2), c)),
        ("ia(i+c)", lambda c: call("ia", bn("+", I, c))),
        ("max(i,c)", lambda c: call("max", I, c)),
        ("min(i,c)", lambda c: call("min", I, c)),
    ]
    qs = []
    for cname, c, trunc, floor in consts:
        others = sorted({trunc - 1, trunc, trunc + 1, floor, floor - 1})
        for xname, ctx in contexts:
            lhs = ctx(c)
            for k in others:
                qs.append(("cmp", f"constdiv {xname} {cname} vs {k}", lhs, ctx(neg(k)), ""))
            qs.append(("expand", f"constdiv {xname} {cname}", lhs, NONE, ""))
            if xname in ("c+i", "i+c", "i-c"):
                for t in (num(0), J):
                    qs.append(("solve", f"constdiv {xname} {cname}", lhs, t, "i"))
    return qs


def queries(tier):
    '''Deterministic list of (q, name, e1, e2, sym).'''
    qs = []
    leaves = [I, N, num(2)] if tier == "quick" else [I, J, N, num(2), num(3)]
    exprs = size1(leaves)
    for a, b in itertools.combinations_with_replacement(range(len(exprs)), 2):
        qs.append(("cmp", "pair", exprs[a], exprs[b], ""))
    for e in bases(tier):
        for name, lhs, rhs in patterns(e):
            qs.append(("cmp", name, lhs, rhs, ""))
            qs.append(("cmp", name + "|+1", lhs, bn("+", rhs, num(1)), ""))
            qs.append(("expand", name, lhs, NONE, ""))
            qs.append(("expand", name + "|rhs", rhs, NONE, ""))
    targets = [num(0), num(1), num(3), J, bn("+", N, num(1)), bn("*", num(2), J)]
    solve_bases = bases(tier) + [p[1] for p in patterns(I)]
    for e in solve_bases:
        names = {n["n"] for n, _, _ in L.walk(e) if n["k"] == "ref"}
        for t in targets:
            for sym in ("i", "n"):
                if sym in names:
                    qs.append(("solve", "solve", e, t, sym))
    qs += constdiv_queries(tier)
    only = os.environ.get("PV_C17_ONLY")                   # development aid
    if only:
        qs = [q for q in qs if q[1].startswith(only)]
    stride = int(os.environ.get("PV_C17_STRIDE", "1"))     # development aid
    return qs[::stride] if stride > 1 else qs


# ------------------------------------------------- driving the implementation
class Refused(Exception):
    pass


def sym2tree(ex):
    '''A sympy solution -> tree.  Rationals become exact quotients ("exdiv":
    defined only where the division leaves no remainder).  Returns None for
    values that are never integers in the model (irrational, complex).'''
    import sympy
    if isinstance(ex, sympy.Integer):
        v = int(ex)
        if abs(v) > 40:
            raise L.Unsupported("literal " + str(v))
        return num(v) if v >= 0 else un("-", num(-v))
    if isinstance(ex, sympy.Rational):
        p, q = int(ex.p), int(ex.q)
        if abs(p) > 40 or q > 40:
            raise L.Unsupported("rational " + str(ex))
        t = bn("exdiv", num(abs(p)), num(q))
        return t if p >= 0 else un("-", t)
    if isinstance(ex, sympy.Symbol):
        if ex.name not in VARS:
            raise L.Unsupported("symbol " + ex.name)
        return ref(ex.name)
    if isinstance(ex, sympy.Add):
        parts = [sym2tree(a) for a in ex.args]
        if any(p is None for p in parts):
            return None
        t = parts[0]
        for p in parts[1:]:
            t = bn("+", t, p)
        return t
    if isinstance(ex, sympy.Mul):
        numer, denom = [], []
        for a in ex.args:
            if isinstance(a, sympy.Rational) and not isinstance(a, sympy.Integer):
                numer.append(sympy.Integer(a.p))
                denom.append(sympy.Integer(a.q))
            elif isinstance(a, sympy.Pow) and isinstance(a.exp, sympy.Integer) \
                    and a.exp < 0:
                denom.append(sympy.Pow(a.base, -a.exp))
            else:
                numer.append(a)
        parts = [sym2tree(a) for a in numer]
        dparts = [sym2tree(a) for a in denom]
        if any(p is None for p in parts + dparts):
            return None
        t = parts[0] if parts else num(1)
        for p in parts[1:]:
            t = bn("*", t, p)
        for d in dparts:
            t = bn("exdiv", t, d)
        return t
    if isinstance(ex, sympy.Pow):
        if isinstance(ex.exp, sympy.Integer):
            b = sym2tree(ex.base)
            if b is None:
                return None
            if ex.exp >= 0:
                return bn("**", b, num(int(ex.exp)))
            return bn("exdiv", num(1), bn("**", b, num(-int(ex.exp))))
        if ex.exp.is_number and not ex.exp.is_integer and ex.base.is_number:
            return None                      # root of a number: not an integer
        raise L.Unsupported("power " + str(ex))
    if ex.is_number:
        if ex.is_real is False or ex.is_rational is False:
            return None                      # irrational / complex constant
        raise L.Unsupported("number " + str(ex))
    raise L.Unsupported(type(ex).__name__ + " " + str(ex))


_RT = {}


def _routine():
    if not _RT:
        from psyclone.psyir.nodes import Routine
        ctx = L.ctx()
        _RT["r"] = Routine.create("pv_r", ctx["tab"], [])
    return _RT["r"]


def _place(tree):
    '''Fresh PSyIR for the tree as the rhs of `k = <expr>` inside a routine
    (SymbolicMaths needs a parent and, for expand, a scope).'''
    from psyclone.psyir.nodes import Assignment, Reference
    ctx = L.ctx()
    assign = Assignment.create(Reference(ctx["syms"]["k"]), L.build(tree))
    _routine().addchild(assign)
    return assign


def _one(query):
    from psyclone.core import SymbolicMaths
    from psyclone.psyir.backend.sympy_writer import SymPyWriter
    from psyclone.psyir.backend.visitor import VisitorError
    q, name, e1, e2, sym = query
    sm = SymbolicMaths.get()
    rec = {"q": q, "name": name, "e1": e1, "e2": e2 if q != "expand" else num(0),
           "eq": 0, "ne": 0, "sym": sym or "i", "sols": [], "x": num(0),
           "refused": "", "answer": None}
    a1 = _place(e1)
    a2 = _place(e2) if q != "expand" else None
    try:
        if q == "cmp":
            try:
                rec["eq"] = int(bool(sm.equal(a1.rhs, a2.rhs)))
                rec["ne"] = int(bool(sm.never_equal(a1.rhs, a2.rhs)))
            except (VisitorError, TypeError, ValueError, NotImplementedError) as err:
                rec["refused"] = type(err).__name__
            rec["answer"] = [rec["eq"], rec["ne"]]
        elif q == "solve":
            try:
                writer = SymPyWriter()
                s1, s2 = writer([a1.rhs, a2.rhs])
                sol = sm.solve_equal_for(s1, s2, writer.type_map[sym])
            except (VisitorError, TypeError, ValueError, NotImplementedError,
                    KeyError) as err:
                rec["refused"] = type(err).__name__
                sol = "independent"
            if sol == "independent":
                rec["answer"] = "independent"
            else:
                rec["answer"] = sorted(str(s) for s in sol)
                for s in sorted(sol, key=str):
                    try:
                        t = sym2tree(s)
                    except L.Unsupported as err:
                        rec["unsupported"] = str(err)
                        break
                    if t is not None:
                        rec["sols"].append(t)
        else:
            try:
                sm.expand(a1.rhs)
                rec["x"] = L.abstract(a1.rhs)
                rec["answer"] = L.show(rec["x"])
            except L.Unsupported as err:
                rec["unsupported"] = str(err)
            except (VisitorError, TypeError, ValueError, NotImplementedError,
                    KeyError) as err:
                rec["refused"] = type(err).__name__
                rec["x"] = e1
    finally:
        a1.detach()
        if a2 is not None:
            a2.detach()
    trees = [rec["e1"], rec["e2"], rec["x"]] + rec["sols"]
    names, arr = set(), 0
    for t in trees:
        for n, _, _ in L.walk(t):
            if n["k"] == "ref":
                names.add(n["n"])
            elif n["k"] == "des" and n["parts"][0]["n"] == "ia":
                arr = 1
            elif n["k"] == "lit" and (n["ty"] != "int" or not n["v"].isdigit()
                                      or int(n["v"]) > 40):
                rec.setdefault("unsupported", "literal " + n["v"])
    if not names <= set(VARS):
        rec.setdefault("unsupported", "names " + str(sorted(names)))
    rec["vars"] = sorted(names)
    rec["arr"] = arr
    return rec


_QS = {}


def _work(job):
    tier, lo, hi = job
    if tier not in _QS:
        _QS[tier] = queries(tier)
    out = []
    for i in range(lo, hi):
        rec = _one(_QS[tier][i])
        rec["id"] = i + 1
        out.append(rec)
    return out


def drive(tier, n, procs):
    from psyclone.core import SymbolicMaths
    SymbolicMaths.get()
    _one(("cmp", "warm", bn("+", I, num(1)), I, ""))
    jobs = [(tier, lo, min(lo + 100, n)) for lo in range(0, n, 100)]
    res = core.pool_map(_work, jobs, procs=procs, chunksize=1)
    return [rec for part_ in res for rec in part_]


# ----------------------------------------------------------- known findings
def _rat(t, val, mod_floor=False, right_pow=False, fn=1):
    '''Value of a tree in exact rational arithmetic (what sympy computes):
    / is the rational quotient.  Returns None where undefined.'''
    k = t["k"]
    if k == "lit":
        return Fraction(int(t["v"]))
    if k == "ref":
        return Fraction(val[t["n"]])
    if k == "un":
        x = _rat(t["x"], val, mod_floor, right_pow, fn)
        return None if x is None else (-x if t["op"] == "-" else x)
    if k == "bin":
        l, r = t["l"], t["r"]
        op = t["op"]
        if right_pow and op == "**" and l["k"] == "bin" and l["op"] == "**":
            # (a**b)**c read as a**(b**c)
            return _rat(bn("**", l["l"], bn("**", l["r"], r)), val, mod_floor,
                        right_pow, fn)
        a = _rat(l, val, mod_floor, right_pow, fn)
        b = _rat(r, val, mod_floor, right_pow, fn)
        if a is None or b is None:
            return None
        if op == "+":
            return a + b
        if op == "-":
            return a - b
        if op == "*":
            return a * b
        if op in ("/", "exdiv"):
            return None if b == 0 else a / b
        if op == "**":
            if b.denominator != 1 or abs(b) > 64 or (a == 0 and b <= 0):
                return None
            res = a ** int(b)
            return res if abs(res) < 10 ** 12 else None
        return None
    if k == "des":
        nm = t["parts"][0]["n"]
        args = [_rat(a, val, mod_floor, right_pow, fn) for a in t["parts"][0]["args"]]
        if any(a is None for a in args):
            return None
        if nm == "min":
            return min(args)
        if nm == "max":
            return max(args)
        if nm == "abs":
            return abs(args[0])
        if nm == "mod":
            if args[1] == 0:
                return None
            if mod_floor:      # sign of the divisor (sympy / Python)
                return args[0] - args[1] * (args[0] / args[1]).__floor__()
            q = args[0] / args[1]
            q = Fraction(int(q))                       # truncation
            return args[0] - args[1] * q
        if nm == "ia":
            x = args[0]                # the array family of FortranExpr!ArrFn
            if x.denominator != 1:     # a rational index: some function of it
                return {1: x, 2: 3 - x, 3: x * x, 4: Fraction(7)}[fn]
            return {1: x, 2: 3 - x, 3: Fraction(int(x * x) % 5), 4: Fraction(7)}[fn]
    return None


def _has(case, pred):
    for key in ("e1", "e2", "x"):
        t = case.get(key + "_tree")
        if t and any(pred(n) for n, _, _ in L.walk(t)):
            return True
    return any(pred(n) for s in case.get("sols_trees", []) for n, _, _ in L.walk(s))


def _holds_under(case, clause, detail, **sem):
    '''Does the reported answer hold for every small valuation when trees are
    evaluated in the alternative semantics `sem`?  (array function as in
    TLC's witness)'''
    sem["fn"] = detail.get("fn", 1)
    int_diff = sem.pop("int_diff", False)
    names = case["vars"]
    e1, e2, x = case["e1_tree"], case["e2_tree"], case["x_tree"]
    seen = 0
    for vals in itertools.product(range(-4, 5), repeat=len(names)):
        val = dict(zip(names, vals))
        if clause == "SolutionSound":
            ok = True
            for s in case["sols_trees"]:
                sv = _rat(s, val, **sem)
                if sv is None:
                    continue
                seen += 1
                v2 = dict(val)
                v2[case["sym"]] = sv
                a, b = _rat(e1, v2, **sem), _rat(e2, v2, **sem)
                if a is not None and b is not None and a != b:
                    ok = False
            if not ok:
                return False
            continue
        a = _rat(e1, val, **sem)
        b = _rat(x if clause == "ExpandSound" else e2, val, **sem)
        if a is None or b is None:
            continue
        seen += 1
        if clause == "NeverEqualSound":
            if a == b:
                return False
            # never_equal answers True only for a non-zero INTEGER difference
            if int_diff and (a - b).denominator != 1:
                return False
        elif a != b:
            return False
    return seen > 0          # an explanation must not be vacuous


def m_rational_division(case, clause, detail, finding):
    '''An integer division (or a negative power) occurs and the answer is
    right when / is the exact rational quotient (sympy's reading); for
    never_equal the rational difference must moreover be an integer - the only
    case in which the implementation answers True.  A quotient rounded any
    other way (e.g. floored) is not explained by this finding.'''
    def divides(n):
        return n["k"] == "bin" and (n["op"] == "/" or (
            n["op"] == "**" and n["r"]["k"] == "un" and n["r"]["op"] == "-"))
    return _has(case, divides) and _holds_under(case, clause, detail, int_diff=True)


def m_mod_sign(case, clause, detail, finding):
    '''MOD occurs and the answer is right when MOD takes the sign of the
    divisor (sympy's Mod) instead of the dividend (Fortran).'''
    def is_mod(n):
        return n["k"] == "des" and n["parts"][0]["n"] == "mod"
    return _has(case, is_mod) and not _holds_under(case, clause, detail) \
        and _holds_under(case, clause, detail, mod_floor=True)


def m_pow_left_nested(case, clause, detail, finding):
    '''(a**b)**c occurs and the answer is right when it is read as a**(b**c)
    (the Fortran text handed to sympy lacks the parentheses: C02).'''
    def nested(n):
        return n["k"] == "bin" and n["op"] == "**" and n["l"]["k"] == "bin" \
            and n["l"]["op"] == "**"
    return _has(case, nested) and not _holds_under(case, clause, detail) \
        and _holds_under(case, clause, detail, right_pow=True)


MATCHERS = {"c17-rational-division": m_rational_division,
            "c17-mod-sign": m_mod_sign,
            "c17-pow-left-nested": m_pow_left_nested}


# -------------------------------------------------------------------- TLC
def validate(out, cov, recs, tier, tmp, workers):
    cfg = "ExprTraceInt_quick.cfg" if tier == "quick" else "ExprTraceInt_thorough.cfg"
    rmax = 4 if tier == "quick" else 6
    batch = 20000
    for lo in range(0, len(recs), batch):
        chunk = recs[lo:lo + batch]
        path = os.path.join(tmp, f"c17-{lo}.json")
        with open(path, "w") as f:
            json.dump([{k: r[k] for k in ("id", "q", "e1", "e2", "vars", "arr", "eq",
                                          "ne", "sym", "sols", "x")} for r in chunk],
                      f, separators=(",", ":"))
        res = core.run_tlc("ExprTraceInt.tla", cfg, env={"PV_CASES": path},
                           workers=workers, timeout=3000)
        os.unlink(path)
        cov["states"] += res.distinct
        cov["transitions"] += res.generated
        if res.distinct != 2 * len(chunk):
            raise core.MachineryError(
                f"C17 trace validation did not consume every case: {res.distinct} "
                f"states, expected {2 * len(chunk)}")
        cov["traces_validated_against_impl"] += len(chunk)
        cov["valuations_evaluated"] += sum(
            (2 * rmax + 1) ** len(r["vars"]) * (4 if r["arr"] else 1) for r in chunk)
        by_id = {r["id"]: r for r in chunk}
        for b in sorted(res.printed("VERDICT"), key=lambda v: v["id"]):
            r = by_id[b["id"]]
            if b["v"][0] == "Unsupported":
                raise core.MachineryError(
                    "C17: a case outside the integer model reached TLC: "
                    + L.show(r["e1"]) + " / " + L.show(r["e2"]))
            case = {"query": r["q"], "pattern": r["name"], "e1": L.show(r["e1"]),
                    "e2": L.show(r["e2"]) if r["q"] != "expand" else None,
                    "answer": r["answer"], "sym": r["sym"], "vars": r["vars"],
                    "expanded": L.show(r["x"]) if r["q"] == "expand" else None,
                    "e1_tree": r["e1"], "e2_tree": r["e2"], "x_tree": r["x"],
                    "sols_trees": r["sols"]}
            for clause in b["v"]:
                out.violation(case, clause, b["w"])


def design_level():
    '''Model-check the integer semantics itself (division, MOD, **, MIN/MAX
    laws for all operand pairs in -20..20).'''
    res = core.run_tlc("FortranExprIntMC.tla", "FortranExprIntMC.cfg", check=False,
                       workers=2, timeout=600)
    if res.invariant_violated or res.error or res.distinct != 41 * 41:
        raise core.MachineryError(
            "FortranExpr.tla integer semantics fails its own design-level check: "
            + str(res.invariant_violated or res.error or res.distinct))
    return res.distinct, res.generated


def run(tier):
    from concurrent.futures import ThreadPoolExecutor
    core.setup_psyclone_env()
    out = core.Outcome("C17", tier, "model_checking", matchers=MATCHERS)
    cov = {"states": 0, "transitions": 0, "traces_validated_against_impl": 0,
           "samples": [], "exhaustive": True, "divergences": 0, "unsupported": 0,
           "valuations_evaluated": 0}
    dev = int(os.environ.get("PV_WORKERS", "0"))
    ncpu = dev or core.NCPU
    tmp = core.mktemp("pv-c17-")
    gc.disable()
    try:
        qs = queries(tier)
        recs = drive(tier, len(qs), ncpu)
        sup = [r for r in recs if "unsupported" not in r]
        cov["unsupported"] = len(recs) - len(sup)
        cov["unsupported_samples"] = [
            {"e1": L.show(r["e1"]), "why": r["unsupported"], "answer": r["answer"]}
            for r in recs if "unsupported" in r][:5]
        if cov["unsupported"] * 5 > len(recs):
            raise core.MachineryError("C17: more than 20% of the cases are outside "
                                      "the integer model")
        with ThreadPoolExecutor(1) as pool:     # threads only after the process pool
            fut = pool.submit(design_level)
            validate(out, cov, sup, tier, tmp, ncpu)
            dist, gen = fut.result()
        cov["states"] += dist
        cov["transitions"] += gen
        cov["model_states"] = dist
    finally:
        gc.enable()
        shutil.rmtree(tmp, ignore_errors=True)
    kinds = {}
    for r in sup:
        kinds[r["q"]] = kinds.get(r["q"], 0) + 1
    cov["queries"] = kinds
    cov["refused_by_implementation"] = sum(1 for r in recs if r["refused"])
    cov["answers"] = {
        "equal_true": sum(1 for r in sup if r["q"] == "cmp" and r["eq"]),
        "never_equal_true": sum(1 for r in sup if r["q"] == "cmp" and r["ne"]),
        "solutions_checked": sum(len(r["sols"]) for r in sup if r["q"] == "solve"),
        "solve_independent": sum(1 for r in sup if r["q"] == "solve"
                                 and r["answer"] == "independent"),
        "expand_changed": sum(1 for r in sup if r["q"] == "expand" and r["x"] != r["e1"])}
    if os.environ.get("PV_C17_STRIDE", "1") != "1" or os.environ.get("PV_C17_ONLY"):
        cov["exhaustive"] = False
        cov["restricted_to"] = "stride %s only %s" % (os.environ.get("PV_C17_STRIDE", "1"), os.environ.get("PV_C17_ONLY", "-"))
    cov["evaluations"] = len(sup)
    cov["distinct_nontrivial"] = sum(
        1 for r in sup if (r["q"] == "cmp" and (r["eq"] or r["ne"]))
        or (r["q"] == "solve" and r["sols"]) or (r["q"] == "expand" and r["x"] != r["e1"]))
    cov["rule"] = ("one case per query; non-trivial = the implementation gave a "
                   "checkable answer (equal True, never_equal True, at least one "
                   "integer-capable solution, expand changed the expression)")
    for r in sup[::max(1, len(sup) // 5)][:5]:
        cov["samples"].append({"q": r["q"], "e1": L.show(r["e1"]),
                               "e2": L.show(r["e2"]), "answer": r["answer"]})
    for fid, rec in sorted(out.known_examples.items()):      # one witness per finding
        cov["samples"].append({"known_finding": fid, "clause": rec["clause"],
                               "q": rec["case"]["query"], "e1": rec["case"]["e1"],
                               "e2": rec["case"]["e2"], "answer": rec["case"]["answer"],
                               "expanded": rec["case"]["expanded"],
                               "witness": rec["detail"]})
    return out.finish(cov, assumptions=[
        "valuations: every variable in -4..4 (quick) / -6..6 (thorough); "
        "intermediate results beyond 30000 make the valuation undefined (excluded)",
        "a valuation for which either side is undefined (division by zero, 0**0, "
        "0**negative) is excluded",
        "array elements: the array is one of four functions of its index value "
        "(identity, 3-x, x*x mod 5, constant)",
        "a reported solution is substituted only where its value is an integer"])
