'''verif selftest: anchors spec/FortranSem.tla to real Fortran.

A sample of the routines the semantic checks use (C05 C06 C07 C08 C12 families) is
compiled with gfortran together with a generated driver that initialises the
arguments exactly like FortranSem!InitStore, calls the routine and prints the
arguments; TLC computes the final values of the same routine on the same inputs
under FortranSem.tla (SemDump.tla).  Any difference means the semantics - the
oracle of a dozen checks - is wrong: exit 2 (machinery), never a property verdict.
'''
import json
import os
import shutil
import subprocess
from fractions import Fraction

from pv import core, sem
from pv.export import Unsupported

FTYPE = {"i": "integer", "r": "real(kind=8)", "l": "logical"}


def _driver(routine_name, args, decls, val_of, fm, use_mod):
    '''Fortran main program text.'''
    pos = {d["name"]: k + 1 for k, d in enumerate(decls)}
    byname = {d["name"]: d for d in decls}
    lines = ["program main"]
    if use_mod:
        lines.append(f"  use {use_mod}")
    lines.append("  implicit none")
    for a in args:
        d = byname[a]
        dims = ""
        if d["dims"]:
            dims = ", dimension(" + ",".join(f"{lo}:{hi}" for lo, hi in d["dims"]) + ")"
        lines.append(f"  {FTYPE[d['ty']]}{dims} :: {a}")
    lines.append("  integer :: lin_")
    for a in args:
        d = byname[a]
        if not d["dims"]:
            v = val_of.get(a)
            if v is None:
                continue
            if d["ty"] == "i":
                lines.append(f"  {a} = {v}")
            elif d["ty"] == "l":
                lines.append(f"  {a} = {'.true.' if v else '.false.'}")
            else:
                lines.append(f"  {a} = {v[0]}.0d0 / {v[1]}.0d0")
            continue
        n = 1
        for lo, hi in d["dims"]:
            n *= max(hi - lo + 1, 0)
        p = pos[a]
        if "data" in d:
            row = d["data"][(fm - 1) % len(d["data"])]
            vals = [str(row[(k) % len(row)]) for k in range(n)]
            expr = "(/" + ",".join(vals) + "/)"
        elif d["ty"] == "l":
            expr = f"(/ (mod(lin_ + {fm}, 2) == 0, lin_ = 1, {n}) /)"
        else:
            if fm == 1:
                iv = f"{3 * p} + lin_"
            elif fm == 2:
                iv = f"mod(lin_ + {p}, 3) - 1"
            elif fm == 3:
                iv = f"merge(-1, 1, mod(lin_, 2) == 0) * (lin_ + {p})"
            else:
                iv = "lin_"
            if d["ty"] == "r" and fm == 4:
                iv = f"(2 * lin_ + {2 * p + 1}) / 2.0d0"
            elif d["ty"] == "r":
                iv = f"real({iv}, kind=8)"
            expr = f"(/ ({iv}, lin_ = 1, {n}) /)"
        shape = "(/" + ",".join(str(max(hi - lo + 1, 0)) for lo, hi in d["dims"]) + "/)"
        lines.append(f"  {a} = reshape({expr}, {shape})")
    lines.append(f"  call {routine_name}({', '.join(args)})")
    for a in args:
        d = byname[a]
        if d["ty"] == "l":
            lines.append(f"  write(*, '(A)') '#{a}'")
            lines.append(f"  write(*, '(*(L2))') {a}")
        elif d["ty"] == "i":
            lines.append(f"  write(*, '(A)') '#{a}'")
            lines.append(f"  write(*, '(*(I12))') {a}")
        else:
            lines.append(f"  write(*, '(A)') '#{a}'")
            lines.append(f"  write(*, '(*(ES24.15))') {a}")
    lines.append("end program main")
    return "\n".join(lines) + "\n"


def _parse_out(text):
    res, cur = {}, None
    for line in text.splitlines():
        if line.startswith("#"):
            cur = line[1:].strip()
            res[cur] = []
        elif cur is not None:
            res[cur] += line.split()
    return res


def _samples():
    from pv import c05, c06, c07, c08, c12
    out = []
    for mod, step, use_mod, dom in ((c05, 37, None, c05.DOM), (c06, 11, None, c06.DOM),
                                    (c07, 3, "mm", c07.DOM), (c08, 23, None, c08.DOM),
                                    (c12, 2, None, c12.DOM)):
        its = mod.items("quick")
        for pid, src in its[::step]:
            out.append((mod.__name__.split(".")[-1] + ":" + pid, src, use_mod, dom))
    return out


def _one(item):
    tag, src, use_mod, dom = item
    try:
        psy = sem.parse(src)
        r = sem.routine_named(psy, "s")
        prog = sem.Exporter().routine(r)
    except Unsupported as err:
        return [{"id": tag, "status": "unsupported", "why": str(err)}]
    args = [a.name.lower() for a in r.symbol_table.argument_list]
    for d in prog["decls"]:
        if d["name"] in ("idx", "ia"):
            d["data"] = [[2, 1, 4, 3], [1, 1, 2, 2]]
    live = [a for a in args]
    names = {d["name"] for d in prog["decls"]}
    # three input valuations: every scalar at the first / middle / last value of its
    # domain, with fills 1, 2 and 4 respectively
    doms = [[n, v] for n, v in dom if n in names]
    out = []
    for k, (pick, fill) in enumerate(((0, 1), (None, 2), (-1, 4))):
        d1 = [[n, [v[len(v) // 2 if pick is None else pick]]] for n, v in doms]
        case = {"id": f"{tag}~{k}", "decls": prog["decls"], "dom": d1,
                "fills": [fill], "live": live, "cmpout": False,
                "subs": prog["subs"] or {"#none": {"formals": [], "locals": [], "body": []}},
                "progs": [{"body": prog["body"]}]}
        out.append({"id": f"{tag}~{k}", "status": "ok", "case": case, "src": src, "args": args,
                    "use_mod": use_mod})
    return out


def _tlc_value(v):
    t = v.get("t")
    if t == "i":
        return v["v"]
    if t == "r":
        return Fraction(v["n"], v["d"])
    if t == "l":
        return bool(v["b"])
    return None       # undefined


def _compare(job):
    wd, r, fin = job
    case = r["case"]
    bad = []
    val_of = {d[0]: v for d, v in zip(case["dom"], fin["val"])}
    os.makedirs(wd)
    try:
        with open(os.path.join(wd, "r.f90"), "w") as f:
            f.write(r["src"])
        with open(os.path.join(wd, "m.f90"), "w") as f:
            f.write(_driver("s", r["args"], case["decls"], val_of, fin["fm"], r["use_mod"]))
        p = subprocess.run(["gfortran", "-O0", "-fdefault-real-8", "-fcheck=bounds", "-o", "a.out",
                            "r.f90", "m.f90"], cwd=wd, stdout=subprocess.PIPE,
                           stderr=subprocess.STDOUT, text=True)
        if p.returncode != 0:
            return [{"id": fin["id"], "why": "gfortran: " + p.stdout[-400:]}]
        q = subprocess.run(["./a.out"], cwd=wd, stdout=subprocess.PIPE, stderr=subprocess.STDOUT,
                           text=True, timeout=120)
        if q.returncode != 0:
            return [{"id": fin["id"], "why": "run: " + q.stdout[-300:]}]
        got = _parse_out(q.stdout)
        for nm in case["live"]:
            exp = [_tlc_value(v) for v in fin["st"][nm]]
            have = got.get(nm, [])
            if len(exp) != len(have):
                return [{"id": fin["id"], "name": nm, "why": "length"}]
            for k, (e, h) in enumerate(zip(exp, have)):
                if e is None:
                    continue          # undefined in the model: anything goes
                if isinstance(e, bool):
                    same = (h == "T") == e
                elif isinstance(e, int):
                    same = int(h) == e
                else:
                    same = abs(float(h) - float(e)) <= 1e-9 * max(1.0, abs(float(e)))
                if not same:
                    return [{"id": fin["id"], "name": nm, "index": k, "tlc": str(e),
                             "gfortran": h, "val": fin["val"], "fm": fin["fm"]}]
        return bad
    finally:
        shutil.rmtree(wd, ignore_errors=True)


def run():
    core.setup_psyclone_env()
    if not shutil.which("gfortran"):
        print("selftest: gfortran not available - skipped")
        return 0
    recs = [r for part in core.pool_map(_one, _samples(), chunksize=1) for r in part]
    ok = [r for r in recs if r["status"] == "ok"]
    tmp = core.mktemp("pv-self-")
    try:
        path = os.path.join(tmp, "cases.json")
        with open(path, "w") as f:
            json.dump([r["case"] for r in ok], f)
        res = core.run_tlc("SemDump.tla", "SemDump.cfg", env={"PV_CASES": path})
        finals = res.printed("FINAL")
        byid = {r["id"]: r for r in ok}
        compared = skipped = 0
        bad = []
        jobs = []
        for k, fin in enumerate(finals):
            r = byid[fin["id"]]
            if fin["sig"] not in ("", "return"):
                skipped += 1
                continue
            jobs.append((os.path.join(tmp, f"w{k}"), r, fin))
        from concurrent.futures import ThreadPoolExecutor
        with ThreadPoolExecutor(core.NCPU) as ex:
            for res1 in ex.map(_compare, jobs):
                compared += 1
                bad.extend(res1)
        print(f"selftest: {len(ok)} routines, {compared} (routine, input) pairs compared with gfortran, "
              f"{skipped} undefined in the model, {len(bad)} disagreements")
        for b in bad[:10]:
            print("  DISAGREE", json.dumps(b)[:600])
        return 2 if bad else 0
    finally:
        shutil.rmtree(tmp, ignore_errors=True)
