'''C21 binding demonstration, trace-corruption part: record the stub and call
items of two metadata from the real generators, check that TLC accepts the
record, then corrupt one recorded field at a time and check that TLC rejects
each corruption with the expected clause.

    PYTHONPATH=/verif/harness /venv/bin/python -m pv.c21_demo
'''
import copy
import shutil
import sys

from pv import core, c21


def _arg(t, dt="real", acc="read", fs="", fs2="", vec=1, st="none"):
    return {"t": t, "dt": dt, "acc": acc, "fs": fs, "fs2": fs2, "vec": vec,
            "st": st, "mesh": "none"}


MDS = [
    {"on": "cell_column",
     "args": [_arg("field", acc="inc", fs="w1"),
              _arg("field", fs="w2", st="cross"), _arg("scalar", dt="integer")],
     "funcs": [{"fs": "w1", "ops": ["basis", "diff"]}], "shapes": ["xyoz"],
     "targets": [], "refel": [], "mesh": ["adjacent_face"]},
    {"on": "cell_column",
     "args": [_arg("op", acc="write", fs="w0", fs2="w1"),
              _arg("field", fs="w0", vec=3)],
     "funcs": [], "shapes": [], "targets": [], "refel": [], "mesh": []},
]


def corruptions(cases):
    '''(name, corrupted cases, clause that must fail).'''
    res = []
    c = copy.deepcopy(cases)
    pos = [i for i, it in enumerate(c[0]["call"]) if it["w"] == "map"][0]
    c[0]["call"][pos]["r"] = "2"
    res.append(("call: rank of map_w1 flipped 1 -> 2", c, "CallMatchesStub"))
    c = copy.deepcopy(cases)
    c[0]["stub"][1], c[0]["stub"][2] = c[0]["stub"][2], c[0]["stub"][1]
    res.append(("stub: second and third dummy swapped", c, "StubFollowsDoc"))
    c = copy.deepcopy(cases)
    del c[1]["call"][2]
    res.append(("call: op_ncell_3d actual dropped", c, "SameCount"))
    c = copy.deepcopy(cases)
    pos = [i for i, it in enumerate(c[0]["stub"]) if it["w"] == "scalar"][0]
    c[0]["stub"][pos]["k"] = "r_def"
    res.append(("stub: kind of the integer scalar flipped", c, "CallMatchesStub"))
    c = copy.deepcopy(cases)
    pos = [i for i, it in enumerate(c[1]["stub"]) if it["w"] == "op"][0]
    c[1]["stub"][pos]["in"] = "in"
    res.append(("stub: intent of the written operator flipped", c,
                "StubFollowsDoc"))
    c = copy.deepcopy(cases)
    b = [i for i, it in enumerate(c[0]["call"]) if it["w"] == "basis"][0]
    d = [i for i, it in enumerate(c[0]["call"]) if it["w"] == "diff_basis"][0]
    c[0]["call"][b], c[0]["call"][d] = c[0]["call"][d], c[0]["call"][b]
    res.append(("call: basis and diff_basis swapped", c, "CallMatchesStub"))
    return res


def run():
    core.setup_psyclone_env()
    tmp = core.mktemp("pv-c21demo-")
    cov = {"states": 0, "transitions": 0}
    ok = True
    try:
        cases = [c21._one(md, i, tmp) for i, md in enumerate(MDS, 1)]
        if not all(c["hs"] and c["hc"] for c in cases):
            print("demo cases were refused:", [c["notes"] for c in cases])
            return 2
        clean = c21.decide(cases, tmp, cov, workers=2)
        print(f"clean record: {len(clean)} verdicts "
              f"{sorted({v['v'] for v in clean})}")
        if clean:
            ok = False
        for name, bad, clause in corruptions(cases):
            vs = c21.decide(bad, tmp, cov, workers=2)
            got = sorted({v["v"] for v in vs})
            hit = clause in got
            ok = ok and hit
            print(f"{'REJECTED' if hit else 'MISSED  '} {name}: expected "
                  f"{clause}, TLC reported {got}")
    finally:
        shutil.rmtree(tmp, ignore_errors=True)
    print("trace-corruption demo:", "all corruptions rejected" if ok else "FAILED")
    return 0 if ok else 1


if __name__ == "__main__":
    sys.exit(run())
