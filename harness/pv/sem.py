'''Shared driver pieces of the checks decided by executing programs under
spec/FortranSem.tla (SemEquiv.tla and friends).'''
import json
import os
import shutil

from pv import core
from pv.export import Exporter, Unsupported, merge_decls  # noqa: F401


def parse(src):
    '''Fortran source -> PSyIR (fresh reader every time).'''
    from psyclone.psyir.frontend.fortran import FortranReader
    return FortranReader().psyir_from_source(src)


def routine_named(psyir, name):
    from psyclone.psyir.nodes import Routine
    for r in psyir.walk(Routine):
        if r.name.lower() == name.lower():
            return r
    raise KeyError(name)


def write(node):
    '''Fortran text of a PSyIR tree with a fresh writer (a writer keeps its
    indentation after an error).'''
    from psyclone.psyir.backend.fortran import FortranWriter
    return FortranWriter()(node)


def equiv_case(cid, ref, variants, dom, fills, live, cmpout=False):
    '''Case record for SemEquiv.tla.  ref / variants: Exporter.routine()
    results of the reference program and of what PSyclone made of it.'''
    decls = ref["decls"]
    subs = dict(ref["subs"])
    progs = [{"body": ref["body"]}]
    for v in variants:
        decls = merge_decls(decls, v["decls"])
        p = {"body": v["body"]}
        if v["subs"] != ref["subs"]:
            p["subs"] = v["subs"] if v["subs"] else {"#none": {"formals": [], "locals": [], "body": []}}
        progs.append(p)
    names = {d["name"] for d in decls}
    for nm in live:
        if nm not in names:
            raise Unsupported("live name not declared: " + nm)
    if not subs:
        subs = {"#none": {"formals": [], "locals": [], "body": []}}
    return {"id": cid, "decls": decls,
            "dom": [[n, list(vs)] for n, vs in dom if n in names],
            "fills": list(fills), "live": list(live), "cmpout": bool(cmpout),
            "subs": subs, "progs": progs}


def n_inputs(case):
    n = len(case["fills"])
    for _, vs in case["dom"]:
        n *= len(vs)
    return n


class EquivResult:
    def __init__(self):
        self.states = 0
        self.transitions = 0
        self.fails = {}      # id -> [(clause, witness)]
        self.discards = {}   # id -> count
        self.wall = 0.0


def run_equiv(cases, spec="SemEquiv.tla", cfg="SemEquiv.cfg", batch=400,
              workers=None, timeout=3000):
    '''Run the cases through TLC in batches; returns an EquivResult.  Checks
    that every (case, input) produced the expected number of states so that a
    case TLC silently skipped cannot pass.'''
    res = EquivResult()
    tmp = core.mktemp("pv-sem-")
    try:
        for lo in range(0, len(cases), batch):
            part = cases[lo:lo + batch]
            path = os.path.join(tmp, f"cases-{lo}.json")
            with open(path, "w") as f:
                json.dump(part, f, separators=(",", ":"))
            r = core.run_tlc(spec, cfg, env={"PV_CASES": path}, workers=workers,
                             timeout=timeout)
            os.unlink(path)
            res.states += r.distinct
            res.transitions += r.generated
            res.wall += r.wall
            ninit = sum(n_inputs(c) for c in part)
            if r.distinct < ninit:
                raise core.MachineryError(
                    f"{spec}: {r.distinct} states for {ninit} initial states")
            for v in r.printed("VERDICT"):
                res.fails.setdefault(v["id"], []).append((v["v"], v["w"]))
            for d in r.printed("DISCARD"):
                res.discards[d["id"]] = res.discards.get(d["id"], 0) + 1
    finally:
        shutil.rmtree(tmp, ignore_errors=True)
    return res


# ------------------------------------------------ generic "apply and compare"
class TransFamily:
    '''A family of (routine source, applications) whose accepted applications
    are compared with the original under SemEquiv.  Subclass-free: fill the
    fields and call build()/judge().'''

    def __init__(self, prop, routine="s", dom=(), fills=(1, 4), live=(),
                 apps=None, prepare=None):
        self.prop = prop
        self.routine = routine
        self.dom = list(dom)
        self.fills = list(fills)
        self.live = list(live)
        self.apps = apps            # pid -> [(label, fn(routine_node))]
        self.prepare = prepare      # optional fn(routine_node) before export
        self.make_exporter = Exporter   # factory (a check may configure the exporter)


_FAM = None


def _build_one(item):
    from psyclone.psyir.transformations import TransformationError
    fam = _FAM
    pid, src = item
    out = []
    for label, fn in fam.apps(pid):
        cid = f"{pid}#{label}"
        try:
            psy = parse(src)
            r = routine_named(psy, fam.routine)
            if fam.prepare:
                fam.prepare(r)
            ref = fam.make_exporter().routine(r)
        except Unsupported as err:
            out.append({"id": cid, "status": "unsupported", "why": "ref: " + str(err)})
            continue
        try:
            fn(r)
        except TransformationError:
            out.append({"id": cid, "status": "refused"})
            continue
        except Exception as err:   # noqa  - an internal error is not a refusal
            out.append({"id": cid, "status": "crash",
                        "why": f"{type(err).__name__}: {err}"[:300]})
            continue
        try:
            new = fam.make_exporter().routine(r)
            case = equiv_case(cid, ref, [new], fam.dom, fam.fills, fam.live)
            text = write(r)
        except Unsupported as err:
            out.append({"id": cid, "status": "unsupported", "why": str(err)})
            continue
        except Exception as err:   # noqa  - writer failure after an accepted trans
            out.append({"id": cid, "status": "crash",
                        "why": f"writer: {type(err).__name__}: {err}"[:300]})
            continue
        out.append({"id": cid, "status": "accepted", "case": case, "src": src,
                    "after": text, "trans": label.split(":")[0].split("@")[0],
                    "label": label})
    return out


def build_family(fam, items):
    '''Parse every (pid, source), apply every application; returns the list
    of result records (status accepted|refused|unsupported|crash).'''
    global _FAM
    _FAM = fam
    try:
        return [r for part in core.pool_map(_build_one, items) for r in part]
    finally:
        _FAM = None


def judge_family(out, results, matchers, detail_fn=None, max_unsupported=0.2):
    '''Run the accepted cases through SemEquiv and turn failing cases into
    known-finding hits / violations.  Returns the coverage dict.'''
    stat = {}
    for r in results:
        stat[r["status"]] = stat.get(r["status"], 0) + 1
    accepted = [r for r in results if r["status"] == "accepted"]
    if stat.get("unsupported", 0) > max_unsupported * max(1, len(results)):
        why = {}
        for r in results:
            if r["status"] == "unsupported":
                why[r["why"]] = why.get(r["why"], 0) + 1
        raise core.MachineryError(f"too many unsupported cases: {stat} {why}")
    res = run_equiv([r["case"] for r in accepted])
    per_trans, nontrivial = {}, 0
    for r in accepted:
        cid = r["id"]
        live_inputs = n_inputs(r["case"]) - res.discards.get(cid, 0)
        pt = per_trans.setdefault(r["trans"], {"accepted": 0, "nontrivial": 0, "failing": 0})
        pt["accepted"] += 1
        if live_inputs > 0:
            nontrivial += 1
            pt["nontrivial"] += 1
        fails = res.fails.get(cid, [])
        if not fails:
            continue
        pt["failing"] += 1
        wit = [f[1] for f in fails]
        rec = {"id": cid, "trans": r["trans"], "label": r["label"], "case": r["case"],
               "src": r["src"], "after": r["after"]}
        detail = {"witnesses": wit, "n_failing_inputs": len(wit),
                  "names": {n for w in wit for n in w.get("names", [])}}
        if detail_fn:
            detail.update(detail_fn(rec, wit))
        slim = {"id": cid, "trans": r["trans"], "label": r["label"],
                "source": r["src"], "after": r["after"]}
        sdetail = {k: (sorted(v) if isinstance(v, set) else v) for k, v in detail.items()
                   if k != "target_loops"}
        sdetail["witnesses"] = wit[:4]
        for cl in sorted({f[0] for f in fails}):
            out.classify(rec, cl, detail, slim, sdetail)
    crashes = [r for r in results if r["status"] == "crash"]
    unsup = [r for r in results if r["status"] == "unsupported"]
    return {"states": res.states, "transitions": res.transitions,
            "traces_validated_against_impl": len(accepted),
            "evaluations": len(results), "distinct_nontrivial": nontrivial,
            "status_counts": stat, "per_transformation": per_trans,
            "inputs_per_case": n_inputs(accepted[0]["case"]) if accepted else 0,
            "discarded_ub_inputs": sum(res.discards.values()),
            "internal_errors": [{"id": c["id"], "why": c["why"]} for c in crashes[:10]],
            "unsupported_samples": [{"id": c["id"], "why": c["why"]} for c in unsup[:5]],
            "known_examples": out.known_examples,
            "samples": [{"id": r["id"], "source": r["src"], "after": r["after"]}
                        for r in accepted[:: max(1, len(accepted) // 4)][:4]],
            "exhaustive": False}
