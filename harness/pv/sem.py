'''Shared driver pieces of the checks decided by executing programs under
spec/FortranSem.tla (SemEquiv.tla and friends).'''
import json
import os
import shutil

from pv import core
from pv.export import Exporter, Unsupported, merge_decls  # noqa: F401


def parse(src):
    '''Fortran source -> PSyIR (fresh reader every time).'''
    from psyclone.psyir.frontend.fortran import FortranReader
    return FortranReader().psyir_from_source(src)


def routine_named(psyir, name):
    from psyclone.psyir.nodes import Routine
    for r in psyir.walk(Routine):
        if r.name.lower() == name.lower():
            return r
    raise KeyError(name)


def write(node):
    '''Fortran text of a PSyIR tree with a fresh writer (a writer keeps its
    indentation after an error).'''
    from psyclone.psyir.backend.fortran import FortranWriter
    return FortranWriter()(node)


def equiv_case(cid, ref, variants, dom, fills, live, cmpout=False):
    '''Case record for SemEquiv.tla.  ref / variants: Exporter.routine()
    results of the reference program and of what PSyclone made of it.'''
    decls = ref["decls"]
    subs = dict(ref["subs"])
    progs = [{"body": ref["body"]}]
    for v in variants:
        decls = merge_decls(decls, v["decls"])
        p = {"body": v["body"]}
        if v["subs"] != ref["subs"]:
            p["subs"] = v["subs"] if v["subs"] else {"#none": {"formals": [], "locals": [], "body": []}}
        progs.append(p)
    names = {d["name"] for d in decls}
    for nm in live:
        if nm not in names:
            raise Unsupported("live name not declared: " + nm)
    if not subs:
        subs = {"#none": {"formals": [], "locals": [], "body": []}}
    return {"id": cid, "decls": decls,
            "dom": [[n, list(vs)] for n, vs in dom if n in names],
            "fills": list(fills), "live": list(live), "cmpout": bool(cmpout),
            "subs": subs, "progs": progs}


def n_inputs(case):
    n = len(case["fills"])
    for _, vs in case["dom"]:
        n *= len(vs)
    return n


class EquivResult:
    def __init__(self):
        self.states = 0
        self.transitions = 0
        self.fails = {}      # id -> [(clause, witness)]
        self.discards = {}   # id -> count
        self.wall = 0.0


def run_equiv(cases, spec="SemEquiv.tla", cfg="SemEquiv.cfg", batch=400,
              workers=None, timeout=3000):
    '''Run the cases through TLC in batches; returns an EquivResult.  Checks
    that every (case, input) produced the expected number of states so that a
    case TLC silently skipped cannot pass.'''
    res = EquivResult()
    tmp = core.mktemp("pv-sem-")
    try:
        for lo in range(0, len(cases), batch):
            part = cases[lo:lo + batch]
            path = os.path.join(tmp, f"cases-{lo}.json")
            with open(path, "w") as f:
                json.dump(part, f, separators=(",", ":"))
            r = core.run_tlc(spec, cfg, env={"PV_CASES": path}, workers=workers,
                             timeout=timeout)
            os.unlink(path)
            res.states += r.distinct
            res.transitions += r.generated
            res.wall += r.wall
            ninit = sum(n_inputs(c) for c in part)
            if r.distinct < ninit:
                raise core.MachineryError(
                    f"{spec}: {r.distinct} states for {ninit} initial states")
            for v in r.printed("VERDICT"):
                res.fails.setdefault(v["id"], []).append((v["v"], v["w"]))
            for d in r.printed("DISCARD"):
                res.discards[d["id"]] = res.discards.get(d["id"], 0) + 1
    finally:
        shutil.rmtree(tmp, ignore_errors=True)
    return res
