'''PSyIR -> pv-ast exporter (the JSON program shape FortranSem.tla executes).

Fails closed: anything it does not know raises Unsupported, and the calling
check counts that case as `unsupported` (never a violation, never silently
approximated).  See DESIGN.md Appendix A and the header of spec/FortranSem.tla
for the shape.
'''
from fractions import Fraction


class Unsupported(Exception):
    '''The PSyIR contains something the exporter has no exact meaning for.'''


NONE = {"k": "none"}


def _imports():
    from psyclone.psyir import nodes as N
    from psyclone.psyir import symbols as S
    return N, S


def _ty(datatype):
    '''"i" | "r" | "l" for a scalar intrinsic datatype (or array thereof).'''
    _, S = _imports()
    if isinstance(datatype, S.ArrayType):
        datatype = datatype.datatype if hasattr(datatype, "datatype") else None
        if isinstance(datatype, S.DataTypeSymbol) or datatype is None:
            raise Unsupported("array of derived type")
        intr = datatype.intrinsic if hasattr(datatype, "intrinsic") else None
    elif isinstance(datatype, S.ScalarType):
        intr = datatype.intrinsic
    else:
        raise Unsupported(f"datatype {type(datatype).__name__}")
    I = S.ScalarType.Intrinsic
    if intr == I.INTEGER:
        return "i"
    if intr == I.REAL:
        return "r"
    if intr == I.BOOLEAN:
        return "l"
    raise Unsupported(f"intrinsic type {intr}")


def const_int(node):
    '''Integer value of a literal (or +-literal) PSyIR expression, else None.'''
    N, _ = _imports()
    if isinstance(node, N.Literal):
        try:
            return int(node.value)
        except ValueError:
            return None
    if isinstance(node, N.UnaryOperation) and \
            node.operator == N.UnaryOperation.Operator.MINUS:
        v = const_int(node.children[0])
        return None if v is None else -v
    if isinstance(node, N.UnaryOperation) and \
            node.operator == N.UnaryOperation.Operator.PLUS:
        return const_int(node.children[0])
    return None


def real_lit(text):
    '''Exact rational (n, d) of a Fortran real literal text.'''
    t = text.lower().split("_")[0].replace("d", "e")
    fr = Fraction(t)
    return fr.numerator, fr.denominator


_BINOPS = {"ADD": "+", "SUB": "-", "MUL": "*", "DIV": "/", "POW": "**",
           "EQ": "==", "NE": "/=", "GT": ">", "LT": "<", "GE": ">=", "LE": "<=",
           "AND": "and", "OR": "or", "EQV": "eqv", "NEQV": "neqv"}
_UNOPS = {"MINUS": "-", "PLUS": "+", "NOT": "not"}

# intrinsics FortranSem.tla gives a meaning to
KNOWN_INTRINSICS = {"ABS", "SIGN", "MAX", "MIN", "MOD", "MODULO", "INT", "REAL",
                    "NINT", "MERGE", "SUM", "PRODUCT", "MAXVAL", "MINVAL",
                    "DOT_PRODUCT", "MATMUL", "SIZE", "LBOUND", "UBOUND",
                    "TRANSPOSE", "HUGE"}


class Exporter:
    '''Exports one routine (and the routines it calls) to pv-ast.

    :param flatten_struct: export `s%a(i)` as an access to the array "s%a".
    '''

    def __init__(self, hooks=None, functions=False):
        # functions: give references to user functions (module procedures) in
        # the right-hand side / subscripts of an assignment or in an IF
        # condition a meaning: each reference is hoisted, innermost first, into
        # "call f(args..., tmp)" placed before the statement, where the function
        # is exported as a subroutine whose last dummy is its result variable
        # and tmp is a fresh undefined local of the result type.  Exact for
        # functions that do not modify anything else the statement uses (which
        # the Fortran standard requires of a function reference).
        self.functions = functions
        self._hoist = None      # list receiving the hoisted calls, or None
        self._temps = [[]]      # per exported routine: declarations of the temporaries
        self._ntemp = 0
        # hooks: {node class name: callable(exporter, node) -> stmt(s)} for
        # engine-specific nodes (directives, PSyData regions, kernels)
        self.hooks = hooks or {}
        self.subs = {}          # name -> sub record
        self._busy = set()
        self.track = None       # statement node to wrap in a "track" record
        self.track_fields = {}
        self.skip_opaque_symbols = False
        # imported module variables the case gives a type to: {lower name: "r"|"i"|"l"};
        # they are global inputs named "<container>::<name>" (a flat store must keep them
        # apart from same-named locals of other routines)
        self.import_types = {}
        self.imports_seen = {}
        self._expand = {}        # callee name -> {dummy position: [(leaf suffix, leaf dims)]}
        self.track_range = None  # (schedule node, first, last+1): statements to track

    # ------------------------------------------------------------ expressions
    def expr(self, node):
        N, S = _imports()
        cname = type(node).__name__
        if cname in self.hooks:
            return self.hooks[cname](self, node)
        if isinstance(node, N.Literal):
            ty = _ty(node.datatype)
            if isinstance(node.datatype, S.ArrayType):
                raise Unsupported("array literal")
            if ty == "i":
                return {"k": "lit", "t": "int", "v": int(node.value)}
            if ty == "r":
                n, d = real_lit(node.value)
                if abs(n) > 10**6 or d > 10**6:
                    raise Unsupported("real literal outside the exact domain")
                return {"k": "lit", "t": "real", "n": n, "d": d}
            return {"k": "lit", "t": "log", "b": node.value.lower() == "true"}
        if isinstance(node, N.IntrinsicCall):
            return self.icall(node)
        if isinstance(node, N.Call):
            if self.functions and self._hoist is not None:
                return self.fcall(node)
            raise Unsupported("function call in expression")
        if isinstance(node, N.ArrayReference):
            return {"k": "aref", "name": node.symbol.name.lower(),
                    "idx": [self.index(c) for c in node.indices]}
        if isinstance(node, N.StructureReference):
            return self.sref(node)
        if isinstance(node, N.Reference):
            return {"k": "ref", "name": self._name(node.symbol)}
        if isinstance(node, N.UnaryOperation):
            return {"k": "un", "op": _UNOPS[node.operator.name],
                    "e": self.expr(node.children[0])}
        if isinstance(node, N.BinaryOperation):
            opn = node.operator.name
            if opn == "REM":
                return {"k": "icall", "name": "MOD",
                        "args": [self.expr(node.children[0]),
                                 self.expr(node.children[1])]}
            return {"k": "bin", "op": _BINOPS[opn],
                    "l": self.expr(node.children[0]),
                    "r": self.expr(node.children[1])}
        if isinstance(node, N.Range):
            raise Unsupported("range outside an array index")
        raise Unsupported(f"expression node {cname}")

    def sref(self, node):
        '''`s%b%c(i)` -> access to the flattened variable "s%b%c" (decls() declares one
        variable per leaf component).  For arrays of structures the indices of
        every level are concatenated: `g(k)%data(i)` -> "g%data"(k, i), declared
        with the dimensions of g followed by those of data.'''
        N, _ = _imports()
        name = node.symbol.name.lower()
        idx = []
        if isinstance(node, N.ArrayOfStructuresReference):
            idx += [self.index(c) for c in node.indices]
        mem = node.member
        while True:
            name += "%" + mem.name.lower()
            if hasattr(mem, "indices"):
                idx += [self.index(c) for c in mem.indices]
            if hasattr(mem, "member"):
                mem = mem.member
                continue
            break
        if idx:
            return {"k": "aref", "name": name, "idx": idx}
        return {"k": "ref", "name": name}

    def _name(self, sym):
        '''store name of a scalar symbol: imported module variables are qualified'''
        if getattr(sym, "is_import", False):
            low = sym.name.lower()
            if low not in self.import_types:
                # no type given by the case: exported under its plain name as before
                # (kind parameters in intrinsic arguments); a case that evaluates it
                # is rejected by TLC as a reference to an undeclared variable
                return low
            q = sym.interface.container_symbol.name.lower() + "::" + low
            self.imports_seen[q] = self.import_types[low]
            return q
        return sym.name.lower()

    def index(self, node):
        N, _ = _imports()
        if isinstance(node, N.Range):
            return {"k": "range", "lo": self.expr(node.start),
                    "hi": self.expr(node.stop), "st": self.expr(node.step)}
        return self.expr(node)

    def icall(self, node):
        name = node.intrinsic.name.upper()
        if name not in KNOWN_INTRINSICS:
            raise Unsupported(f"intrinsic {name}")
        args, named = [], {}
        for arg, nm in zip(node.arguments, node.argument_names):
            if nm is None:
                args.append(self.expr(arg))
            else:
                named[nm.lower()] = self.expr(arg)
        res = {"k": "icall", "name": name, "args": args}
        if named:
            unknown = set(named) - {"dim", "mask", "kind"}
            if unknown:
                raise Unsupported(f"named argument {sorted(unknown)} of {name}")
            if "kind" in named:
                del named["kind"]          # exact arithmetic: kinds do not matter
            if named:
                res["named"] = named
        if name in ("SUM", "PRODUCT", "MAXVAL", "MINVAL") and len(args) >= 2:
            res["dimpos"] = True
            if len(args) > 2:
                raise Unsupported("positional mask")
        if name in ("INT", "REAL", "NINT") and len(args) > 1:
            res["args"] = args[:1]         # positional kind argument
        return res

    # ------------------------------------------------------------- statements
    def body(self, sched):
        out = []
        rng = self.track_range if self.track_range and \
            self.track_range[0] is sched else None
        inner = None
        for pos, child in enumerate(sched.children):
            dest = out
            if rng and rng[1] <= pos < rng[2]:
                if inner is None:
                    inner = {"k": "track", "body": []}
                    inner.update(self.track_fields)
                    out.append(inner)
                dest = inner["body"]
            st = self.stmt(child)
            if isinstance(st, list):
                dest.extend(st)
            elif st is not None:
                dest.append(st)
        return out

    def stmt(self, node):
        if self.track is not None and node is self.track:
            self.track = None
            st = self.stmt(node)
            self.track = node
            rec = {"k": "track", "body": st if isinstance(st, list) else [st]}
            rec.update(self.track_fields)
            return rec
        N, _ = _imports()
        cname = type(node).__name__
        if cname in self.hooks:
            return self.hooks[cname](self, node)
        if isinstance(node, N.Assignment):
            if not self.functions:
                return {"k": "assign", "lhs": self.expr(node.lhs),
                        "rhs": self.expr(node.rhs)}
            saved, self._hoist = self._hoist, []
            try:
                st = {"k": "assign", "lhs": self.expr(node.lhs),
                      "rhs": self.expr(node.rhs)}
                pre = self._hoist
            finally:
                self._hoist = saved
            return pre + [st] if pre else st
        if self.functions and isinstance(node, N.IfBlock):
            saved, self._hoist = self._hoist, []
            try:
                cond = self.expr(node.condition)
                pre = self._hoist
            finally:
                self._hoist = saved
            st = {"k": "if", "cond": cond, "then": self.body(node.if_body),
                  "else": self.body(node.else_body) if node.else_body else []}
            return pre + [st] if pre else st
        if isinstance(node, N.Loop):
            return {"k": "loop", "var": node.variable.name.lower(),
                    "lo": self.expr(node.start_expr),
                    "hi": self.expr(node.stop_expr),
                    "st": self.expr(node.step_expr),
                    "body": self.body(node.loop_body)}
        if isinstance(node, N.WhileLoop):
            return {"k": "while", "cond": self.expr(node.condition),
                    "body": self.body(node.loop_body)}
        if isinstance(node, N.IfBlock):
            return {"k": "if", "cond": self.expr(node.condition),
                    "then": self.body(node.if_body),
                    "else": self.body(node.else_body) if node.else_body else []}
        if isinstance(node, N.Return):
            return {"k": "return"}
        if isinstance(node, N.IntrinsicCall):
            return self.isub(node)
        if isinstance(node, N.Call):
            return self.call(node)
        if isinstance(node, N.CodeBlock):
            return self.codeblock(node)
        if isinstance(node, N.Schedule):
            return {"k": "block", "body": self.body(node)}
        if isinstance(node, N.ACCDataDirective):
            def names(cls):
                return [r.symbol.name.lower() for c in node.clauses
                        if type(c).__name__ == cls for r in c.children]
            for c in node.clauses:
                if type(c).__name__ not in ("ACCCopyInClause", "ACCCopyOutClause",
                                            "ACCCopyClause"):
                    raise Unsupported("clause " + type(c).__name__)
                for r in c.children:
                    if type(r).__name__ != "Reference":
                        raise Unsupported("data clause entry " + type(r).__name__)
            return {"k": "accdata", "copyin": names("ACCCopyInClause"),
                    "copyout": names("ACCCopyOutClause"), "copy": names("ACCCopyClause"),
                    "body": self.body(node.dir_body)}
        if isinstance(node, (N.ACCKernelsDirective, N.ACCLoopDirective)):
            # compute constructs are transparent: their body runs on the device copy
            # established by the enclosing data region
            return {"k": "block", "body": self.body(node.dir_body)}
        raise Unsupported(f"statement node {cname}")

    # arguments (0-based positions) an intrinsic subroutine defines, from the
    # Fortran 2008 standard (13.7); the others are read
    INTRINSIC_SUB_WRITES = {"RANDOM_NUMBER": (0,), "CPU_TIME": (0,),
                            "SYSTEM_CLOCK": (0, 1, 2), "DATE_AND_TIME": (0, 1, 2, 3),
                            "MVBITS": (3,)}

    def isub(self, node):
        name = node.intrinsic.name.upper()
        if name not in self.INTRINSIC_SUB_WRITES:
            raise Unsupported(f"intrinsic subroutine {name}")
        if any(n is not None for n in node.argument_names):
            raise Unsupported("named argument of intrinsic subroutine")
        return self._isub(name, node.arguments)

    def _isub(self, name, arguments):
        wpos = self.INTRINSIC_SUB_WRITES[name]
        reads, writes = [], []
        for k, arg in enumerate(arguments):
            e = self.expr(arg)
            if k in wpos:
                if e["k"] not in ("ref", "aref"):
                    raise Unsupported("intrinsic subroutine output is not a variable")
                writes.append(e)
                if name == "MVBITS":
                    reads.append(e)      # TO is intent(inout)
            else:
                reads.append(e)
        return {"k": "isub", "name": name, "reads": reads, "writes": writes}

    _PSYDATA_CALL = None

    def codeblock(self, node):
        import re
        from fparser.two import Fortran2003 as F
        asts = node.get_ast_nodes
        if len(asts) == 1 and isinstance(asts[0], F.Call_Stmt):
            # lowered PSyData hooks: CALL <var> % <Method>(args)
            m = re.match(r"^CALL\s+(\w+)\s*%\s*(\w+)\s*(\((.*)\))?\s*$", str(asts[0]), re.S)
            if m:
                var, meth = m.group(1).lower(), m.group(2).lower()
                if meth == "prestart":
                    names = re.findall(r'"([^"]*)"', m.group(4) or "")
                    return {"k": "event", "what": "start", "name": var,
                            "module": names[0] if names else "",
                            "region": names[1] if len(names) > 1 else ""}
                if meth == "postend":
                    return {"k": "event", "what": "end", "name": var}
                if meth in ("predeclarevariable", "providevariable", "preenddeclaration",
                            "preend", "poststart"):
                    return {"k": "nop"}
        if asts and all(isinstance(a, (F.Write_Stmt, F.Print_Stmt)) for a in asts):
            # list-directed output of plain variables: an observable event; the names are
            # resolved in the scope the code block now sits in (case-insensitively)
            out = []
            for a in asts:
                names = node.get_symbol_names() if len(asts) == 1 else None
                items = a.items[-1]
                txt = str(items) if items is not None else ""
                refs = []
                for nm in [x.strip() for x in txt.split(",") if x.strip()]:
                    if not re.match(r"^[A-Za-z_]\w*$", nm):
                        raise Unsupported("output item " + nm)
                    try:
                        sym = node.scope.symbol_table.lookup(nm)
                    except KeyError:
                        raise Unsupported("output item does not resolve: " + nm)
                    refs.append({"k": "ref", "name": self._name(sym)})
                out.append({"k": "print", "args": refs})
            return out
        if len(asts) == 1:
            a = asts[0]
            if isinstance(a, F.Exit_Stmt) and a.items[1] is None:
                return {"k": "exit"}
            if isinstance(a, F.Cycle_Stmt) and a.items[1] is None:
                return {"k": "cycle"}
        raise Unsupported("code block: " + str(node.get_ast_nodes[0])[:40])

    # ------------------------------------------------------------------ calls
    def call(self, node):
        N, _ = _imports()
        name = node.routine.name.lower()
        if any(n is not None for n in node.argument_names):
            raise Unsupported("named argument in call")
        if name not in self.subs:
            target = self._find_routine(node, name)
            if target is None and name.upper() in self.INTRINSIC_SUB_WRITES:
                return self._isub(name.upper(), node.arguments)
            if target is None:
                raise Unsupported(f"call to unknown routine {name}")
            if name in self._busy:
                raise Unsupported("recursive call")
            self._busy.add(name)
            try:
                self.subs[name] = self.sub(target)
            finally:
                self._busy.discard(name)
        expand = self._expand.get(name, {})
        args = []
        for k, a in enumerate(node.arguments):
            if k in expand:
                args.extend(self._struct_actual(a, expand[k]))
            else:
                args.append(self.expr(a))
        return {"k": "call", "name": name, "args": args}

    def _struct_actual(self, node, leaves):
        '''actual argument of derived type -> one actual per leaf component (the dummy
        was flattened the same way by sub()): `p` -> p%x, p%v, ...; `cols(n)` ->
        cols%x(n), cols%v(n, lo:hi), ...'''
        N, _ = _imports()
        if type(node) is N.Reference:
            return [{"k": "ref", "name": node.symbol.name.lower() + suffix}
                    for suffix, _ in leaves]
        if type(node) is N.ArrayReference:
            idx = [self.index(c) for c in node.indices]
            out = []
            for suffix, dims in leaves:
                full = [{"k": "range", "lo": {"k": "lit", "t": "int", "v": lo},
                         "hi": {"k": "lit", "t": "int", "v": hi},
                         "st": {"k": "lit", "t": "int", "v": 1}} for lo, hi in dims]
                out.append({"k": "aref", "name": node.symbol.name.lower() + suffix,
                            "idx": idx + full})
            return out
        raise Unsupported("derived-type actual argument " + type(node).__name__)

    def fcall(self, node):
        '''A reference to a user function inside an expression: hoisted call,
        returns the reference to the temporary holding the result.'''
        _, S = _imports()
        name = node.routine.name.lower()
        if any(n is not None for n in node.argument_names):
            raise Unsupported("named argument in function reference")
        target = self._find_routine(node, name)
        if target is None or target.return_symbol is None:
            raise Unsupported(f"reference to unknown function {name}")
        rsym = target.return_symbol
        if not isinstance(rsym.datatype, S.ScalarType):
            raise Unsupported("function result is not an intrinsic scalar")
        hoist = self._hoist
        args = [self.expr(a) for a in node.arguments]     # inner references first
        if name not in self.subs:
            if name in self._busy:
                raise Unsupported("recursive call")
            self._busy.add(name)
            self._hoist = None
            try:
                self.subs[name] = self.sub(target)
            finally:
                self._busy.discard(name)
                self._hoist = hoist
        self._ntemp += 1
        tmp = f"{name}#r{self._ntemp}"
        self._temps[-1].append({"name": tmp, "ty": _ty(rsym.datatype), "dims": []})
        hoist.append({"k": "call", "name": name,
                      "args": args + [{"k": "ref", "name": tmp}]})
        return {"k": "ref", "name": tmp}

    @staticmethod
    def _find_routine(node, name):
        N, _ = _imports()
        root = node.root
        for r in root.walk(N.Routine):
            if r.name.lower() == name:
                return r
        return None

    def sub(self, routine):
        '''Callee record: formals (by reference), locals, body.'''
        _, S = _imports()
        table = routine.symbol_table
        formals, locals_ = [], []
        argset = set(id(a) for a in table.argument_list)
        expand = {}
        for pos, a in enumerate(table.argument_list):
            if not isinstance(a, S.DataSymbol):
                raise Unsupported("non-data dummy argument")
            lo = []
            rank = 0
            stype, pre = None, []
            if isinstance(a.datatype, S.DataTypeSymbol) and \
                    isinstance(a.datatype.datatype, S.StructureType):
                stype = a.datatype.datatype
            elif isinstance(a.datatype, S.ArrayType) and \
                    isinstance(a.datatype.intrinsic, S.DataTypeSymbol) and \
                    isinstance(a.datatype.intrinsic.datatype, S.StructureType):
                stype = a.datatype.intrinsic.datatype
                pre = self._dims(a.datatype.shape, a.name)
            if stype is not None:
                # a dummy of derived type: one dummy per leaf component (flat store)
                leaves = self._flatten(a.name.lower(), stype, "in", True, pre)
                own = len(pre)
                expand[pos] = [(d["name"][len(a.name):], d["dims"][own:]) for d in leaves]
                for d in leaves:
                    formals.append({"name": d["name"], "ty": d["ty"],
                                    "lo": [x[0] for x in d["dims"]], "rank": len(d["dims"])})
                continue
            if isinstance(a.datatype, S.ArrayType):
                rank = len(a.datatype.shape)
                for dim in a.datatype.shape:
                    if isinstance(dim, S.ArrayType.ArrayBounds):
                        v = const_int(dim.lower)
                        if v is None:
                            raise Unsupported("non-constant lower bound of dummy")
                        lo.append(v)
                    elif dim in (S.ArrayType.Extent.ATTRIBUTE,
                                 S.ArrayType.Extent.DEFERRED):
                        lo.append(1)
                    else:
                        raise Unsupported("dummy array bound")
            formals.append({"name": a.name.lower(), "ty": _ty(a.datatype),
                            "lo": lo, "rank": rank})
        self._expand[routine.name.lower()] = expand
        prelude = []
        rsym = routine.return_symbol
        if rsym is not None:
            if not self.functions:
                raise Unsupported("call to a function")
            argset.add(id(rsym))
            formals.append({"name": rsym.name.lower(), "ty": _ty(rsym.datatype),
                            "lo": [], "rank": 0})
        self._temps.append([])
        try:
            body = self.body(routine)
        finally:
            temps = self._temps.pop()
        for sym in self._all_symbols(routine):
            if id(sym) in argset or not isinstance(sym, S.DataSymbol):
                continue
            if not (sym.is_automatic or sym.is_static):
                continue
            d = {"name": sym.name.lower(), "ty": _ty(sym.datatype), "dims": []}
            if isinstance(sym.datatype, S.ArrayType):
                for dim in sym.datatype.shape:
                    if not isinstance(dim, S.ArrayType.ArrayBounds):
                        raise Unsupported("local array bound")
                    d["dims"].append([self.expr(dim.lower), self.expr(dim.upper)])
            if sym.initial_value is not None:
                if sym.is_constant or not d["dims"]:
                    d["init"] = self.expr(sym.initial_value)
                else:
                    raise Unsupported("initialised local array")
                if not sym.is_constant and sym.is_static is False:
                    pass
            locals_.append(d)
        return {"formals": formals, "locals": locals_ + temps,
                "body": prelude + body}

    @staticmethod
    def _all_symbols(routine):
        N, _ = _imports()
        seen, out = set(), []
        for sc in routine.walk(N.ScopingNode):
            for sym in sc.symbol_table.symbols:
                key = sym.name.lower()
                if id(sym) in seen:
                    continue
                seen.add(id(sym))
                if key in [s.name.lower() for s in out]:
                    raise Unsupported("shadowed symbol name " + key)
                out.append(sym)
        return out

    # --------------------------------------------------------------- routines
    def decls(self, routine, extra_poison=()):
        '''Declarations of the top-level routine of a case: dummy arguments,
        module/host variables it uses and locals.  Returns (decls, prelude):
        prelude = assignments giving PARAMETERs their value.'''
        N, S = _imports()
        out, prelude = [], []
        syms = self._all_symbols(routine)
        # host (container) variables referenced by the routine
        cont = routine.ancestor(N.Container)
        if cont is not None and not isinstance(cont, N.FileContainer):
            for sym in cont.symbol_table.symbols:
                if isinstance(sym, S.DataSymbol) and sym.name.lower() not in \
                        [s.name.lower() for s in syms]:
                    syms.append(sym)
        for sym in syms:
            if not isinstance(sym, S.DataSymbol):
                continue
            if self.skip_opaque_symbols and not isinstance(
                    sym.datatype, (S.ScalarType, S.ArrayType)):
                continue      # e.g. PSyData objects; a reference to one stays undeclared
            stype, pre = None, []
            if isinstance(sym.datatype, S.DataTypeSymbol) and \
                    isinstance(sym.datatype.datatype, S.StructureType):
                stype = sym.datatype.datatype
            elif isinstance(sym.datatype, S.ArrayType) and \
                    isinstance(sym.datatype.intrinsic, S.DataTypeSymbol) and \
                    isinstance(sym.datatype.intrinsic.datatype, S.StructureType):
                stype = sym.datatype.intrinsic.datatype
                pre = self._dims(sym.datatype.shape, sym.name)
            if stype is not None:
                if sym.is_import or sym.is_unresolved or sym.initial_value is not None:
                    raise Unsupported("structure symbol " + sym.name)
                is_input = sym.is_argument or not sym.is_automatic
                out.extend(self._flatten(sym.name.lower(), stype,
                                         "in" if is_input else "poison", bool(sym.is_argument), pre))
                continue
            if sym.is_import and sym.name.lower() in self.import_types:
                self._name(sym)          # declared below from imports_seen
                continue
            if sym.is_import or sym.is_unresolved:
                raise Unsupported("imported/unresolved symbol " + sym.name)
            d = {"name": sym.name.lower(), "ty": _ty(sym.datatype), "dims": []}
            if isinstance(sym.datatype, S.ArrayType):
                for dim in sym.datatype.shape:
                    if not isinstance(dim, S.ArrayType.ArrayBounds):
                        raise Unsupported("non-explicit array shape of " + sym.name)
                    lo, hi = const_int(dim.lower), const_int(dim.upper)
                    if lo is None or hi is None:
                        raise Unsupported("non-literal array bound of " + sym.name)
                    d["dims"].append([lo, hi])
            is_input = sym.is_argument or (not sym.is_automatic and
                                           not sym.is_constant)
            d["init"] = "in" if is_input else "poison"
            d["arg"] = bool(sym.is_argument)
            if sym.initial_value is not None:
                if d["dims"]:
                    raise Unsupported("initialised array")
                prelude.append({"k": "assign",
                                "lhs": {"k": "ref", "name": d["name"]},
                                "rhs": self.expr(sym.initial_value)})
                d["init"] = "poison"
            out.append(d)
        return out, prelude

    @staticmethod
    def _dims(shape, name):
        _, S = _imports()
        dims = []
        for dim in shape:
            if not isinstance(dim, S.ArrayType.ArrayBounds):
                raise Unsupported("shape of " + name)
            lo, hi = const_int(dim.lower), const_int(dim.upper)
            if lo is None or hi is None:
                raise Unsupported("non-literal bound of " + name)
            dims.append([lo, hi])
        return dims

    def _flatten(self, prefix, stype, init, is_arg, pre=()):
        _, S = _imports()
        res = []
        for cname, comp in stype.components.items():
            dt = comp.datatype
            name = prefix + "%" + cname.lower()
            if isinstance(dt, S.DataTypeSymbol) and isinstance(dt.datatype, S.StructureType):
                res.extend(self._flatten(name, dt.datatype, init, is_arg, pre))
                continue
            if isinstance(dt, S.ArrayType) and isinstance(dt.intrinsic, S.DataTypeSymbol):
                if not isinstance(dt.intrinsic.datatype, S.StructureType):
                    raise Unsupported("component type of " + name)
                res.extend(self._flatten(name, dt.intrinsic.datatype, init, is_arg,
                                         list(pre) + self._dims(dt.shape, name)))
                continue
            d = {"name": name, "ty": _ty(dt), "dims": list(pre), "init": init, "arg": is_arg}
            if isinstance(dt, S.ArrayType):
                d["dims"] = list(pre) + self._dims(dt.shape, name)
            if getattr(comp, "initial_value", None) is not None:
                raise Unsupported("component initial value")
            res.append(d)
        return res

    def routine(self, routine):
        '''{"decls", "body", "subs"} of a top-level routine.'''
        decls, prelude = self.decls(routine)
        body = prelude + self.body(routine)
        for q, ty in sorted(self.imports_seen.items()):
            decls.append({"name": q, "ty": ty, "dims": [], "init": "in", "arg": False})
        for t in self._temps[-1]:       # results of hoisted function references
            decls.append({"name": t["name"], "ty": t["ty"], "dims": [],
                          "init": "poison", "arg": False})
        return {"decls": decls, "body": body, "subs": dict(self.subs)}


def merge_decls(ref_decls, new_decls):
    '''Declarations of a case whose programs are variants of one routine:
    the reference's list followed by the symbols only a later variant has
    (transformation temporaries) as undefined locals.  A symbol whose type or
    shape differs between variants makes the case unsupported.'''
    out = [dict(d) for d in ref_decls]
    byname = {d["name"]: d for d in out}
    for d in new_decls:
        o = byname.get(d["name"])
        if o is None:
            nd = dict(d)
            if nd["init"] == "in":
                raise Unsupported("variant adds an input " + d["name"])
            out.append(nd)
            byname[nd["name"]] = nd
        elif o["ty"] != d["ty"] or o["dims"] != d["dims"]:
            raise Unsupported("declaration of %s changed" % d["name"])
    return out
