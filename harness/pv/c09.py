'''C09 - OpenMP-parallelised loops compute the serial result on any schedule.

Loops of a generated family that PSyclone's OpenMP loop transformations accept
without `force` are lowered; the worksharing loop and the private /
firstprivate / schedule clauses PSyclone inferred are exported from the real
directive nodes.  TLC (SemOmp.tla) executes the loop on 1..Tmax threads with
every distribution of iterations the schedule kind allows and every
interleaving at statement granularity, on every input, and compares the shared
observables of every terminal state with the serial run; reading an undefined
private copy is an error.
'''
import itertools

from pv import core, sem
from pv.export import Unsupported

HEAD = '''subroutine s(a, b, c, idx, n, m, t, u, kout, flag)
  integer, intent(in) :: n
  integer, intent(in) :: m
  integer, intent(inout) :: kout
  real, intent(inout) :: t
  real, intent(inout) :: u
  logical, intent(in) :: flag
  real, dimension(0:9), intent(inout) :: a
  real, dimension(0:9), intent(inout) :: b
  real, dimension(0:5,0:5), intent(inout) :: c
  integer, dimension(1:4), intent(in) :: idx
  integer :: i
  integer :: j
  integer :: k
  real :: x
  real :: y
'''
TAIL = "end subroutine s\n"
DOM = [("n", [0, 1, 2, 3]), ("m", [1, 2]), ("kout", [7]), ("t", [[1, 2]]), ("u", [[3, 1]]),
       ("flag", [True, False])]
FILLS = [1, 2]
LIVE = ["a", "b", "c", "t", "u", "kout"]


def prog(body):
    return HEAD + "".join("  " + l + "\n" for l in body) + TAIL


def items(tier):
    out = []
    bodies = [
        ["a(i) = b(i) + 1.0"], ["x = b(i)", "a(i) = x"], ["x = b(i)", "y = x * 2.0", "a(i) = y + x"],
        ["if (b(i) > 0.0) x = b(i)", "a(i) = x"], ["if (flag) x = b(i)", "a(i) = x + u"],
        ["if (b(i) > 0.0) then", "  x = 1.0", "end if", "a(i) = x"],
        ["if (flag) then", "  x = b(i)", "  a(i) = x", "end if"],
        ["k = i + 1", "a(k) = b(i)"], ["a(i) = t * b(i)", "c(i,1) = a(i)"],
        ["x = b(i)", "if (flag) x = x + 1.0", "a(i) = x"],
        ["if (flag) then", "  x = 1.0", "else", "  x = 2.0", "end if", "a(i) = x"],
        ["x = 0.0", "do j = 1, m", "  x = x + c(j,i)", "end do", "a(i) = x"],
        ["do j = 1, m", "  c(i,j) = c(i,j) + 1.0", "end do"],
        ["a(i) = x", "x = b(i)"], ["a(i) = b(i)", "y = a(i)", "b(i) = y + x"],
        ["a(2*i) = b(i)"], ["a(idx(i)) = b(i)"], ["a(i) = a(i) + b(i+1)"],
        ["x = b(i)", "a(i) = x", "x = a(i) * 2.0", "c(i,2) = x"],
        ["if (b(i) > 0.0) then", "  y = b(i)", "  x = y", "end if", "a(i) = x"],
        ["k = idx(i)", "a(i) = b(k)"], ["t = b(i)", "a(i) = t"], ["a(i) = real(kout)"],
        # array sections in a dimension without the loop variable
        ["c(1:3,i) = c(2:4,i-1) + 1.0"], ["c(1:3,i) = c(1:3,i) * 2.0"], ["c(0:2,i) = c(3:5,i) + b(i)"],
        ["c(i,1:3) = c(i-1,2:4)"], ["c(1:2,i) = a(i)", "c(3:4,i) = c(1:2,i)"],
    ]
    pres = [["x = 0.5", "y = 0.25", "k = 1"]]
    for k, b in enumerate(bodies):
        for lo, hi, st in [("1", "n", ""), ("n", "1", ", -1")] if tier != "quick" or k % 3 == 0 \
                else [("1", "n", "")]:
            out.append((f"b{k}|{lo},{hi}{st}|{';'.join(b)}",
                        prog(pres[0] + [f"do i = {lo}, {hi}{st}"] + ["  " + s for s in b] +
                             ["end do", "u = u + 1.0"])))
    # two worksharing loops in one parallel region (private copies live across both)
    pairs = [(["x = b(i)", "a(i) = x"], ["c(i,1) = a(i) + 1.0"]),
             (["x = b(i)", "a(i) = x"], ["c(i,1) = x"]),
             (["a(i) = b(i) * 2.0"], ["b(i) = a(i) + a(i-1)"]),
             (["a(i) = b(i) * 2.0"], ["x = a(i)", "c(i,2) = x + t"]),
             (["k = i + 1", "a(k) = b(i)"], ["k = i", "c(k,1) = a(k)"]),
             (["if (b(i) > 0.0) x = b(i)", "a(i) = x"], ["b(i) = a(i)"]),
             (["y = b(i)", "a(i) = y"], ["y = a(i) + y", "c(i,1) = y"]),
             (["a(i) = real(i)"], ["t = a(i)", "c(i,3) = t"]),
             (["a(i) = x + b(i)"], ["x = b(i)", "c(i,1) = x"]),
             (["a(i) = y"], ["y = b(i) * 2.0", "c(i,2) = y", "x = y"])]
    for k, (b1, b2) in enumerate(pairs):
        out.append((f"two{k}|1,n|{';'.join(b1)}||{';'.join(b2)}",
                    prog(pres[0] + ["do i = 1, n"] + ["  " + s for s in b1] + ["end do", "do i = 1, n"] +
                         ["  " + s for s in b2] + ["end do", "u = u + 1.0"])))
    return out


VARIANTS = ["paralleldo", "parallel+do", "parallel+do:static", "paralleldo:dynamic"]


def _clause_names(directive, cls):
    res = []
    for ch in directive.children:
        if type(ch).__name__ == cls:
            res += [r.symbol.name.lower() for r in ch.children]
    return res


def _build(item):
    from psyclone.psyir.nodes import Loop, OMPParallelDoDirective, OMPParallelDirective, \
        OMPDoDirective, Routine
    from psyclone.psyir.transformations import TransformationError
    from psyclone.transformations import OMPParallelLoopTrans, OMPParallelTrans, OMPLoopTrans
    pid, src = item
    out = []
    for variant in VARIANTS:
        cid = f"{pid}#{variant}"
        psy = sem.parse(src)
        r = sem.routine_named(psy, "s")
        try:
            serial = sem.Exporter().routine(r)
        except Unsupported as err:
            out.append({"id": cid, "status": "unsupported", "why": "ref: " + str(err)})
            continue
        loops = [lp for lp in r.children if isinstance(lp, Loop)]
        loop = loops[0]
        kind, _, sched = variant.partition(":")
        try:
            if kind == "paralleldo":
                if len(loops) > 1:
                    raise TransformationError("two-loop programs use the region variants")
                OMPParallelLoopTrans(omp_schedule=sched or "auto").apply(loop)
            else:
                for lp in loops:
                    OMPLoopTrans(omp_schedule=sched or "auto").apply(lp)
                first, last = loops[0].parent.parent, loops[-1].parent.parent
                OMPParallelTrans().apply(first.parent.children[first.position:last.position + 1])
        except TransformationError:
            out.append({"id": cid, "status": "refused"})
            continue
        except Exception as err:   # noqa
            out.append({"id": cid, "status": "crash", "why": f"{type(err).__name__}: {err}"[:200]})
            continue
        try:
            psy.lower_to_language_level()
            text = sem.write(psy)
            tops = r.children
            dpos = [k for k, n in enumerate(tops)
                    if isinstance(n, (OMPParallelDoDirective, OMPParallelDirective))]
            if len(dpos) != 1:
                raise Unsupported("directive not at the top level of the routine")
            d = tops[dpos[0]]
            if isinstance(d, OMPParallelDoDirective):
                dos = [d]
            else:
                dos = list(d.dir_body.children)
                if not dos or not all(isinstance(x, OMPDoDirective) for x in dos):
                    raise Unsupported("parallel region does not consist of omp do loops only")
            ex = sem.Exporter()
            decls, prelude = ex.decls(r)
            pre = prelude + [s for n in tops[:dpos[0]] for s in _aslist(ex.stmt(n))]
            post = [s for n in tops[dpos[0] + 1:] for s in _aslist(ex.stmt(n))]
            eloops, scheds = [], set()
            for do in dos:
                if len(do.dir_body.children) != 1 or not isinstance(do.dir_body.children[0], Loop):
                    raise Unsupported("omp do does not own exactly one loop")
                if getattr(do, "collapse", None):
                    raise Unsupported("collapse")
                if getattr(do, "nowait", False):
                    raise Unsupported("nowait")
                if do.reductions() if hasattr(do, "reductions") and callable(do.reductions) else False:
                    raise Unsupported("reduction clause")
                eloops.append(ex.stmt(do.dir_body.children[0]))
                scheds.add(str(getattr(do, "omp_schedule", "auto")))
            eloop = eloops[0]
            private = _clause_names(d, "OMPPrivateClause")
            fpriv = _clause_names(d, "OMPFirstprivateClause")
            sch = "static" if all(x.startswith("static") for x in scheds) else "auto"
        except Unsupported as err:
            out.append({"id": cid, "status": "unsupported", "why": str(err)})
            continue
        for dd in decls:
            if dd["name"] == "idx":
                dd["data"] = [[2, 1, 4, 3], [1, 1, 2, 2]]
        names = {x["name"] for x in decls}
        lvars = {lp["var"] for lp in eloops}
        live = [x for x in LIVE if x in names and x not in private and x not in fpriv
                and x not in lvars]
        case = {"id": cid, "decls": sem.merge_decls(serial["decls"], decls),
                "dom": [[n, v] for n, v in DOM if n in names], "fills": FILLS, "live": live,
                "subs": {"#none": {"formals": [], "locals": [], "body": []}},
                "serial": serial["body"], "pre": pre, "post": post, "loops": eloops,
                "private": [p for p in private if p not in lvars], "firstprivate": fpriv,
                "sched": "static" if str(sch).startswith("static") else "any",
                "tmax": 3 if _TIER[0] == "thorough" else 2}
        for dd in case["decls"]:
            if dd["name"] == "idx":
                dd["data"] = [[2, 1, 4, 3], [1, 1, 2, 2]]
        out.append({"id": cid, "status": "accepted", "case": case, "src": src, "after": text,
                    "private": private, "firstprivate": fpriv, "variant": variant})
    return out


_TIER = ["quick"]


def _aslist(st):
    return st if isinstance(st, list) else [st]


# ------------------------------------------------------------ known findings
def m_conditional_firstprivate(rec, clause, detail, finding):
    '''a scalar written only under a condition before being read is made
    firstprivate: a thread sees its own last value (or the value from before
    the loop) instead of the one the previous iteration left'''
    if clause != "SameShared":
        return False
    body = rec["id"].split("|", 2)[2]
    return bool(rec["firstprivate"]) and "if (" in body


def _first_access_is_read(body, name):
    '''True if, scanning the statements in order, name is read before it is written'''
    def mentions(e):
        if isinstance(e, dict):
            if e.get("k") in ("ref", "aref") and e.get("name") == name:
                return True
            return any(mentions(v) for v in e.values())
        if isinstance(e, list):
            return any(mentions(v) for v in e)
        return False
    for st in body:
        if st["k"] == "assign":
            if mentions(st["rhs"]) or mentions(st["lhs"].get("idx", [])):
                return True
            if st["lhs"].get("name") == name:
                return False
        elif mentions(st):
            return True
    return False


def m_private_read_in_later_loop(rec, clause, detail, finding):
    '''a scalar that is private for the whole parallel region is written in one
    worksharing loop and read (before any write) in a later loop of the same region:
    the later loop sees the thread's own or an undefined copy, not the serial value'''
    return clause in ("SameShared", "NoUndefinedRead") and bool(rec.get("private_read_later"))


MATCHERS = {"conditionally-written-scalar-firstprivate": m_conditional_firstprivate,
            "private-scalar-read-in-later-loop": m_private_read_in_later_loop}


def run(tier):
    core.setup_psyclone_env()
    out = core.Outcome("C09", tier, "model_checking", matchers=MATCHERS)
    _TIER[0] = tier
    results = [r for part in core.pool_map(_build, items(tier), chunksize=1) for r in part]
    stat = {}
    for r in results:
        stat[r["status"]] = stat.get(r["status"], 0) + 1
    if stat.get("unsupported", 0) > 0.2 * max(1, len(results)):
        raise core.MachineryError(f"too many unsupported: {stat} " + str(sorted(
            {r['why'] for r in results if r['status'] == 'unsupported'})[:5]))
    acc = [r for r in results if r["status"] == "accepted"]
    res = sem.run_equiv([r["case"] for r in acc], spec="SemOmp.tla", cfg="SemOmp.cfg", batch=100)
    for r in acc:
        fails = res.fails.get(r["id"], [])
        for clause in sorted({f[0] for f in fails}):
            w = [f[1] for f in fails if f[0] == clause][0]
            later = [p for p in r["case"]["private"]
                     if any(_first_access_is_read(lp["body"], p) for lp in r["case"]["loops"][1:])]
            slim = {"id": r["id"], "source": r["src"], "after": r["after"], "private": r["private"],
                    "firstprivate": r["firstprivate"], "private_read_later": later}
            out.violation(slim, clause, {"input": w["val"], "fill": w["fm"], "threads": w["T"],
                                         "owner": w["owner"], "witness": w["x"],
                                         "n_failing_states": len(fails)})
    cov = {"states": res.states, "transitions": res.transitions,
           "traces_validated_against_impl": len(acc), "evaluations": len(results),
           "distinct_nontrivial": len(acc) - sum(1 for r in acc if res.discards.get(r["id"], 0) >=
                                                 2 * sem.n_inputs(r["case"])),
           "rule": ("one case = (generated loop, OpenMP transformation variant); non-trivial = accepted "
                    "without force, lowered, and executed on threads 1..2 with every iteration "
                    "distribution and statement-level interleaving"),
           "status_counts": stat, "discarded_ub_inputs": sum(res.discards.values()),
           "samples": [{"id": r["id"], "after": r["after"]} for r in acc[:: max(1, len(acc) // 4)][:4]],
           "exhaustive": False}
    return out.finish(cov, assumptions=[
        "threads 1..2 (1..3 in the thorough tier), trip counts 0..3, top-level statements of the loop body are atomic steps",
        "schedule(static): contiguous blocks in thread order; other kinds: any distribution",
        "the value of private/firstprivate scalars after the region is excluded (documented limitation)",
        "the directive sits at the top level of the routine and owns exactly one loop"])
