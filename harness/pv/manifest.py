'''Generates /verif/MANIFEST.json from the table below (bin/verif manifest).'''
import json
import os

from pv import core

BASELINE_CMD = ("cd /repo && env -u SVALAT_PSYCLONE_VERIF /venv/bin/python -m pytest "
                "-ra -q -p no:cacheprovider --timeout=900 "
                "--continue-on-collection-errors")

# property -> dict(level, text, note, technique, design_ref, engine)
CHECKS = {
    "C27": dict(
        level="model_checking",
        text=("ModuleSort.tla (Pick actions, cyclic fallback) is model-checked for every "
              "dependency map over 3 modules (4 in thorough) with Permutation / DepsFirst / "
              "NoStuck invariants; every dependency map over <=4 modules (self and unknown "
              "dependencies included, 2^20+2^12 maps) and 1/8 of the 2^20 5-module maps "
              "(all of them, plus 2^25 maps with an unknown name, in thorough) is fed to "
              "the real sort_modules and the returned list is validated by TLC as a "
              "behaviour of Pick (trace validation), incl. input-not-mutated."),
        note=("Trusted: the bit-matrix decoding shared by Python and TLA+; dict insertion "
              "order fixed in quick tier. Exhaustive within n<=5, nothing beyond."),
        technique="TLA+ spec + TLC exhaustive model checking + TLC trace validation of real outputs",
        design_ref="DESIGN.md section 4 C27, F.5", engine="ModuleSort"),
}

SEM_NOTE = ("Trusted: the PSyIR->pv-ast exporter (fails closed: unsupported cases are counted, "
            "never judged), the FortranSem.tla semantics itself (exact rationals, no rounding), the "
            "bounded input domain stated in the evidence. Known genuine defects are listed in "
            "findings.d/<id>.json and printed as KNOWN-FINDING; any other failing shape exits 1.")
SEM_TECH = ("TLA+ operational semantics (FortranSem.tla) executed by TLC on (before, after) programs "
            "exported from the real PSyIR: translation validation by model checking over all inputs "
            "of a bounded domain")
CHECKS["C05"] = dict(
    level="model_checking",
    text=("Every accepted application of the 8 generic loop transformations (fuse, swap, chunk, 2D "
          "tiling, hoist, loop-bound hoist, induction-variable replacement, conditional-return "
          "folding) on a generated family of ~900 routines (bounds/steps incl. zero-trip and "
          "negative, subscript and statement grids) is exported before/after from the real PSyIR and "
          "both programs are executed by TLC under FortranSem.tla on every input of the domain "
          "(n in -1..4, m in 1..3, 2 array fills): clauses SameObservable and NoNewUndefined."),
    note=SEM_NOTE, technique=SEM_TECH, design_ref="DESIGN.md section 4 C05, 2.1", engine="FortranSem")
CHECKS["C06"] = dict(
    level="model_checking",
    text=("Every accepted application of ArrayAssignment2Loops, Reference2ArrayRange, (All)ArrayAccess2Loop, "
          "ABS/SIGN/MIN/MAX/DOT_PRODUCT/MATMUL to code and SUM/PRODUCT/MINVAL/MAXVAL to loops (alone and "
          "after Reference2ArrayRange) on ~200 generated statements (overlapping, strided, empty and "
          "non-unit-lower-bound sections, broadcasts, masks) is executed before/after by TLC under "
          "FortranSem.tla, whose array assignment evaluates the whole RHS before storing, on every input "
          "of the domain."),
    note=SEM_NOTE, technique=SEM_TECH, design_ref="DESIGN.md section 4 C06, 2.1", engine="FortranSem")

CHECKS["C08"] = dict(
    level="model_checking",
    text=("DependencyTools.can_loop_be_parallelised is asked (under a CPU-time alarm: clause Answers) about "
          "every loop of ~280 generated routines (write x read subscript grid incl. i/2, mod, index "
          "arrays, n-i; conditional/unconditional scalar writes, reductions, nests, other steps, "
          "variables named d_<var>); TLC executes each loop under FortranSem.tla with per-iteration "
          "read/write location sets on every input (SemAccess.tla) and checks: verdict true => no two "
          "iterations of one loop execution conflict, except scalars every iteration writes before reading."),
    note=SEM_NOTE, technique=("TLA+ operational semantics with access tracking executed by TLC; the real "
                              "analysis verdict is validated against the Bernstein conditions of all "
                              "executions in the bounded input domain"),
    design_ref="DESIGN.md section 4 C08", engine="FortranSem")

ACC_TECH = ("TLA+ operational semantics with access tracking (FortranSem.tla track records) executed by "
            "TLC on every input of a bounded domain; the sets the real analysis reports are validated "
            "against the locations actually read/written (SemAccess.tla)")
CHECKS["C11"] = dict(
    level="model_checking",
    text=("For every statement (assignments incl. sections/intrinsics/index arrays, loops, IFs, WHILE, calls "
          "to interpreted routines with out/inout dummies, intrinsic subroutines) of generated routines the "
          "signatures VariablesAccessInfo reports are compared by TLC with the variables every execution of "
          "that statement actually reads / writes under FortranSem.tla, for all inputs of the domain; plus "
          "reads-before-write order in the target's access list."),
    note=SEM_NOTE + " Name-level comparison; the family has no structure components yet.",
    technique=ACC_TECH, design_ref="DESIGN.md section 4 C11", engine="FortranSem")
CHECKS["C12"] = dict(
    level="model_checking",
    text=("For every region of 1-4 consecutive statements of generated routines (partial array writes, "
          "conditional and zero-trip writes, index arrays) the input/output lists of "
          "CallTreeUtils.get_in_out_parameters and the ProvideVariable calls written by an applied ExtractTrans "
          "are validated by TLC: upward-exposed reads are inputs, writes are outputs, and the replay clause "
          "(region re-executed with everything but the inputs undefined reproduces the outputs)."),
    note=SEM_NOTE, technique=ACC_TECH, design_ref="DESIGN.md section 4 C12", engine="FortranSem")

CHECKS["C16"] = dict(
    level="model_checking",
    text=("SymTab.tla models 4 tables (container > routine > loop scope + a foreign table), symbols with "
          "class/interface/dependency, 15 public operations each as Success(effect) or Refuse; TLC enumerates "
          "every reachable abstract state with its complete operation alphabet (plus -simulate histories of "
          "20 steps); every (state, operation) is applied to REAL SymbolTable objects built in that state and "
          "the recorded (pre, op, outcome, result, post) tuples are validated by TLC against the property "
          "relation SymTab!Verdict (RefusalAtomic, UniqueNormalisedNames, TagsPointIntoScope, LookupInnermost, "
          "FreshNameNoClash, MergeExactlyOnce); the model's own transitions satisfy the same relation."),
    note=("Trusted: the projection of real tables to the abstract state (c16_world.py). Exhaustive for depth-1 "
          "histories from 2 rich initial states (quick), sampled beyond. Known defects in findings.d/C16.json."),
    technique="TLA+ state machine + TLC enumeration replayed on the real objects + TLC trace validation",
    design_ref="DESIGN.md section 4 C16, F.2", engine="SymTab")
CHECKS["C18"] = dict(
    level="model_checking",
    text=("FreeForm.tla specifies free-form source form (character context, comments, continuation with and "
          "without leading &, directive sentinels, PSyclone's !& comment continuation) with Join and Tokens; a "
          "nondeterministic reference wrapper is model-checked (Join o Wrap = identity at token level, MaxLen, "
          "idempotence) for all lines over a 7-character alphabet; 7k generated lines x 8 limits (all 93 in "
          "thorough) are wrapped by the real FortLineLength and TLC validates each (input, output, second "
          "pass, exception) record: MaxLen, SameProgram, Idempotent, NeverFails."),
    note=("Trusted: token abstraction (blanks between tokens insignificant, case significant); generated "
          "family, exhaustive only for the tiny-alphabet design model. Known defects in findings.d/C18.json."),
    technique="TLA+ spec + TLC exhaustive model checking + TLC trace validation of real outputs",
    design_ref="DESIGN.md section 4 C18, F.8", engine="FreeForm")

CHECKS["C07"] = dict(
    level="model_checking",
    text=("InlineTrans is applied to every call (and call sequence) of ~40 generated caller/callee pairs "
          "(element actuals whose index the callee modifies, sections, whole arrays with other lower bounds, "
          "assumed shape, expression actuals, clashing locals, module variables); accepted results are "
          "executed before/after by TLC under FortranSem.tla, whose CALL binds dummies to the caller's "
          "storage at the call, on every input of the domain."),
    note=SEM_NOTE, technique=SEM_TECH, design_ref="DESIGN.md section 4 C07", engine="FortranSem")

CHECKS["C14"] = dict(
    level="model_checking",
    text=("PSyIRTree.tla: nodes with kinds, children/parent, ValidAt transcribed from the documented "
          "_children_valid_format strings, 17 public editing calls with Python list index semantics, each "
          "Success(effect and WellFormed') or Refuse(UNCHANGED); TLC enumerates all histories (bound 2-3) over "
          "8 universes of 5-6 nodes incl. structural twins and ancestors as candidate children, indices "
          "-(len+2)..len+2, and dumps every labelled transition; each is replayed on REAL PSyIR nodes and the "
          "recorded (pre, call, outcome, post) tuples are validated by TLC (raised => unchanged; returned => "
          "ParentChildAgree, ValidAtPosition, Acyclic), plus 1350 generated histories of 30 calls."),
    note=("Trusted: projection of real nodes (c14_real.py). Exhaustive within the stated universes and "
          "history bounds. Eight genuine defect shapes are listed in findings.d/C14.json."),
    technique="TLA+ state machine + TLC exhaustive exploration, every transition replayed on the real objects and validated by TLC",
    design_ref="DESIGN.md section 4 C14, F.1", engine="PSyIRTree")
CHECKS["C22"] = dict(
    level="model_checking",
    text=("LFRicHalo.tla: per field component the true state (annexed ok, halo clean to depth) and the "
          "recorded flag; steps = items of a generated PSy layer (guarded/unguarded/async halo exchanges, "
          "cell/dof loops with bound kind and depth, set_dirty/set_clean); truth rules transcribed from the "
          "developer guide. Design-level protocol model-checked; ~7000 real generated PSy layers (all LFRic "
          "test algorithms x both annexed settings x transformation histories <= 2 of redundant computation, "
          "colouring+OMP, async halo exchange) are itemised from the generated Fortran and TLC runs each step "
          "sequence from every initial truth/flag state, depth H in 1..3 and stencil extent: NoDirtyRead, "
          "FlagSound, AnnexedStayClean."),
    note=("Trusted: the itemiser of generated Fortran (fails closed: unsupported counted) and the "
          "transcription of the developer-guide rules. Two genuine defect shapes in findings.d/C22.json."),
    technique="TLA+ run-time halo model; TLC trace validation of itemised generated code from all initial states",
    design_ref="DESIGN.md section 4 C22, F.3", engine="LFRicHalo")
CHECKS["C28"] = dict(
    level="model_checking",
    text=("Every consecutive-statement placement (top level and inside loop/IF bodies, named and unnamed, and "
          "histories of two placements) of ProfileTrans, ExtractTrans, NanTestTrans, ReadOnlyVerifyTrans on "
          "generated routines with EXIT/CYCLE/RETURN at every position; accepted placements are lowered by "
          "PSyclone, the PreStart/PostEnd calls of the written code are exported as events and TLC executes "
          "the program under FortranSem.tla on every path (conditions and trip counts are inputs): the "
          "event log is well nested, closed at the end, names unique (SemRegion.tla)."),
    note=SEM_NOTE + " GOTO is not in the family.",
    technique="TLA+ operational semantics executed by TLC on all paths of the lowered program; event-log invariants",
    design_ref="DESIGN.md section 4 C28", engine="FortranSem")

CHECKS["C09"] = dict(
    level="model_checking",
    text=("Loops of a generated family that OMPParallelLoopTrans / OMPLoopTrans+OMPParallelTrans accept without "
          "force are lowered; the loop and the private/firstprivate/schedule clauses PSyclone inferred are "
          "exported from the real directive nodes. SemOmp.tla executes the loop on 1..2 threads (per-thread "
          "cells for private/firstprivate/loop variable, shared store otherwise) with every iteration "
          "distribution the schedule kind allows and every statement-level interleaving, for every input; "
          "invariants: every terminal state has the serial run's shared observables, no undefined private "
          "is read."),
    note=SEM_NOTE + " Bounds: trip count <= 3, 2 threads, top-level statements of the body atomic.",
    technique="TLA+ OpenMP data-sharing semantics; TLC explores all schedules/interleavings of the exported real directive",
    design_ref="DESIGN.md section 4 C09, F.11", engine="FortranSem")

CHECKS["C13"] = dict(
    level="model_checking",
    text=("ACCDataTrans (alone and around ACCKernelsTrans regions) is applied to every range of consecutive "
          "top-level statements of generated routines; the copyin/copyout/copy clauses of the real directive "
          "node are exported and TLC executes host program and data-region program under FortranSem.tla, "
          "where the region body runs against separate device copies of the clause arrays (copyout copies "
          "start undefined), on every input: host arrays equal, no undefined device read, no undefined "
          "element copied back over host data."),
    note=SEM_NOTE, technique=SEM_TECH + " with a separate device store for OpenACC data regions",
    design_ref="DESIGN.md section 4 C13, F.11", engine="FortranSem")

NOT_YET = {}

ALL = [f"C{i:02d}" for i in range(1, 30)]


def build():
    checks = []
    for pid in ALL:
        if pid not in CHECKS:
            continue
        c = CHECKS[pid]
        checks.append({
            "property_id": pid,
            "quick_cmd": f"bin/verif check {pid} --tier quick",
            "thorough_cmd": f"bin/verif check {pid} --tier thorough",
            "evidence_file": f"/verif/evidence/{pid}.json",
            "replay_cmd_template": "bin/verif replay {path}",
            "engine": c.get("engine", ""),
            "level_claimed": {"category": c["level"], "text": c["text"],
                              "design_ref": c.get("design_ref", "DESIGN.md section 4")},
            "level_note": c["note"],
            "technique": c["technique"],
        })
    na = [{"property_id": pid,
           "reason": NOT_YET.get(pid, "check not built yet in this session; see DESIGN.md section 8 for the construction order")}
          for pid in ALL if pid not in CHECKS]
    man = {
        "version": 1,
        "setup_cmd": "bin/verif setup",
        "hooks": {"guard": core.GUARD,
                  "enable": ("no source hooks: recorders are installed by the harness "
                             "(monkeypatching) when SVALAT_PSYCLONE_VERIF=1; PSyclone is "
                             "imported from /repo/src on every run"),
                  "baseline_off_cmd": BASELINE_CMD,
                  "source_commits": [],
                  "add_only": True},
        "engines": [],
        "checks": checks,
        "notes": "All checks: bin/verif check <id> --tier quick|thorough; exit 0/1/2 as in DESIGN.md 1.2.",
        "not_applicable": na,
    }
    return man


def run():
    man = build()
    path = os.path.join(core.VERIF, "MANIFEST.json")
    with open(path, "w") as f:
        json.dump(man, f, indent=1)
    try:
        import jsonschema
        with open("/root/.vp/MANIFEST.schema.json") as f:
            jsonschema.validate(man, json.load(f))
        print("MANIFEST.json written and valid:", len(man["checks"]), "checks")
    except ImportError:
        print("MANIFEST.json written (jsonschema not available)")
    return 0
