'''Generates /verif/MANIFEST.json from the table below (bin/verif manifest).'''
import json
import os

from pv import core

BASELINE_CMD = ("cd /repo && env -u SVALAT_PSYCLONE_VERIF /venv/bin/python -m pytest "
                "-ra -q -p no:cacheprovider --timeout=900 "
                "--continue-on-collection-errors")

# property -> dict(level, text, note, technique, design_ref, engine)
CHECKS = {
    "C27": dict(
        level="model_checking",
        text=("ModuleSort.tla (Pick actions, cyclic fallback) is model-checked for every "
              "dependency map over 3 modules (4 in thorough) with Permutation / DepsFirst / "
              "NoStuck invariants; every dependency map over <=4 modules (self and unknown "
              "dependencies included, 2^20+2^12 maps) and 1/8 of the 2^20 5-module maps "
              "(all of them, plus every 4th of the 2^25 maps with an unknown name, in thorough) is fed to "
              "the real sort_modules and the returned list is validated by TLC as a "
              "behaviour of Pick (trace validation), incl. input-not-mutated."),
        note=("Trusted: the bit-matrix decoding shared by Python and TLA+; dict insertion "
              "order fixed in quick tier. Exhaustive within n<=5, nothing beyond."),
        technique="TLA+ spec + TLC exhaustive model checking + TLC trace validation of real outputs",
        design_ref="DESIGN.md section 4 C27, F.5", engine="ModuleSort"),
}

SEM_NOTE = ("Trusted: the PSyIR->pv-ast exporter (fails closed: unsupported cases are counted, "
            "never judged), the FortranSem.tla semantics itself (exact rationals, no rounding), the "
            "bounded input domain stated in the evidence. Known genuine defects are listed in "
            "findings.d/<id>.json and printed as KNOWN-FINDING; any other failing shape exits 1.")
SEM_TECH = ("TLA+ operational semantics (FortranSem.tla) executed by TLC on (before, after) programs "
            "exported from the real PSyIR: translation validation by model checking over all inputs "
            "of a bounded domain")
CHECKS["C05"] = dict(
    level="model_checking",
    text=("Every accepted application of the 8 generic loop transformations (fuse, swap, chunk, 2D "
          "tiling, hoist, loop-bound hoist, induction-variable replacement, conditional-return "
          "folding) on a generated family of ~900 routines (bounds/steps incl. zero-trip and "
          "negative, subscript and statement grids) is exported before/after from the real PSyIR and "
          "both programs are executed by TLC under FortranSem.tla on every input of the domain "
          "(n in -1..4, m in 1..3, 2 array fills): clauses SameObservable and NoNewUndefined."),
    note=SEM_NOTE, technique=SEM_TECH, design_ref="DESIGN.md section 4 C05, 2.1", engine="FortranSem")
CHECKS["C06"] = dict(
    level="model_checking",
    text=("Every accepted application of ArrayAssignment2Loops, Reference2ArrayRange, (All)ArrayAccess2Loop, "
          "ABS/SIGN/MIN/MAX/DOT_PRODUCT/MATMUL to code and SUM/PRODUCT/MINVAL/MAXVAL to loops (alone and "
          "after Reference2ArrayRange) on ~200 generated statements (overlapping, strided, empty and "
          "non-unit-lower-bound sections, broadcasts, masks) is executed before/after by TLC under "
          "FortranSem.tla, whose array assignment evaluates the whole RHS before storing, on every input "
          "of the domain."),
    note=SEM_NOTE, technique=SEM_TECH, design_ref="DESIGN.md section 4 C06, 2.1", engine="FortranSem")

CHECKS["C08"] = dict(
    level="model_checking",
    text=("DependencyTools.can_loop_be_parallelised is asked (under a CPU-time alarm: clause Answers) about "
          "every loop of ~280 generated routines (write x read subscript grid incl. i/2, mod, index "
          "arrays, n-i; conditional/unconditional scalar writes, reductions, nests, other steps, "
          "variables named d_<var>); TLC executes each loop under FortranSem.tla with per-iteration "
          "read/write location sets on every input (SemAccess.tla) and checks: verdict true => no two "
          "iterations of one loop execution conflict, except scalars every iteration writes before reading."),
    note=SEM_NOTE, technique=("TLA+ operational semantics with access tracking executed by TLC; the real "
                              "analysis verdict is validated against the Bernstein conditions of all "
                              "executions in the bounded input domain"),
    design_ref="DESIGN.md section 4 C08", engine="FortranSem")

ACC_TECH = ("TLA+ operational semantics with access tracking (FortranSem.tla track records) executed by "
            "TLC on every input of a bounded domain; the sets the real analysis reports are validated "
            "against the locations actually read/written (SemAccess.tla)")
CHECKS["C11"] = dict(
    level="model_checking",
    text=("For every statement (assignments incl. sections/intrinsics/index arrays, loops, IFs, WHILE, calls "
          "to interpreted routines with out/inout dummies, intrinsic subroutines) of generated routines the "
          "signatures VariablesAccessInfo reports are compared by TLC with the variables every execution of "
          "that statement actually reads / writes under FortranSem.tla, for all inputs of the domain; plus "
          "reads-before-write order in the target's access list."),
    note=SEM_NOTE + " Name-level comparison; the family has no structure components yet.",
    technique=ACC_TECH, design_ref="DESIGN.md section 4 C11", engine="FortranSem")
CHECKS["C12"] = dict(
    level="model_checking",
    text=("For every region of 1-4 consecutive statements of generated routines (partial array writes, "
          "conditional and zero-trip writes, index arrays) the input/output lists of "
          "CallTreeUtils.get_in_out_parameters and the ProvideVariable calls written by an applied ExtractTrans "
          "are validated by TLC: upward-exposed reads are inputs, writes are outputs, and the replay clause "
          "(region re-executed with everything but the inputs undefined reproduces the outputs)."),
    note=SEM_NOTE, technique=ACC_TECH, design_ref="DESIGN.md section 4 C12", engine="FortranSem")

CHECKS["C16"] = dict(
    level="model_checking",
    text=("SymTab.tla models 4 tables (container > routine > loop scope + a foreign table), symbols with "
          "class/interface/dependency, 15 public operations each as Success(effect) or Refuse; TLC enumerates "
          "every reachable abstract state with its complete operation alphabet (plus -simulate histories of "
          "20 steps); every (state, operation) is applied to REAL SymbolTable objects built in that state and "
          "the recorded (pre, op, outcome, result, post) tuples are validated by TLC against the property "
          "relation SymTab!Verdict (RefusalAtomic, UniqueNormalisedNames, TagsPointIntoScope, LookupInnermost, "
          "FreshNameNoClash, MergeExactlyOnce); the model's own transitions satisfy the same relation. The state "
          "includes Calls in the routine body and generic-interface membership (a referenced RoutineSymbol makes "
          "remove/swap a refusal). Second binding (code to spec): a recorder over the repository's own tests, "
          "validated with Trace_SymTab_Local.tla."),
    note=("Trusted: the projection of real tables to the abstract state (c16_world.py). Exhaustive for depth-1 "
          "histories from 2 rich initial states (quick), sampled beyond. Known defects in findings.d/C16.json."),
    technique="TLA+ state machine + TLC enumeration replayed on the real objects + TLC trace validation",
    design_ref="DESIGN.md section 4 C16, F.2", engine="SymTab")
CHECKS["C18"] = dict(
    level="model_checking",
    text=("FreeForm.tla specifies free-form source form (character context, comments, continuation with and "
          "without leading &, directive sentinels, PSyclone's !& comment continuation) with Join and Tokens; a "
          "nondeterministic reference wrapper is model-checked (Join o Wrap = identity at token level, MaxLen, "
          "idempotence) for all lines over a 7-character alphabet; 7k generated lines x 8 limits (all 93 in "
          "thorough) are wrapped by the real FortLineLength and TLC validates each (input, output, second "
          "pass, exception) record: MaxLen, SameProgram, Idempotent, NeverFails."),
    note=("Trusted: token abstraction (blanks between tokens insignificant, case significant); generated "
          "family, exhaustive only for the tiny-alphabet design model. Known defects in findings.d/C18.json."),
    technique="TLA+ spec + TLC exhaustive model checking + TLC trace validation of real outputs",
    design_ref="DESIGN.md section 4 C18, F.8", engine="FreeForm")

CHECKS["C07"] = dict(
    level="model_checking",
    text=("InlineTrans is applied to every call (and call sequence) of ~40 generated caller/callee pairs "
          "(element actuals whose index the callee modifies, sections, whole arrays with other lower bounds, "
          "assumed shape, expression actuals, clashing locals, module variables); accepted results are "
          "executed before/after by TLC under FortranSem.tla, whose CALL binds dummies to the caller's "
          "storage at the call, on every input of the domain."),
    note=SEM_NOTE, technique=SEM_TECH, design_ref="DESIGN.md section 4 C07", engine="FortranSem")

CHECKS["C14"] = dict(
    level="model_checking",
    text=("PSyIRTree.tla: nodes with kinds, children/parent, ValidAt transcribed from the documented "
          "_children_valid_format strings, 17 public editing calls with Python list index semantics, each "
          "Success(effect and WellFormed') or Refuse(UNCHANGED); TLC enumerates all histories (bound 2-3) over "
          "8 universes of 5-6 nodes incl. structural twins and ancestors as candidate children, indices "
          "-(len+2)..len+2, and dumps every labelled transition; each is replayed on REAL PSyIR nodes and the "
          "recorded (pre, call, outcome, post) tuples are validated by TLC (raised => unchanged; returned => "
          "ParentChildAgree, ValidAtPosition, Acyclic), plus 1350 generated histories of 30 calls."),
    note=("Trusted: projection of real nodes (c14_real.py). Exhaustive within the stated universes and "
          "history bounds. Eight genuine defect shapes are listed in findings.d/C14.json."),
    technique="TLA+ state machine + TLC exhaustive exploration, every transition replayed on the real objects and validated by TLC",
    design_ref="DESIGN.md section 4 C14, F.1", engine="PSyIRTree")
CHECKS["C22"] = dict(
    level="model_checking",
    text=("LFRicHalo.tla: per field component the true state (annexed ok, halo clean to depth) and the "
          "recorded flag; steps = items of a generated PSy layer (guarded/unguarded/async halo exchanges, "
          "cell/dof loops with bound kind and depth, set_dirty/set_clean); truth rules transcribed from the "
          "developer guide. Design-level protocol model-checked; ~7000 real generated PSy layers (all LFRic "
          "test algorithms x both annexed settings x transformation histories <= 2 of redundant computation, "
          "colouring+OMP, async halo exchange) are itemised from the generated Fortran and TLC runs each step "
          "sequence from every initial truth/flag state, depth H in 1..3 and stencil extent: NoDirtyRead, "
          "FlagSound, AnnexedStayClean."),
    note=("Trusted: the itemiser of generated Fortran (fails closed: unsupported counted) and the "
          "transcription of the developer-guide rules. Two genuine defect shapes in findings.d/C22.json."),
    technique="TLA+ run-time halo model; TLC trace validation of itemised generated code from all initial states",
    design_ref="DESIGN.md section 4 C22, F.3", engine="LFRicHalo")
CHECKS["C28"] = dict(
    level="model_checking",
    text=("Every consecutive-statement placement (top level and inside loop/IF bodies, named and unnamed, and "
          "histories of two placements) of ProfileTrans, ExtractTrans, NanTestTrans, ReadOnlyVerifyTrans on "
          "generated routines with EXIT/CYCLE/RETURN at every position; accepted placements are lowered by "
          "PSyclone, the PreStart/PostEnd calls of the written code are exported as events and TLC executes "
          "the program under FortranSem.tla on every path (conditions and trip counts are inputs): the "
          "event log is well nested, closed at the end, names unique (SemRegion.tla)."),
    note=SEM_NOTE + " GOTO is not in the family.",
    technique="TLA+ operational semantics executed by TLC on all paths of the lowered program; event-log invariants",
    design_ref="DESIGN.md section 4 C28", engine="FortranSem")

CHECKS["C09"] = dict(
    level="model_checking",
    text=("Loops of a generated family that OMPParallelLoopTrans / OMPLoopTrans+OMPParallelTrans accept without "
          "force are lowered; the loop and the private/firstprivate/schedule clauses PSyclone inferred are "
          "exported from the real directive nodes. SemOmp.tla executes the loop on 1..2 threads (per-thread "
          "cells for private/firstprivate/loop variable, shared store otherwise) with every iteration "
          "distribution the schedule kind allows and every statement-level interleaving, for every input; "
          "invariants: every terminal state has the serial run's shared observables, no undefined private "
          "is read."),
    note=SEM_NOTE + " Bounds: trip count <= 3, 2 threads, top-level statements of the body atomic.",
    technique="TLA+ OpenMP data-sharing semantics; TLC explores all schedules/interleavings of the exported real directive",
    design_ref="DESIGN.md section 4 C09, F.11", engine="FortranSem")

CHECKS["C13"] = dict(
    level="model_checking",
    text=("ACCDataTrans (alone and around ACCKernelsTrans regions) is applied to every range of consecutive "
          "top-level statements of generated routines; the copyin/copyout/copy clauses of the real directive "
          "node are exported and TLC executes host program and data-region program under FortranSem.tla, "
          "where the region body runs against separate device copies of the clause arrays (copyout copies "
          "start undefined), on every input: host arrays equal, no undefined device read, no undefined "
          "element copied back over host data."),
    note=SEM_NOTE, technique=SEM_TECH + " with a separate device store for OpenACC data regions",
    design_ref="DESIGN.md section 4 C13, F.11", engine="FortranSem")

CHECKS["C02"] = dict(
    level="model_checking",
    text=("FortranExpr.tla transcribes the F2008 expression grammar (R1001-R1022) as a recursive-descent "
          "Parse plus a minimal-parenthesis printer; TLC model-checks Parse(Unparse(t)) = t and necessity of "
          "every parenthesis for all trees to depth 2 (all operators) and depth 3 (reduced sets). 52k "
          "well-typed trees (all depth-2 trees, depth-3 families, literals of every kind, array/structure "
          "accesses, calls) are built from REAL PSyIR nodes, written by FortranWriter, tokenised, and TLC "
          "decides per tree: Conforming (Parse succeeds), SameTree (Parse(tokens) = tree), ReaderAgrees."),
    note=("Trusted: the tokenizer and the PSyIR projection (c02_lib.py). Exhaustive to the stated depths. "
          "Five genuine writer defect shapes in findings.d/C02.json."),
    technique="TLA+ grammar spec + TLC exhaustive model checking + TLC validation of the real writer's output",
    design_ref="DESIGN.md section 4 C02, F.9", engine="FortranExpr")
CHECKS["C17"] = dict(
    level="model_checking",
    text=("FortranExpr!EvalInt gives Fortran integer semantics (truncating division, MOD with the sign of the "
          "dividend, MIN/MAX, **, array elements as uninterpreted functions); its division/MOD/power laws are "
          "model-checked. 12k queries (all pairs of <=1-operator expressions, 50 rewrite patterns x 39 bases, "
          "expand, solve_equal_for) are put to the real SymbolicMaths and TLC evaluates both sides over all "
          "valuations in -4..4 per variable: EqualSound, NeverEqualSound, SolutionSound, ExpandSound."),
    note=("Trusted: tree <-> PSyIR conversion. Bounded valuations; 'False' answers never constrain. Three genuine "
          "defect shapes in findings.d/C17.json."),
    technique="TLA+ integer semantics evaluated by TLC over all bounded valuations against the real answers",
    design_ref="DESIGN.md section 4 C17", engine="FortranExpr")
CHECKS["C29"] = dict(
    level="model_checking",
    text=("KernelOutput.tla models up to 3 concurrent rename_and_write runs, one action per file-system call "
          "(O_CREAT|O_EXCL create, write halves, close, open-for-read, read+compare), a shared directory and "
          "kernel versions; TLC explores all interleavings (invariants WrittenByOne, NamesInside, PsyUsesOwn, "
          "SingleUsesSame, SingleFailOnlyIfDifferent, NoPartialVerdict). Every 1- and 2-run schedule and "
          "sampled/edge-covering 3-run schedules are replayed with REAL concurrent runs (threads whose "
          "os/open calls in psyGen are held by a scheduler shim, one step in flight), the directory is "
          "projected after each step, and the recorded traces are validated by TLC against the same actions."),
    note=("Trusted: the syscall shim and directory projection. One LFRic kernel subject, threads of one "
          "interpreter. The single-scheme read-back race is a known finding (findings.d/C29.json)."),
    technique="TLA+ concurrent protocol model + TLC exhaustive interleavings + schedule replay on the real code + TLC trace validation",
    design_ref="DESIGN.md section 4 C29, F.4", engine="KernelOutput")
CHECKS["C21"] = dict(
    level="model_checking",
    text=("LFRicArgOrder.tla transcribes the user guide's argument-ordering rules as Args(metadata) and "
          "contains the metadata generator TLC enumerates (1140 metadata quick: general-purpose, domain, "
          "inter-grid, CMA kernels; stencils, basis/diff-basis x quadrature/evaluator shapes, mesh and "
          "reference-element properties). For each, the real kernel-stub generator and the real PSy-layer "
          "generator are run, both argument lists are itemised (type, kind, rank, intent, role) and TLC "
          "decides position by position: SameCount, CallMatchesStub, StubFollowsDoc, CallFollowsDoc."),
    note=("Trusted: the itemisers of the generated Fortran and the transcription of the guide. Three genuine code "
          "defects and six documentation/code deviations are listed in findings.d/C21.json."),
    technique="TLA+ rule transcription + TLC-enumerated metadata family + TLC validation of both real generators",
    design_ref="DESIGN.md section 4 C21", engine="LFRicArgOrder")

CHECKS["C25"] = dict(
    level="model_checking",
    text=("GOceanRegion.tla defines grid, index offsets, point types and the iteration regions the user guide "
          "documents (built-in and user-defined spaces with {start}/{stop}); TLC checks the design invariants "
          "(within depth-1 halo, contains internal, Internal within All) for all offsets x types x spaces x "
          "grids 1..4^2 and enumerates the case family (240 invokes, 5164 transformation histories <= 2 of "
          "fusion, OMP, ACC, extraction, constant loop bounds, move-boundaries). Real kernels/algorithms/"
          "config files are generated, the real transformations applied, and the lowered loop nests are "
          "exported and EXECUTED by TLC under FortranSem.tla on grids 1..3^2 and three field environments: "
          "EachPointOnce, VisitedEqualsRegion, WithinDepth1Halo, ContainsInternal, PerPointSequenceUnchanged."),
    note=("Trusted: exporter hooks, and the spec-side model of the dl_esm_inf internal/whole members (the "
          "library is not bundled). Three genuine defect shapes in findings.d/C25.json."),
    technique="TLA+ region spec + TLC-enumerated histories + TLC execution of the real generated loop nests",
    design_ref="DESIGN.md section 4 C25", engine="GOceanRegion")
CHECKS["C26"] = dict(
    level="model_checking",
    text=("TransTxn.tla: a stack of open transformation attempts with Begin/StartMutating/Edit/Commit/Refuse/"
          "Crash over a fingerprint (written text, symbol-table views, node-identity tree); invariants "
          "TextUnchanged/SymbolsUnchanged/TreeIdentityUnchanged on refusal, code-written-after = before, "
          "refusals erasable; model-checked for all short histories (an undisciplined variant is rejected). "
          "Traces come from a recorder wrapping apply of all 86 Transformation subclasses (a) under 4 "
          "directories of the repository's own test-suite and (b) in a generated driver: 77 transformations x "
          "every node / node range of 5 programs (Fortran, NEMO-style, LFRic, GOcean) x option dictionaries, "
          "in scripts of up to 4 commits; every attempt (about 19k) is validated by TLC against the spec."),
    note=("Trusted: the fingerprint projections listed in the evidence (LFRic/GOcean trees judged on symbols and "
          "tree, lazily created symbols ignored). Three findings in findings.d/C26.json."),
    technique="TLA+ transaction spec + TLC model checking + TLC trace validation of recorded real attempts",
    design_ref="DESIGN.md section 4 C26, F.10", engine="TransTxn")

CHECKS["C23"] = dict(
    level="model_checking",
    text=("LFRicSched.tla: invoke bodies as Loop/Dir/Kern trees with kernel argument summaries (access x "
          "function-space class), transformation alphabet Colour, OMPParallelLoop, OMPLoop, ACCLoop, "
          "RedundantComp, OMPParallel, ACCParallel, ACCKernels (each Intended or Refuse); invariant ColourRule "
          "(shared-DoF increments parallelised only over one colour; no colours loop inside a parallel "
          "region) model-checked on a 15-kernel catalogue. TLC dumps every transition (depth 3 / 2); each is "
          "replayed on REAL LFRic schedules (21 algorithm files, DM on/off) with the real transformations, "
          "the generated PSy layer is itemised after each accepted step and TLC decides ColourRule and step "
          "conformance per case (4 067 distinct cases)."),
    note=("Trusted: the itemiser of generated Fortran. Code-generation refusals produce nothing and are not "
          "judged. Two genuine defect shapes in findings.d/C23.json."),
    technique="TLA+ schedule state machine + TLC-enumerated histories replayed on real schedules + TLC validation of generated code",
    design_ref="DESIGN.md section 4 C23", engine="LFRicSched")

CHECKS["C01"] = dict(
    level="model_checking",
    text=("654 generated programs (SELECT CASE incl. ranges/default/logical selectors, WHERE/ELSEWHERE incl. "
          "nested, strided and non-unit-lower-bound sections, array notation, intrinsics with DIM/MASK, DO/DO "
          "WHILE/EXIT/CYCLE, IF chains, expressions, module-procedure calls) exist as pv-ast P whose meaning "
          "FortranSem.tla gives directly (P never passes through PSyclone); a fully parenthesising renderer "
          "gives the text PSyclone reads. TLC (SemRoundTrip.tla) runs P, the export after reading (P1) and "
          "the export after writing and re-reading (P2) on every input: Reader/Writer SameObservable and "
          "NoNewUndefined, plus status clauses (no internal error, written text readable, declarations kept)."),
    note=SEM_NOTE + " 'Compiles' is approximated by the written text being read back. A gfortran anchor "
         "(c01_anchor.py) compares FortranSem with gfortran on a sample of the family.",
    technique=SEM_TECH, design_ref="DESIGN.md section 4 C01", engine="FortranSem")
CHECKS["C15"] = dict(
    level="model_checking",
    text=("TreeCopy.tla: abstract programs (scoping nodes with tables, symbols whose properties use other "
          "symbols - kind, shape, initial value, interface - and nodes that use symbols) with Copy "
          "(parameterised by the roles it re-points) and edits (rename, add, remove, detach, insert, change "
          "shape/kind, in-place reference and intent edits); invariants EqualAfterCopy, NoSharedNode, "
          "OwnSymbols, OtherRenderUnchanged; three deliberately broken Copy variants are refuted (vacuity). "
          "TLC enumerates 40k histories (copy target + <= 2 edits) over three real programs; each is replayed "
          "on REAL PSyIR trees and the recorded observations (writer text, ==, node/symbol identities reached "
          "through every use) are validated by TLC with the same operators."),
    note=("Trusted: projection of real trees (c15_world.py). Depth 2 histories. Four genuine defect shapes in "
          "findings.d/C15.json."),
    technique="TLA+ copy/edit model + TLC-enumerated histories replayed on real trees + TLC validation",
    design_ref="DESIGN.md section 4 C15", engine="TreeCopy")
CHECKS["C24"] = dict(
    level="model_checking",
    text=("InvokeBinding.tla: canonical argument texts, Agree (alg actuals = PSy dummies in count and order; "
          "every kernel argument is computed from the dummy whose actual denotes the same data object), "
          "NameDefined, a TLA+ generator of invoke shapes (repeated, case-varied, spaced, indexed, "
          "derived-type and literal arguments, named/unnamed) and a reference generator with configurable "
          "de-duplication keys (mismatched keys are refuted). 567 shapes (every 3rd of 1701) are rendered to "
          "real LFRic and GOcean algorithm files, run through the real generate() (Alg class path and PSyIR "
          "algorithm layer), both generated texts are itemised and TLC decides the clauses per invoke."),
    note=("Trusted: itemisers of the generated algorithm and PSy text (unsupported counted). Four genuine defect "
          "shapes in the PSyIR-based algorithm layer, findings.d/C24.json."),
    technique="TLA+ binding spec + TLC-enumerated input family + TLC validation of both generated layers",
    design_ref="DESIGN.md section 4 C24, F.10", engine="InvokeBinding")

CHECKS["C20"] = dict(
    level="model_checking",
    text=("The definition of each of the 68 built-ins is parsed AT CHECK TIME from the formula blocks of "
          "doc/user_guide/dynamo0p3.rst into pv-ast (the oracle); LFRicBuiltins.tla gives it meaning over DoF "
          "layouts owned|annexed|halo (documented range = owned, plus annexed iff DM and COMPUTE_ANNEXED_DOFS; "
          "reductions over owned DoFs). For every built-in x DM on/off x annexed on/off x {plain, OMP parallel "
          "do, OMP parallel + do with and without reproducible reductions} the generated PSy layer is itemised "
          "and exported, and TLC runs definition and generated code from the same store for all scalar values "
          "and fills: DocumentedValueInRange, UntouchedOutsideRange, ReductionOverOwned, NoNewUndefined."),
    note=("Trusted: the itemiser of the generated text and the doc parser (a built-in whose block cannot be "
          "parsed is unsupported). OpenMP variants are checked on one serialised execution per thread count "
          "(races are C09). No finding on the unchanged tree."),
    technique="TLA+ semantics of the documented formulae vs the generated code, executed by TLC over bounded inputs",
    design_ref="DESIGN.md section 4 C20", engine="FortranSem")

CHECKS["C19"] = dict(
    level="model_checking",
    text=("267 generated tangent-linear kernels (689 kernel x active-set calls; assignments and increments "
          "with passive coefficients, stencil offsets, loops with every step +-1,+-2,+-3,m and compound "
          "bounds incl. zero-trip, nests, IF on passive data) go through the real PSyAD; accepted adjoints are "
          "read back and exported. SemAdjoint.tla computes, for every passive valuation, the matrix of the TL "
          "code and of the adjoint column by column from unit vectors with exact rationals (after checking "
          "that the TL code is defined, linear and leaves passives unchanged) and decides Transpose, "
          "PassiveUnchanged and NoNewUndefined."),
    note=SEM_NOTE + " The generated test harness is generated but not interpreted (needs the LFRic runtime and "
         "random_number). Three genuine defect shapes in findings.d/C19.json.",
    technique="TLA+ exact linear-map comparison executed by TLC (translation validation of the real PSyAD output)",
    design_ref="DESIGN.md section 4 C19", engine="FortranSem")

CHECKS["C03"] = dict(
    level="exploration",
    text=("970 programs (300 generated with use/only/rename, parameter chains, module variables, derived "
          "types, interfaces, several routines, code blocks; 150 with nested scopes holding clashing "
          "symbols; 711 Fortran files of the repository) are written, re-read and written three times by the "
          "real reader/writer; each text is itemised into a program skeleton and Trace_RoundTrip.tla decides "
          "NoLoss, NoDup, SameOrder, TextStable (w2 = w1, w3 = w2) and Reread per case. RoundTrip.tla (a stable "
          "writer; two broken writers are refuted on every run) is the design-level model."),
    note=("'Same text' is a comparison of implementation outputs; the specification contributes the item-level "
          "loss/duplication/order clauses and the family - hence level exploration. This FortranReader drops "
          "comments, so stability is judged from the first written text onward. Two genuine defect shapes in "
          "findings.d/C03.json."),
    technique="TLA+ skeleton spec + TLC trace acceptance of three successive real round trips",
    design_ref="DESIGN.md section 4 C03", engine="RoundTrip")
CHECKS["C04"] = dict(
    level="model_checking",
    text=("DeclOrder.tla: a written unit as Use/Declare(name, kind, deps)/Reference events per scope with host "
          "association; invariants DeclaredOnce, DeclaredBeforeDependent, EveryReferenceResolves, NoCapture "
          "(a topological writer satisfies them, an any-order writer is refuted). 1 119 written units - "
          "generated declaration shapes, nested-scope merges, histories (length 1-3) of accepted "
          "transformations that add symbols over the C05/C06/C07 families, LFRic and GOcean PSy layers - are "
          "parsed with fparser2 (not PSyclone's frontend) into events and validated by TLC one event at a "
          "time; NoCapture uses symbol identities obtained by renaming every symbol and aligning the texts."),
    note=("Trusted: the fparser2-based event extraction (unclassifiable names make the unit unsupported; wildcard "
          "imports make unresolved names 'possibly imported', counted). 'Compiles' is modelled by "
          "EveryReferenceResolves; calibrated against gfortran -fimplicit-none on 90 units. One genuine defect "
          "shape in findings.d/C04.json."),
    technique="TLA+ declaration-order spec + TLC trace validation of events extracted from the real written code",
    design_ref="DESIGN.md section 4 C04, F.10", engine="DeclOrder")

CHECKS["C10"] = dict(
    level="model_checking",
    text=("DirectiveTree.tla: routine skeletons (perfect/imperfect/triangular nests), Apply (predicted effect of "
          "each of 14 OpenMP/OpenACC transformations with options), Valid = the OpenMP 5.0 / OpenACC 3.0 nesting, "
          "ownership and collapse rules (calibrated against gfortran -fopenmp -fopenacc). TLC enumerates all "
          "transformation histories (69 615 quick: length <= 2 over the full alphabet on 5 skeletons, length <= 3 "
          "over the core alphabet); each is replayed on REAL PSyIR with the real transformations and a fresh "
          "FortranWriter; the written text is itemised into the abstract directive tree (cross-checked against "
          "the PSyIR projection) and TLC decides Written => Valid per case, naming every violated rule."),
    note=("Trusted: the text itemiser and the transcription of the OpenMP/OpenACC rules (two rules are stricter "
          "than gfortran 12 and say so in the evidence). 18 genuine defect shapes in findings.d/C10.json."),
    technique="TLA+ directive-tree spec + TLC-enumerated histories replayed on the real code + TLC validation of the written directives",
    design_ref="DESIGN.md section 4 C10, F.7", engine="DirectiveTree")

NOT_YET = {}

ALL = [f"C{i:02d}" for i in range(1, 30)]

ENGINES = [
    {"name": "FortranSem", "path": "spec/FortranSem.tla",
     "serves_properties": ["C01", "C05", "C06", "C07", "C08", "C09", "C11", "C12", "C13", "C19",
                           "C20", "C25", "C28"],
     "kind_free_text": ("TLA+ operational semantics of the PSyIR/Fortran subset (recursive evaluator over JSON "
                        "programs) with drivers SemEquiv, SemAccess, SemRegion, SemOmp, SemRoundTrip, SemAdjoint, "
                        "LFRicBuiltins, Trace_GOceanRegion; anchored to gfortran by bin/verif selftest")},
    {"name": "PSyIRTree", "path": "spec/PSyIRTree.tla", "serves_properties": ["C14"],
     "kind_free_text": "state machine of child-list edits + Trace_PSyIRTree trace validation"},
    {"name": "SymTab", "path": "spec/SymTab.tla", "serves_properties": ["C16"],
     "kind_free_text": "state machine of symbol-table operations + Trace_SymTab"},
    {"name": "TreeCopy", "path": "spec/TreeCopy.tla", "serves_properties": ["C15"],
     "kind_free_text": "copy/edit model + Trace_TreeCopy"},
    {"name": "TransTxn", "path": "spec/TransTxn.tla", "serves_properties": ["C26"],
     "kind_free_text": "transaction discipline of transformations + Trace_TransTxn"},
    {"name": "FortranExpr", "path": "spec/FortranExpr.tla", "serves_properties": ["C02", "C17"],
     "kind_free_text": "F2008 expression grammar (Parse/Unparse) and Fortran integer evaluation + ExprTrace/ExprTraceInt"},
    {"name": "FreeForm", "path": "spec/FreeForm.tla", "serves_properties": ["C18"],
     "kind_free_text": "free-form source form (Join, Tokens, reference wrapper) + Trace_FreeForm"},
    {"name": "RoundTrip", "path": "spec/RoundTrip.tla", "serves_properties": ["C03"],
     "kind_free_text": "program skeleton stability + Trace_RoundTrip"},
    {"name": "DeclOrder", "path": "spec/DeclOrder.tla", "serves_properties": ["C04"],
     "kind_free_text": "declaration/use/reference events + Trace_DeclOrder"},
    {"name": "DirectiveTree", "path": "spec/DirectiveTree.tla", "serves_properties": ["C10"],
     "kind_free_text": "OpenMP/OpenACC directive trees, transformation alphabet, Valid + Trace_DirectiveTree"},
    {"name": "LFRicHalo", "path": "spec/LFRicHalo.tla", "serves_properties": ["C22"],
     "kind_free_text": "run-time halo model + Trace_LFRicHalo"},
    {"name": "LFRicSched", "path": "spec/LFRicSched.tla", "serves_properties": ["C23"],
     "kind_free_text": "LFRic schedule state machine and colouring rule + Trace_LFRicSched"},
    {"name": "LFRicArgOrder", "path": "spec/LFRicArgOrder.tla", "serves_properties": ["C21"],
     "kind_free_text": "documented kernel-argument ordering rules and metadata generator + Trace_LFRicArgOrder"},
    {"name": "InvokeBinding", "path": "spec/InvokeBinding.tla", "serves_properties": ["C24"],
     "kind_free_text": "algorithm/PSy-layer argument binding + Trace_InvokeBinding"},
    {"name": "GOceanRegion", "path": "spec/GOceanRegion.tla", "serves_properties": ["C25"],
     "kind_free_text": "GOcean iteration regions and case generator + Trace_GOceanRegion"},
    {"name": "ModuleSort", "path": "spec/ModuleSort.tla", "serves_properties": ["C27"],
     "kind_free_text": "dependency sort as Pick behaviours + Trace_ModuleSort"},
    {"name": "KernelOutput", "path": "spec/KernelOutput.tla", "serves_properties": ["C29"],
     "kind_free_text": "concurrent kernel-output protocol, one action per file-system call + Trace_KernelOutput"},
]


def build():
    checks = []
    for pid in ALL:
        if pid not in CHECKS:
            continue
        c = CHECKS[pid]
        checks.append({
            "property_id": pid,
            "quick_cmd": f"bin/verif check {pid} --tier quick",
            "thorough_cmd": f"bin/verif check {pid} --tier thorough",
            "evidence_file": f"/verif/evidence/{pid}.json",
            "replay_cmd_template": "bin/verif replay {path}",
            "engine": c.get("engine", ""),
            "level_claimed": {"category": c["level"], "text": c["text"],
                              "design_ref": c.get("design_ref", "DESIGN.md section 4")},
            "level_note": c["note"],
            "technique": c["technique"],
        })
    na = [{"property_id": pid,
           "reason": NOT_YET.get(pid, "check not built yet in this session; see DESIGN.md section 8 for the construction order")}
          for pid in ALL if pid not in CHECKS]
    man = {
        "version": 1,
        "setup_cmd": "bin/verif setup",
        "hooks": {"guard": core.GUARD,
                  "enable": ("no source hooks: recorders are installed by the harness "
                             "(monkeypatching) when SVALAT_PSYCLONE_VERIF=1; PSyclone is "
                             "imported from /repo/src on every run"),
                  "baseline_off_cmd": BASELINE_CMD,
                  "source_commits": [],
                  "add_only": True},
        "engines": ENGINES,
        "checks": checks,
        "notes": "All checks: bin/verif check <id> --tier quick|thorough; exit 0/1/2 as in DESIGN.md 1.2.",
        "not_applicable": na,
    }
    return man


def run():
    man = build()
    path = os.path.join(core.VERIF, "MANIFEST.json")
    with open(path, "w") as f:
        json.dump(man, f, indent=1)
    try:
        import jsonschema
        with open("/root/.vp/MANIFEST.schema.json") as f:
            jsonschema.validate(man, json.load(f))
        print("MANIFEST.json written and valid:", len(man["checks"]), "checks")
    except ImportError:
        print("MANIFEST.json written (jsonschema not available)")
    return 0
