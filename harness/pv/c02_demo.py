'''Binding demonstration for C02 (run: /venv/bin/python -m pv.c02_demo [mutant...]
from /verif/harness):
 * every mutants/C02/<name>.diff (not fix-*) is applied to a scratch copy of the
   repository and the quick check is run with PV_REPO pointing at it -> exit 1;
 * trace corruption: genuine recorded cases with one field flipped are
   rejected by TLC (ExprTrace.tla), the untouched ones accepted.
'''
import copy
import glob
import json
import os
import shutil
import subprocess
import sys

from pv import core


def run_mutants(prop, names=(), env_extra=None):
    '''Apply each mutant to a scratch copy; returns {name: exit code}.'''
    res = {}
    diffs = sorted(glob.glob(os.path.join(core.VERIF, "mutants", prop, "*.diff")))
    for diff in diffs:
        name = os.path.basename(diff)[:-5]
        if name.startswith("fix-") or (names and name not in names):
            continue
        tmp = core.mktemp(f"pv-{prop.lower()}-mut-")
        try:
            subprocess.run(["rsync", "-a", "--exclude", "tests", "/repo/src",
                            "/repo/config", tmp + "/"], check=True)
            subprocess.run(["patch", "-s", "-p1", "-d", tmp, "-i", diff], check=True)
            # evidence and replay files of a mutant run go to the scratch directory
            env = dict(os.environ, PV_REPO=tmp, PV_EVID=os.path.join(tmp, "ev"),
                       PV_REPLAYS=os.path.join(tmp, "rp"))
            os.makedirs(env["PV_EVID"])
            os.makedirs(env["PV_REPLAYS"])
            env.update(env_extra or {})
            p = subprocess.run([os.path.join(core.VERIF, "bin", "verif"), "check",
                                prop, "--tier", "quick"], env=env, text=True,
                               stdout=subprocess.PIPE, stderr=subprocess.STDOUT)
            viol = [l for l in p.stdout.splitlines() if l.startswith("VIOLATION")]
            last = p.stdout.strip().splitlines()[-1] if p.stdout.strip() else ""
            print(f"mutant {name}: exit {p.returncode}, {len(viol)}+ VIOLATION lines "
                  f"| {last[:160]}")
            res[name] = p.returncode
        finally:
            shutil.rmtree(tmp, ignore_errors=True)
    return res


def corruption():
    from pv import c02
    from pv.c02_lib import bn, un, ref
    core.setup_psyclone_env()
    c02._warm()
    trees = [bn("-", ref("a"), bn("-", ref("b"), ref("c"))),
             bn("*", bn("+", ref("a"), ref("b")), ref("c")),
             bn("**", ref("a"), un("-", ref("b"))),
             bn("/", ref("a"), bn("*", ref("b"), ref("c")))]
    good = []
    for t in trees:
        rec = c02._one(t)
        good.append({k: rec[k] for k in ("tree", "toks", "rd", "rt")})
    cases, expect = [], {}

    def add(c, want):
        c = copy.deepcopy(c)
        c["id"] = len(cases) + 1
        cases.append(c)
        expect[c["id"]] = want
        return c
    for g in good:
        add(g, None)                                           # untouched: accepted
    c = add(good[0], "SameTree")                               # drop a parenthesis pair
    c["toks"] = [t for t in c["toks"] if t[0] not in ("lp", "rp")]
    c["rd"], c["rt"] = 2, bn("-", bn("-", ref("a"), ref("b")), ref("c"))
    c = add(good[1], "SameTree")                               # flip an operator in the tree
    c["tree"]["op"] = "/"
    c["rd"], c["rt"] = 2, good[1]["tree"]
    c = add(good[2], "Conforming")                             # a ** -b
    c["toks"] = [t for t in c["toks"] if t[0] not in ("lp", "rp")]
    c["rd"] = 0
    c = add(good[3], "ReaderAgrees")                           # reader verdict flipped
    c["rd"] = 0
    c = add(good[3], "ReaderAgrees")                           # reader tree altered
    c["rd"], c["rt"] = 2, bn("*", bn("/", ref("a"), ref("b")), ref("c"))
    tmp = core.mktemp("pv-c02-corrupt-")
    try:
        path = os.path.join(tmp, "cases.json")
        with open(path, "w") as f:
            json.dump(cases, f)
        res = core.run_tlc("ExprTrace.tla", "ExprTrace.cfg", env={"PV_CASES": path},
                           workers=2)
    finally:
        shutil.rmtree(tmp, ignore_errors=True)
    got = {v["id"]: v["v"] for v in res.printed("VERDICT")}
    ok = True
    for cid, want in expect.items():
        have = got.get(cid)
        good_ = (have is None) if want is None else (have is not None and want in have)
        ok &= good_
        print(f"corruption case {cid}: expected {want or 'accepted'}, TLC says "
              f"{have or 'accepted'} -> {'ok' if good_ else 'MISSED'}")
    return ok


if __name__ == "__main__":
    ok = corruption()
    codes = run_mutants("C02", sys.argv[1:])
    bad = [n for n, rc in codes.items() if rc != 1]
    print("corruption test:", "ok" if ok else "FAILED", "| mutants not caught:", bad)
    sys.exit(0 if ok and not bad else 1)
