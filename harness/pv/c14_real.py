'''C14 helper: drives REAL psyclone nodes.  Builds a universe of real nodes,
applies one public tree-editing call (the operation tuples of PSyIRTree.tla),
projects the real object graph to the abstract state (children, parent).

Nothing here decides the property: it only executes and serialises.'''

import gc
import sys

_FACT = None
# A cyclic tree makes update_signal recurse until RecursionError; the outcome
# does not depend on the limit, a low one makes those cases ~8x cheaper.  Calls
# on these <= 8-node trees nest a few dozen frames at most.
_RECURSION_LIMIT = 220


class Unsupported(Exception):
    '''The real object graph cannot be expressed in the abstract state.'''


def _factories():
    '''kind -> constructor of a bare (child-less, parent-less) real node.'''
    global _FACT
    if _FACT is not None:
        return _FACT
    from psyclone.psyir import nodes as N
    from psyclone.psyir.symbols import (DataSymbol, INTEGER_TYPE, REAL_TYPE,
                                        ArrayType)
    isym = DataSymbol("i", INTEGER_TYPE)
    xsym = DataSymbol("x", REAL_TYPE)
    asym = DataSymbol("a", ArrayType(REAL_TYPE, [10]))

    def omp_parallel():
        node = N.OMPParallelDirective()     # constructor attaches a Schedule
        sched = node.children[0]
        list.clear(node.children)           # bare node: undo the constructor
        sched._parent = None                # pylint: disable=protected-access
        return node

    _FACT = {
        "Schedule": N.Schedule,
        "Loop": lambda: N.Loop(variable=isym),
        "WhileLoop": N.WhileLoop,
        "IfBlock": N.IfBlock,
        "Assignment": N.Assignment,
        "Call": N.Call,
        "Return": N.Return,
        # structurally equal twins on purpose: Node.__eq__ is structural
        "Reference": lambda: N.Reference(xsym),
        "ArrayReference": lambda: N.ArrayReference(asym),
        "Literal": lambda: N.Literal("1", INTEGER_TYPE),
        "BinaryOperation":
            lambda: N.BinaryOperation(N.BinaryOperation.Operator.ADD),
        "UnaryOperation":
            lambda: N.UnaryOperation(N.UnaryOperation.Operator.MINUS),
        "Range": N.Range,
        "OMPParallel": omp_parallel,
        "OMPDefaultClause": N.OMPDefaultClause,
        "OMPPrivateClause": N.OMPPrivateClause,
        "OMPFirstprivateClause": N.OMPFirstprivateClause,
        "OMPReductionClause": N.OMPReductionClause,
    }
    return _FACT


class World:
    '''Fresh real nodes 1..N of the given kinds.'''

    def __init__(self, kinds):
        fact = _factories()
        self.kinds = kinds
        self.nodes = [None] + [fact[k]() for k in kinds]
        self.ids = {id(n): i for i, n in enumerate(self.nodes) if i}

    def project(self):
        '''(children, parent) of the real object graph, as nested lists.'''
        ids = self.ids
        children = []
        parent = []
        for node in self.nodes[1:]:
            row = []
            for child in list.__iter__(node.children):
                k = ids.get(id(child))
                if k is None:
                    raise Unsupported("foreign child object")
                row.append(k)
            children.append(row)
            par = node.parent
            if par is None:
                parent.append(0)
            else:
                k = ids.get(id(par))
                if k is None:
                    raise Unsupported("foreign parent object")
                parent.append(k)
        return children, parent

    def apply(self, op):
        '''Execute one call.  Returns (raised, exception type name).'''
        name, p, i, c, d = op
        nd = self.nodes
        items = [nd[x] for x in (c, d) if x]
        try:
            if name == "append":
                nd[p].children.append(nd[c])
            elif name == "addchild":
                nd[p].addchild(nd[c])
            elif name == "insert":
                nd[p].children.insert(i, nd[c])
            elif name == "addchild_at":
                nd[p].addchild(nd[c], i)
            elif name == "setitem":
                nd[p].children[i] = nd[c]
            elif name == "delitem":
                del nd[p].children[i]
            elif name == "pop":
                nd[p].children.pop(i)
            elif name == "pop_last":
                nd[p].children.pop()
            elif name == "remove":
                nd[p].children.remove(nd[c])
            elif name == "extend":
                nd[p].children.extend(items)
            elif name == "iadd":
                nd[p].children += items
            elif name == "setchildren":
                nd[p].children = items
            elif name == "clear":
                nd[p].children.clear()
            elif name == "reverse":
                nd[p].children.reverse()
            elif name == "pop_all":
                nd[p].pop_all_children()
            elif name == "detach":
                nd[c].detach()
            elif name == "replace_with":
                nd[c].replace_with(nd[d])
            else:
                raise Unsupported("unknown operation " + str(name))
        except Unsupported:
            raise
        except Exception as err:    # noqa  any error of the real call = refusal
            return 1, type(err).__name__
        return 0, ""

    def construct(self, children):
        '''Put the fresh nodes into the (well-formed) abstract state `children`
        with public calls only (append, parents first).  Returns False when the
        implementation refuses to build it.'''
        order = []
        listed = {c for row in children for c in row}
        todo = [n for n in range(1, len(self.nodes)) if n not in listed]
        while todo:
            n = todo.pop(0)
            order.append(n)
            todo.extend(children[n - 1])
        try:
            for n in order:
                for c in children[n - 1]:
                    self.nodes[n].children.append(self.nodes[c])
        except Exception:   # noqa
            return False
        return True


def parent_of(children):
    '''The parent map a well-formed child-list assignment determines.'''
    par = [0] * len(children)
    for p, row in enumerate(children, 1):
        for c in row:
            par[c - 1] = p
    return par


def reach(kinds, target, path):
    '''A World in abstract state `target`: by replaying the history `path`
    (calls of the model's BFS path) when that reproduces it, else constructed
    directly.  Returns (world, how) or (None, reason).'''
    tpar = parent_of(target)
    if path is not None:
        world = World(kinds)
        for op in path:
            world.apply(op)
        try:
            if world.project() == (target, tpar):
                return world, "history"
        except Unsupported:
            pass
    world = World(kinds)
    if world.construct(target) and world.project() == (target, tpar):
        return world, "direct"
    return None, "unconstructible"


def run_group(job):
    '''job = (kinds, from_children, path | None, [op, ...]) -> one record per op:
    [pre_ch, pre_pa, op, raised, exc, post_ch, post_pa, how] or
    [None, None, op, -1, reason, None, None, how].'''
    kinds, target, path, ops = job
    sys.setrecursionlimit(_RECURSION_LIMIT)
    gc.enable()                 # node trees are cyclic (parent <-> children)
    out = []
    how_cached = None
    for op in ops:
        world, how = reach(kinds, target, path if how_cached != "direct" else None)
        if world is None:
            out.append([None, None, op, -1, how, None, None, how])
            continue
        how_cached = how
        pre_ch, pre_pa = world.project()
        try:
            raised, exc = world.apply(op)
            post_ch, post_pa = world.project()
        except Unsupported as err:
            out.append([None, None, op, -1, str(err), None, None, how])
            continue
        out.append([pre_ch, pre_pa, op, raised, exc, post_ch, post_pa, how])
    return out


def run_history(job):
    '''job = (kinds, init_children, [op, ...]): one long history on the same
    real nodes, continuing from the implementation's state.  Stops after the
    first call whose outcome is not (raised and unchanged) or a state the caller
    can keep using; the TLC trace spec judges every recorded step, so the
    history is cut by the caller at the first failing verdict.'''
    kinds, init, ops = job
    sys.setrecursionlimit(_RECURSION_LIMIT)
    gc.enable()
    world, how = reach(kinds, init, None)
    if world is None:
        return [[None, None, ops[0] if ops else None, -1, how, None, None, how]]
    out = []
    pre_ch, pre_pa = world.project()
    for op in ops:
        try:
            raised, exc = world.apply(op)
            post_ch, post_pa = world.project()
        except Unsupported as err:
            out.append([None, None, op, -1, str(err), None, None, "history"])
            break
        out.append([pre_ch, pre_pa, op, raised, exc, post_ch, post_pa, "history"])
        if raised and (post_ch, post_pa) != (pre_ch, pre_pa):
            break           # state after a non-atomic refusal is not continued
        pre_ch, pre_pa = post_ch, post_pa
    return out
