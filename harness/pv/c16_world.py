'''C16 helper: builds real psyclone SymbolTables in an abstract SymTab.tla
state, applies one operation of the model's alphabet to them and projects the
real objects back to the abstract state.  Nothing here judges the property:
the recorded (pre, op, outcome, result, post) tuples are handed to TLC.'''
import json
import re

BASES = ("a", "A", "b", "B", "t1", "t2")
_NAME = re.compile(r"^([A-Za-z][A-Za-z0-9]*?)((?:_[0-9]+)*)$")
MAXID = 40
IFC = {"AutomaticInterface": "auto", "ArgumentInterface": "arg",
       "ImportInterface": "imp", "UnresolvedInterface": "unres",
       "FortranModuleInterface": "mod"}


class Unsupported(Exception):
    '''The case cannot be expressed in the abstract state (counted, never a
    violation).'''


def name_str(rec):
    return rec["c"] + "".join("_%d" % i for i in rec["sfx"])


def name_rec(text):
    m = _NAME.match(text)
    if not m or m.group(1) not in BASES:
        raise Unsupported("name outside the model's grammar: %r" % (text,))
    sfx = [int(x) for x in m.group(2).split("_")[1:]]
    if any(i > 1000 for i in sfx):
        raise Unsupported("suffix too large: %r" % (text,))
    return {"c": m.group(1), "sfx": sfx}


def canon_state(st):
    '''Canonical (order-independent) form of an abstract state as produced by
    TLC's ToJson or by World.project.'''
    tabs = []
    for tab in st["tabs"]:
        tabs.append({
            "syms": sorted(tab["syms"], key=lambda x: (x["id"], json.dumps(x["key"]))),
            "tags": sorted(tab["tags"], key=lambda g: (g["tag"], g["id"])),
            "args": list(tab["args"])})
    return {"tabs": tabs, "inner": st["inner"], "dead": sorted(st["dead"]),
            "calls": sorted(st.get("calls", []))}


def skey(st):
    return json.dumps(st, sort_keys=True, separators=(",", ":"))


class World:
    '''Container("m") > Routine("r") > Loop > loop body Schedule (node N3);
    tables 1, 2 belong to the Container and the Routine, N3 carries table 3,
    table 4 or nothing.'''

    def __init__(self, state, record=None):
        # record: list receiving (pre, op, out, res, post) for every public
        # call made while building (validated by TLC like any other tuple)
        # pylint: disable=import-outside-toplevel
        from psyclone.psyir.nodes import Container, Routine, Loop, Literal
        from psyclone.psyir.symbols import (SymbolTable, DataSymbol,
                                            INTEGER_TYPE)
        self.cont = Container("m")
        self.rout = Routine("r")
        # the Routine registers its own RoutineSymbol 'r'; the model's tables
        # start empty, so it is removed through the public API
        rtab = self.rout.symbol_table
        rtab.remove(rtab.lookup("r"))
        self.cont.addchild(self.rout)
        one = Literal("1", INTEGER_TYPE)
        loop = Loop.create(DataSymbol("i", INTEGER_TYPE), one, one.copy(),
                           one.copy(), [])
        self.rout.addchild(loop)
        self.n3 = loop.loop_body
        self.tabs = {1: self.cont.symbol_table, 2: rtab,
                     3: self.n3.symbol_table, 4: SymbolTable()}
        self.keep = []
        self.sym = {}        # id -> Symbol object
        self.ident = {}      # id(Symbol object) -> id
        self.dead = set(state["dead"])
        # populate while tables 3 and 4 are detached and from the innermost
        # table outwards: add() refuses a tag that an enclosing scope already
        # has, but such states are reachable (attach after tagging)
        self.tabs[3].detach()
        recs = [(t + 1, x) for t, tab in enumerate(state["tabs"])
                for x in tab["syms"]]
        # symbol objects: containers first (imports refer to them)
        # (and generic interfaces after the routines they list)
        for _, x in sorted(recs, key=lambda r: (r[1]["cls"] != "ContainerSymbol",
                                                r[1]["cls"] == "GenericInterfaceSymbol",
                                                r[1]["id"])):
            self.register(self.make(self.kind_of(x), name_str(x["name"]),
                                    x["dep"]), x["id"])
        for t in (4, 3, 2, 1):
            if t in self.dead:
                continue
            tab = state["tabs"][t - 1]
            for x in sorted(tab["syms"], key=lambda r: r["id"]):
                tag = [g["tag"] for g in tab["tags"] if g["id"] == x["id"]]
                tag = tag[0] if tag else None
                self._build_step(record, {
                    "name": "add", "s": t, "n": x["name"], "k": self.kind_of(x),
                    "tg": tag or "", "dep": x["dep"]},
                    lambda t=t, x=x, tag=tag: self.tabs[t].add(self.sym[x["id"]],
                                                               tag=tag))
            if tab["args"]:
                self._build_step(record, {
                    "name": "set_args", "s": t, "xs": list(tab["args"])},
                    lambda t=t, tab=tab: self.tabs[t].specify_argument_list(
                        [self.sym[i] for i in tab["args"]]))
        if state["inner"] in (3, 4):
            t = state["inner"]
            self._build_step(record, {"name": "attach", "s": t},
                             lambda: self.tabs[t].attach(self.n3))
        # Calls in the Routine's body (next to the loop, outside its body)
        from psyclone.psyir.nodes import Call
        from psyclone.psyir.symbols import RoutineSymbol
        for i in sorted(state.get("calls", [])):
            if not isinstance(self.sym.get(i), RoutineSymbol):
                raise Unsupported("call target %s is not a RoutineSymbol" % i)
            self.rout.addchild(Call.create(self.sym[i], []))

    def _build_step(self, record, op, call):
        if record is None:
            call()
            return
        pre = self.project()
        try:
            call()
            out, res = 1, {"t": "none"}
        except Exception as err:   # noqa  recorded as a refusal
            out, res = 0, {"t": "exc", "type": type(err).__name__}
        record.append((pre, op, out, res, self.project()))

    @staticmethod
    def kind_of(x):
        for kind, (cls, ifc) in KINDS.items():
            if (cls, ifc) == (x["cls"], x["ifc"]):
                return kind
        raise Unsupported("no constructor for %s/%s" % (x["cls"], x["ifc"]))

    def register(self, obj, ident):
        self.keep.append(obj)    # id() of a live object is never reused
        old = self.sym.get(ident)
        if old is not None and self.ident.get(id(old)) == ident:
            del self.ident[id(old)]      # the id was freed (symbol removed)
        self.sym[ident] = obj
        self.ident[id(obj)] = ident

    def make(self, kind, name, dep=0):
        # pylint: disable=import-outside-toplevel
        from psyclone.psyir.symbols import (
            Symbol, DataSymbol, ContainerSymbol, RoutineSymbol, INTEGER_TYPE,
            ArgumentInterface, ImportInterface, UnresolvedInterface)
        if kind == "gen":
            return Symbol(name)
        if kind == "data":
            return DataSymbol(name, INTEGER_TYPE)
        if kind == "arg":
            return DataSymbol(name, INTEGER_TYPE, interface=ArgumentInterface())
        if kind == "imp":
            # (in a replayed -simulate history the real tables may have
            # diverged from the model: the id may denote another object)
            if not isinstance(self.sym.get(dep), ContainerSymbol):
                raise Unsupported("import source %s is not a ContainerSymbol "
                                  "in the real tables" % dep)
            return DataSymbol(name, INTEGER_TYPE,
                              interface=ImportInterface(self.sym[dep]))
        if kind == "unres":
            return DataSymbol(name, INTEGER_TYPE, interface=UnresolvedInterface())
        if kind == "cont":
            return ContainerSymbol(name)
        if kind == "rout":
            return RoutineSymbol(name)
        if kind == "generic":
            from psyclone.psyir.symbols import GenericInterfaceSymbol
            if type(self.sym.get(dep)) is not RoutineSymbol:
                raise Unsupported("interface member %s is not a RoutineSymbol "
                                  "in the real tables" % dep)
            return GenericInterfaceSymbol(name, [(self.sym[dep], True)])
        raise Unsupported("kind " + kind)

    # ------------------------------------------------------------ projection
    def id_of(self, obj):
        return self.ident.get(id(obj), 0)

    def project(self):
        tabs = []
        for t in (1, 2, 3, 4):
            if t in self.dead:
                tabs.append({"syms": [], "tags": [], "args": []})
                continue
            tab = self.tabs[t]
            syms = []
            for key, obj in tab.symbols_dict.items():
                ifc = type(obj.interface).__name__
                dep = 0
                if ifc == "ImportInterface":
                    dep = self.id_of(obj.interface.container_symbol)
                if type(obj).__name__ == "GenericInterfaceSymbol" and obj.routines:
                    dep = self.id_of(obj.routines[0].symbol)
                syms.append({"id": self.id_of(obj), "key": name_rec(key),
                             "name": name_rec(obj.name),
                             "cls": type(obj).__name__,
                             "ifc": IFC.get(ifc, ifc), "dep": dep})
            tags = [{"tag": tag, "id": self.id_of(obj)}
                    for tag, obj in tab.tags_dict.items()]
            # pylint: disable=protected-access
            args = [self.id_of(obj) for obj in tab._argument_list]
            tabs.append({"syms": syms, "tags": tags, "args": args})
        at_n3 = self.n3.symbol_table
        inner = 0
        for t in (3, 4):
            if at_n3 is self.tabs[t]:
                inner = t
        for t in (3, 4):   # both directions of the node <-> table link
            if (self.tabs[t].node is self.n3) != (inner == t) or \
                    (self.tabs[t].node is not None and
                     self.tabs[t].node is not self.n3):
                inner = 9
        if at_n3 is not None and inner == 0:
            inner = 9
        from psyclone.psyir.nodes import Call
        live = {x["id"] for tab in tabs for x in tab["syms"]}
        calls = {self.id_of(c.routine.symbol) for c in self.rout.children
                 if isinstance(c, Call)} & live
        return canon_state({"tabs": tabs, "inner": inner, "dead": list(self.dead),
                            "calls": list(calls)})

    def fresh_id(self, pre):
        used = {x["id"] for tab in pre["tabs"] for x in tab["syms"]}
        for i in range(1, MAXID + 1):
            if i not in used:
                return i
        raise Unsupported("out of symbol ids")

    def res_sym(self, obj):
        return {"t": "sym", "id": self.id_of(obj), "name": name_rec(obj.name)}

    # ------------------------------------------------------------- operations
    def apply(self, op, pre):
        '''Apply op to the real tables.  Returns (out, res): out 1 = returned,
        0 = raised; any exception type is a refusal.'''
        # pylint: disable=too-many-branches,too-many-return-statements
        from psyclone.psyir.symbols import DataSymbol, INTEGER_TYPE
        name = op["name"]
        if op["s"] in self.dead or op.get("o", 0) in self.dead:
            raise Unsupported("operation on a consumed table")
        tab = self.tabs[op["s"]]
        for fld in ("x", "y"):
            if fld in op and op[fld] not in self.sym:
                raise Unsupported("unknown symbol id %s" % op[fld])
        new = None
        if name in ("add", "swap"):
            if name == "add" and op["k"] == "imp" and op["dep"] not in self.sym:
                raise Unsupported("unknown container id")
            new = self.make(op["k"], name_str(op["n"]), op.get("dep", 0))
        fresh = self.fresh_id(pre)
        try:
            if name == "add":
                tab.add(new, tag=op["tg"] or None)
                self.register(new, fresh)
                return 1, {"t": "none"}
            if name == "new_symbol":
                obj = tab.new_symbol(root_name=name_str(op["n"]),
                                     tag=op["tg"] or None, shadowing=op["sh"],
                                     symbol_type=DataSymbol,
                                     datatype=INTEGER_TYPE)
                self.register(obj, fresh)
                return 1, self.res_sym(obj)
            if name == "next_name":
                other = self.tabs[op["o"]] if op["o"] else None
                text = tab.next_available_name(name_str(op["n"]),
                                               shadowing=op["sh"],
                                               other_table=other)
                return 1, {"t": "name", "name": name_rec(text)}
            if name == "lookup":
                return 1, self.res_sym(tab.lookup(name_str(op["n"])))
            if name == "lookup_tag":
                return 1, self.res_sym(tab.lookup_with_tag(op["tg"]))
            if name == "get_symbols":
                vis = tab.get_symbols()
                return 1, {"t": "set",
                           "ids": sorted(self.id_of(o) for o in vis.values())}
            if name == "find_tag":
                if op["hasn"]:
                    obj = tab.find_or_create_tag(op["tg"],
                                                 root_name=name_str(op["n"]))
                else:
                    obj = tab.find_or_create_tag(op["tg"])
                if self.id_of(obj) == 0:
                    self.register(obj, fresh)
                return 1, self.res_sym(obj)
            if name == "rename":
                tab.rename_symbol(self.sym[op["x"]], name_str(op["n"]))
                return 1, {"t": "none"}
            if name == "remove":
                tab.remove(self.sym[op["x"]])
                return 1, {"t": "none"}
            if name == "swap":
                tab.swap(self.sym[op["x"]], new)
                self.register(new, fresh)
                return 1, {"t": "none"}
            if name == "swap_props":
                tab.swap_symbol_properties(self.sym[op["x"]], self.sym[op["y"]])
                return 1, {"t": "none"}
            if name == "set_args":
                for i in op["xs"]:
                    if i not in self.sym:
                        raise Unsupported("unknown symbol id %s" % i)
                tab.specify_argument_list([self.sym[i] for i in op["xs"]])
                return 1, {"t": "none"}
            if name == "detach":
                tab.detach()
                return 1, {"t": "none"}
            if name == "attach":
                tab.attach(self.n3)
                return 1, {"t": "none"}
            if name == "merge":
                for i in op["skip"]:
                    if i not in self.sym:
                        raise Unsupported("unknown symbol id %s" % i)
                tab.merge(self.tabs[op["o"]],
                          symbols_to_skip=[self.sym[i] for i in op["skip"]])
                self.dead.add(op["o"])
                return 1, {"t": "none"}
        except Unsupported:
            raise
        except Exception as err:   # noqa  any exception type is a refusal
            return 0, {"t": "exc", "type": type(err).__name__}
        raise Unsupported("operation " + name)


KINDS = {"gen": ("Symbol", "auto"), "data": ("DataSymbol", "auto"),
         "arg": ("DataSymbol", "arg"), "imp": ("DataSymbol", "imp"),
         "unres": ("DataSymbol", "unres"), "cont": ("ContainerSymbol", "mod"),
         "rout": ("RoutineSymbol", "auto"),
         "generic": ("GenericInterfaceSymbol", "auto")}
PURE = ("lookup", "lookup_tag", "get_symbols", "next_name")
