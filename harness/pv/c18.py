'''C18 - line-length limiting keeps the program and respects the limit.

1. design level: FreeForm.tla (free source form: character context, comments,
   continuation, Join, Tokens) is model-checked: its nondeterministic reference
   wrapper composed with Join is the identity at token level for every line
   over a tiny alphabet (all cut positions, with and without the leading `&`,
   directives and comments included).
2. binding (code -> spec): the real FortLineLength(limit).process is run on a
   generated family of texts (c18_gen); input, limit, output / exception and
   the output of a second pass are handed to TLC (Trace_FreeForm.tla), which
   decides NeverFails, MaxLen, SameProgram (token level) and Idempotent per
   case and replays the output lines as actions of the reference wrapper.'''
import concurrent.futures
import json
import os
import re
import shutil

from pv import core
from pv import c18_gen

PROP = "C18"


# ------------------------------------------------------------ real limiter
def _run_cases(chunk):
    '''[(idx, lines, limit)] -> [[idx, limit, exc, in, out, exc2, out2, excmsg]]'''
    from psyclone.line_length import FortLineLength
    res = []
    for idx, lines, limit in chunk:
        text = "\n".join(lines)
        exc = exc2 = 0
        out = out2 = []
        msg = ""
        try:
            o1 = FortLineLength(line_length=limit).process(text)
            out = o1.split("\n")
        except Exception as err:           # noqa  (any failure is the datum)
            exc = 1
            msg = type(err).__name__ + ": " + str(err)[:160]
        if not exc:
            try:
                out2 = FortLineLength(line_length=limit).process(o1).split("\n")
            except Exception as err:       # noqa
                exc2 = 1
                msg = "second pass: " + type(err).__name__ + ": " + str(err)[:160]
        res.append([idx, limit, exc, lines, out, exc2, out2, msg])
    return res


def _corrupt(rows, kind):
    '''binding demonstration (PV_C18_CORRUPT=<kind>): falsify recorded fields of
    every 97th wrapped case; the check must then report violations.
    drop-char: one character of the second output line disappears (in out and
    out2 alike); out2: the second pass is recorded with a changed first line;
    raised: the case is recorded as having raised.'''
    n = 0
    for r in rows:
        if r[2] or len(r[4]) < 2 or len(r[4][1]) < 8 or r[0] % 97:
            continue
        n += 1
        if kind == "drop-char":
            r[4] = [r[4][0], r[4][1][:6] + r[4][1][7:]] + r[4][2:]
            r[6] = list(r[4])
        elif kind == "out2":
            r[6] = [r[6][0] + " "] + r[6][1:]
        elif kind == "raised":
            r[2], r[4], r[6], r[7] = 1, [], [], "InternalError: (falsified record)"
        else:
            raise core.MachineryError("unknown PV_C18_CORRUPT kind " + kind)
    print(f"[C18] PV_C18_CORRUPT={kind}: {n} recorded cases falsified")


def _codes(lines):
    return [[ord(ch) for ch in ln] for ln in lines]


# ------------------------------------------------------------ known findings
_STAT = re.compile(r'^\s*(INTEGER|REAL|TYPE|CALL|SUBROUTINE|USE)', re.I)


def _limiter_keys(line):
    '''(break characters, len(cont start) + len(cont end)) the limiter uses'''
    s = line.lstrip().lower()
    if _STAT.match(line):
        return ", ", 2
    if s.startswith("!$omp") or s.startswith("!$acc"):
        return " ,)=", 9
    if s.startswith("!"):
        return " .,", 3
    return " ,=+)", 2


def _longest_keyfree_run(line):
    keys, _ = _limiter_keys(line)
    body = line.lstrip()[1:]            # the first character is never a break
    best = cur = 0
    for ch in body:
        cur = 0 if ch in keys else cur + 1
        best = max(best, cur)
    return best


def m_trailing_comment_split(case, clause, detail, finding):
    '''the break fell inside (or directly in front of) a trailing comment: an
    output line's comment ends in `&` and the next line starts as a
    continuation, which is therefore read as code / directive text'''
    # the first difference is the statement/directive itself or its comment,
    # and the output has at least as many logical lines as the input
    return (clause == "SameProgram" and bool(detail.get("ampInComment"))
            and detail.get("kin") in ("stmt", "omp", "acc", "cmt")
            and detail.get("nout", 0) >= detail.get("nin", 0)
            and any("!" in ln.lstrip()[1:] for ln in case["in"]))


def m_continued_line_comment_cut(case, clause, detail, finding):
    '''input line `... & ! comment` (continued, with trailing comment) cut right
    in front of the `!`: output `... & &` / `&! comment` ends the statement'''
    return (clause == "SameProgram" and bool(detail.get("ampAmpComment"))
            and not detail.get("ampInComment")
            and detail.get("kin") == "stmt" and detail.get("kout") == "stmt"
            and detail.get("nout") == detail.get("nin", 0) + 1
            and any(re.search(r"&\s*!", ln) and len(ln) > case["limit"]
                    for ln in case["in"]))


def m_directive_operator_split(case, clause, detail, finding):
    '''a directive line was cut behind the first `=` of `==` / `=>`'''
    return (clause == "SameProgram" and bool(detail.get("dirOpSplit"))
            and not detail.get("ampInComment")
            and detail.get("kin") in ("omp", "acc")
            and detail.get("kin") == detail.get("kout")
            and detail.get("tout") == detail.get("tin") + 1)


def m_no_break_point(case, clause, detail, finding):
    '''InternalError although the line has blanks/commas/operators: some
    stretch without any of the limiter's break characters is longer than what
    fits between continuation start and end'''
    if clause != "NeverFails" or not case.get("exc"):
        return False
    if "No suitable break point" not in case["exc"]:
        return False
    lim = case["limit"]
    for ln in case["in"]:
        if len(ln) > lim:
            _, cont = _limiter_keys(ln)
            if _longest_keyfree_run(ln) >= lim - cont - 1:
                return True
    return False


MATCHERS = {"trailing-comment-split": m_trailing_comment_split,
            "continued-line-comment-cut": m_continued_line_comment_cut,
            "directive-operator-split": m_directive_operator_split,
            "no-break-point": m_no_break_point}


# ------------------------------------------------------------------ TLC part
def _tlc_batch(args):
    path, workers, timeout = args
    return core.run_tlc("Trace_FreeForm.tla", "Trace_FreeForm.cfg",
                        env={"PV_CASES": path}, workers=workers, timeout=timeout,
                        heap="3g")


def _validate(out, rows, fams, tmp, cov, nbatch, workers):
    '''hand the recorded rows to TLC in nbatch parallel runs'''
    size = (len(rows) + nbatch - 1) // nbatch
    jobs = []
    for b in range(nbatch):
        part = rows[b * size:(b + 1) * size]
        if not part:
            continue
        path = os.path.join(tmp, f"cases-{b}.json")
        with open(path, "w") as f:
            json.dump({"cases": [[r[0], r[1], r[2], _codes(r[3]), _codes(r[4]),
                                  r[5], _codes(r[6])] for r in part]},
                      f, separators=(",", ":"))
        jobs.append((path, workers, 3000))
    with concurrent.futures.ThreadPoolExecutor(len(jobs)) as ex:
        results = list(ex.map(_tlc_batch, jobs))
    by_id = {r[0]: r for r in rows}
    verdicts, outside, replayed = [], set(), set()
    for res in results:
        cov["states"] += res.distinct
        cov["transitions"] += res.generated
        verdicts += res.printed("VERDICT")
        outside |= {x["id"] for x in res.printed("OUTSIDE")}
        replayed |= {x["id"] for x in res.printed("REPLAYED")}
    # every case must have been walked to its end: count the states
    lo = hi = 0
    for r in rows:
        if r[2]:
            lo += 2
            hi += 2
        elif len(r[3]) == 1 and r[3][0].strip() and r[4]:
            n = len(r[4]) + 6 if r[0] in replayed else 5
            lo += n
            hi += n if r[0] in replayed else 4 + len(r[4])
        else:
            lo += 5
            hi += 5
    total = sum(res.distinct for res in results)
    if not lo <= total <= hi:
        raise core.MachineryError(
            f"C18 trace validation did not consume every case: {total} states, "
            f"expected {lo}..{hi}")
    nexc = sum(1 for r in rows if r[2])
    if len(outside) + sum(1 for v in verdicts if v["v"] == "NeverFails") != nexc:
        raise core.MachineryError("C18: an exception case got no NeverFails decision")
    failing = set()
    for v in verdicts:
        r = by_id[v["id"]]
        failing.add(v["id"])
        case = {"family": fams[v["id"]], "limit": r[1], "in": r[3],
                "out": None if r[2] else r[4], "exc": r[7] if (r[2] or r[5]) else None}
        out.violation(case, v["v"], v["w"])
    eligible = [r for r in rows if not r[2] and len(r[3]) == 1 and r[3][0].strip()]
    div = [r for r in eligible if r[0] not in replayed and r[0] not in failing]
    cov["outside_domain"] += len(outside)
    cov["replayed_as_wrapper_behaviour"] += len(replayed)
    cov["divergences"] += len(div)
    for r in div[:3]:
        if len(cov["divergence_samples"]) < 4:
            cov["divergence_samples"].append(
                {"family": fams[r[0]], "limit": r[1], "in": r[3], "out": r[4]})
    for r in rows:
        if r[0] in outside and len(cov["outside_samples"]) < 4:
            cov["outside_samples"].append({"family": fams[r[0]], "limit": r[1],
                                           "in": r[3], "raised": r[7]})


def run(tier):
    core.setup_psyclone_env()
    out = core.Outcome(PROP, tier, "model_checking", matchers=MATCHERS)
    cov = {"states": 0, "transitions": 0, "traces_validated_against_impl": 0,
           "samples": [], "exhaustive": False, "divergences": 0,
           "outside_domain": 0, "replayed_as_wrapper_behaviour": 0,
           "divergence_samples": [], "outside_samples": []}
    # 1. design level
    cfg = "FreeForm_quick.cfg" if tier == "quick" else "FreeForm_thorough.cfg"
    if os.environ.get("PV_C18_SKIP_MODEL"):         # binding demos only
        print("[C18] PV_C18_SKIP_MODEL: design-level model checking skipped")
    else:
        res = core.run_tlc("FreeForm.tla", cfg, check=False,
                           coverage=(tier != "quick"), timeout=3000)
        if res.invariant_violated or res.error:
            raise core.MachineryError(
                "FreeForm.tla does not satisfy its own invariants: "
                + str(res.invariant_violated or res.error))
        cov["states"] += res.distinct
        cov["transitions"] += res.generated
        cov["model_states"] = res.distinct
        cov["model_depth"] = res.depth
        if tier != "quick":
            cov["model_action_coverage"] = {
                k: v for k, v in res.coverage().items()
                if k in ("Grow", "Start", "Emit", "Break", "Cut")}
    # 2. the real limiter on the generated family
    gen = c18_gen.generate(tier, core.seed())
    stride = int(os.environ.get("PV_C18_STRIDE", "1"))    # demos only: subsample
    if stride > 1:
        gen = gen[::stride]
    work = [(i + 1, lines, limit) for i, (_, lines, limit, _) in enumerate(gen)]
    fams = {i + 1: g[0] for i, g in enumerate(gen)}
    step = max(1, len(work) // (core.NCPU * 2))
    chunks = [work[i:i + step] for i in range(0, len(work), step)]
    rows = [r for part in core.pool_map(_run_cases, chunks, chunksize=1) for r in part]
    if os.environ.get("PV_C18_CORRUPT"):
        _corrupt(rows, os.environ["PV_C18_CORRUPT"])
    tmp = core.mktemp("pv-c18-")
    try:
        nbatch = 4
        per = 40000                     # cases per round of nbatch TLC runs
        for lo in range(0, len(rows), per):
            _validate(out, rows[lo:lo + per], fams, tmp, cov, nbatch,
                      max(1, core.NCPU // nbatch))
    finally:
        shutil.rmtree(tmp, ignore_errors=True)
    n = len(rows)
    cov["traces_validated_against_impl"] = n
    cov["evaluations"] = n
    cov["distinct_nontrivial"] = sum(
        1 for r in rows if r[2] or len(r[4]) > len(r[3]))
    cov["wrapped"] = sum(1 for r in rows if not r[2] and len(r[4]) > len(r[3]))
    cov["raised"] = sum(1 for r in rows if r[2])
    cov["unsupported"] = cov["outside_domain"]
    cov["limits"] = c18_gen.limits(tier, core.seed())
    cov["families"] = len(set(fams.values()))
    cov["rule"] = ("a case is a distinct (text, limit) pair of the generated family; "
                   "non-trivial = the limiter changed the text or raised; every case "
                   "is run through the real FortLineLength.process twice and judged "
                   "by TLC on FreeForm.tla")
    for i in (0, n // 3, 2 * n // 3):
        if rows:
            r = rows[i]
            cov["samples"].append({"family": fams[r[0]], "limit": r[1], "in": r[3],
                                   "out": r[4] if not r[2] else r[7]})
    return out.finish(cov, assumptions=[
        "tokens: names/numbers, character literals (exact), one- and two-character "
        "operators; blanks only separate tokens; case is significant",
        "comments are compared word by word after removing PSyclone's `!&` marker "
        "(and one blank after it); a comment belongs to the statement it follows",
        "`&! comment` on a continuation line is accepted (gfortran accepts it)",
        "NeverFails domain: every over-long line has a blank, comma or operator "
        "outside character literals strictly inside its text (comments: two words); "
        "other raising cases are counted in outside_domain",
        "a line whose first non-blank character is `!` is a comment unless it starts "
        "with the `!$omp` / `!$acc` sentinel (any case): `!$ x = 1` (conditional "
        "compilation), `!$ser`, `!$$$`, `!$omx` lines are comments",
        "fixed-form source is not covered"])
